/-
C14 — a killed packer never leaves a file that reads as a complete image.

Property theorems only; helpers are in `Sqfs/Proofs/Writer*.lean`, the model in `Sqfs/Model/Writer.lean`,
the specification in `Sqfs/Spec/Writer.lean`.

Two layers:

* `shape_*`: statements about *any* operation log that passes the executable predicate `shapeCheck`
  (provisional superblock exactly as `sqfs_super_init` makes it; then only calls that stay clear of bytes
  `[0,96)`; then one 96-byte write at offset 0; then at most one append of zeros).  The runner evaluates
  `shapeCheck` on the logs of the real packers, so these theorems apply to the real logs directly.
* `run_*` / unprefixed: statements about the model `run r` of the packers' skeleton, for every payload `r`.

A payload `r : Run` includes the failure the run is subjected to (`r.fault`: the output call at any position
fails / the file cannot grow beyond any size; `r.inputError`: the input is damaged), so every statement below that
quantifies over `r` quantifies over failing runs too.  `commit r` is the state after `sqfs_writer_finish` has
attempted the final `sqfs_super_write`; "the run committed" = `(commit r).err = none` (it may still fail in the
padding), "the run failed before it committed" = `(commit r).err ≠ none`.
-/
import Sqfs.Proofs.WriterStep
import Sqfs.Spec.Writer
namespace Sqfs.C14
open Sqfs Sqfs.Writer Sqfs.Consts Sqfs.Spec.Writer

/-- Every crash point before the second superblock write of a well-shaped log leaves a file that
`sqfs_super_read` rejects. -/
theorem shape_prefix_rejected (ops : List Op) (h : shapeCheck ops = true) (k : Nat) (hk : k < kFinalOf ops) :
    readerAccepts (image (ops.take k)) = false :=
  Writer.shape_prefix_rejected ops h k hk

/-- Every crash point from the second superblock write on leaves the complete image, up to trailing zero
padding. -/
theorem shape_suffix_complete (ops : List Op) (h : shapeCheck ops = true) (k : Nat) (hk : kFinalOf ops ≤ k) :
    CompleteUpToPadding (image (ops.take k)) (image ops) :=
  Writer.shape_suffix_complete ops h k hk

/-- A well-shaped log is crash safe at every position. -/
theorem shape_crash_safe (ops : List Op) (h : shapeCheck ops = true) : CrashSafe ops := by
  intro k
  by_cases hk : k < kFinalOf ops
  · exact Or.inl (shape_prefix_rejected ops h k hk)
  · exact Or.inr (shape_suffix_complete ops h k (by omega))

/-! ## The model of the packers: every payload, every crash point -/

/-- **super_region_invariant.**  In a run whose `sqfs_super_init` succeeded and whose first output call was carried
out (`hne`; it is not when the injected fault hits the provisional superblock write itself), the first output call writes the
provisional superblock and every other call up to the final superblock write stays clear of bytes `[0,96)`
(writes at offsets ≥ 96, truncations to ≥ 96 bytes); hence at every crash point before the final superblock
write (and after the first call) bytes `[0,96)` of the file are exactly the provisional superblock. -/
theorem super_region_invariant (r : Run) (sup : Super) (h : superInit r.blockSize r.mtime r.compId = .ok sup)
    (hne : (run r).ops ≠ []) :
    (∃ rest, (preFinal r).1.ops = .pwrite 0 sup.encode :: rest ∧ ∀ o ∈ rest, o.Safe) ∧
    ∀ k, 1 ≤ k → k < kFinal r → (image ((run r).ops.take k)).take sizeofSuper = sup.encode :=
  Writer.super_region_invariant' r sup h hne

/-- what `sqfs_super_init` leaves in the fields the readers look at first -/
theorem provisional_fields (bs mt c : Nat) (sup : Super) (h : superInit bs mt c = .ok sup) :
    sup.idCount = 0 ∧ sup.inodeCount = 0 ∧ sup.bytesUsed = sizeofSuper ∧ sup.idStart = unset ∧ sup.xattrStart = unset ∧
    sup.inodeStart = unset ∧ sup.dirStart = unset ∧ sup.fragStart = unset ∧ sup.exportStart = unset := by
  unfold superInit at h
  split at h; · contradiction
  split at h; · contradiction
  split at h; · contradiction
  injection h with h; subst h
  exact ⟨rfl, rfl, rfl, rfl, rfl, rfl, rfl, rfl, rfl⟩

/-- **prefix_rejected.**  For every run (successful or not, any payload) and every crash point before the final
superblock write, the file left behind is rejected by `sqfs_super_read` / `sqfs_id_table_read`. -/
theorem prefix_rejected (r : Run) (k : Nat) (hk : k < kFinal r) :
    readerAccepts (image ((run r).ops.take k)) = false :=
  Writer.prefix_rejected' r k hk

/-- **suffix_complete.**  For every run that committed (successful, or failing only in the padding write) and every
crash point from the final superblock write on, the file is the complete image up to trailing zero padding. -/
theorem suffix_complete (r : Run) (hok : (commit r).err = none) (k : Nat) (hk : kFinal r ≤ k) :
    CompleteUpToPadding (image ((run r).ops.take k)) (image (run r).ops) :=
  Writer.suffix_complete' r hok k hk

/-- … and it passes the readers' first stage (valid block size and compressor id, 1 … 65535 distinct ids, file
smaller than 2^64 bytes). -/
theorem suffix_accepted (r : Run) (v : ValidCfg r) (hok : (commit r).err = none) (hsz : (preFinal r).1.size < 2 ^ 64)
    (k : Nat) (hk : kFinal r ≤ k) : readerAccepts (image ((run r).ops.take k)) = true :=
  Writer.final_accepted' r v hok hsz k hk

/-- **crash_safe.**  The C14 statement for the model: a run that committed is crash safe at every position. -/
theorem crash_safe (r : Run) (hok : (commit r).err = none) : CrashSafe (run r).ops := by
  intro k
  by_cases hk : k < kFinal r
  · exact Or.inl (prefix_rejected r k hk)
  · exact Or.inr (suffix_complete r hok k (by omega))

/-- **final_super_last.**  In a run that committed every call issued before `sqfs_writer_finish` writes the superblock
(data, metadata, every table) precedes that write in the log and stays clear of `[0,96)`; after it there is at
most one append of zeros at `bytes_used`; `bytes_used` is the length of the file at the time of the write, and
the id table's location list (which `sqfs_id_table_read` reads first) lies below it. -/
theorem final_super_last (r : Run) (v : ValidCfg r) (hok : (commit r).err = none) (hsz : (preFinal r).1.size < 2 ^ 64) :
    ∃ sup rest pad, superInit r.blockSize r.mtime r.compId = .ok sup ∧
      (preFinal r).1.ops = .pwrite 0 sup.encode :: rest ∧ (∀ o ∈ rest, o.Safe) ∧
      (run r).ops = .pwrite 0 sup.encode :: (rest ++ .pwrite 0 (finalSuper r).encode :: pad) ∧
      (pad = [] ∨ ∃ n, pad = [.pwrite (finalSuper r).bytesUsed (zeros n)]) ∧
      (finalSuper r).bytesUsed = (image (.pwrite 0 sup.encode :: rest)).length ∧
      (finalSuper r).idStart + 8 * tableBlocks ((finalSuper r).idCount * 4) ≤ (finalSuper r).bytesUsed := by
  obtain ⟨sup, rest, pad, hsi, g, _, hr, hsafe, hops, hpad⟩ := Writer.run_ok_ops r hok
  have hB : (image (.pwrite 0 sup.encode :: rest)).length = (finalSuper r).bytesUsed := by
    rw [← hr, ← g.file, ← g.size]; rfl
  refine ⟨sup, rest, pad, hsi, hr, hsafe, hops, ?_, hB.symm, (Writer.finalSuper_ok r v hok hsz).idlist⟩
  rw [← hB]; exact hpad

/-- **run_shape.**  The log of a model run that committed passes `shapeCheck`, the predicate the runner evaluates on
the logged system calls of the real packers, and both layers agree on the position of the final superblock. -/
theorem run_shape (r : Run) (hok : (commit r).err = none) (hsz : (preFinal r).1.size < 2 ^ 64) :
    shapeCheck (run r).ops = true ∧ kFinalOf (run r).ops = kFinal r :=
  Writer.run_shape' r hok hsz

/-! ## Failing runs: a run that is going to fail never commits -/

/-- A run that ended without error committed. -/
theorem ok_run_committed (r : Run) (hok : (run r).err = none) : (commit r).err = none :=
  Writer.commit_ok_of_run_ok r hok

/-- **failing_run_never_commits.**  For every payload `r` — that is: every script of data blocks, metadata, tables
and xattrs, every fault position `r.fault.failAt = some j`, every size limit `r.fault.limit = some n`, every input
failure `r.inputError = some e` — : if the run fails at any step up to and including the final superblock write,
then no prefix of its operation sequence (no kill point, the state at exit before the cleanup `unlink` included) is
accepted by `sqfs_super_read` + the entry of `sqfs_id_table_read`. -/
theorem failing_run_never_commits (r : Run) (hfail : (commit r).err ≠ none) : NeverAccepted (run r).ops :=
  fun k => Writer.failing_run_never_commits' r hfail k

/-- After the first failing step no further output operation is issued: the log of a run that fails before it
commits consists of the calls made before the failure (those of `preFinal`), and the process then unlinks the file. -/
theorem failing_run_stops (r : Run) (hfail : (commit r).err ≠ none) :
    (run r).ops = (preFinal r).1.ops ∧ (run r).err ≠ none ∧ unlinkAtExit r = true := by
  have h := Writer.run_of_commit_err r hfail
  refine ⟨Writer.failing_run_ops r hfail, by rw [h]; exact hfail, ?_⟩
  unfold unlinkAtExit
  rw [h]
  cases hx : (commit r).err with
  | none => exact absurd hx hfail
  | some e => rfl

/-- **∀ fault position.**  Whatever the payload, a fault at any output-call position up to and including the final
superblock write (`j < kFinal r`: the provisional superblock, any data/metadata/table call, the final superblock write
itself) makes the run fail before it commits … -/
theorem fault_position_fails (r : Run) (j : Nat) (hf : r.fault.failAt = some j) (hj : j < kFinal r) :
    (commit r).err ≠ none :=
  Writer.fault_position_fails' r j hf hj

/-- … hence no kill point of such a run is accepted. -/
theorem fault_never_commits (r : Run) (j : Nat) (hf : r.fault.failAt = some j) (hj : j < kFinal r) :
    NeverAccepted (run r).ops :=
  failing_run_never_commits r (fault_position_fails r j hf hj)

/-- A failure reported by the input side (damaged or truncated tar stream, unreadable file, failed allocation in
`process_tarball`/`pack_files`/`fstree_post_process`) makes the run fail before it commits, whatever was packed
before: no kill point is accepted. -/
theorem input_error_never_commits (r : Run) (e : Nat) (h : r.inputError = some e) : NeverAccepted (run r).ops :=
  failing_run_never_commits r (Writer.inputError_fails' r e h)

/-- **every run.**  Either no kill point is accepted (the run failed before it committed), or the run committed and is
crash safe: every kill point is rejected or leaves the complete image up to the padding (a failure *after* the
commit can only be the padding write). -/
theorem every_run_safe (r : Run) :
    ((commit r).err ≠ none ∧ NeverAccepted (run r).ops) ∨ ((commit r).err = none ∧ CrashSafe (run r).ops) := by
  by_cases h : (commit r).err = none
  · exact Or.inr ⟨h, crash_safe r h⟩
  · exact Or.inl ⟨h, failing_run_never_commits r h⟩

/-- The log-level layer for failing runs: no crash point of a log that passes `failShapeCheck` (provisional
superblock, then only calls that stay clear of `[0,96)`) is accepted.  The runner evaluates `failShapeCheck` on the
logged system calls of the real packers' failing runs. -/
theorem shape_failing_rejected (ops : List Op) (h : failShapeCheck ops = true) : NeverAccepted ops :=
  fun k => Writer.failShape_rejected ops h k

/-- … and the log of a model run that fails before it commits passes it. -/
theorem failing_run_shape (r : Run) (hfail : (commit r).err ≠ none) : failShapeCheck (run r).ops = true :=
  Writer.failing_run_shape' r hfail

/-! Non-vacuity: a concrete well-shaped log (provisional superblock, a data block, a dedup truncate, an id
table block + location list, final superblock, padding) whose final image the readers' first stage accepts. -/

def exProv : Bytes := match superInit 4096 7 1 with | .ok s => s.encode | .error _ => []
def exFinal : Bytes :=
  ({ magic := magic, blockSize := 4096, blockLog := 12, compId := 1, idCount := 1, vMajor := 4,
     bytesUsed := 114, idStart := 106 } : Super).encode
def exLog : List Op :=
  [.pwrite 0 exProv, .pwrite 96 [1, 2, 3, 4, 5, 6, 7, 8, 9, 10], .ftruncate 100, .pwrite 100 [0x02, 0x80, 0, 0, 0, 0],
   .pwrite 106 (le 8 100), .pwrite 0 exFinal, .pwrite 114 (zeros 14)]

set_option maxRecDepth 100000 in
example : shapeCheck exLog = true := by decide
example : kFinalOf exLog = 6 := by decide
set_option maxRecDepth 100000 in
example : readerAccepts (image exLog) = true := by decide
set_option maxRecDepth 100000 in
example : readerAccepts (image (exLog.take 6)) = true := by decide


/-! Non-vacuity of the run-level hypotheses: a concrete payload with compressor options, a duplicated data block
(dedup truncation), inode and directory metadata, export table, two ids and an xattr table. -/

def exRun : Run where
  blockSize := 4096
  mtime := 7
  compId := 1
  opts := [1, 2, 3, 4]
  cmp := fun _ => none
  blocks := [⟨[1, 2, 3, 4, 5, 6, 7, 8, 9, 10], 6144, 5⟩, ⟨[1, 2, 3, 4, 5, 6, 7, 8, 9, 10], 6144, 5⟩]
  inodeCount := 2
  inodeData := [[1, 2, 3]]
  dirData := [[4, 5]]
  rootRef := 0
  fragTable := []
  fragAnyCompressed := false
  exportTable := some (some [1, 0, 0, 0, 0, 0, 0, 0])
  ids := [0, 1000]
  xattr := some ⟨[[1, 2]], [[0, 0, 0, 0, 0, 0, 0, 0, 1, 0, 0, 0, 2, 0, 0, 0]]⟩
  devblksize := 64

set_option maxRecDepth 100000 in
example : (run exRun).err = none := by decide
set_option maxRecDepth 100000 in
example : (run exRun).ops.length = 17 ∧ kFinal exRun = 16 ∧ (preFinal exRun).1.size = 203 := by decide
set_option maxRecDepth 100000 in
example : (run exRun).ops.contains (.ftruncate 112) = true := by decide
example : ValidCfg exRun := ⟨⟨12, by decide, by decide, rfl⟩, by decide, by decide⟩

/-! the theorems applied to `exLog` / `exRun`, every hypothesis discharged -/
set_option maxRecDepth 100000 in
theorem exLog_shape : shapeCheck exLog = true := by decide
set_option maxRecDepth 100000 in
theorem exRun_ok : (commit exRun).err = none := by decide
theorem exRun_valid : ValidCfg exRun := ⟨⟨12, by decide, by decide, rfl⟩, by decide, by decide⟩
set_option maxRecDepth 100000 in
theorem exRun_size : (preFinal exRun).1.size < 2 ^ 64 := by decide

set_option maxRecDepth 100000 in
example := shape_prefix_rejected exLog exLog_shape 5 (by decide)
set_option maxRecDepth 100000 in
example := shape_prefix_rejected exLog exLog_shape 3 (by decide)
set_option maxRecDepth 100000 in
example := shape_suffix_complete exLog exLog_shape 6 (by decide)
example := shape_crash_safe exLog exLog_shape
set_option maxRecDepth 100000 in
theorem exRun_ops_ne : (run exRun).ops ≠ [] := by decide
set_option maxRecDepth 100000 in
example : ∃ sup, superInit exRun.blockSize exRun.mtime exRun.compId = .ok sup := by
  have hk : (superInit exRun.blockSize exRun.mtime exRun.compId).toBool = true := by decide
  cases h : superInit exRun.blockSize exRun.mtime exRun.compId with
  | error e => rw [h] at hk; cases hk
  | ok sup =>
    have _ := super_region_invariant exRun sup h exRun_ops_ne
    have _ := provisional_fields _ _ _ sup h
    exact ⟨sup, rfl⟩
set_option maxRecDepth 100000 in
example := prefix_rejected exRun 15 (by decide)
set_option maxRecDepth 100000 in
example := prefix_rejected exRun 7 (by decide)
set_option maxRecDepth 100000 in
example := suffix_complete exRun exRun_ok 16 (by decide)
set_option maxRecDepth 100000 in
example := suffix_accepted exRun exRun_valid exRun_ok exRun_size 16 (by decide)
example := crash_safe exRun exRun_ok
example := final_super_last exRun exRun_valid exRun_ok exRun_size
example := run_shape exRun exRun_ok exRun_size


/-! ## Non-vacuity of the failing-run theorems: `exRun` subjected to every kind of failure -/

/-- `exRun` with the output call at position `j` failing -/
def exFaultAt (j : Nat) : Run := exRun.withFault { failAt := some j }
/-- `exRun` on a file system on which the file cannot grow beyond `n` bytes -/
def exLimit (n : Nat) : Run := exRun.withFault { limit := some n }
/-- `exRun` with a tar stream that turns out to be damaged after the data blocks -/
def exDamaged : Run := { exRun with inputError := some errCorrupted }

/-- the log of a failing run of a real packer has this form: provisional superblock, compressor options, a data
block, then nothing -/
def exFailLog : List Op := exLog.take 3

set_option maxRecDepth 100000 in
theorem exFailLog_shape : failShapeCheck exFailLog = true := by decide
/-- … whereas a log that goes on to the final superblock after a failure (what the seeded changes C14-c1/c2 produce)
does not pass -/
example : failShapeCheck (exLog.take 6) = false := by
  set_option maxRecDepth 100000 in decide
example := shape_failing_rejected exFailLog exFailLog_shape

-- every fault position 0 … 15 = kFinal exRun - 1 (15 is the final superblock write itself) makes `exRun` fail,
-- the log stops at the fault position, and `fault_position_fails` / `fault_never_commits` apply
set_option maxRecDepth 100000 in
theorem exFault_kFinal : ∀ j < 16, j < kFinal (exFaultAt j) ∧ (run (exFaultAt j)).ops.length = j := by decide
set_option maxRecDepth 100000 in
example : (commit (exFaultAt 0)).err = some errIo ∧ (commit (exFaultAt 11)).err = some errIo := by decide
set_option maxRecDepth 100000 in
example : (commit (exFaultAt 15)).err = some errIo ∧ (preFinal (exFaultAt 15)).1.err = none := by decide
example (j : Nat) (hj : j < 16) : NeverAccepted (run (exFaultAt j)).ops :=
  fault_never_commits (exFaultAt j) j rfl (exFault_kFinal j hj).1
example (j : Nat) (hj : j < 16) := failing_run_stops (exFaultAt j) (fault_position_fails (exFaultAt j) j rfl (exFault_kFinal j hj).1)
example (j : Nat) (hj : j < 16) := failing_run_shape (exFaultAt j) (fault_position_fails (exFaultAt j) j rfl (exFault_kFinal j hj).1)
-- a fault in the padding write (position 16) comes after the commit: the run fails, but it committed, and is crash
-- safe with the complete image (minus padding) on disk
set_option maxRecDepth 100000 in
theorem exFault16 : (commit (exFaultAt 16)).err = none ∧ (run (exFaultAt 16)).err = some errIo ∧
    (run (exFaultAt 16)).ops.length = 16 := by decide
example := crash_safe (exFaultAt 16) exFault16.1
example := suffix_accepted (exFaultAt 16) ⟨⟨12, by decide, by decide, rfl⟩, by decide, by decide⟩ exFault16.1
  (by set_option maxRecDepth 100000 in decide) 16 (by set_option maxRecDepth 100000 in decide)

-- "disk full" at the end of the id table (157 bytes: the first xattr block cannot be written — the C14-c2 scenario):
-- the run fails with 11 calls issued; the final superblock write would have succeeded (it does not grow the file)
-- but is never reached
set_option maxRecDepth 100000 in
theorem exLimit_fails : (commit (exLimit 157)).err = some errIo := by decide
set_option maxRecDepth 100000 in
example : (run (exLimit 157)).ops.length = 11 := by decide
example : NeverAccepted (run (exLimit 157)).ops := failing_run_never_commits (exLimit 157) (by rw [exLimit_fails]; simp)
set_option maxRecDepth 100000 in
example : (commit (exLimit 96)).err = some errIo ∧ (commit (exLimit 202)).err = some errIo := by decide
-- disk full exactly at `bytes_used` (203): only the padding fails
set_option maxRecDepth 100000 in
example : (commit (exLimit 203)).err = none ∧ (run (exLimit 203)).err = some errIo := by decide

-- damaged input (the C14-c1 scenario): the run stops after the data blocks (5 calls), nothing is committed
set_option maxRecDepth 100000 in
theorem exDamaged_ops : (run exDamaged).ops.length = 5 ∧ unlinkAtExit exDamaged = true := by decide
example : NeverAccepted (run exDamaged).ops := input_error_never_commits exDamaged errCorrupted rfl
example := every_run_safe exDamaged
example := every_run_safe (exFaultAt 7)
example := every_run_safe exRun

end Sqfs.C14
