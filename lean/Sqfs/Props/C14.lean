/-
C14 — a killed packer never leaves a file that reads as a complete image.

Property theorems only; helpers are in `Sqfs/Proofs/Writer*.lean`, the model in `Sqfs/Model/Writer.lean`,
the specification in `Sqfs/Spec/Writer.lean`.

Two layers:

* `shape_*`: statements about *any* operation log that passes the executable predicate `shapeCheck`
  (provisional superblock exactly as `sqfs_super_init` makes it; then only calls that stay clear of bytes
  `[0,96)`; then one 96-byte write at offset 0; then at most one append of zeros).  The runner evaluates
  `shapeCheck` on the logs of the real packers, so these theorems apply to the real logs directly.
* `run_*` / unprefixed: statements about the model `run r` of the packers' skeleton, for every payload `r`.
-/
import Sqfs.Proofs.Writer
import Sqfs.Spec.Writer
namespace Sqfs.C14
open Sqfs Sqfs.Writer Sqfs.Consts Sqfs.Spec.Writer

/-- Every crash point before the second superblock write of a well-shaped log leaves a file that
`sqfs_super_read` rejects. -/
theorem shape_prefix_rejected (ops : List Op) (h : shapeCheck ops = true) (k : Nat) (hk : k < kFinalOf ops) :
    readerAccepts (image (ops.take k)) = false :=
  Writer.shape_prefix_rejected ops h k hk

/-- Every crash point from the second superblock write on leaves the complete image, up to trailing zero
padding. -/
theorem shape_suffix_complete (ops : List Op) (h : shapeCheck ops = true) (k : Nat) (hk : kFinalOf ops ≤ k) :
    CompleteUpToPadding (image (ops.take k)) (image ops) :=
  Writer.shape_suffix_complete ops h k hk

/-- A well-shaped log is crash safe at every position. -/
theorem shape_crash_safe (ops : List Op) (h : shapeCheck ops = true) : CrashSafe ops := by
  intro k
  by_cases hk : k < kFinalOf ops
  · exact Or.inl (shape_prefix_rejected ops h k hk)
  · exact Or.inr (shape_suffix_complete ops h k (by omega))

/-! Non-vacuity: a concrete well-shaped log (provisional superblock, a data block, a dedup truncate, an id
table block + location list, final superblock, padding) whose final image the readers' first stage accepts. -/

def exProv : Bytes := match superInit 4096 7 1 with | .ok s => s.encode | .error _ => []
def exFinal : Bytes :=
  ({ magic := magic, blockSize := 4096, blockLog := 12, compId := 1, idCount := 1, vMajor := 4,
     bytesUsed := 114, idStart := 106 } : Super).encode
def exLog : List Op :=
  [.pwrite 0 exProv, .pwrite 96 [1, 2, 3, 4, 5, 6, 7, 8, 9, 10], .ftruncate 100, .pwrite 100 [0x02, 0x80, 0, 0, 0, 0],
   .pwrite 106 (le 8 100), .pwrite 0 exFinal, .pwrite 114 (zeros 14)]

set_option maxRecDepth 100000 in
example : shapeCheck exLog = true := by decide
example : kFinalOf exLog = 6 := by decide
set_option maxRecDepth 100000 in
example : readerAccepts (image exLog) = true := by decide
set_option maxRecDepth 100000 in
example : readerAccepts (image (exLog.take 6)) = true := by decide

end Sqfs.C14
