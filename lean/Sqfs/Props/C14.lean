/-
C14 — a killed packer never leaves a file that reads as a complete image.

Property theorems only; helpers are in `Sqfs/Proofs/Writer*.lean`, the model in `Sqfs/Model/Writer.lean`,
the specification in `Sqfs/Spec/Writer.lean`.

Two layers:

* `shape_*`: statements about *any* operation log that passes the executable predicate `shapeCheck`
  (provisional superblock exactly as `sqfs_super_init` makes it; then only calls that stay clear of bytes
  `[0,96)`; then one 96-byte write at offset 0; then at most one append of zeros).  The runner evaluates
  `shapeCheck` on the logs of the real packers, so these theorems apply to the real logs directly.
* `run_*` / unprefixed: statements about the model `run r` of the packers' skeleton, for every payload `r`.
-/
import Sqfs.Proofs.WriterStep
import Sqfs.Spec.Writer
namespace Sqfs.C14
open Sqfs Sqfs.Writer Sqfs.Consts Sqfs.Spec.Writer

/-- Every crash point before the second superblock write of a well-shaped log leaves a file that
`sqfs_super_read` rejects. -/
theorem shape_prefix_rejected (ops : List Op) (h : shapeCheck ops = true) (k : Nat) (hk : k < kFinalOf ops) :
    readerAccepts (image (ops.take k)) = false :=
  Writer.shape_prefix_rejected ops h k hk

/-- Every crash point from the second superblock write on leaves the complete image, up to trailing zero
padding. -/
theorem shape_suffix_complete (ops : List Op) (h : shapeCheck ops = true) (k : Nat) (hk : kFinalOf ops ≤ k) :
    CompleteUpToPadding (image (ops.take k)) (image ops) :=
  Writer.shape_suffix_complete ops h k hk

/-- A well-shaped log is crash safe at every position. -/
theorem shape_crash_safe (ops : List Op) (h : shapeCheck ops = true) : CrashSafe ops := by
  intro k
  by_cases hk : k < kFinalOf ops
  · exact Or.inl (shape_prefix_rejected ops h k hk)
  · exact Or.inr (shape_suffix_complete ops h k (by omega))

/-! ## The model of the packers: every payload, every crash point -/

/-- **super_region_invariant.**  In a run whose `sqfs_super_init` succeeded, the first output call writes the
provisional superblock and every other call up to the final superblock write stays clear of bytes `[0,96)`
(writes at offsets ≥ 96, truncations to ≥ 96 bytes); hence at every crash point before the final superblock
write (and after the first call) bytes `[0,96)` of the file are exactly the provisional superblock. -/
theorem super_region_invariant (r : Run) (sup : Super) (h : superInit r.blockSize r.mtime r.compId = .ok sup) :
    (∃ rest, (preFinal r).1.ops = .pwrite 0 sup.encode :: rest ∧ ∀ o ∈ rest, o.Safe) ∧
    ∀ k, 1 ≤ k → k < kFinal r → (image ((run r).ops.take k)).take sizeofSuper = sup.encode :=
  Writer.super_region_invariant' r sup h

/-- what `sqfs_super_init` leaves in the fields the readers look at first -/
theorem provisional_fields (bs mt c : Nat) (sup : Super) (h : superInit bs mt c = .ok sup) :
    sup.idCount = 0 ∧ sup.inodeCount = 0 ∧ sup.bytesUsed = sizeofSuper ∧ sup.idStart = unset ∧ sup.xattrStart = unset ∧
    sup.inodeStart = unset ∧ sup.dirStart = unset ∧ sup.fragStart = unset ∧ sup.exportStart = unset := by
  unfold superInit at h
  split at h; · contradiction
  split at h; · contradiction
  split at h; · contradiction
  injection h with h; subst h
  exact ⟨rfl, rfl, rfl, rfl, rfl, rfl, rfl, rfl, rfl⟩

/-- **prefix_rejected.**  For every run (successful or not, any payload) and every crash point before the final
superblock write, the file left behind is rejected by `sqfs_super_read` / `sqfs_id_table_read`. -/
theorem prefix_rejected (r : Run) (k : Nat) (hk : k < kFinal r) :
    readerAccepts (image ((run r).ops.take k)) = false :=
  Writer.prefix_rejected' r k hk

/-- **suffix_complete.**  For every successful run and every crash point from the final superblock write on, the
file is the complete image up to trailing zero padding. -/
theorem suffix_complete (r : Run) (hok : (run r).err = none) (k : Nat) (hk : kFinal r ≤ k) :
    CompleteUpToPadding (image ((run r).ops.take k)) (image (run r).ops) :=
  Writer.suffix_complete' r hok k hk

/-- … and it passes the readers' first stage (valid block size and compressor id, 1 … 65535 distinct ids, file
smaller than 2^64 bytes). -/
theorem suffix_accepted (r : Run) (v : ValidCfg r) (hok : (run r).err = none) (hsz : (preFinal r).1.size < 2 ^ 64)
    (k : Nat) (hk : kFinal r ≤ k) : readerAccepts (image ((run r).ops.take k)) = true :=
  Writer.final_accepted' r v hok hsz k hk

/-- **crash_safe.**  The C14 statement for the model: a successful run is crash safe at every position. -/
theorem crash_safe (r : Run) (hok : (run r).err = none) : CrashSafe (run r).ops := by
  intro k
  by_cases hk : k < kFinal r
  · exact Or.inl (prefix_rejected r k hk)
  · exact Or.inr (suffix_complete r hok k (by omega))

/-- **final_super_last.**  In a successful run every call issued before `sqfs_writer_finish` writes the superblock
(data, metadata, every table) precedes that write in the log and stays clear of `[0,96)`; after it there is at
most one append of zeros at `bytes_used`; `bytes_used` is the length of the file at the time of the write, and
the id table's location list (which `sqfs_id_table_read` reads first) lies below it. -/
theorem final_super_last (r : Run) (v : ValidCfg r) (hok : (run r).err = none) (hsz : (preFinal r).1.size < 2 ^ 64) :
    ∃ sup rest pad, superInit r.blockSize r.mtime r.compId = .ok sup ∧
      (preFinal r).1.ops = .pwrite 0 sup.encode :: rest ∧ (∀ o ∈ rest, o.Safe) ∧
      (run r).ops = .pwrite 0 sup.encode :: (rest ++ .pwrite 0 (finalSuper r).encode :: pad) ∧
      (pad = [] ∨ ∃ n, pad = [.pwrite (finalSuper r).bytesUsed (zeros n)]) ∧
      (finalSuper r).bytesUsed = (image (.pwrite 0 sup.encode :: rest)).length ∧
      (finalSuper r).idStart + 8 * tableBlocks ((finalSuper r).idCount * 4) ≤ (finalSuper r).bytesUsed := by
  obtain ⟨sup, rest, pad, hsi, g, _, hr, hsafe, hops, hpad⟩ := Writer.run_ok_ops r hok
  have hB : (image (.pwrite 0 sup.encode :: rest)).length = (finalSuper r).bytesUsed := by
    rw [← hr, ← g.file, ← g.size]; rfl
  refine ⟨sup, rest, pad, hsi, hr, hsafe, hops, ?_, hB.symm, (Writer.finalSuper_ok r v hok hsz).idlist⟩
  rw [← hB]; exact hpad

/-- **run_shape.**  The log of a successful model run passes `shapeCheck`, the predicate the runner evaluates on
the logged system calls of the real packers, and both layers agree on the position of the final superblock. -/
theorem run_shape (r : Run) (hok : (run r).err = none) (hsz : (preFinal r).1.size < 2 ^ 64) :
    shapeCheck (run r).ops = true ∧ kFinalOf (run r).ops = kFinal r :=
  Writer.run_shape' r hok hsz

/-! Non-vacuity: a concrete well-shaped log (provisional superblock, a data block, a dedup truncate, an id
table block + location list, final superblock, padding) whose final image the readers' first stage accepts. -/

def exProv : Bytes := match superInit 4096 7 1 with | .ok s => s.encode | .error _ => []
def exFinal : Bytes :=
  ({ magic := magic, blockSize := 4096, blockLog := 12, compId := 1, idCount := 1, vMajor := 4,
     bytesUsed := 114, idStart := 106 } : Super).encode
def exLog : List Op :=
  [.pwrite 0 exProv, .pwrite 96 [1, 2, 3, 4, 5, 6, 7, 8, 9, 10], .ftruncate 100, .pwrite 100 [0x02, 0x80, 0, 0, 0, 0],
   .pwrite 106 (le 8 100), .pwrite 0 exFinal, .pwrite 114 (zeros 14)]

set_option maxRecDepth 100000 in
example : shapeCheck exLog = true := by decide
example : kFinalOf exLog = 6 := by decide
set_option maxRecDepth 100000 in
example : readerAccepts (image exLog) = true := by decide
set_option maxRecDepth 100000 in
example : readerAccepts (image (exLog.take 6)) = true := by decide


/-! Non-vacuity of the run-level hypotheses: a concrete payload with compressor options, a duplicated data block
(dedup truncation), inode and directory metadata, export table, two ids and an xattr table. -/

def exRun : Run where
  blockSize := 4096
  mtime := 7
  compId := 1
  opts := [1, 2, 3, 4]
  cmp := fun _ => none
  blocks := [⟨[1, 2, 3, 4, 5, 6, 7, 8, 9, 10], 6144, 5⟩, ⟨[1, 2, 3, 4, 5, 6, 7, 8, 9, 10], 6144, 5⟩]
  inodeCount := 2
  inodeData := [[1, 2, 3]]
  dirData := [[4, 5]]
  rootRef := 0
  fragTable := []
  fragAnyCompressed := false
  exportTable := some (some [1, 0, 0, 0, 0, 0, 0, 0])
  ids := [0, 1000]
  xattr := some ⟨[[1, 2]], [[0, 0, 0, 0, 0, 0, 0, 0, 1, 0, 0, 0, 2, 0, 0, 0]]⟩
  devblksize := 64

set_option maxRecDepth 100000 in
example : (run exRun).err = none := by decide
set_option maxRecDepth 100000 in
example : (run exRun).ops.length = 17 ∧ kFinal exRun = 16 ∧ (preFinal exRun).1.size = 203 := by decide
set_option maxRecDepth 100000 in
example : (run exRun).ops.contains (.ftruncate 112) = true := by decide
example : ValidCfg exRun := ⟨⟨12, by decide, by decide, rfl⟩, by decide, by decide⟩

/-! the theorems applied to `exLog` / `exRun`, every hypothesis discharged -/
set_option maxRecDepth 100000 in
theorem exLog_shape : shapeCheck exLog = true := by decide
set_option maxRecDepth 100000 in
theorem exRun_ok : (run exRun).err = none := by decide
theorem exRun_valid : ValidCfg exRun := ⟨⟨12, by decide, by decide, rfl⟩, by decide, by decide⟩
set_option maxRecDepth 100000 in
theorem exRun_size : (preFinal exRun).1.size < 2 ^ 64 := by decide

set_option maxRecDepth 100000 in
example := shape_prefix_rejected exLog exLog_shape 5 (by decide)
set_option maxRecDepth 100000 in
example := shape_prefix_rejected exLog exLog_shape 3 (by decide)
set_option maxRecDepth 100000 in
example := shape_suffix_complete exLog exLog_shape 6 (by decide)
example := shape_crash_safe exLog exLog_shape
set_option maxRecDepth 100000 in
example : ∃ sup, superInit exRun.blockSize exRun.mtime exRun.compId = .ok sup := by
  have hk : (superInit exRun.blockSize exRun.mtime exRun.compId).toBool = true := by decide
  cases h : superInit exRun.blockSize exRun.mtime exRun.compId with
  | error e => rw [h] at hk; cases hk
  | ok sup =>
    have _ := super_region_invariant exRun sup h
    have _ := provisional_fields _ _ _ sup h
    exact ⟨sup, rfl⟩
set_option maxRecDepth 100000 in
example := prefix_rejected exRun 15 (by decide)
set_option maxRecDepth 100000 in
example := prefix_rejected exRun 7 (by decide)
set_option maxRecDepth 100000 in
example := suffix_complete exRun exRun_ok 16 (by decide)
set_option maxRecDepth 100000 in
example := suffix_accepted exRun exRun_valid exRun_ok exRun_size 16 (by decide)
example := crash_safe exRun exRun_ok
example := final_super_last exRun exRun_valid exRun_ok exRun_size
example := run_shape exRun exRun_ok exRun_size

end Sqfs.C14
