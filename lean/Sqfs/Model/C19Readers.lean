import Sqfs.Model.DataReaderCache
/-!
C19: the *state part* of the copy hooks of the two readers whose answers depend on cached state, over the state
machines of `Sqfs.Model.MetaReader` / `Sqfs.Model.DataReaderCache` (C10's models of `meta_reader.c` / `data_reader.c`,
imported read-only; what the hooks do with the object header and the references is `Sqfs.Model.Obj`'s business).

* `mrCopy` — `meta_reader_copy` (`lib/sqfs/src/meta_reader.c`): `malloc` + `memcpy(copy, m, sizeof(*m))`: every field,
  the whole inline block `data[]` included.
* `drCopy` — `data_reader_copy` (`lib/sqfs/src/data_reader.c`): `alloc_flex` + `memcpy` of the struct (tags, `*_blk_size`,
  `block_size`), `sqfs_copy(frag_tbl)` (same entries), and for each cached block
  `alloc_array(1, block_size)` (zero filled) + `memcpy(dst, src, *_blk_size)` — **only the first `*_blk_size` bytes are
  carried over**, the readers index the buffer up to `block_size`.  That the copy nevertheless equals the original rests
  on an invariant of `get_block` (`Sqfs.C19.cacheInv_run`): a cached block is `block_size` bytes long and zero beyond
  `*_blk_size`.

`sqfsmodel c19 drcopy` / `mrcopy` evaluate these functions on the state dumped from the real original and the check
compares the result with the state dumped from the real copy (`harness/h_c19.c`: `dump`), field by field, on every run.
-/
namespace Sqfs.C19R
open Sqfs.MetaReader Sqfs.DataReader

/-- `meta_reader_copy`, state part -/
def mrCopy (m : MR) : MR :=
  { start := m.start, limit := m.limit, tag := m.tag, nextBlock := m.nextBlock, dataUsed := m.dataUsed, offset := m.offset,
    data := m.data }

/-- one cached block as `data_reader_copy` duplicates it -/
def copyBlock (bs : Nat) (c : Bytes × Nat) : Bytes × Nat := (overwrite (zeros bs) (c.1.take c.2), c.2)

/-- `data_reader_copy`, state part -/
def drCopy (d : DR) : DR :=
  { blockSize := d.blockSize, tbl := d.tbl, dataBlock := d.dataBlock.map (copyBlock d.blockSize), currentBlock := d.currentBlock,
    currentWord := d.currentWord, fragBlock := d.fragBlock.map (copyBlock d.blockSize), currentFrag := d.currentFrag }

/-- a cached block as `get_block` leaves it: `block_size` bytes, the block at the front, zero behind it -/
def padded (bs : Nat) (c : Bytes × Nat) : Bool :=
  c.1.length == bs && decide (c.2 ≤ bs) && (c.1.drop c.2 == zeros (bs - c.2))

def cacheInv (d : DR) : Bool :=
  (match d.dataBlock with | none => true | some c => padded d.blockSize c) &&
  (match d.fragBlock with | none => true | some c => padded d.blockSize c)

/-- a block decompressor never delivers more than the output buffer holds (`do_block(.., out, outsize)`) -/
def CodecBounded (unc : Codec) : Prop := ∀ inp sz out, unc inp sz = .ok out → out.length ≤ sz

/-- answers of a sequence of `sqfs_data_reader_read` calls -/
def drAnswers (kw : Bool) (f : File) (unc : Codec) : DR → List DataReader.Op → List (Status × Bytes)
  | _, [] => []
  | d, .read ino o n :: ops => (DataReader.read kw f unc d ino o n).1 :: drAnswers kw f unc (DataReader.read kw f unc d ino o n).2 ops

/-- what one call of an entry point that touches the caches hands back (C10's extended histories `OpX`): the status and bytes of
`sqfs_data_reader_read`, the result of `sqfs_data_reader_get_fragment`, what `get_buffered_data` + `advance_buffer` of a stream
created over the reader deliver (result and the stream afterwards), nothing for `sqfs_data_reader_load_fragment_table` -/
inductive AnsX where
  | read (r : Status × Bytes)
  | frag (r : Except Status Bytes)
  | sget (r : DataReader.StreamR) (s : DataReader.Stream)
  | reload

def ansX (kw sfix : Bool) (f : File) (unc : Codec) (d : DR) : DataReader.OpX → AnsX
  | .read ino o n => .read (DataReader.read kw f unc d ino o n).1
  | .frag ino => .frag (DataReader.getFragment f unc d ino).1
  | .sget s c => .sget (DataReader.streamGet sfix f unc d s).1 (DataReader.streamAdvance (DataReader.streamGet sfix f unc d s).2.1 c)
  | .reload _ => .reload

/-- answers of a sequence of calls of any of these entry points -/
def drAnswersX (kw sfix : Bool) (f : File) (unc : Codec) : DR → List DataReader.OpX → List AnsX
  | _, [] => []
  | d, op :: ops => ansX kw sfix f unc d op :: drAnswersX kw sfix f unc (DataReader.stepX kw sfix f unc d op) ops

/-- answers of a sequence of meta reader calls: status (and bytes / position) of each -/
def mrAnswers (fix : Bool) (f : File) (unc : Codec) : MR → List MetaReader.Op → List (Status × Bytes × Nat × Nat)
  | _, [] => []
  | m, .seek b o :: ops => ((seek fix f unc m b o).1, [], 0, 0) :: mrAnswers fix f unc (seek fix f unc m b o).2 ops
  | m, .read n :: ops =>
    ((MetaReader.read fix f unc m n).1, (MetaReader.read fix f unc m n).2.1, 0, 0) :: mrAnswers fix f unc (MetaReader.read fix f unc m n).2.2 ops
  | m, .pos :: ops => (0, [], (getPos m).1, (getPos m).2) :: mrAnswers fix f unc m ops

end Sqfs.C19R
