/-
The `process_data` loops of `lib/xfrm/src/{gzip,xz,bzip2,zstd}.c` **as they are in the tree without
`fixes/C15-xfrm-flush-eof.patch`** (defect D14).  Used by `Sqfs/Witness/C15.lean` and by the check to classify
what the unpatched code does.  `istream.c` / `ostream.c` are the same in both trees (`Sqfs/Model/Xfrm.lean`).
-/
import Sqfs.Model.Xfrm
namespace Sqfs.Xfrm.Old
open Sqfs.Xfrm

/-- gzip.c tests only `Z_STREAM_ERROR`; xz.c everything but OK/BUF_ERROR/STREAM_END; bzip2.c `ret < 0` -/
def isLibError (b : Backend) (r : LibRet) : Bool :=
  match b, r with
  | Backend.gzip, LibRet.streamError => true
  | Backend.gzip, _ => false
  | _, LibRet.dataError => true
  | _, LibRet.streamError => true
  | _, _ => false

/-- `while (in_size > 0 && out_size > 0)` -/
def wrapLoop {τ : Type} (L : Lib τ) (b : Backend) (fl : Flush) :
    Nat → τ → Bytes → Nat → Nat → Bytes → Option (StepOut τ)
  | 0, _, _, _, _, _ => none
  | fuel + 1, st, inp, room, ai, ao =>
    if decide (0 < inp.length) && decide (0 < room) then
      let r := L.call st inp room fl
      if b = Backend.bzip2 ∧ r.ret = LibRet.bufError then some ⟨r.st, ai, ao, Res.bufferFull⟩
      else if isLibError b r.ret then some ⟨r.st, ai, ao, Res.error⟩
      else
        let inp' := inp.drop r.consumed
        let room' := room - r.out.length
        let ai' := ai + r.consumed
        let ao' := ao ++ r.out
        if r.ret = LibRet.streamEnd then some ⟨L.reset r.st, ai', ao', Res.streamEnd⟩
        else if r.ret = LibRet.bufError then some ⟨r.st, ai', ao', Res.bufferFull⟩
        else wrapLoop L b fl fuel r.st inp' room' ai' ao'
    else some ⟨st, ai, ao, Res.ok⟩

/-- `process_data`; the `compress` flag only selects the library function in the C code -/
def wrapProcess {τ : Type} (L : Lib τ) (b : Backend) (_compress : Bool) (st : τ) (inp : Bytes) (room : Nat) (fl : Flush) :
    Option (StepOut τ) :=
  wrapLoop L b fl (inp.length + room + 2) st inp room 0 []

def zstdLoop {τ : Type} (L : ZLib τ) (fl : Flush) :
    Nat → τ → Bytes → Nat → Nat → Bytes → Option (τ × Bytes × Nat × Nat × Bytes × Bool)
  | 0, _, _, _, _, _ => none
  | fuel + 1, st, inp, room, ai, ao =>
    if decide (0 < inp.length) && decide (0 < room) then
      let r := L.call st inp room fl
      if r.isError then some (st, inp, room, ai, ao, true)
      else zstdLoop L fl fuel r.st (inp.drop r.consumed) (room - r.out.length) (ai + r.consumed) (ao ++ r.out)
    else some (st, inp, room, ai, ao, false)

def zstdProcess {τ : Type} (L : ZLib τ) (_compress : Bool) (st : τ) (inp : Bytes) (room : Nat) (fl : Flush) :
    Option (StepOut τ) :=
  match zstdLoop L fl (inp.length + room + 2) st inp room 0 [] with
  | none => none
  | some (st', _, _, ai, ao, true) => some ⟨st', ai, ao, Res.error⟩
  | some (st', inp', room', ai, ao, false) =>
    if fl ≠ Flush.none ∧ inp'.length = 0 then some ⟨st', ai, ao, Res.streamEnd⟩
    else if 0 < inp'.length ∧ room' = 0 then some ⟨st', ai, ao, Res.bufferFull⟩
    else some ⟨st', ai, ao, Res.ok⟩

end Sqfs.Xfrm.Old
