/-
The `process_data` loops of `lib/xfrm/src/{gzip,xz,bzip2,zstd}.c` **as they were before fix commits `8eb5186` / `7b3a56e`**
(defect D14, gzip data-error spin).  Used by `Sqfs/Witness/C15.lean` and by the check to say, in the message of a violation,
that a tree behaves like the old loops again.  `istream.c` / `ostream.c` are the same in both (`Sqfs/Model/Xfrm.lean`).
-/
import Sqfs.Model.Xfrm
namespace Sqfs.Xfrm.Old
open Sqfs.Xfrm

/-- gzip.c tests only `Z_STREAM_ERROR`; xz.c everything but OK/BUF_ERROR/STREAM_END; bzip2.c `ret < 0` -/
def isLibError (b : Backend) (r : LibRet) : Bool :=
  match b, r with
  | Backend.gzip, LibRet.streamError => true
  | Backend.gzip, _ => false
  | _, LibRet.dataError => true
  | _, LibRet.streamError => true
  | _, _ => false

/-- one round of `while (in_size > 0 && out_size > 0)` -/
def wrapBody {τ : Type} (L : Lib τ) (b : Backend) (fl : Flush) : WrapSt τ → LoopStep (WrapSt τ) (StepOut τ)
  | (st, inp, room, ai, ao) =>
    if decide (0 < inp.length) && decide (0 < room) then
      let r := L.call st inp room fl
      if b = Backend.bzip2 ∧ r.ret = LibRet.bufError then LoopStep.done ⟨r.st, ai, ao, Res.bufferFull⟩
      else if isLibError b r.ret then LoopStep.done ⟨r.st, ai, ao, Res.error⟩
      else
        let ai' := ai + r.consumed
        let ao' := ao ++ r.out
        if r.ret = LibRet.streamEnd then LoopStep.done ⟨L.reset r.st, ai', ao', Res.streamEnd⟩
        else if r.ret = LibRet.bufError then LoopStep.done ⟨r.st, ai', ao', Res.bufferFull⟩
        else LoopStep.next (r.st, inp.drop r.consumed, room - r.out.length, ai', ao')
    else LoopStep.done ⟨st, ai, ao, Res.ok⟩

def wrapLoop {τ : Type} (L : Lib τ) (b : Backend) (fl : Flush) (fuel : Nat)
    (st : τ) (inp : Bytes) (room ai : Nat) (ao : Bytes) : Option (StepOut τ) :=
  iter (wrapBody L b fl) fuel (st, inp, room, ai, ao)

/-- `process_data`; the `compress` flag only selects the library function in the C code -/
def wrapProcess {τ : Type} (L : Lib τ) (b : Backend) (_compress : Bool) (st : τ) (inp : Bytes) (room : Nat) (fl : Flush) :
    Option (StepOut τ) :=
  wrapLoop L b fl (inp.length + room + 2) st inp room 0 []

def zstdBody {τ : Type} (L : ZLib τ) (fl : Flush) :
    τ × Bytes × Nat × Nat × Bytes → LoopStep (τ × Bytes × Nat × Nat × Bytes) ((τ × Bytes × Nat × Nat × Bytes) × Bool)
  | (st, inp, room, ai, ao) =>
    if decide (0 < inp.length) && decide (0 < room) then
      let r := L.call st inp room fl
      if r.isError then LoopStep.done ((r.st, inp, room, ai, ao), true)   -- the context is spoilt
      else LoopStep.next (r.st, inp.drop r.consumed, room - r.out.length, ai + r.consumed, ao ++ r.out)
    else LoopStep.done ((st, inp, room, ai, ao), false)

def zstdLoop {τ : Type} (L : ZLib τ) (fl : Flush) (fuel : Nat) (st : τ) (inp : Bytes) (room ai : Nat) (ao : Bytes) :
    Option ((τ × Bytes × Nat × Nat × Bytes) × Bool) :=
  iter (zstdBody L fl) fuel (st, inp, room, ai, ao)

def zstdProcess {τ : Type} (L : ZLib τ) (_compress : Bool) (st : τ) (inp : Bytes) (room : Nat) (fl : Flush) :
    Option (StepOut τ) :=
  match zstdLoop L fl (inp.length + room + 2) st inp room 0 [] with
  | none => none
  | some ((st', _, _, ai, ao), true) => some ⟨st', ai, ao, Res.error⟩
  | some ((st', inp', room', ai, ao), false) =>
    if fl ≠ Flush.none ∧ inp'.length = 0 then some ⟨st', ai, ao, Res.streamEnd⟩
    else if 0 < inp'.length ∧ room' = 0 then some ⟨st', ai, ao, Res.bufferFull⟩
    else some ⟨st', ai, ao, Res.ok⟩

/-- the unpatched stream objects as `Codec`s (a call that never returns is shown as `error`) -/
def wrapCodec {τ : Type} (L : Lib τ) (b : Backend) (compress : Bool) : Codec τ where
  init := L.init
  step s inp room fl :=
    match wrapProcess L b compress s inp room fl with
    | some r => r
    | none => ⟨s, 0, [], Res.error⟩

def zstdCodec {τ : Type} (L : ZLib τ) (compress : Bool) : Codec τ where
  init := L.init
  step s inp room fl :=
    match zstdProcess L compress s inp room fl with
    | some r => r
    | none => ⟨s, 0, [], Res.error⟩

end Sqfs.Xfrm.Old
