/-
Concrete environment for the C05 correspondence runs: an image as a byte array behind a `read_at` that fails
beyond the end (harness `memfile_t`), and the harness' toy block codec.  This instantiates the abstract
`Load` / `BlkLoad` parameters of `Sqfs/Model/ReaderBounds.lean`; the theorems quantify over *all* such
parameters, so nothing here is part of an obligation.
-/
import Sqfs.Model.ReaderBounds
namespace Sqfs.ReaderEnv
open Sqfs.ReaderBounds

abbrev Image := ByteArray

def byteAt (im : Image) (i : Nat) : UInt8 := if h : i < im.size then im[i] else 0
def le16 (im : Image) (i : Nat) : UInt16 := (byteAt im i).toUInt16 ||| ((byteAt im (i + 1)).toUInt16 <<< 8)
def le32 (im : Image) (i : Nat) : UInt32 :=
  (byteAt im i).toUInt32 ||| ((byteAt im (i + 1)).toUInt32 <<< 8) ||| ((byteAt im (i + 2)).toUInt32 <<< 16) |||
  ((byteAt im (i + 3)).toUInt32 <<< 24)
def le64 (im : Image) (i : Nat) : UInt64 := (le32 im i).toUInt64 ||| ((le32 im (i + 4)).toUInt64 <<< 32)

/-- harness `mf_read_at`: fails iff `off > size || n > size - off` -/
def readFails (im : Image) (off : UInt64) (n : Nat) : Bool := off.toNat > im.size || n > im.size - off.toNat

/-- harness `toy_do_block(in = image[off .. off+size), outsize)` -/
def toy (im : Image) (off : UInt64) (size : UInt32) (outsize : UInt32) : Option UInt32 :=
  if size < 2 then none
  else
    let n := (le16 im off.toNat).toUInt32
    if n &&& 0x8000 != 0 then none
    else if n > outsize then none
    else some n

/-- the `Load` the meta reader sees at `blockStart` -/
def metaSrc (im : Image) (blockStart : UInt64) : Load :=
  let header := le16 im blockStart.toNat
  let size : UInt32 := (header &&& 0x7FFF).toUInt32
  { hdrIo := readFails im blockStart 2
    header := header
    dataIo := readFails im (blockStart + 2) size.toNat
    dec := toy im (blockStart + 2) size 8192 }

def blkLoad (im : Image) (off : UInt64) (w : UInt32) (outsize : UInt32) : BlkLoad :=
  { io := readFails im off (onDiskSize w).toNat
    dec := toy im off (onDiskSize w) outsize }

/-- `precache_fragment_block` on a one-entry table `(fstart, fword)` with nothing cached:
`sqfs_frag_table_lookup` then `get_block(…, block_size, …)`.  Returns `frag_blk_size`. -/
def precacheFrag (im : Image) (bs : UInt32) (fragIdx : UInt32) (fstart : UInt64) (fword : UInt32) :
    Except Err UInt64 × List Access :=
  if fragIdx ≥ 1 then (.error .oob, [])
  else getBlock bs .fragBlock fword bs (blkLoad im fstart fword bs)

/-- `sqfs_data_reader_get_block` (data_reader.c:237-257): location and unpacked size of block `index` -/
def blockLocation (bs : UInt32) (words : Array UInt32) (start filesz : UInt64) (index : Nat) : UInt64 × UInt32 :=
  let rec go (i : Nat) (fuel : Nat) (off filesz : UInt64) : UInt64 × UInt64 :=
    match fuel with
    | 0 => (off, filesz)
    | fuel + 1 => if i < index then go (i + 1) fuel (off + (onDiskSize (words.getD i 0)).toUInt64) (filesz - bs.toUInt64) else (off, filesz)
  let (off, fsz) := go 0 index start filesz
  (off, if fsz < bs.toUInt64 then fsz.toUInt32 else bs)

end Sqfs.ReaderEnv
