/-
Concrete environment for the C05 correspondence runs: an image as a byte array behind a `read_at` that fails
beyond the end (harness `memfile_t`), and the harness' toy block codec.  This instantiates the abstract
`Load` / `BlkLoad` parameters of `Sqfs/Model/ReaderBounds.lean`; the theorems quantify over *all* such
parameters, so nothing here is part of an obligation.
-/
import Sqfs.Model.ReaderBounds
import Sqfs.Model.ReaderTables
namespace Sqfs.ReaderEnv
open Sqfs.ReaderBounds Sqfs.ReaderTables

/-- a file of `size` bytes: `data`, then zeroes (`imgz` line: a sparse file; for `img` lines `size = data.size`) -/
structure Image where
  data : ByteArray
  size : Nat

instance : Inhabited Image := ⟨⟨ByteArray.empty, 0⟩⟩

def byteAt (im : Image) (i : Nat) : UInt8 := if h : i < im.data.size then im.data[i] else 0
def le16 (im : Image) (i : Nat) : UInt16 := (byteAt im i).toUInt16 ||| ((byteAt im (i + 1)).toUInt16 <<< 8)
def le32 (im : Image) (i : Nat) : UInt32 :=
  (byteAt im i).toUInt32 ||| ((byteAt im (i + 1)).toUInt32 <<< 8) ||| ((byteAt im (i + 2)).toUInt32 <<< 16) |||
  ((byteAt im (i + 3)).toUInt32 <<< 24)
def le64 (im : Image) (i : Nat) : UInt64 := (le32 im i).toUInt64 ||| ((le32 im (i + 4)).toUInt64 <<< 32)

/-- harness `mf_read_at`: fails iff `off > size || n > size - off` -/
def readFails (im : Image) (off : UInt64) (n : Nat) : Bool := off.toNat > im.size || n > im.size - off.toNat

/-- harness `toy_do_block(in = image[off .. off+size), outsize)` -/
def toy (im : Image) (off : UInt64) (size : UInt32) (outsize : UInt32) : Option UInt32 :=
  if size < 2 then none
  else
    let n := (le16 im off.toNat).toUInt32
    if n &&& 0x8000 != 0 then none
    else if n > outsize then none
    else some n

/-- the `Load` the meta reader sees at `blockStart` -/
def metaSrc (im : Image) (blockStart : UInt64) : Load :=
  let header := le16 im blockStart.toNat
  let size : UInt32 := (header &&& 0x7FFF).toUInt32
  { hdrIo := readFails im blockStart 2
    header := header
    dataIo := readFails im (blockStart + 2) size.toNat
    dec := toy im (blockStart + 2) size 8192 }

def blkLoad (im : Image) (off : UInt64) (w : UInt32) (outsize : UInt32) : BlkLoad :=
  { io := readFails im off (onDiskSize w).toNat
    dec := toy im off (onDiskSize w) outsize }

/-- `precache_fragment_block` on a one-entry table `(fstart, fword)` with nothing cached:
`sqfs_frag_table_lookup` then `get_block(…, block_size, …)`.  Returns `frag_blk_size`. -/
def precacheFrag (im : Image) (bs : UInt32) (fragIdx : UInt32) (fstart : UInt64) (fword : UInt32) :
    Except Err UInt64 × List Access :=
  if fragIdx ≥ 1 then (.error .oob, [])
  else getBlock bs .fragBlock fword bs (blkLoad im fstart fword bs)

/-- `sqfs_data_reader_get_block` (data_reader.c:237-257): location and unpacked size of block `index` -/
def blockLocation (bs : UInt32) (words : Array UInt32) (start filesz : UInt64) (index : Nat) : UInt64 × UInt32 :=
  let rec go (i : Nat) (fuel : Nat) (off filesz : UInt64) : UInt64 × UInt64 :=
    match fuel with
    | 0 => (off, filesz)
    | fuel + 1 => if i < index then go (i + 1) fuel (off + (onDiskSize (words.getD i 0)).toUInt64) (filesz - bs.toUInt64) else (off, filesz)
  let (off, fsz) := go 0 index start filesz
  (off, if fsz < bs.toUInt64 then fsz.toUInt32 else bs)

/-! ### contents of the metadata stream (for the routines of `ReaderTables`, whose field values come from it) -/

/-- byte `i` of the unpacked contents of the metadata block at `b` (toy codec of the harness for compressed blocks:
`out[i] = size > 2 ? in[2 + i % (size - 2)] : 0x5a`) -/
def metaByte (im : Image) (b : UInt64) (i : Nat) : UInt8 :=
  let header := le16 im b.toNat
  let size := (header &&& 0x7FFF).toNat
  if header &&& 0x8000 != 0 then byteAt im (b.toNat + 2 + i)
  else if size > 2 then byteAt im (b.toNat + 4 + i % (size - 2)) else 0x5a

/-- the bytes `sqfs_meta_reader_read(m, …, size)` delivers from state `m` (as far as the read gets); the control
flow is that of `readLoop true` -/
def envReadLoop (im : Image) (c : MetaCfg) : Nat → MetaSt → UInt64 → Array UInt8 → Array UInt8
  | 0, _, _, out => out
  | fuel + 1, m, size, out =>
    if size == 0 then out
    else if m.offset > m.dataUsed then out
    else
      let p := refill true c m
      match p.1.r with
      | .error _ => out
      | .ok () =>
        let m1 := p.1.st
        let diff := if p.2 > size then size else p.2
        let out := (List.range diff.toNat).foldl (fun o i => o.push (metaByte im m1.blockOffset (m1.offset.toNat + i))) out
        envReadLoop im c fuel { m1 with offset := m1.offset + diff } (size - diff) out

def envRead (im : Image) (c : MetaCfg) (m : MetaSt) (n : UInt64) : Array UInt8 := envReadLoop im c (n.toNat + 1) m n #[]

def aByte (a : Array UInt8) (i : Nat) : UInt8 := a.getD i 0
def aLe16 (a : Array UInt8) (i : Nat) : UInt16 := (aByte a i).toUInt16 ||| ((aByte a (i + 1)).toUInt16 <<< 8)
def aLe32 (a : Array UInt8) (i : Nat) : UInt32 :=
  (aByte a i).toUInt32 ||| ((aByte a (i + 1)).toUInt32 <<< 8) ||| ((aByte a (i + 2)).toUInt32 <<< 16) |||
  ((aByte a (i + 3)).toUInt32 <<< 24)
def aLe64 (a : Array UInt8) (i : Nat) : UInt64 := (aLe32 a i).toUInt64 ||| ((aLe32 a (i + 4)).toUInt64 <<< 32)

/-- `sqfs_super_t` from the first 96 bytes of the image -/
def parseSuper (im : Image) : Super :=
  { magic := le32 im 0, inodeCount := le32 im 4, modTime := le32 im 8, blockSize := le32 im 12, fragCount := le32 im 16,
    compId := le16 im 20, blockLog := le16 im 22, flags := le16 im 24, idCount := le16 im 26, vMajor := le16 im 28,
    vMinor := le16 im 30, rootRef := le64 im 32, bytesUsed := le64 im 40, idTableStart := le64 im 48,
    xattrIdTableStart := le64 im 56, inodeTableStart := le64 im 64, dirTableStart := le64 im 72,
    fragTableStart := le64 im 80, exportTableStart := le64 im 88 }

/-- the seek + read of every iteration of the copy loop of `sqfs_read_table` on the image (the loop stops after the
first failure): outcome per iteration, and the bytes delivered -/
def readTableSteps (im : Image) (req : TableReq) : Array (Except Err Unit) × Array UInt8 :=
  let bc := tableBlockCount req.tableSize
  let c : MetaCfg := ⟨req.lower, req.upper, metaSrc im⟩
  let rec go (fuel : Nat) (m : MetaSt) (left : UInt64) (blk : Nat) (steps : Array (Except Err Unit)) (out : Array UInt8) :
      Array (Except Err Unit) × Array UInt8 :=
    match fuel with
    | 0 => (steps, out)
    | fuel + 1 =>
      if left == 0 then (steps, out)
      else
        let start := le64 im (req.location.toNat + 8 * blk)
        let r := seek c m start 0
        match r.r with
        | .error e => (steps.push (.error e), out)
        | .ok () =>
          let diff : UInt64 := if (8192 : UInt64) > left then left else 8192
          let r2 := mread true c r.st diff
          match r2.r with
          | .error e => (steps.push (.error e), out)
          | .ok () => go fuel r2.st (left - diff) (blk + 1) (steps.push (.ok ())) (out ++ envRead im c r.st diff)
  go (bc.toNat + 1) MetaSt.init req.tableSize 0 #[] #[]

/-- `sqfs_read_table` on the image: the locations are read (`read_at`), then the copy loop is `readTable` of
`ReaderBounds` (the function the theorems `read_table_safe` / `read_table_terminates` are about) with the outcome of
its steps taken from the meta reader model on the image.  Status (with the error of the failing step), table
contents, accesses of the loop. -/
def readTableEnv (im : Image) (req : TableReq) : Except Err (Array UInt8) × List Access :=
  let bc := tableBlockCount req.tableSize
  if readFails im req.location (8 * bc.toNat) then (.error .io, [])
  else
    let (steps, content) := readTableSteps im req
    let r := readTable req.tableSize (fun i => match steps[i]? with | some (.ok ()) => true | _ => false)
    match r.1 with
    | .ok () => (.ok content, r.2)
    | .error e =>
      let named := steps.foldl (fun acc st => match acc, st with
        | none, .error e' => some e'
        | acc, _ => acc) (none : Option Err)
      (.error (named.getD e), r.2)

/-- what the key-value stream of the xattr reader holds at the position of `m` -/
def envKvAns (im : Image) (c : MetaCfg) (xs : UInt64) (m : MetaSt) : KvAns :=
  let k := envRead im c m 4
  let ktype := aLe16 k 0
  let ksize := aLe16 k 2
  let m1 := (mread true c m 4).st
  let m2 := (mread true c m1 ksize.toUInt64).st
  let v := envRead im c m2 4
  if isOol ktype then
    let m3 := (mread true c m2 4).st
    let ref := aLe64 (envRead im c m3 8) 0
    let m4 := (mread true c m3 8).st
    let m5 := (seek c m4 (xs + (ref >>> 16)) (ref &&& 0xFFFF)).st
    ⟨ktype, ksize, aLe32 (envRead im c m5 4) 0, ref⟩
  else ⟨ktype, ksize, aLe32 v 0, 0⟩

end Sqfs.ReaderEnv
