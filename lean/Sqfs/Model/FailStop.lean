/-
C13 — fail-stop.  Control-flow / error-propagation skeleton of the four tools.

What is modelled (C anchors in brackets; line numbers are those of /repo at the time of writing — the
correspondence check does not rely on them, it compares the *ordered list of calls* made by these functions,
recorded at run time, with `Trace.ran`):

* `main` of gensquashfs [bin/gensquashfs/src/mkfs.c:96-212] and of tar2sqfs [bin/tar2sqfs/src/tar2sqfs.c:9-55]:
  `int status = EXIT_FAILURE` [mkfs.c:98, tar2sqfs.c:14], the sequence of fallible calls each followed by
  `goto out` / `return EXIT_FAILURE`, the single assignment `status = EXIT_SUCCESS` [mkfs.c:202, tar2sqfs.c:49]
  and `out: sqfs_writer_cleanup(&sqfs, status)` [mkfs.c:204, tar2sqfs.c:51].
* `pack_files` [mkfs.c:55-94] (chdir into the pack directory, then per file: path reconstruction, `pack_file`)
  and `process_tarball` [bin/tar2sqfs/src/process_tarball.c:147-246] (per entry: `it->next`, `it->read_link` for
  links, `set_root_attribs` / `create_node_and_repack_data` unless the entry is filtered out by --root-becomes).
* `sqfs_writer_init` [lib/common/src/writer/init.c:59-246] with its `fail_*` chain ending in
  `remove_output_file`, `sqfs_writer_finish` [lib/common/src/writer/finish.c:100-194],
  `sqfs_dir_writer_write_export_table` [lib/sqfs/src/dir_writer.c:440-468] and `sqfs_writer_cleanup`
  [lib/common/src/writer/cleanup.c:11-38] (`unlink(sqfs->filename)` unless `status == EXIT_SUCCESS`).
* the *working directory* of the process: `unlink` resolves a relative name against the directory the process
  is in when it is called, and `pack_files` changes it [mkfs.c:61].
* `main` of sqfs2tar [bin/sqfs2tar/src/sqfs2tar.c:100-195] and of rdsquashfs
  [bin/rdsquashfs/src/rdsquashfs.c:108-285] as flat lists of fallible calls with one `goto out` each
  (`readerSites`, `runReader`).

A run is a walk over the *fallible call sites* (`Site`) in program order.  A fault script (`List Bool`, one
entry per executed site, missing entries = no fault) says which sites report failure.  What a site does when
it fails is its `Reaction`.  `Variant` selects the source that is modelled:

  `Variant.current`  = /repo as it is now (HEAD d69b61b).  Every result of the skeleton is tested, a failing
                       `sqfs_writer_init` removes the output file, and — since b5ce20d — `main` of gensquashfs
                       resolves the output name with `realpath` right after `sqfs_writer_init` when a pack
                       directory is given (fallible site `realpathOut`) and the cleanup unlinks that absolute
                       name [mkfs.c:110-127].
                       KNOWN DEFECT: rdsquashfs prints the results of -l / -s / -d / -x through stdio and never
                       looks at `fflush` / `ferror`: what the exit-time flush of libc cannot write is lost and
                       the exit status is 0 (`Variant.stdoutChecked = false`, `RResult.stdoutLost`).
  `Variant.fixed`    = /repo + fixes/C13-check-stdout-errors.patch: `main` of rdsquashfs tests
                       `fflush(stdout)` / `ferror(stdout)` before `status = EXIT_SUCCESS` (new fallible site
                       `rStdoutFlush`).
  `Variant.beforeRealpath` = the source before b5ce20d: `sqfs_writer_cleanup` unlinks `sqfs->filename` *as given
                       on the command line*; after `chdir(opt->packdir)` a relative name no longer designates the
                       output file.  Kept for the regression witnesses in Sqfs/Witness/C13.lean.
  `Variant.snapshot` = the source as first pinned (before the three result-checking repairs); regression
                       witnesses only.

  IGNORED RESULTS THAT EXIST IN THE SOURCE (skeleton level)
  * lib/sqfs/src/block_processor/ostream.c:52-55 (`stream_destroy`) ignores `sqfs_block_processor_end_file`;
      only reached when the stream is dropped un-flushed, i.e. on a path whose status is already failure
      [mkfs.c:45-50, process_tarball.c:25-38]
  * lib/sqfs/src/io/file.c, ostream.c, istream.c  `sqfs_native_file_close` has no result
      (`close` errors are never reported; the data were written by `pwrite` before)
  * cleanup.c:35 / init.c:45  the result of `unlink` is ignored (nothing could be done about it)
  * mkfs.c:78  `ret = canonicalize_name(node_path); assert(ret == 0);` — not a fallible site
  (snapshot only) dir_writer.c `ret = add_export_table_entry(...); if (ret) return 0;`, init.c `fail_file:`
  without unlink.
-/
namespace Sqfs.FailStop

inductive Tool | gensquashfs | tar2sqfs
  deriving DecidableEq, Repr, Inhabited

/-- Fallible call sites, in the vocabulary of the C sources.  The comment names the callee whose entry the
    run-time call log shows (caller → callee). -/
inductive Site
  -- tar2sqfs.c main, before the writer exists
  | openStdin                 -- main → istream_open_stdin
  | tarOpen                   -- main → tar_open_stream
  -- init.c sqfs_writer_init
  | compCfg                   -- → compressor_cfg_init_options   (before the output file exists)
  | openOut                   -- → sqfs_native_file_open: creates the output file
  | openHandle                -- → sqfs_file_open_handle (calloc, fstat, dup); on failure the file is removed at once
  | fsDefaults                -- → parse_fstree_defaults
  | fstreeInit                -- → fstree_init
  | cmpCreate                 -- → sqfs_compressor_create (1st)
  | uncmpCreate               -- → sqfs_compressor_create (2nd, SQFS_COMP_FLAG_UNCOMPRESS)
  | superInit                 -- → sqfs_super_init
  | superWrite                -- → sqfs_super_write  (provisional super block)
  | cmpOptions                -- → cmp->write_options (`*_write_options`)
  | blkwrCreate               -- → sqfs_block_writer_create
  | fragtblCreate             -- → sqfs_frag_table_create
  | procCreate                -- → sqfs_block_processor_create_ex
  | idtblCreate               -- → sqfs_id_table_create
  | xwrCreate                 -- → sqfs_xattr_writer_create   (unless no_xattr)
  | imCreate                  -- → sqfs_meta_writer_create (1st, inodes)
  | dmCreate                  -- → sqfs_meta_writer_create (2nd, directories)
  | dirwrCreate               -- → sqfs_dir_writer_create
  -- mkfs.c main
  | realpathOut               -- main → realpath(opt.cfg.filename)   (when a pack directory is given; mkfs.c:118, since b5ce20d)
  | selinuxOpen               -- main → selinux_open_context_file
  | xattrMapOpen              -- main → xattr_open_map_file
  | sortfileOpen              -- main → sqfs_istream_open_file
  | dirIterCreate             -- main → dir_tree_iterator_create
  | scanDir                   -- main → scan_directory
  | fstreeFromFile            -- main → fstree_from_file
  | postProcess               -- main → fstree_post_process   (both packers)
  | applyXattrs               -- main → apply_xattrs
  | sortFiles                 -- main → fstree_sort_files
  -- mkfs.c pack_files
  | chdirPack                 -- pack_files → chdir(opt->packdir)
  | nodePath (i : Nat)        -- pack_files → fstree_get_path for the i-th file (directory scan: no input path stored)
  | packFile (i : Nat)        -- pack_files → pack_file of the i-th regular file
  -- process_tarball.c
  | tarNext (i : Nat)         -- process_tarball → it->next (`it_next`)
  | tarReadLink (i : Nat)     -- process_tarball → it->read_link (`it_read_link`), symbolic and hard links
  | tarEntry (i : Nat)        -- process_tarball → set_root_attribs / create_node_and_repack_data
  -- finish.c sqfs_writer_finish
  | procFinish                -- → sqfs_block_processor_finish
  | serialize                 -- → sqfs_serialize_fstree
  | fragTable                 -- → sqfs_frag_table_write
  | exportAddRoot             -- sqfs_dir_writer_write_export_table → add_export_table_entry (root)
  | exportWrite               -- sqfs_dir_writer_write_export_table → sqfs_write_table
  | idTable                   -- → sqfs_id_table_write
  | xattrFlush                -- → sqfs_xattr_writer_flush
  | superRewrite              -- → sqfs_super_write (final super block)
  | pad                       -- → padd_sqfs
  -- sqfs2tar.c main
  | sOpenStdout               -- main → ostream_open_stdout
  | sXfrmCreate               -- main → compressor_stream_create        (with -c)
  | sXfrmWrap                 -- main → ostream_xfrm_create             (with -c)
  | sIterCreate               -- main → tar_compat_iterator_create
  | sHlFilter                 -- main → sqfs_hard_link_filter_create    (unless --no-hard-links)
  | sNext (i : Nat)           -- main → it->next
  | sEntry (i : Nat)          -- main → write_entry
  | sTerminate                -- main → terminate_archive
  | sFlush                    -- main → out_file->flush
  -- rdsquashfs.c main
  | rOpen                     -- main → sqfs_file_open
  | rSuper                    -- main → sqfs_super_read
  | rCmpCreate                -- main → sqfs_compressor_create
  | rXattrCreate              -- main → sqfs_xattr_reader_create       (unless the image has no xattrs)
  | rXattrLoad                -- main → sqfs_xattr_reader_load
  | rIdCreate                 -- main → sqfs_id_table_create
  | rIdRead                   -- main → sqfs_id_table_read
  | rDirReader                -- main → sqfs_dir_reader_create
  | rDataReader               -- main → sqfs_data_reader_create
  | rFragTable                -- main → sqfs_data_reader_load_fragment_table
  | rHierarchy                -- main → sqfs_dir_reader_get_full_hierarchy
  | rStat                     -- main → stat_file                      (-s)
  | rCatStream                -- main → sqfs_data_reader_create_stream (-c)
  | rCatStdout                -- main → ostream_open_stdout            (-c)
  | rSplice (i : Nat)         -- main → sqfs_istream_splice            (-c, one call per block and one for end-of-file)
  | rTreeSort                 -- main → tree_sort                      (-u)
  | rMkdirP                   -- main → mkdir_p                        (-u -p)
  | rChdir                    -- main → chdir(opt.unpack_root)         (-u -p)
  | rRestore                  -- main → restore_fstree                 (-u)
  | rFill                     -- main → fill_unpacked_files            (-u)
  | rAttribs                  -- main → update_tree_attribs            (-u)
  | rDescribe                 -- main → describe_tree                  (-d)
  | rDumpXattrs               -- main → dump_xattrs                    (-x)
  | rStdoutFlush              -- main → fflush(stdout) / ferror(stdout)  (only with fixes/C13-check-stdout-errors.patch)
  deriving DecidableEq, Repr, Inhabited

/-- Progress messages on stdout (`!cfg->quiet`), finish.c:105,114,122,133,149,160. -/
inductive Msg | waiting | inodes | fragtbl | exporttbl | idtbl | xattrs
  deriving DecidableEq, Repr

/-- One entry of the tar archive as `process_tarball` treats it. -/
structure TarEnt where
  link : Bool := false          -- S_ISLNK(ent->mode): symbolic link or hard link → `it->read_link` is called
  skipped : Bool := false       -- --root-becomes: the name is not below the new root → `continue` before the node is made
  deriving Repr, DecidableEq

structure Cfg where
  tool : Tool := .gensquashfs
  selinux : Bool := false       -- opt.selinux != NULL
  xattrFile : Bool := false     -- opt.xattr_file != NULL
  sortFile : Bool := false      -- opt.sortfile != NULL
  packFile : Bool := false      -- opt.infile != NULL (otherwise a directory is scanned)
  packDir : Bool := false       -- opt.packdir != NULL
  packDirIsCwd : Bool := false  -- the pack directory *is* the directory the process starts in (`-D .`)
  relOut : Bool := false        -- the output file name on the command line is a relative path
  nfiles : Nat := 0             -- regular files packed by gensquashfs
  entries : List TarEnt := []   -- tar2sqfs: the entries of the archive
  exportable : Bool := false
  noXattr : Bool := false
  quiet : Bool := false
  deriving Repr, DecidableEq

/-- Which source is modelled (see the header). -/
structure Variant where
  initUnlinks : Bool        -- a failing sqfs_writer_init removes the output file        (in /repo since C13-init-unlink)
  exportChecked : Bool      -- the result of add_export_table_entry(root) is returned    (in /repo since C13-export-table-result)
  sparseTailChecked : Bool  -- backend.c: set_block_size result for an all-zero tail     (in /repo since C13-sparse-tail-result; block processor layer)
  outPathAbsolute : Bool    -- mkfs.c:110-127 realpath of the output name                (in /repo since b5ce20d)
  stdoutChecked : Bool      -- rdsquashfs.c: fflush/ferror of stdout tested before exit 0 (fixes/C13-check-stdout-errors.patch; pending)
  deriving Repr, DecidableEq

def Variant.snapshot : Variant := ⟨false, false, false, false, false⟩
def Variant.beforeRealpath : Variant := ⟨true, true, true, false, false⟩
def Variant.current : Variant := ⟨true, true, true, true, false⟩
def Variant.fixed : Variant := ⟨true, true, true, true, true⟩

inductive Reaction
  | abort                  -- the failure is returned and the caller leaves the phase
  | swallow (skip : Nat)   -- the result is ignored; the next `skip` sites are not executed
  deriving Repr, DecidableEq

def reaction (v : Variant) : Site → Reaction
  | .exportAddRoot => if v.exportChecked then .abort else .swallow 1       -- dir_writer.c `if (ret) return ret;` (snapshot: `return 0`)
  | _ => .abort

/-- Does the site perform operations on the output file when it succeeds? -/
def writes : Site → Bool
  | .openOut | .superWrite | .cmpOptions | .packFile _ | .tarEntry _ | .procFinish | .serialize | .fragTable
  | .exportWrite | .idTable | .xattrFlush | .superRewrite | .pad => true
  | _ => false

/-- Message printed immediately before the call (finish.c), when not quiet. -/
def announce : Site → Option Msg
  | .procFinish => some .waiting
  | .serialize => some .inodes
  | .fragTable => some .fragtbl
  | .exportAddRoot => some .exporttbl
  | .idTable => some .idtbl
  | .xattrFlush => some .xattrs
  | _ => none

/-- Is a diagnostic printed on stderr when the site fails?  In /repo every modelled site does
    (`sqfs_perror` / `perror` / `fputs(…, stderr)` next to the test, or inside the callee); the snapshot returned -1
    silently for the export table [finish.c:136-142 before C13-missing-diagnostics]. -/
def diagOnFail (v : Variant) : Site → Bool
  | .exportWrite | .exportAddRoot => v.exportChecked
  | _ => true

inductive Op | done (s : Site) | damaged (s : Site)
  deriving DecidableEq, Repr

/-- The directory the process is in: the one it was started in, or the pack directory. -/
inductive Dir | start | pack
  deriving DecidableEq, Repr

structure Trace where
  ops : List Op := []            -- output-producing steps performed, in order
  msgs : List Msg := []
  ran : List Site := []          -- sites executed, in order (the failing one included)
  failed : Option Site := none   -- the site whose failure was *reported*
  swallowed : List Site := []    -- sites whose failure was ignored
  cwd : Dir := .start            -- working directory of the process
  absName : Bool := false        -- `sqfs.filename` has been replaced by the absolute name (realpathOut succeeded)
  deriving Repr, DecidableEq

def emits (s : Site) : List Op := if writes s then [.done s] else []
def says (quiet : Bool) (s : Site) : List Msg :=
  if quiet then [] else match announce s with | some m => [m] | none => []

/-- State change of a site that succeeds, besides the bookkeeping: mkfs.c:61 `chdir(opt->packdir)` moves the
    process; `main` remembers the absolute output name [mkfs.c:126 `sqfs.filename = abs_filename`]. -/
def effect (c : Cfg) (s : Site) (t : Trace) : Trace :=
  match s with
  | .chdirPack => { t with cwd := if c.packDirIsCwd then t.cwd else .pack }
  | .realpathOut => { t with absName := true }
  | _ => t

/-- Walk the sites of one phase.  `skip` = sites still to be skipped because a swallowed failure returned early.
    Returns (phase succeeded, rest of the script, trace). -/
def runSites (v : Variant) (c : Cfg) : Nat → List Site → List Bool → Trace → Bool × List Bool × Trace
  | _, [], fs, t => (true, fs, t)
  | skip + 1, _ :: rest, fs, t => runSites v c skip rest fs t
  | 0, s :: rest, fs, t =>
    let t := { t with msgs := t.msgs ++ says c.quiet s, ran := t.ran ++ [s] }
    if fs.headD false then
      match reaction v s with
      | .abort => (false, fs.tail, { t with failed := some s })
      | .swallow k => runSites v c k rest fs.tail { t with ops := t.ops ++ [.damaged s], swallowed := t.swallowed ++ [s] }
    else
      runSites v c 0 rest fs.tail (effect c s { t with ops := t.ops ++ emits s })

/-! ### The phases -/

/-- tar2sqfs.c:20-34 -/
def preSites (c : Cfg) : List Site :=
  match c.tool with
  | .tar2sqfs => [.openStdin, .tarOpen]
  | .gensquashfs => []

/-- init.c:69-219 in order -/
def initSites (c : Cfg) : List Site :=
  [.compCfg, .openOut, .openHandle, .fsDefaults, .fstreeInit, .cmpCreate, .uncmpCreate, .superInit, .superWrite, .cmpOptions,
   .blkwrCreate, .fragtblCreate, .procCreate, .idtblCreate]
  ++ (if c.noXattr then [] else [.xwrCreate]) ++ [.imCreate, .dmCreate, .dirwrCreate]

/-- mkfs.c:66-91: per file, the path is reconstructed from the tree when no input path is stored (directory
    scan), then `pack_file`. -/
def packSites (fromTree : Bool) : Nat → Nat → List Site
  | 0, _ => []
  | n + 1, i => (if fromTree then [.nodePath i] else []) ++ .packFile i :: packSites fromTree n (i + 1)

/-- process_tarball.c:151-243 -/
def tarSites : List TarEnt → Nat → List Site
  | [], i => [.tarNext i]                                   -- the call that reports end of archive
  | e :: rest, i =>
    .tarNext i :: ((if e.link then [.tarReadLink i] else []) ++ (if e.skipped then [] else [.tarEntry i]) ++ tarSites rest (i + 1))

/-- mkfs.c:110-197 / tar2sqfs.c:40-44 -/
def bodySites (v : Variant) (c : Cfg) : List Site :=
  match c.tool with
  | .gensquashfs =>
    (if v.outPathAbsolute && c.packDir then [.realpathOut] else [])
    ++ (if c.selinux then [.selinuxOpen] else []) ++ (if c.xattrFile then [.xattrMapOpen] else [])
    ++ (if c.sortFile then [.sortfileOpen] else [])
    ++ (if c.packFile then [.fstreeFromFile] else [.dirIterCreate, .scanDir])
    ++ [.postProcess, .applyXattrs] ++ (if c.sortFile then [.sortFiles] else [])
    ++ (if c.packDir then [.chdirPack] else []) ++ packSites (!c.packFile) c.nfiles 0
  | .tar2sqfs => tarSites c.entries 0 ++ [.postProcess]

/-- finish.c:107-180 -/
def finishSites (c : Cfg) : List Site :=
  [.procFinish, .serialize, .fragTable]
  ++ (if c.exportable then [.exportAddRoot, .exportWrite] else []) ++ [.idTable]
  ++ (if c.noXattr then [] else [.xattrFlush]) ++ [.superRewrite, .pad]

def program (v : Variant) (c : Cfg) : List Site := preSites c ++ initSites c ++ bodySites v c ++ finishSites c

inductive OutFile
  | never       -- the run did not create the output file
  | present     -- created and still there
  | unlinked    -- created and removed again
  deriving DecidableEq, Repr

structure Result where
  status : Nat              -- exit status of the process: 0 = EXIT_SUCCESS, 1 = EXIT_FAILURE
  out : OutFile
  cleanupReached : Bool     -- was sqfs_writer_cleanup called
  finishOk : Bool           -- did sqfs_writer_finish return 0
  unlinkHit : Option Bool   -- `unlink` of the output name: not called / called and the name designated the output file / did not
  trace : Trace
  deriving Repr, DecidableEq

/-- Does the name handed to `unlink` designate the output file *now*?  An absolute name always does; a relative
    one only while the process is still in the directory it was started in. -/
def nameResolves (c : Cfg) (t : Trace) : Bool := !c.relOut || t.absName || t.cwd == .start

/-- cleanup.c:26-37 and init.c:34-47 (`remove_output_file`): `unlink(filename)`, result ignored. -/
def unlinkOut (c : Cfg) (t : Trace) : OutFile := if nameResolves c t then .unlinked else .present

/-- cleanup.c:11-38 -/
def cleanup (c : Cfg) (status : Nat) (t : Trace) : OutFile × Option Bool :=
  if status != 0 then (unlinkOut c t, some (nameResolves c t)) else (.present, none)

/-- State of the output file after a failed `sqfs_writer_init`: it exists iff `sqfs_native_file_open` had
    succeeded [init.c:75]; `remove_output_file` [init.c:86, 244] removes it (snapshot: nothing does). -/
def afterFailedInit (v : Variant) (c : Cfg) (t : Trace) : OutFile × Option Bool :=
  if t.failed = some .compCfg ∨ t.failed = some .openOut then (.never, none)
  else if v.initUnlinks then (unlinkOut c t, some (nameResolves c t)) else (.present, none)

/-- `main` of both packers. -/
def run (v : Variant) (c : Cfg) (fs : List Bool) : Result :=
  -- int status = EXIT_FAILURE;                                       mkfs.c:98   tar2sqfs.c:14
  let status := 1
  -- tar2sqfs.c:20-34: failures before the writer exists `return EXIT_FAILURE`
  match runSites v c 0 (preSites c) fs {} with
  | (false, _, t) => ⟨status, .never, false, false, none, t⟩
  | (true, fs, t) =>
  -- if (sqfs_writer_init(&sqfs, &cfg)) return EXIT_FAILURE / goto out_it;   mkfs.c:108  tar2sqfs.c:37
  match runSites v c 0 (initSites c) fs t with
  | (false, _, t) => ⟨status, (afterFailedInit v c t).1, false, false, (afterFailedInit v c t).2, t⟩
  | (true, fs, t) =>
  -- every failing call of the body does `goto out`                          mkfs.c:110-197  tar2sqfs.c:40-44
  match runSites v c 0 (bodySites v c) fs t with
  | (false, _, t) => ⟨status, (cleanup c status t).1, true, false, (cleanup c status t).2, t⟩
  | (true, fs, t) =>
  -- if (sqfs_writer_finish(&sqfs, &cfg)) goto out;                          mkfs.c:199  tar2sqfs.c:46
  match runSites v c 0 (finishSites c) fs t with
  | (false, _, t) => ⟨status, (cleanup c status t).1, true, false, (cleanup c status t).2, t⟩
  | (true, _, t) =>
  -- status = EXIT_SUCCESS;  out: sqfs_writer_cleanup(&sqfs, status);        mkfs.c:202-204  tar2sqfs.c:49-51
  let status := 0
  ⟨status, (cleanup c status t).1, true, true, (cleanup c status t).2, t⟩

/-- The fault-free run. -/
def faultFree (v : Variant) (c : Cfg) : Result := run v c []

/-- Script with a single fault at position `k`. -/
def single (k : Nat) : List Bool := List.replicate k false ++ [true]

/-- Position of a site in the program (for the driver: fault "at site s"). -/
def sitePos (v : Variant) (c : Cfg) (s : Site) : Option Nat :=
  let p := program v c
  let i := p.findIdx (· == s)
  if i < p.length then some i else none

/-! ### The readers: sqfs2tar and rdsquashfs

`main` of both is one flat list of fallible calls, each followed by `goto out`; `status = EXIT_SUCCESS` is
assigned in one place, after the last of them [sqfs2tar.c:187, rdsquashfs.c:274].  Nothing is removed on failure
(the output is standard output, or an unpacked tree that is left as far as it got).

Standard output.  sqfs2tar and `rdsquashfs -c` write their result with `write(2)` on a duplicate of descriptor 1
(`ostream_open_stdout`): every result is tested (sites `sEntry`, `sTerminate`, `sFlush`, `rSplice`).
`rdsquashfs -l / -s / -d / -x` print through stdio [list_files.c, stat.c, describe.c, dump_xattrs.c: printf / fputs /
fwrite, no result looked at]: the bytes reach the descriptor when the buffer fills up or, at the latest, when libc
flushes at exit — after `main` has returned its status.  /repo as it is never calls `fflush` / `ferror`
(`Variant.stdoutChecked = false`): a write error on standard output (no space, closed descriptor, EPIPE with SIGPIPE
ignored) is lost, the exit status stays 0 (`RResult.stdoutLost`).  The repaired `main` tests
`fflush(stdout) != 0 || ferror(stdout)` in front of `status = EXIT_SUCCESS` — one more site, `rStdoutFlush`. -/

inductive RdOp | ls | stat | cat | unpack | describe | rdattr
  deriving DecidableEq, Repr

structure RCfg where
  sqfs2tar : Bool := true        -- otherwise rdsquashfs
  compressed : Bool := false     -- sqfs2tar -c
  noLinks : Bool := false        -- sqfs2tar --no-hard-links
  nentries : Nat := 0            -- sqfs2tar: entries the iterator yields
  hasXattrs : Bool := true       -- rdsquashfs: !(super.flags & SQFS_FLAG_NO_XATTRS)
  op : RdOp := .ls
  unpackRoot : Bool := false     -- rdsquashfs -u -p
  nsplice : Nat := 0             -- rdsquashfs -c: calls of sqfs_istream_splice (the last one returns 0)
  deriving DecidableEq, Repr

def sEntrySites : Nat → Nat → List Site
  | 0, i => [.sNext i]
  | n + 1, i => .sNext i :: .sEntry i :: sEntrySites n (i + 1)

def spliceSites : Nat → Nat → List Site
  | 0, _ => []
  | n + 1, i => .rSplice i :: spliceSites n (i + 1)

/-- Does the operation hand its *result* to stdio (`printf` & co. on `stdout`)?  rdsquashfs -l, -s, -d, -x.
    (`-c` and sqfs2tar use `write(2)` through an ostream; `-u` prints progress lines only.) -/
def printsResults (c : RCfg) : Bool :=
  !c.sqfs2tar && (c.op == .ls || c.op == .stat || c.op == .describe || c.op == .rdattr)

def readerSites (v : Variant) (c : RCfg) : List Site :=
  if c.sqfs2tar then
    [.sOpenStdout] ++ (if c.compressed then [.sXfrmCreate, .sXfrmWrap] else []) ++ [.sIterCreate]
    ++ (if c.noLinks then [] else [.sHlFilter]) ++ sEntrySites c.nentries 0 ++ [.sTerminate, .sFlush]
  else
    [.rOpen, .rSuper, .rCmpCreate] ++ (if c.hasXattrs then [.rXattrCreate, .rXattrLoad] else [])
    ++ [.rIdCreate, .rIdRead, .rDirReader, .rDataReader, .rFragTable, .rHierarchy]
    ++ (match c.op with
        | .ls => []
        | .stat => [.rStat]
        | .cat => [.rCatStream, .rCatStdout] ++ spliceSites c.nsplice 0
        | .unpack => [.rTreeSort] ++ (if c.unpackRoot then [.rMkdirP, .rChdir] else []) ++ [.rRestore, .rFill, .rAttribs]
        | .describe => [.rDescribe]
        | .rdattr => [.rDumpXattrs])
    -- fixes/C13-check-stdout-errors.patch: `if (fflush(stdout) != 0 || ferror(stdout)) { perror("stdout"); goto out; }`
    ++ (if v.stdoutChecked then [.rStdoutFlush] else [])

structure RResult where
  status : Nat
  trace : Trace
  stdoutLost : Bool    -- results handed to stdio could not be written and nobody noticed (exit-time flush of libc)
  deriving Repr, DecidableEq

/-- `main` of sqfs2tar / rdsquashfs: `status = EXIT_FAILURE`, the calls in order, `status = EXIT_SUCCESS` behind
    the last one.  After `main` has returned libc flushes `stdout`; the script entry behind the last site says
    whether that write fails.  In the repaired source the buffer is empty by then (`rStdoutFlush` succeeded). -/
def runReader (v : Variant) (c : RCfg) (fs : List Bool) : RResult :=
  match runSites v {} 0 (readerSites v c) fs {} with
  | (false, _, t) => ⟨1, t, false⟩
  | (true, fs', t) => ⟨0, t, printsResults c && !v.stdoutChecked && fs'.headD false⟩

end Sqfs.FailStop
