/-
C13 — fail-stop.  Control-flow / error-propagation skeleton of the two packers.

What is modelled (C anchors in brackets; line numbers are those of the pinned snapshot):

* `main` of gensquashfs [bin/gensquashfs/src/mkfs.c:96-179] and of tar2sqfs [bin/tar2sqfs/src/tar2sqfs.c:9-55]:
  `int status = EXIT_FAILURE` [mkfs.c:98, tar2sqfs.c:14], the sequence of fallible calls each followed by
  `goto out` / `return EXIT_FAILURE`, the single assignment `status = EXIT_SUCCESS` [mkfs.c:170, tar2sqfs.c:49]
  and `out: sqfs_writer_cleanup(&sqfs, status)` [mkfs.c:172, tar2sqfs.c:51].
* `sqfs_writer_init` [lib/common/src/writer/init.c:45-221] with its `fail_*` chain, `sqfs_writer_finish`
  [lib/common/src/writer/finish.c:100-190] and `sqfs_writer_cleanup` [lib/common/src/writer/cleanup.c:11-38]
  (`unlink` unless `status == EXIT_SUCCESS`).

A run is a walk over the *fallible call sites* (`Site`) in program order.  A fault script (`List Bool`, one
entry per executed site, missing entries = no fault) says which sites report failure.  What a site does when
it fails is its `Reaction`: every site but two aborts the phase (`goto out`); two sites exist in the source
whose result is ignored — they are modelled as such in the variant `Variant.current` and as checked in
`Variant.fixed` (the code after fixes/C13-*.patch):

  IGNORED RESULTS THAT EXIST IN THE SOURCE (skeleton level)
  * lib/sqfs/src/dir_writer.c:443-445   `ret = add_export_table_entry(...); if (ret) return 0;`
      — allocation failure while growing the export table for the root inode makes
        `sqfs_dir_writer_write_export_table` return success *without writing the table*  (site `exportAddRoot`,
        the following site `exportWrite` is skipped)
  * lib/sqfs/src/block_processor/backend.c:141  `set_block_size(frag->inode, frag->index, 0);` result dropped
      — failure to grow the inode's block list for an all-zero tail is not reported (site `sparseTail i`;
        details in Sqfs/Model/FailStopBlockProc.lean)
  * lib/common/src/writer/init.c:198-220  the `fail_*` chain drops the output file object but never unlinks the
      file that `sqfs_file_open` [init.c:60] created; `main` returns without `sqfs_writer_cleanup`
      [mkfs.c:107-108, tar2sqfs.c:37-38 `goto out_it`]                       (`Variant.initUnlinks`)
  * lib/sqfs/src/block_processor/ostream.c:52-55 (`stream_destroy`) ignores `sqfs_block_processor_end_file`;
      harmless: only reached when the stream is dropped un-flushed, i.e. on a path whose status is already
      failure [mkfs.c:45-50, process_tarball.c:25-38]
  * lib/sqfs/src/io/file.c:41, ostream.c:142, istream.c:133  `sqfs_native_file_close` has no result
      (`close` errors are never reported; the data were written by `pwrite` before).
-/
namespace Sqfs.FailStop

inductive Tool | gensquashfs | tar2sqfs
  deriving DecidableEq, Repr, Inhabited

/-- Fallible call sites, in the vocabulary of the C sources. -/
inductive Site
  -- tar2sqfs.c, before the writer exists
  | openStdin                 -- tar2sqfs.c:20  istream_open_stdin
  | tarOpen                   -- tar2sqfs.c:29  tar_open_stream
  -- init.c
  | compCfg                   -- init.c:54   compressor_cfg_init_options   (before the output file exists)
  | openOut                   -- init.c:60   sqfs_file_open → file.c:276 sqfs_native_file_open: creates the output file
  | openHandle                -- init.c:60   sqfs_file_open → file.c:282 sqfs_file_open_handle (calloc, fstat, dup); on
                              --             failure file.c:283-288 closes the descriptor, the created file stays
  | fsDefaults                -- init.c:66   parse_fstree_defaults
  | fstreeInit                -- init.c:69   fstree_init
  | cmpCreate                 -- init.c:72   sqfs_compressor_create
  | uncmpCreate               -- init.c:89   sqfs_compressor_create (uncompress)
  | superInit                 -- init.c:105  sqfs_super_init
  | superWrite                -- init.c:112  sqfs_super_write  (provisional super block)
  | cmpOptions                -- init.c:118  cmp->write_options
  | blkwrCreate               -- init.c:127  sqfs_block_writer_create
  | fragtblCreate             -- init.c:133  sqfs_frag_table_create
  | procCreate                -- init.c:150  sqfs_block_processor_create_ex
  | idtblCreate               -- init.c:157  sqfs_id_table_create
  | xwrCreate                 -- init.c:165  sqfs_xattr_writer_create   (unless no_xattr)
  | imCreate                  -- init.c:174  sqfs_meta_writer_create (inodes)
  | dmCreate                  -- init.c:180  sqfs_meta_writer_create (directories)
  | dirwrCreate               -- init.c:191  sqfs_dir_writer_create
  -- mkfs.c main
  | selinuxOpen               -- mkfs.c:111  selinux_open_context_file
  | xattrMapOpen              -- mkfs.c:116  xattr_open_map_file
  | sortfileOpen              -- mkfs.c:122  sqfs_istream_open_file
  | dirIterCreate             -- mkfs.c:140  dir_tree_iterator_create
  | scanDir                   -- mkfs.c:144  scan_directory
  | fstreeFromFile            -- mkfs.c:149  fstree_from_file
  | postProcess               -- mkfs.c:153 / tar2sqfs.c:43  fstree_post_process
  | applyXattrs               -- mkfs.c:156  apply_xattrs
  | sortFiles                 -- mkfs.c:160  fstree_sort_files
  | chdirPack                 -- mkfs.c:61   chdir(opt->packdir) in pack_files
  | packFile (i : Nat)        -- mkfs.c:86   pack_file of the i-th regular file
  | sparseTail (i : Nat)      -- backend.c:141  inode growth for the i-th all-zero tail (see header)
  -- process_tarball.c
  | tarNext (i : Nat)         -- process_tarball.c:165  it->next
  | tarEntry (i : Nat)        -- process_tarball.c:226/228  set_root_attribs / create_node_and_repack_data
  -- finish.c
  | procFinish                -- finish.c:107  sqfs_block_processor_finish
  | serialize                 -- finish.c:118  sqfs_serialize_fstree
  | fragTable                 -- finish.c:124  sqfs_frag_table_write
  | exportAddRoot             -- dir_writer.c:443  add_export_table_entry (root)     } finish.c:136
  | exportWrite               -- dir_writer.c:452  sqfs_write_table                  }
  | idTable                   -- finish.c:148  sqfs_id_table_write
  | xattrFlush                -- finish.c:159  sqfs_xattr_writer_flush
  | superRewrite              -- finish.c:170  sqfs_super_write (final super block)
  | pad                       -- finish.c:176  padd_sqfs
  deriving DecidableEq, Repr, Inhabited

/-- Progress messages on stdout (`!cfg->quiet`), finish.c:105,114,122,133,146,157. -/
inductive Msg | waiting | inodes | fragtbl | exporttbl | idtbl | xattrs
  deriving DecidableEq, Repr

structure Cfg where
  tool : Tool := .gensquashfs
  selinux : Bool := false       -- opt.selinux != NULL
  xattrFile : Bool := false     -- opt.xattr_file != NULL
  sortFile : Bool := false      -- opt.sortfile != NULL
  packFile : Bool := false      -- opt.infile != NULL (otherwise a directory is scanned)
  packDir : Bool := false       -- opt.packdir != NULL
  nfiles : Nat := 0             -- regular files packed (gensquashfs) / tar entries (tar2sqfs)
  sparseTails : Nat := 0        -- how many of the packed files end in an all-zero tail fragment
  exportable : Bool := false
  noXattr : Bool := false
  quiet : Bool := false
  deriving Repr, DecidableEq

/-- Which source is modelled: the pinned one, or the one with fixes/C13-*.patch applied. -/
structure Variant where
  initUnlinks : Bool        -- fixes/C13-init-unlink.patch
  exportChecked : Bool      -- fixes/C13-export-table-result.patch
  sparseTailChecked : Bool  -- fixes/C13-sparse-tail-result.patch
  deriving Repr, DecidableEq

def Variant.current : Variant := ⟨false, false, false⟩
def Variant.fixed : Variant := ⟨true, true, true⟩

inductive Reaction
  | abort                  -- the failure is returned and the caller leaves the phase
  | swallow (skip : Nat)   -- the result is ignored; the next `skip` sites are not executed
  deriving Repr, DecidableEq

def reaction (v : Variant) : Site → Reaction
  | .exportAddRoot => if v.exportChecked then .abort else .swallow 1       -- dir_writer.c:443-445
  | .sparseTail _ => if v.sparseTailChecked then .abort else .swallow 0    -- backend.c:141
  | _ => .abort

/-- Does the site perform operations on the output file when it succeeds? -/
def writes : Site → Bool
  | .openOut | .superWrite | .cmpOptions | .packFile _ | .tarEntry _ | .procFinish | .serialize | .fragTable
  | .exportWrite | .idTable | .xattrFlush | .superRewrite | .pad | .sparseTail _ => true
  | _ => false

/-- Message printed immediately before the call (finish.c), when not quiet. -/
def announce : Site → Option Msg
  | .procFinish => some .waiting
  | .serialize => some .inodes
  | .fragTable => some .fragtbl
  | .exportAddRoot => some .exporttbl
  | .idTable => some .idtbl
  | .xattrFlush => some .xattrs
  | _ => none

/-- Is a diagnostic printed when the site fails (pinned source)?  finish.c:136-142 returns -1 without
    `sqfs_perror` for the export table. -/
def diagOnFail : Site → Bool
  | .exportWrite | .exportAddRoot => false
  | _ => true

inductive Op | done (s : Site) | damaged (s : Site)
  deriving DecidableEq, Repr

structure Trace where
  ops : List Op := []            -- output-producing steps performed, in order
  msgs : List Msg := []
  ran : List Site := []          -- sites executed, in order (the failing one included)
  failed : Option Site := none   -- the site whose failure was *reported*
  swallowed : List Site := []    -- sites whose failure was ignored
  deriving Repr, DecidableEq

def emits (s : Site) : List Op := if writes s then [.done s] else []
def says (quiet : Bool) (s : Site) : List Msg :=
  if quiet then [] else match announce s with | some m => [m] | none => []

/-- Walk the sites of one phase.  `skip` = sites still to be skipped because a swallowed failure returned early.
    Returns (phase succeeded, rest of the script, trace). -/
def runSites (v : Variant) (quiet : Bool) : Nat → List Site → List Bool → Trace → Bool × List Bool × Trace
  | _, [], fs, t => (true, fs, t)
  | skip + 1, _ :: rest, fs, t => runSites v quiet skip rest fs t
  | 0, s :: rest, fs, t =>
    let t := { t with msgs := t.msgs ++ says quiet s, ran := t.ran ++ [s] }
    if fs.headD false then
      match reaction v s with
      | .abort => (false, fs.tail, { t with failed := some s })
      | .swallow k => runSites v quiet k rest fs.tail { t with ops := t.ops ++ [.damaged s], swallowed := t.swallowed ++ [s] }
    else
      runSites v quiet 0 rest fs.tail { t with ops := t.ops ++ emits s }

/-! ### The phases -/

/-- tar2sqfs.c:20-34 -/
def preSites (c : Cfg) : List Site :=
  match c.tool with
  | .tar2sqfs => [.openStdin, .tarOpen]
  | .gensquashfs => []

/-- init.c:54-196 in order -/
def initSites (c : Cfg) : List Site :=
  [.compCfg, .openOut, .openHandle, .fsDefaults, .fstreeInit, .cmpCreate, .uncmpCreate, .superInit, .superWrite, .cmpOptions,
   .blkwrCreate, .fragtblCreate, .procCreate, .idtblCreate]
  ++ (if c.noXattr then [] else [.xwrCreate]) ++ [.imCreate, .dmCreate, .dirwrCreate]

def packSites : Nat → Nat → List Site
  | 0, _ => []
  | n + 1, i => .packFile i :: packSites n (i + 1)

def sparseSites : Nat → Nat → List Site
  | 0, _ => []
  | n + 1, i => .sparseTail i :: sparseSites n (i + 1)

def tarSites : Nat → Nat → List Site
  | 0, i => [.tarNext i]                                   -- the call that reports end of archive
  | n + 1, i => .tarNext i :: .tarEntry i :: tarSites n (i + 1)

/-- mkfs.c:110-165 / tar2sqfs.c:40-44 -/
def bodySites (c : Cfg) : List Site :=
  match c.tool with
  | .gensquashfs =>
    (if c.selinux then [.selinuxOpen] else []) ++ (if c.xattrFile then [.xattrMapOpen] else [])
    ++ (if c.sortFile then [.sortfileOpen] else [])
    ++ (if c.packFile then [.fstreeFromFile] else [.dirIterCreate, .scanDir])
    ++ [.postProcess, .applyXattrs] ++ (if c.sortFile then [.sortFiles] else [])
    ++ (if c.packDir then [.chdirPack] else []) ++ packSites c.nfiles 0
  | .tar2sqfs => tarSites c.nfiles 0 ++ [.postProcess]

/-- finish.c:107-180.  The all-zero tails are resolved when their blocks are dequeued; the latest point is the
    `sync` inside `sqfs_block_processor_finish`, which is where the skeleton places them. -/
def finishSites (c : Cfg) : List Site :=
  sparseSites c.sparseTails 0 ++ [.procFinish, .serialize, .fragTable]
  ++ (if c.exportable then [.exportAddRoot, .exportWrite] else []) ++ [.idTable]
  ++ (if c.noXattr then [] else [.xattrFlush]) ++ [.superRewrite, .pad]

def program (c : Cfg) : List Site := preSites c ++ initSites c ++ bodySites c ++ finishSites c

inductive OutFile
  | never       -- the run did not create the output file
  | present     -- created and still there
  | unlinked    -- created and removed again
  deriving DecidableEq, Repr

structure Result where
  status : Nat              -- exit status of the process: 0 = EXIT_SUCCESS, 1 = EXIT_FAILURE
  out : OutFile
  cleanupReached : Bool     -- was sqfs_writer_cleanup called
  finishOk : Bool           -- did sqfs_writer_finish return 0
  trace : Trace
  deriving Repr, DecidableEq

/-- cleanup.c:11-38 -/
def cleanup (status : Nat) : OutFile := if status != 0 then .unlinked else .present

/-- State of the output file after a failed `sqfs_writer_init`: the file exists iff `sqfs_native_file_open`
    [file.c:276, called from init.c:60] had succeeded; neither file.c:283-288 nor the pinned `fail_file:` label
    [init.c:218-220] removes it. -/
def afterFailedInit (v : Variant) (t : Trace) : OutFile :=
  if t.failed = some .compCfg ∨ t.failed = some .openOut then .never
  else if v.initUnlinks then .unlinked else .present

/-- `main` of both packers. -/
def run (v : Variant) (c : Cfg) (fs : List Bool) : Result :=
  -- int status = EXIT_FAILURE;                                       mkfs.c:98   tar2sqfs.c:14
  let status := 1
  -- tar2sqfs.c:20-34: failures before the writer exists `return EXIT_FAILURE`
  match runSites v c.quiet 0 (preSites c) fs {} with
  | (false, _, t) => ⟨status, .never, false, false, t⟩
  | (true, fs, t) =>
  -- if (sqfs_writer_init(&sqfs, &cfg)) return EXIT_FAILURE / goto out_it;   mkfs.c:107  tar2sqfs.c:37
  match runSites v c.quiet 0 (initSites c) fs t with
  | (false, _, t) => ⟨status, afterFailedInit v t, false, false, t⟩
  | (true, fs, t) =>
  -- every failing call of the body does `goto out`                          mkfs.c:110-165  tar2sqfs.c:40-44
  match runSites v c.quiet 0 (bodySites c) fs t with
  | (false, _, t) => ⟨status, cleanup status, true, false, t⟩
  | (true, fs, t) =>
  -- if (sqfs_writer_finish(&sqfs, &cfg)) goto out;                          mkfs.c:167  tar2sqfs.c:46
  match runSites v c.quiet 0 (finishSites c) fs t with
  | (false, _, t) => ⟨status, cleanup status, true, false, t⟩
  | (true, _, t) =>
  -- status = EXIT_SUCCESS;  out: sqfs_writer_cleanup(&sqfs, status);        mkfs.c:170-172  tar2sqfs.c:49-51
  let status := 0
  ⟨status, cleanup status, true, true, t⟩

/-- The fault-free run. -/
def faultFree (v : Variant) (c : Cfg) : Result := run v c []

/-- Script with a single fault at position `k`. -/
def single (k : Nat) : List Bool := List.replicate k false ++ [true]

/-- Position of a site in the program (for the driver: fault "at site s"). -/
def sitePos (c : Cfg) (s : Site) : Option Nat :=
  let p := program c
  let i := p.findIdx (· == s)
  if i < p.length then some i else none

end Sqfs.FailStop
