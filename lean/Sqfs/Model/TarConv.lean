/-
Model of the conversion steps of `tar2sqfs`: `bin/tar2sqfs/src/process_tarball.c` (`process_tarball`'s loop
body: mtime clamp, `--root-becomes` handling with prefix strip and link retarget, root entry, `--no-keep-time`)
and of what it calls in `lib/fstree/src/fstree.c` (`fstree_add_generic`, `fstree_get_node_by_path` with
`create_implicitly`, `mknode`, `clamp_timestamp`).

The tree is modelled *flat*: a node is identified by its path (list of components below the root), which is
what every consumer of the tree observes; `child_by_name` along a path is a lookup of the path's prefixes.
`canonInPlace` is `canonicalize_name` as a buffer transformer (what the unrepaired `process_tarball` leaves in
`link`), including the half-rewritten buffer after a failure.
-/
import Sqfs.Model.TarHeader
import Sqfs.Spec.Path
namespace Sqfs.Tar

open Sqfs.Path (normalizeSlashes canonicalize SL DOT)

/-! ### `canonicalize_name` as an in-place buffer transformer -/

/-- main loop of `canonicalize_name` with the bytes written so far; result: (bytes written through `dst`, success) -/
def canonGoP : Bool → Bytes → Bytes → Bytes × Bool
  | _, [], acc => (acc, true)
  | false, c :: t, acc => if c = SL then canonGoP true t (acc ++ [SL]) else canonGoP false t (acc ++ [c])
  | true, [c], acc =>
    if c = DOT then (acc, true)
    else if c = SL then canonGoP true [] (acc ++ [SL]) else canonGoP false [] (acc ++ [c])
  | true, [c, d], acc =>
    if c = DOT ∧ d = SL then canonGoP true [] acc
    else if c = DOT ∧ d = DOT then (acc, false)
    else if c = SL then canonGoP true [d] (acc ++ [SL]) else canonGoP false [d] (acc ++ [c])
  | true, c :: d :: e :: t, acc =>
    if c = DOT ∧ d = SL then canonGoP true (e :: t) acc
    else if c = DOT ∧ d = DOT ∧ e = SL then (acc, false)
    else if c = SL then canonGoP true (d :: e :: t) (acc ++ [SL]) else canonGoP false (d :: e :: t) (acc ++ [c])

/-- the C string left in the buffer by `canonicalize_name(buf)` and its return value (`true` = 0).  On failure
    nothing is terminated: the written prefix is followed by the rest of the (slash-normalised) original. -/
def canonInPlace (s : Bytes) : Bytes × Bool :=
  let norm := normalizeSlashes s
  let (w, ok) := canonGoP true norm []
  if ok then (normalizeSlashes w, true) else (w ++ norm.drop w.length, false)

/-! ### `process_tarball` -/

def clampMtime (m : Int) : Int :=
  let m := if m < 0 then 0 else m                    -- `if (ent->mtime < 0) ent->mtime = 0;`
  if m > 0xFFFFFFFF then 0xFFFFFFFF else m           -- `if ((sqfs_u64)ent->mtime > 0x0FFFFFFFFUL) …`

structure ConvOpts where
  rootBecomes : Option Bytes := none          -- canonical and non-empty (checked by `process_args`)
  noSymlinkRetarget : Bool := false           -- `-S`
  keepTime : Bool := true                     -- `-k` clears it
  defMtime : Nat := 0                         -- `--defaults mtime=`
  defUid : Nat := 0
  defGid : Nat := 0
  defMode : Nat := 0o755

/-- an entry as `it->next` delivers it (name already canonical) plus its link target -/
structure CEntry where
  name : Bytes
  mode : Nat
  uid : Nat
  gid : Nat
  mtime : Int
  hardLink : Bool
  link : Option Bytes
  devMajor : Nat := 0
  devMinor : Nat := 0
  deriving Repr, DecidableEq

inductive Action
  | skip                       -- not below `--root-becomes`
  | root (e : CEntry)          -- `set_root_attribs`
  | node (e : CEntry)          -- `create_node_and_repack_data`
  deriving Repr, DecidableEq

/-- link retarget of the **repaired** code: the target is only replaced when its canonical form lies below the root -/
def retarget (r : Bytes) (link : Bytes) : Bytes :=
  match canonicalize link with
  | some c => if c.take r.length = r ∧ (c.drop r.length).head? = some SL then c.drop r.length else link
  | none => link

/-- link retarget of the unrepaired code: `canonicalize_name(link)` in place, whatever the outcome -/
def retargetCur (r : Bytes) (link : Bytes) : Bytes :=
  let (c, ok) := canonInPlace link
  if ok ∧ c.take r.length = r ∧ (c.drop r.length).head? = some SL then c.drop r.length else c

/-- body of the `for (;;)` loop between `it->next` and the call that stores the entry -/
def processEntryWith (rt : Bytes → Bytes → Bytes) (o : ConvOpts) (e : CEntry) : Action :=
  let e := { e with mtime := clampMtime e.mtime }
  let fin (e : CEntry) : CEntry := if o.keepTime then e else { e with mtime := (o.defMtime : Int) }
  match o.rootBecomes with
  | some r =>
    if e.name.take r.length = r then                                   -- `strncmp(ent->name, root_becomes, rootlen) == 0`
      match e.name.drop r.length with
      | [] => .root (fin { e with link := e.link.map fun l =>
                 if e.hardLink ∨ ¬ o.noSymlinkRetarget then rt r l else l })
      | c :: rest =>
        if c = SL then
          .node (fin { e with name := rest, link := e.link.map fun l =>
                 if e.hardLink ∨ ¬ o.noSymlinkRetarget then rt r l else l })
        else .skip
    else .skip
  | none => if e.name = [] then .root (fin e) else .node (fin e)

def processEntry := processEntryWith retarget
def processEntryCur := processEntryWith retargetCur

/-! ### `fstree_add_generic` on a flat tree -/

structure TNode where
  path : List Bytes            -- components below the root, non-empty
  mode : Nat
  uid : Nat
  gid : Nat
  modTime : Nat                -- `sqfs_u32 mod_time`
  implicit : Bool              -- `FLAG_DIR_CREATED_IMPLICITLY`
  hardLink : Bool              -- `FLAG_LINK_IS_HARD`
  target : Option Bytes
  deriving Repr, DecidableEq

def isDirMode (mode : Nat) : Bool := fmt mode = S_IFDIR

def lookup (t : List TNode) (p : List Bytes) : Option TNode := t.find? (·.path = p)

/-- `clamp_timestamp` -/
def clampTimestamp (ts : Int) : Nat :=
  if ts < 0 then 0 else if ts > 0xFFFFFFFF then 0xFFFFFFFF else ts.toNat

/-- `fstree_get_node_by_path(fs, root, path, true, true)`: walk the proper prefixes `pre ++ [c]` of the path,
    creating missing directories with the defaults; `none` = `ENOTDIR` -/
def ensureParents (o : ConvOpts) : List TNode → List Bytes → List Bytes → Option (List TNode)
  | t, _, [] => some t
  | t, _, [_] => some t                                    -- `stop_at_parent`
  | t, pre, c :: d :: rest =>
    let p := pre ++ [c]
    match lookup t p with
    | some n => if isDirMode n.mode then ensureParents o t p (d :: rest) else none
    | none =>
      let n : TNode := ⟨p, S_IFDIR + o.defMode % 4096, o.defUid, o.defGid, clampTimestamp o.defMtime, true, false, none⟩
      ensureParents o (t ++ [n]) p (d :: rest)

/-- `fstree_add_generic` for a non-root name; `none` = failure (`ENOTDIR`, `EEXIST`, `EINVAL`) -/
def addGeneric (o : ConvOpts) (t : List TNode) (e : CEntry) : Option (List TNode) :=
  if fmt e.mode = S_IFLNK ∧ e.link.isNone then none                                   -- `EINVAL`
  -- repaired (`fixes/C04-id-devno-range.patch`): SquashFS stores 32-bit ids and a 12+20 bit device number;
  -- what does not fit is refused (`ERANGE`) instead of being truncated
  else if e.uid > 0xFFFFFFFF ∨ e.gid > 0xFFFFFFFF then none
  else if (fmt e.mode = S_IFBLK ∨ fmt e.mode = S_IFCHR) ∧ ¬ e.hardLink ∧ (e.devMajor ≥ 4096 ∨ e.devMinor ≥ 1048576) then none
  else
    let comps := Sqfs.Path.splitSlash e.name
    match ensureParents o t [] comps with
    | none => none
    | some t1 =>
      match lookup t1 comps with
      | some child =>
        if isDirMode child.mode ∧ isDirMode e.mode ∧ child.implicit then
          -- overwrite path: `child->mod_time = ent->mtime` (no clamp: D20)
          some (t1.map fun n => if n.path = comps then
            { n with uid := e.uid, gid := e.gid, mode := e.mode, modTime := (e.mtime % 4294967296).toNat, implicit := false } else n)
        else none                                                                          -- `EEXIST`
      | none =>
        let tgt : Option (Option Bytes) :=
          if e.hardLink then (match canonicalize (e.link.getD []) with | some c => some (some c) | none => none)
          else some e.link
        match tgt with
        | none => none                                                                     -- `EINVAL`
        | some tg =>
          let isLnk := e.hardLink ∨ fmt e.mode = S_IFLNK
          some (t1 ++ [⟨comps, if isLnk then S_IFLNK + 0o777 else e.mode, e.uid, e.gid, clampTimestamp e.mtime, false,
                        e.hardLink, tg⟩])

/-- `sqfs_dir_writer_add_entry` (lib/sqfs/src/dir_writer.c, since the D18 repair): a name longer than 256 bytes cannot be
    stored (the on-disk length field is 8 bits, off by one), `sqfs_writer_finish` fails and tar2sqfs removes the output -/
def storable (t : List TNode) : Bool := t.all fun n => n.path.all fun c => c.length ≤ 256

end Sqfs.Tar
