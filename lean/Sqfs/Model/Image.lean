/-
The SquashFS 4.0 on-disk format as data types — written from `doc/format.adoc`, **not** from the
library's readers or headers (this module deliberately does not import `Sqfs.Generated.Consts`:
every offset and constant below is the one the specification text gives).

Input is not a raw image but the *decompressed description* printed by `harness/unz.c`
(Lean cannot inflate): superblock bytes + every metadata block `(disk offset, stored length,
compressed?, unpacked payload)` of every region/table + optional data-block answers.  The text
form of the description is documented in `docs/design/C03.md`; `Description.ofLines` reads it.

Shared by C03 (validator), C01/C04/C11/C14/C17 (independent parser).  Core Lean + Std only.
-/
import Std.Data.HashMap
import Std.Data.HashSet
namespace Sqfs.Image

abbrev Err := String

/-! ## little-endian readers (SquashFS always stores integers little endian) -/

@[inline] def u8 (d : ByteArray) (p : Nat) : Except Err Nat :=
  if h : p < d.size then .ok (d[p]'h).toNat else .error s!"read past end of stream at {p} (size {d.size})"

def u16 (d : ByteArray) (p : Nat) : Except Err Nat := do
  let a ← u8 d p; let b ← u8 d (p + 1); pure (a + 256 * b)

def u32 (d : ByteArray) (p : Nat) : Except Err Nat := do
  let a ← u16 d p; let b ← u16 d (p + 2); pure (a + 65536 * b)

def u64 (d : ByteArray) (p : Nat) : Except Err Nat := do
  let a ← u32 d p; let b ← u32 d (p + 4); pure (a + 4294967296 * b)

def slice (d : ByteArray) (p n : Nat) : Except Err ByteArray :=
  if p + n ≤ d.size then .ok (d.extract p (p + n)) else .error s!"read of {n} bytes past end of stream at {p} (size {d.size})"

/-- two's complement reading of a 16-bit field -/
def s16 (v : Nat) : Int := if v < 32768 then (v : Int) else (v : Int) - 65536

def NOTBL : Nat := 0xFFFFFFFFFFFFFFFF
def NOIDX : Nat := 0xFFFFFFFF
def META : Nat := 8192

/-! ## the description -/

/-- one metadata block as reported by `unz` -/
structure MetaBlk where
  name : String          -- region / table it was found in
  off : Nat              -- disk offset of the 2-byte header
  stored : Nat           -- lower 15 bits of the header
  compressed : Bool      -- MSB of the header clear
  status : String        -- ok | trunc | unpack-fail | unpack-over
  data : ByteArray       -- unpacked payload (empty unless ok)
  deriving Inhabited

structure Region where
  name : String
  start : Nat
  stop : Nat
  deriving Inhabited

structure LocList where
  name : String
  off : Nat
  locs : Array Nat
  deriving Inhabited

/-- answer to a data block request -/
structure DataBlk where
  off : Nat
  stored : Nat
  compressed : Bool
  status : String
  ulen : Nat
  hash : String
  payload : Option ByteArray
  deriving Inhabited

structure Description where
  version : Nat := 0
  size : Nat := 0
  super : ByteArray := ByteArray.empty
  tail : Option (Nat × Nat × Nat) := none     -- offset, bytes after bytes_used, zero bytes among them
  regions : Array Region := #[]
  locs : Array LocList := #[]
  xhdr : Option (Nat × ByteArray) := none
  blocks : Array MetaBlk := #[]
  dblks : Array DataBlk := #[]
  notes : Array String := #[]
  bad : Array String := #[]                   -- lines that could not be read
  deriving Inhabited

/-! ### reading the text form -/

def hexNib (c : UInt8) : Option UInt8 :=
  if 48 ≤ c ∧ c ≤ 57 then some (c - 48)
  else if 97 ≤ c ∧ c ≤ 102 then some (c - 87)
  else if 65 ≤ c ∧ c ≤ 70 then some (c - 55)
  else none

def hexGo (src : ByteArray) : Nat → Nat → ByteArray → Option ByteArray
  | 0, _, acc => some acc
  | n + 1, i, acc =>
    if h : i + 1 < src.size then
      match hexNib (src[i]'(by omega)), hexNib (src[i + 1]'h) with
      | some a, some b => hexGo src n (i + 2) (acc.push (a * 16 + b))
      | _, _ => none
    else none

/-- hex token → bytes (`-` = empty) -/
def hexToBytes (s : String) : Option ByteArray :=
  if s = "-" then some ByteArray.empty
  else
    let src := s.toUTF8
    if src.size % 2 = 1 then none else hexGo src (src.size / 2) 0 (ByteArray.emptyWithCapacity (src.size / 2))

def u64List (d : ByteArray) : Nat → Nat → Array Nat → Array Nat
  | 0, _, acc => acc
  | n + 1, p, acc => match u64 d p with
    | .ok v => u64List d n (p + 8) (acc.push v)
    | .error _ => acc

def Description.addLine (d : Description) (line : String) : Description :=
  let ws := (line.trimAscii.toString.splitOn " ").filter (· ≠ "")
  let badl := { d with bad := d.bad.push (line.take 80).toString }
  match ws with
  | [] => d
  | ["end"] => d
  | ["unz", v] => { d with version := v.toNat! }
  | ["size", n] => match n.toNat? with
    | some n => { d with size := n }
    | none => badl
  | ["super", h] => match hexToBytes h with
    | some b => { d with super := b }
    | none => badl
  | ["tail", a, b, c] => match a.toNat?, b.toNat?, c.toNat? with
    | some a, some b, some c => { d with tail := some (a, b, c) }
    | _, _, _ => badl
  | ["region", nm, a, b] => match a.toNat?, b.toNat? with
    | some a, some b => { d with regions := d.regions.push ⟨nm, a, b⟩ }
    | _, _ => badl
  | ["locs", nm, o, c, h] => match o.toNat?, c.toNat?, hexToBytes h with
    | some o, some c, some b => { d with locs := d.locs.push ⟨nm, o, u64List b c 0 #[]⟩ }
    | _, _, _ => badl
  | ["xhdr", o, h] => match o.toNat?, hexToBytes h with
    | some o, some b => { d with xhdr := some (o, b) }
    | _, _ => badl
  | ["m", nm, o, st, c, status, h] => match o.toNat?, st.toNat?, hexToBytes h with
    | some o, some st, some b => { d with blocks := d.blocks.push ⟨nm, o, st, c == "c", status, b⟩ }
    | _, _, _ => badl
  | "d" :: o :: st :: c :: status :: ul :: hash :: rest => match o.toNat?, st.toNat?, ul.toNat? with
    | some o, some st, some ul =>
      let pl := match rest with
        | [h] => hexToBytes h
        | _ => none
      { d with dblks := d.dblks.push ⟨o, st, c == "c", status, ul, hash, pl⟩ }
    | _, _, _ => badl
  | "note" :: r => { d with notes := d.notes.push (" ".intercalate r) }
  | _ => badl

def Description.ofLines (ls : Array String) : Description :=
  ls.foldl Description.addLine {}

def Description.blocksOf (d : Description) (name : String) : Array MetaBlk :=
  d.blocks.filter (·.name == name)

def Description.region? (d : Description) (name : String) : Option Region :=
  d.regions.find? (·.name == name)

def Description.locs? (d : Description) (name : String) : Option LocList :=
  d.locs.find? (·.name == name)

/-! ## superblock (format.adoc "The Superblock": always 96 bytes) -/

structure Super where
  magic : Nat
  inodeCount : Nat
  mtime : Nat
  blockSize : Nat
  fragCount : Nat
  compressor : Nat
  blockLog : Nat
  flags : Nat
  idCount : Nat
  vMajor : Nat
  vMinor : Nat
  rootRef : Nat
  bytesUsed : Nat
  idTable : Nat
  xattrTable : Nat
  inodeTable : Nat
  dirTable : Nat
  fragTable : Nat
  exportTable : Nat
  deriving Inhabited, Repr

def Super.decode (b : ByteArray) : Except Err Super := do
  if b.size < 96 then throw s!"superblock has {b.size} bytes, needs 96"
  pure {
    magic := ← u32 b 0, inodeCount := ← u32 b 4, mtime := ← u32 b 8, blockSize := ← u32 b 12,
    fragCount := ← u32 b 16, compressor := ← u16 b 20, blockLog := ← u16 b 22, flags := ← u16 b 24,
    idCount := ← u16 b 26, vMajor := ← u16 b 28, vMinor := ← u16 b 30, rootRef := ← u64 b 32,
    bytesUsed := ← u64 b 40, idTable := ← u64 b 48, xattrTable := ← u64 b 56, inodeTable := ← u64 b 64,
    dirTable := ← u64 b 72, fragTable := ← u64 b 80, exportTable := ← u64 b 88 }

def Super.hasFlag (s : Super) (f : Nat) : Bool := s.flags &&& f != 0

/-! ## metadata streams: a gap-free run of metadata blocks, addressed by (block location, offset) -/

structure MetaStream where
  base : Nat := 0                                   -- disk offset the references are relative to
  data : ByteArray := ByteArray.empty               -- concatenation of the unpacked payloads
  index : Std.HashMap Nat (Nat × Nat) := {}         -- relative location of a block → (stream position, unpacked length)
  starts : Array (Nat × Nat) := #[]                 -- (stream position, relative location) of each block, ascending
  deriving Inhabited

def MetaStream.ofBlocks (base : Nat) (blks : Array MetaBlk) : MetaStream :=
  blks.foldl (fun s b =>
    if b.status != "ok" then s else
    { s with index := s.index.insert (b.off - base) (s.data.size, b.data.size),
             starts := s.starts.push (s.data.size, b.off - base),
             data := s.data ++ b.data }) { base := base }

/-- "The lower 16 bit hold an offset into the uncompressed block and the upper 48 bit point to the
on-disk location of the block", relative to the table start. -/
def MetaStream.resolve (s : MetaStream) (blk off : Nat) : Except Err Nat :=
  match s.index[blk]? with
  | none => .error s!"no metadata block starts at relative location {blk}"
  | some (p, n) => if off < n then .ok (p + off) else .error s!"offset {off} is outside the {n}-byte block at relative location {blk}"

def MetaStream.resolveRef (s : MetaStream) (ref : Nat) : Except Err Nat :=
  s.resolve (ref >>> 16) (ref &&& 0xFFFF)

/-- inverse of `resolve`: the (relative block location, offset) of a stream position -/
def MetaStream.locate (s : MetaStream) (pos : Nat) : Option (Nat × Nat) :=
  let rec go (lo hi : Nat) : Nat → Option (Nat × Nat)
    | 0 => none
    | f + 1 =>
      if lo + 1 ≥ hi then
        match s.starts[lo]? with
        | some (sp, loc) => if sp ≤ pos then some (loc, pos - sp) else none
        | none => none
      else
        let mid := (lo + hi) / 2
        match s.starts[mid]? with
        | some (sp, _) => if sp ≤ pos then go mid hi f else go lo mid f
        | none => none
  go 0 s.starts.size (s.starts.size + 2)

/-! ## inodes (format.adoc "Inode Table") -/

structure DirIndex where
  index : Nat            -- byte offset from the first directory header to the header this entry is about
  start : Nat            -- location of the directory-table block holding that header
  name : ByteArray       -- name of the first entry following the header
  deriving Inhabited

inductive InodeData where
  | dir (blockIdx nlink size offset parent : Nat)
  | dirExt (nlink size blockIdx parent idxCount offset xattr : Nat) (index : Array DirIndex)
  | file (start fragIdx fragOff size : Nat) (blocks : Array Nat)
  | fileExt (start size sparse nlink fragIdx fragOff xattr : Nat) (blocks : Array Nat)
  | slink (nlink : Nat) (target : ByteArray)
  | slinkExt (nlink : Nat) (target : ByteArray) (xattr : Nat)
  | dev (nlink devno : Nat)
  | devExt (nlink devno xattr : Nat)
  | ipc (nlink : Nat)
  | ipcExt (nlink xattr : Nat)
  deriving Inhabited

structure Inode where
  typ : Nat              -- 1..14
  mode : Nat
  uidIdx : Nat
  gidIdx : Nat
  mtime : Nat
  ino : Nat
  data : InodeData
  pos : Nat              -- stream position of the inode
  len : Nat              -- encoded length in bytes
  deriving Inhabited

/-- the corresponding basic type ("For extended inodes, the basic type is stored here instead") -/
def basicType (t : Nat) : Nat := if t > 7 then t - 7 else t

def typeName (t : Nat) : String :=
  match basicType t with
  | 1 => "dir" | 2 => "file" | 3 => "slink" | 4 => "bdev" | 5 => "cdev" | 6 => "fifo" | 7 => "sock" | _ => "?"

def Inode.isDir (i : Inode) : Bool := basicType i.typ == 1

def Inode.nlink (i : Inode) : Nat :=
  match i.data with
  | .dir _ n _ _ _ => n | .dirExt n .. => n | .file .. => 1 | .fileExt _ _ _ n .. => n
  | .slink n _ => n | .slinkExt n _ _ => n | .dev n _ => n | .devExt n _ _ => n | .ipc n => n | .ipcExt n _ => n

def Inode.xattr (i : Inode) : Nat :=
  match i.data with
  | .dirExt _ _ _ _ _ _ x _ => x | .fileExt _ _ _ _ _ _ x _ => x | .slinkExt _ _ x => x
  | .devExt _ _ x => x | .ipcExt _ x => x | _ => NOIDX

/-! ## directory listings (format.adoc "Directory Table") -/

structure DirEnt where
  offset : Nat           -- offset into the uncompressed inode metadata block
  delta : Int            -- s16 difference of the inode number to the header's reference
  typ : Nat
  name : ByteArray
  deriving Inhabited

structure DirHdr where
  rel : Nat              -- byte offset of this header from the first header of the listing
  pos : Nat              -- stream position of this header
  count : Nat            -- number of entries (stored off by one; this is the real count)
  start : Nat            -- location of the inode-table block, relative to the inode table start
  ino : Nat              -- reference inode number
  ents : Array DirEnt
  deriving Inhabited

/-! ## lookup table records -/

structure FragEnt where
  start : Nat
  size : Nat             -- on-disk size word (bit 24 = uncompressed)
  unused : Nat
  deriving Inhabited

structure XattrId where
  ref : Nat
  count : Nat
  size : Nat
  deriving Inhabited

structure XattrPair where
  key : ByteArray        -- full key including the prefix
  value : ByteArray
  ool : Bool
  deriving Inhabited

/-- data block size word: bit 24 set = stored uncompressed, low 24 bits = on-disk size -/
def blkStored (w : Nat) : Nat := w &&& 0xFFFFFF
def blkUncompressed (w : Nat) : Bool := w &&& 0x1000000 != 0

end Sqfs.Image
