/-
Model of the two ends of the `rdsquashfs --describe` → `gensquashfs --pack-file` pipe (property C16):

* `lib/util/src/split_line.c`           — `splitLine`   (tokeniser of a pack-file line)
* `lib/util/src/parse_int.c`            — `parseNum`    (`parse_uint`, `parse_uint_oct` as called with len = -1, diff = NULL)
* `lib/util/src/get_line.c`             — `fileLines`   (`istream_get_line` with LTRIM | SKIP_EMPTY)
* `bin/gensquashfs/src/fstree_from_file.c` — `handleLine`, `fstreeFromFile` (keyword table, arity, field decoding,
                                           up to the `sqfs_dir_entry_t` + `extra` handed to `fstree_add_generic`)
* `bin/rdsquashfs/src/describe.c`       — `describeNode`, `describeTree`: the printer **without the line-feed test**,
                                           i.e. the code between fix 96e45c1 "quote and escape names, link targets and
                                           file locations" and fix 4b35342 "refuse a line feed".  The printer as it is
                                           in /repo is `Sqfs/Model/QuoteLF.lean` (it reuses everything here and adds the
                                           test; the two agree wherever nothing to print contains LF); the printer of
                                           the pinned snapshot is `Sqfs/Model/QuoteOld.lean`
* `lib/common/src/dir_tree.c: sqfs_tree_node_get_path` — `getPath`
* glibc `major`/`minor`/`makedev` (sys/sysmacros.h) — `devMajor`, `devMinor`, `makedev`

A C string is the list of its bytes before the NUL.  `split_line` works in place with `dst ≤ src`; the model reads
the original and emits the tokens (the write cursor is made explicit in `splitPos` below, with the lemma
`Sqfs.C16.split_dst_le_src`).
-/
import Sqfs.Model.Path
import Sqfs.Generated.Consts
deriving instance DecidableEq for Except

namespace Sqfs.Quote
open Sqfs.Path (Bytes)

abbrev NUL : UInt8 := 0
abbrev TAB : UInt8 := 9
abbrev LF : UInt8 := 10
abbrev CR : UInt8 := 13
abbrev SP : UInt8 := 32
abbrev DQ : UInt8 := 34     -- '"'
abbrev HASH : UInt8 := 35   -- '#'
abbrev BS : UInt8 := 92     -- '\\'
abbrev SL : UInt8 := 47     -- '/'

/-! ## `split_line.c` -/

inductive SplitErr
  | unmatchedQuote   -- SPLIT_LINE_UNMATCHED_QUOTE
  | escape           -- SPLIT_LINE_ESCAPE
  | fuel             -- never returned (`Sqfs.C16.split_never_fuel`); SPLIT_LINE_ALLOC is outside the model
  deriving DecidableEq, Repr

/-- `is_sep`: `strchr(sep, c) != NULL && c != '\0'` -/
def isSep (sep : Bytes) (c : UInt8) : Bool := sep.contains c && c != NUL

/-- `while (len > 0 && is_sep(sep, *src)) { ++src; --len; }` (lines 41–44 and 82–85) -/
def skipSep (sep : Bytes) : Bytes → Bytes
  | [] => []
  | c :: r => if isSep sep c then skipSep sep r else c :: r

/--
Body of a quoted token, entered after the opening `"` (lines 55–74).  Returns the token and what follows the
closing quote.  `len == 0` or a NUL before the closing quote: `fail_quote`; a backslash followed by anything but
`"` or `\` (or by the end of the buffer): `fail_esc`.
-/
def quoted : Bytes → Except SplitErr (Bytes × Bytes)
  | [] => .error .unmatchedQuote                      -- len == 0
  | c :: r =>
    if c = NUL then .error .unmatchedQuote            -- *src == '\0' leaves the loop, *src != '"'
    else if c = DQ then .ok ([], r)
    else if c = BS then
      match r with
      | [] => .error .escape                          -- len < 2
      | d :: r' =>
        if d = DQ || d = BS then
          match quoted r' with
          | .ok (t, rest) => .ok (d :: t, rest)
          | .error e => .error e
        else .error .escape
    else
      match quoted r with
      | .ok (t, rest) => .ok (c :: t, rest)
      | .error e => .error e

/-- unquoted token (lines 76–79): copy until separator, NUL or end of buffer -/
def unquoted (sep : Bytes) : Bytes → Bytes × Bytes
  | [] => ([], [])
  | c :: r =>
    if isSep sep c || c = NUL then ([], c :: r)
    else let p := unquoted sep r; (c :: p.1, p.2)

/--
Outer loop `while (len > 0 && *src != '\0')` (lines 46–88).  Every iteration consumes at least one byte, so
`fuel = length` suffices (`split_never_fuel`).
-/
def splitLoop (sep : Bytes) : Nat → Bytes → Except SplitErr (List Bytes)
  | _, [] => .ok []
  | 0, _ :: _ => .error .fuel
  | fuel + 1, c :: r =>
    if c = NUL then .ok []
    else if c = DQ then
      match quoted r with
      | .error e => .error e
      | .ok (tok, rest) =>
        match splitLoop sep fuel (skipSep sep rest) with
        | .ok toks => .ok (tok :: toks)
        | .error e => .error e
    else
      let p := unquoted sep (c :: r)
      match splitLoop sep fuel (skipSep sep p.2) with
      | .ok toks => .ok (p.1 :: toks)
      | .error e => .error e

/-- `split_line(line, strlen(line) or any len, sep, &out)`; the model's `line` is the `len` bytes handed in. -/
def splitLine (sep : Bytes) (line : Bytes) : Except SplitErr (List Bytes) :=
  splitLoop sep line.length (skipSep sep line)

/-- the separator set every pack-file caller uses: `" \t"` -/
def packSep : Bytes := [SP, TAB]

/-!
### the in-place cursors made explicit
`splitPos` runs the same loop but also tracks `src` (bytes consumed) and `dst` (bytes written, tokens plus their
NUL terminators) and reports, for every token, the pair `(dst, src)` at the moment the token starts.
-/
def splitPos (sep : Bytes) : Nat → Bytes → Nat → Nat → Except SplitErr (List (Nat × Nat))
  | _, [], _, _ => .ok []
  | 0, _ :: _, _, _ => .error .fuel
  | fuel + 1, c :: r, dst, src =>
    if c = NUL then .ok []
    else if c = DQ then
      match quoted r with
      | .error e => .error e
      | .ok (tok, rest) =>
        let rest' := skipSep sep rest
        match splitPos sep fuel rest' (dst + tok.length + 1) (src + ((c :: r).length - rest'.length)) with
        | .ok l => .ok ((dst, src) :: l)
        | .error e => .error e
    else
      let p := unquoted sep (c :: r)
      let rest' := skipSep sep p.2
      match splitPos sep fuel rest' (dst + p.1.length + 1) (src + ((c :: r).length - rest'.length)) with
      | .ok l => .ok ((dst, src) :: l)
      | .error e => .error e

/-! ## `parse_int.c` (`parse` as reached through `parse_uint` / `parse_uint_oct` with `len = -1`, `diff = NULL`) -/

inductive NumErr
  | corrupted     -- SQFS_ERROR_CORRUPTED
  | overflow      -- SQFS_ERROR_OVERFLOW
  | outOfBounds   -- SQFS_ERROR_OUT_OF_BOUNDS
  deriving DecidableEq, Repr

def u64Max : Nat := 0xFFFFFFFFFFFFFFFF

/-- `isdigit` in the C locale -/
def isDigit (c : UInt8) : Bool := 48 ≤ c && c ≤ 57

/-- the `while (len > 0 && isdigit(*in))` loop; returns the value and the unconsumed rest -/
def parseDigits (base : Nat) : Bytes → Nat → Except NumErr (Nat × Bytes)
  | [], out => .ok (out, [])
  | c :: r, out =>
    if isDigit c then
      let x := c.toNat - 48
      if x ≥ base then .ok (out, c :: r)                         -- break
      else if out ≥ u64Max / base then .error .overflow
      else if out * base > u64Max - x then .error .overflow
      else parseDigits base r (out * base + x)
    else .ok (out, c :: r)

/-- `parse(in, -1, NULL, base, vmin, vmax, &out)` on the C string `s` -/
def parseNum (base vmin vmax : Nat) (s : Bytes) : Except NumErr Nat :=
  match s with
  | [] => .error .corrupted
  | c :: _ =>
    if !isDigit c then .error .corrupted
    else match parseDigits base s 0 with
      | .error e => .error e
      | .ok (out, rest) =>
        if vmin < vmax && (out < vmin || out > vmax) then .error .outOfBounds
        else if rest ≠ [] then .error .corrupted
        else .ok out

/-! ## `printf("%o")`, `printf("%u")` -/

def digitsAux (base : Nat) : Nat → Nat → Bytes → Bytes
  | 0, _, acc => acc
  | f + 1, n, acc =>
    let acc' := UInt8.ofNat (48 + n % base) :: acc
    if n / base = 0 then acc' else digitsAux base f (n / base) acc'

/-- digits of `n` in base 8 or 10, most significant first, `"0"` for 0 -/
def printNat (base n : Nat) : Bytes := digitsAux base (n + 1) n []

/-! ## glibc `major` / `minor` / `makedev` -/

def devMajor (d : Nat) : Nat := ((d &&& 0x00000000000fff00) >>> 8) ||| ((d &&& 0xfffff00000000000) >>> 32)
def devMinor (d : Nat) : Nat := (d &&& 0x00000000000000ff) ||| ((d &&& 0x00000ffffff00000) >>> 12)
def makedev (maj min : Nat) : Nat :=
  ((maj &&& 0x00000fff) <<< 8) ||| ((maj &&& 0xfffff000) <<< 32) ||| (min &&& 0x000000ff) ||| ((min &&& 0xffffff00) <<< 12)

/-! ## `fstree_from_file.c` -/

structure Opt where
  keepUid : Bool := true      -- `opt->dirscan_flags & DIR_SCAN_KEEP_UID` (set unless --all-root / --set-uid)
  keepGid : Bool := true
  forceUid : Nat := 0
  forceGid : Nat := 0
  deriving Repr

/-- what `handle_line` hands to `fstree_add_generic`: the `sqfs_dir_entry_t` fields it sets, and `extra` -/
structure Entry where
  name : Bytes
  mode : Nat
  uid : Nat
  gid : Nat
  rdev : Nat
  extra : Option Bytes
  flags : Nat := 0      -- `ent->flags`: `cb->flags` of the keyword (SQFS_DIR_ENTRY_FLAG_HARD_LINK for `link`, 0 otherwise)
  deriving DecidableEq, Repr

inductive HErr
  | entry        -- "error in entry description" (fewer than 5 fields, or the path has a ".." component)
  | keyword      -- "unknown entry type"
  | root         -- "cannot use / as argument"
  | mode         -- "mode must be an octal number <= 07777"
  | uidGid       -- "uid & gid must be decimal numbers < 2^32"
  | noExtra      -- "missing argument"
  | tooMany      -- add_generic: "too many arguments"
  | devArgs      -- add_device: "wrong number of arguments"
  | devType      -- add_device: "unknown device type"
  | devNum       -- add_device: "error parsing device number"
  | glob         -- a `glob` line that passed field decoding: handed to glob_files, outside this model
  deriving DecidableEq, Repr

inductive Callback | generic | device | file
  deriving DecidableEq, Repr

/-! keywords (ASCII) -/
def KW_DIR : Bytes := [100, 105, 114]   -- "dir"
def KW_SLINK : Bytes := [115, 108, 105, 110, 107]   -- "slink"
def KW_LINK : Bytes := [108, 105, 110, 107]   -- "link"
def KW_NOD : Bytes := [110, 111, 100]   -- "nod"
def KW_PIPE : Bytes := [112, 105, 112, 101]   -- "pipe"
def KW_SOCK : Bytes := [115, 111, 99, 107]   -- "sock"
def KW_FILE : Bytes := [102, 105, 108, 101]   -- "file"

structure Hook where
  keyword : Bytes
  mode : Nat
  flags : Nat
  needExtra : Bool
  allowRoot : Bool
  cb : Callback
  deriving DecidableEq

open Sqfs.Consts in
/-- `file_list_hooks[]`: keyword, mode, flags, need_extra, allow_root, callback -/
def hooks : List Hook := [
  ⟨KW_DIR,   sIFDIR,  0, false, true,  .generic⟩,
  ⟨KW_SLINK, sIFLNK,  0, true,  false, .generic⟩,
  ⟨KW_LINK,  sIFLNK,  dirEntryFlagHardLink, true,  false, .generic⟩,
  ⟨KW_NOD,   0,       0, true,  false, .device⟩,
  ⟨KW_PIPE,  sIFIFO,  0, false, false, .generic⟩,
  ⟨KW_SOCK,  sIFSOCK, 0, false, false, .generic⟩,
  ⟨KW_FILE,  sIFREG,  0, false, false, .file⟩ ]

def findHook (kw : Bytes) : List Hook → Option Hook
  | [] => none
  | h :: r => if h.keyword = kw then some h else findHook kw r

/-- `add_generic`: at most one remaining argument, which becomes `extra` -/
def addGeneric (ent : Entry) (args : List Bytes) : Except HErr Entry :=
  match args with
  | [] => .ok { ent with extra := none }
  | [a] => .ok { ent with extra := some a }
  | _ :: _ :: _ => .error .tooMany

open Sqfs.Consts in
/-- `add_device` -/
def addDevice (ent : Entry) (args : List Bytes) : Except HErr Entry :=
  match args with
  | [t, a, b] =>
    let ty : Option Nat :=
      if t = [99] || t = [67] then some sIFCHR            -- "c" / "C"
      else if t = [98] || t = [66] then some sIFBLK       -- "b" / "B"
      else none
    match ty with
    | none => .error .devType
    | some ifmt =>
      match parseNum 10 0 0x0FFFFFFFF a with
      | .error _ => .error .devNum
      | .ok maj =>
        match parseNum 10 0 0x0FFFFFFFF b with
        | .error _ => .error .devNum
        | .ok min => addGeneric { ent with mode := ent.mode ||| ifmt, rdev := makedev maj min } []
  | _ => .error .devArgs

/-- `add_file`: a missing location defaults to the (canonicalised) image path -/
def addFile (ent : Entry) (args : List Bytes) : Except HErr Entry :=
  match args with
  | [] => addGeneric ent [ent.name]
  | _ => addGeneric ent args

def GLOB : Bytes := [103, 108, 111, 98]
def STAR : Bytes := [42]

/-- `handle_line` on the token list produced by `split_line` -/
def handleLine (opt : Opt) (args : List Bytes) : Except HErr Entry :=
  match args with
  | kw :: path :: m :: u :: g :: rest =>
    let cb := findHook kw hooks
    let isGlob := cb.isNone && kw = GLOB
    if cb.isNone && !isGlob then .error .keyword
    else match Sqfs.Path.canonicalize path with
    | none => .error .entry
    | some path =>
      if path = [] && !(isGlob || (cb.map (·.allowRoot)).getD false) then .error .root
      else
        let modeR : Except HErr Nat :=
          if isGlob && m = STAR then .ok 0
          else match parseNum 8 0 0o7777 m with
            | .ok v => .ok v
            | .error _ => .error .mode
        match modeR with
        | .error e => .error e
        | .ok mode =>
          let uidR : Except HErr Nat :=
            if isGlob && u = STAR then .ok 0
            else match parseNum 10 0 0x0FFFFFFFF u with
              | .ok v => .ok v
              | .error _ => .error .uidGid
          match uidR with
          | .error e => .error e
          | .ok uid =>
            let uid := if opt.keepUid then uid else opt.forceUid
            let gidR : Except HErr Nat :=
              if isGlob && g = STAR then .ok 0
              else match parseNum 10 0 0x0FFFFFFFF g with
                | .ok v => .ok v
                | .error _ => .error .uidGid
            match gidR with
            | .error e => .error e
            | .ok gid =>
              let gid := if opt.keepGid then gid else opt.forceGid
              match cb with
              | none => .error .glob
              | some h =>
                if h.needExtra && rest = [] then .error .noExtra
                else
                  -- `ent->flags = is_glob ? 0 : cb->flags` (since 99d70b1: a `link` line is a hard link)
                  let ent : Entry := { name := path, mode := mode ||| h.mode, uid := uid, gid := gid, rdev := 0, extra := none, flags := h.flags }
                  match h.cb with
                  | .generic => addGeneric ent rest
                  | .device => addDevice ent rest
                  | .file => addFile ent rest
  | _ => .error .entry

/-! ## `get_line.c` as used by `fstree_from_file_stream` (flags LTRIM | SKIP_EMPTY) -/

/-- `isspace` in the C locale -/
def isSpace (c : UInt8) : Bool := c = SP || (9 ≤ c && c ≤ 13)

def ltrim : Bytes → Bytes
  | [] => []
  | c :: r => if isSpace c then ltrim r else c :: r

/-- the bytes of a C string: everything before the first NUL -/
def cstr : Bytes → Bytes
  | [] => []
  | c :: r => if c = NUL then [] else c :: cstr r

/-- drop one trailing CR (`if (line_len > 0 && line[line_len - 1] == '\r')`), only for LF-terminated lines -/
def stripCR (l : Bytes) : Bytes :=
  match l.getLast? with
  | some c => if c = CR then l.dropLast else l
  | none => l

/-- split the file content at LF; the flag says whether the piece was terminated by LF (false only for the tail) -/
def splitLF : Bytes → Bytes → List (Bytes × Bool)
  | [], cur => if cur = [] then [] else [(cur.reverse, false)]   -- EOF: `line_len == 0` → out_eof
  | c :: r, cur => if c = LF then (cur.reverse, true) :: splitLF r [] else splitLF r (c :: cur)

/-- one raw piece → the line `istream_get_line` returns (empty ⇒ skipped) -/
def cookLine (p : Bytes × Bool) : Bytes := ltrim (cstr (if p.2 then stripCR p.1 else p.1))

inductive FErr
  | split (e : SplitErr)
  | handle (e : HErr)
  deriving DecidableEq, Repr

/-- the per-line loop of `fstree_from_file_stream`; returns the entries handed to `fstree_add_generic` so far, and
the error that stopped it (with the index of the offending non-empty line) if any -/
def fromLines (opt : Opt) : List Bytes → List Entry × Option FErr
  | [] => ([], none)
  | l :: r =>
    if l = [] then fromLines opt r                         -- SKIP_EMPTY
    else if l.head? = some HASH then fromLines opt r       -- comment
    else match splitLine packSep l with
      | .error e => ([], some (.split e))
      | .ok toks =>
        match handleLine opt toks with
        | .error e => ([], some (.handle e))
        | .ok ent => let p := fromLines opt r; (ent :: p.1, p.2)

def fstreeFromFile (opt : Opt) (content : Bytes) : List Entry × Option FErr :=
  fromLines opt ((splitLF content []).map cookLine)

/-! ## `describe.c` without the line-feed test of 4b35342 (`print_escaped` quotes on space, tab, CR, `"`, `\`) -/

inductive Kind | dir | file | slink | chr | blk | fifo | sock | other
  deriving DecidableEq, Repr

/-- the fields of a `sqfs_tree_node_t` (+ its inode) that `describe_tree` reads -/
structure Node where
  kind : Kind            -- `inode->base.mode & S_IFMT`
  perm : Nat             -- `inode->base.mode & ~S_IFMT` (a 16-bit mode: < 0o10000)
  uid : Nat              -- u32
  gid : Nat              -- u32
  target : Bytes := []   -- `inode->extra` of a symlink
  devno : Nat := 0       -- u32
  deriving DecidableEq, Repr

inductive DErr
  | insaneName     -- `is_filename_sane` refused the node's name
  | path           -- `sqfs_tree_node_get_path` failed (empty / "." / ".." / contains '/')
  | canon          -- `canonicalize_name` failed
  | newline        -- `Sqfs.QuoteLF` (the printer in /repo): a string to print contains LF
  deriving DecidableEq, Repr

/-- `sqfs_tree_node_get_path` for the node whose ancestors' names (root excluded) and own name are `comps` -/
def getPath (comps : List Bytes) : Except DErr Bytes :=
  if comps = [] then .ok [SL]
  else if comps.any (fun c => c = [] || c.contains SL || c = [46] || c = [46, 46]) then .error .path
  else .ok (comps.foldr (fun c acc => SL :: c ++ acc) [])

/-- does the string need quotes: empty, or `strpbrk(str, " \t\r\"\\") != NULL` -/
def needsQuote (s : Bytes) : Bool :=
  s = [] || s.any (fun c => c = SP || c = TAB || c = CR || c = DQ || c = BS)

/-- the loop of `print_escaped`: a backslash in front of every `"` and `\` -/
def escapeBody : Bytes → Bytes
  | [] => []
  | c :: r => if c = DQ || c = BS then BS :: c :: escapeBody r else c :: escapeBody r

/-- `print_escaped` -/
def printEscaped (s : Bytes) : Bytes :=
  if needsQuote s then DQ :: escapeBody s ++ [DQ] else s

/-- `print_perm`: `" 0%o %u %u"` -/
def printPerm (n : Node) : Bytes :=
  [SP, 48] ++ printNat 8 n.perm ++ [SP] ++ printNat 10 n.uid ++ [SP] ++ printNat 10 n.gid

/-- the canonical image path `print_name` prints: `canonicalize_name(sqfs_tree_node_get_path(n))` -/
def nodePath (comps : List Bytes) : Except DErr Bytes :=
  match getPath comps with
  | .error e => .error e
  | .ok p => match Sqfs.Path.canonicalize p with
    | none => .error .canon
    | some q => .ok q

/-- `print_name(n, NULL)`: the root is printed as `/` -/
def printName (path : Bytes) : Bytes := if path = [] then [SL] else printEscaped path

/--
One call of `describe_tree` without the recursion into children: the line (including the LF) printed for the
node at `comps`, or nothing.
-/
def describeNode (unpackRoot : Option Bytes) (comps : List Bytes) (n : Node) : Except DErr Bytes :=
  if !(Sqfs.Path.isFilenameSane (comps.getLast?.getD [])) then .error .insaneName
  else
    let simple (kwd : Bytes) (extra : Option Bytes) : Except DErr Bytes :=
      match nodePath comps with
      | .error e => .error e
      | .ok p => .ok (kwd ++ [SP] ++ printName p ++ printPerm n ++ (match extra with | none => [] | some e => SP :: e) ++ [LF])
    match n.kind with
    | .sock => simple KW_SOCK none
    | .slink => simple KW_SLINK (some (printEscaped n.target))
    | .fifo => simple KW_PIPE none
    | .file =>
      match unpackRoot with
      | none => simple KW_FILE none
      | some root =>
        match nodePath comps with
        | .error e => .error e
        | .ok p => simple KW_FILE (some (printEscaped (root ++ SL :: p)))
    | .chr => simple KW_NOD (some ([99, SP] ++ printNat 10 (devMajor (n.devno % 2^32) % 2^32) ++ [SP] ++ printNat 10 (devMinor (n.devno % 2^32) % 2^32)))
    | .blk => simple KW_NOD (some ([98, SP] ++ printNat 10 (devMajor (n.devno % 2^32) % 2^32) ++ [SP] ++ printNat 10 (devMinor (n.devno % 2^32) % 2^32)))
    | .dir =>
      -- `if (root->name[0] != '\\0' || root->parent == NULL)`: a nameless non-root directory prints nothing
      if comps ≠ [] && comps.getLast?.getD [] = [] then .ok [] else simple KW_DIR none
    | .other => .ok []

/-- a directory tree as `sqfs_dir_reader_get_full_hierarchy` returns it -/
inductive Tree
  | mk (name : Bytes) (node : Node) (children : List Tree)

def Tree.name : Tree → Bytes
  | .mk n _ _ => n

mutual
/-- `describe_tree` on the node reached through `comps` (= [] for the root): the node's own line, then (for
directories) the children in list order; stops at the first error -/
def describeTree (unpackRoot : Option Bytes) (comps : List Bytes) : Tree → Except DErr Bytes
  | .mk _ node children =>
    match describeNode unpackRoot comps node with
    | .error e => .error e
    | .ok line =>
      if node.kind = .dir then
        match describeForest unpackRoot comps children with
        | .error e => .error e
        | .ok rest => .ok (line ++ rest)
      else .ok line
def describeForest (unpackRoot : Option Bytes) (parents : List Bytes) : List Tree → Except DErr Bytes
  | [] => .ok []
  | .mk name node ch :: ts =>
    match describeTree unpackRoot (parents ++ [name]) (.mk name node ch) with
    | .error e => .error e
    | .ok a =>
      match describeForest unpackRoot parents ts with
      | .error e => .error e
      | .ok b => .ok (a ++ b)
end

def Tree.node : Tree → Node
  | .mk _ n _ => n

/-- `describe_tree(root, unpack_root)` as `rdsquashfs -d` calls it: the root node has no parent; its name is empty in
every tree `sqfs_dir_reader_get_full_hierarchy` returns.  For a parentless node that does have a name (never built by
rdsquashfs; the harness does): `is_filename_sane` is asked first, then every kind that prints calls
`sqfs_tree_node_get_path`, which fails ("root node must not have a name") — a directory included, because
`root->parent == NULL` makes it print; the remaining kinds print nothing and succeed. -/
def describe (unpackRoot : Option Bytes) (t : Tree) : Except DErr Bytes :=
  if t.name = [] then describeTree unpackRoot [] t
  else if !(Sqfs.Path.isFilenameSane t.name) then .error .insaneName
  else if t.node.kind = .other then .ok []
  else .error .path

end Sqfs.Quote
