/-
Model of the stream-compression layer (`lib/xfrm`), property C15.

* `Codec`        — an abstract incremental transformation (`xfrm_stream_t::process_data`):
                   state × offered input × room in the output buffer × flush mode
                   → state × bytes consumed × bytes produced × result code.
* `OStream`      — `ostream_xfrm_t`      (`lib/xfrm/src/ostream.c`): `flush_inbuf`, `xfrm_append`, `xfrm_flush`.
* `IStream`      — `istream_xfrm_t`      (`lib/xfrm/src/istream.c`): `precache`, `xfrm_get_buffered_data`,
                   `xfrm_advance_buffer`, over a wrapped stream that hands out arbitrary non-empty prefixes
                   of what is left (every chunking).
* `Lib`/`wrap*`  — the `process_data` loops of `gzip.c`, `xz.c`, `bzip2.c`, `zstd.c` over an abstract
                   library stream (zlib / liblzma / libbz2 / libzstd calling convention).
* `Toy`          — a concrete small codec with internal buffering and limited output granularity
                   (the same codec is the fake `xfrm_stream_t` / fake library of `harness/h_c15.c`).

All loops are written with explicit fuel; `none` means "the C loop does not leave within `fuel`
iterations" (the C code has no bound: it spins).  The buffer size (`BUFSZ`, 262144 in both C files) is a
parameter.

The definitions mirror the **current** tree of /repo (after fix commits `8eb5186` — the backends keep calling the library
while a `FLUSH_FULL` is pending and report a decoder that is cut off in mid-member — and `7b3a56e` — gzip: every zlib
error is a stream error).  The loops as they were before are `Sqfs/Model/XfrmOld.lean`, kept for `Sqfs/Witness/C15.lean`.
`istream.c` / `ostream.c` were not touched by those commits.
-/
import Sqfs.Generated.Consts
namespace Sqfs.Xfrm

abbrev Bytes := List UInt8

/-- `XFRM_STREAM_FLUSH` (`include/xfrm/stream.h`) -/
inductive Flush where
  | none | sync | full
  deriving DecidableEq, Repr, Inhabited

/-- `XFRM_STREAM_RESULT` -/
inductive Res where
  | error | ok | streamEnd | bufferFull
  deriving DecidableEq, Repr, Inhabited

/-- what one call of `process_data` does: `*in_read += consumed`, `*out_written += out.length` -/
structure StepOut (σ : Type) where
  st : σ
  consumed : Nat
  out : Bytes
  res : Res
  deriving DecidableEq

structure Codec (σ : Type) where
  init : σ
  /-- `process_data(state, in[0..n), room, mode)` -/
  step : σ → Bytes → Nat → Flush → StepOut σ

/-- `SQFS_ERROR_COMPRESSOR` (generated from `sqfs/error.h`; the C value is the negation) -/
def errCompressor : Int := - (Sqfs.Consts.errCompressor : Int)

/-- result of a loop: `none` = still running when the fuel ran out; `error e` = returned `e < 0`. -/
abbrev Outcome (α : Type) := Option (Except Int α)

instance {ε α : Type} [DecidableEq ε] [DecidableEq α] : DecidableEq (Except ε α) := fun a b =>
  match a, b with
  | .ok x, .ok y => if h : x = y then isTrue (by rw [h]) else isFalse (by intro h'; cases h'; exact h rfl)
  | .error x, .error y => if h : x = y then isTrue (by rw [h]) else isFalse (by intro h'; cases h'; exact h rfl)
  | .ok _, .error _ => isFalse (by intro h; cases h)
  | .error _, .ok _ => isFalse (by intro h; cases h)

/-- one round of a loop: leave with a result, or go round again with a new loop state -/
inductive LoopStep (α β : Type) where
  | done (r : β)
  | next (a : α)
  deriving DecidableEq

/-- a C loop with explicit fuel: `body` is one round; `none` = still going round when the fuel ran out -/
def iter {α β : Type} (body : α → LoopStep α β) : Nat → α → Option β
  | 0, _ => none
  | fuel + 1, a =>
    match body a with
    | LoopStep.done r => some r
    | LoopStep.next a' => iter body fuel a'

/-! ## `ostream_xfrm_t` -/

structure OState (σ : Type) where
  cs : σ
  /-- `inbuf[0 .. inbuf_used)` -/
  inbuf : Bytes
  /-- everything handed to `wrapped->append` so far -/
  sink : Bytes
  /-- number of `wrapped->flush` calls -/
  flushed : Nat := 0
  deriving DecidableEq

/--
One round of `flush_inbuf`'s loop `while (finish || off_in < avail_in)`; `rest` is `inbuf[off_in .. avail_in)`.
`off_out` is 0 at every call (it is reset after every `wrapped->append`), so the room is always `BUFSZ`.
-/
def flushBody {σ : Type} (C : Codec σ) (bufsz : Nat) (finish : Bool) :
    σ × Bytes × Bytes → LoopStep (σ × Bytes × Bytes) (Except Int (σ × Bytes × Bytes))
  | (cs, rest, sink) =>
    if finish || decide (0 < rest.length) then
      let r := C.step cs rest bufsz (if finish then Flush.full else Flush.none)
      if r.res = Res.error then LoopStep.done (.error errCompressor)          -- return SQFS_ERROR_COMPRESSOR
      else if r.res = Res.streamEnd then
        LoopStep.done (.ok (r.st, rest.drop r.consumed, sink ++ r.out))         -- wrapped->append(outbuf, off_out); break
      else LoopStep.next (r.st, rest.drop r.consumed, sink ++ r.out)
    else LoopStep.done (.ok (cs, rest, sink))

def flushLoop {σ : Type} (C : Codec σ) (bufsz : Nat) (finish : Bool) (fuel : Nat) (cs : σ) (rest sink : Bytes) :
    Outcome (σ × Bytes × Bytes) :=
  iter (flushBody C bufsz finish) fuel (cs, rest, sink)

/-- `flush_inbuf(xfrm, finish)`; afterwards `inbuf` holds the unconsumed tail (the `memmove`) -/
def flushInbuf {σ : Type} (C : Codec σ) (bufsz fuel : Nat) (st : OState σ) (finish : Bool) : Outcome (OState σ) :=
  match flushLoop C bufsz finish fuel st.cs st.inbuf st.sink with
  | none => none
  | some (.error e) => some (.error e)
  | some (.ok (cs, rest, sink)) => some (.ok { st with cs := cs, inbuf := rest, sink := sink })

/-- one round of `xfrm_append`'s loop `while (size > 0)`; `data` is what is still to be copied -/
def appendBody {σ : Type} (C : Codec σ) (bufsz fuel : Nat) :
    OState σ × Bytes → LoopStep (OState σ × Bytes) (Outcome (OState σ))
  | (st, data) =>
    if data.length = 0 then LoopStep.done (some (.ok st))
    else
      match (if bufsz ≤ st.inbuf.length then flushInbuf C bufsz fuel st false else some (.ok st)) with
      | none => LoopStep.done none
      | some (.error e) => LoopStep.done (some (.error e))
      | some (.ok st1) =>
        let diff := min (bufsz - st1.inbuf.length) data.length
        LoopStep.next ({ st1 with inbuf := st1.inbuf ++ data.take diff }, data.drop diff)

def appendLoop {σ : Type} (C : Codec σ) (bufsz fuel : Nat) (k : Nat) (st : OState σ) (data : Bytes) : Outcome (OState σ) :=
  match iter (appendBody C bufsz fuel) k (st, data) with
  | none => none
  | some r => r

/-- the bytes an `append(data, size)` call stands for: `data == NULL` means `size` zero bytes -/
def appendBytes (data : Option Bytes) (size : Nat) : Bytes :=
  match data with
  | some d => d
  | none => List.replicate size 0

/-- `xfrm_append(strm, data, size)` -/
def oAppend {σ : Type} (C : Codec σ) (bufsz fuel : Nat) (st : OState σ) (data : Bytes) : Outcome (OState σ) :=
  appendLoop C bufsz fuel (data.length + 1) st data

/-- `xfrm_flush` -/
def oFlush {σ : Type} (C : Codec σ) (bufsz fuel : Nat) (st : OState σ) : Outcome (OState σ) :=
  match (if 0 < st.inbuf.length then flushInbuf C bufsz fuel st true else some (.ok st)) with
  | none => none
  | some (.error e) => some (.error e)
  | some (.ok st1) => some (.ok { st1 with flushed := st1.flushed + 1 })

def oInit {σ : Type} (C : Codec σ) : OState σ := { cs := C.init, inbuf := [], sink := [] }

/-- operations on the output stream -/
inductive OOp where
  | append (data : Bytes)
  | flush

def oRun {σ : Type} (C : Codec σ) (bufsz fuel : Nat) : OState σ → List OOp → Outcome (OState σ)
  | st, [] => some (.ok st)
  | st, OOp.append d :: ops =>
    match oAppend C bufsz fuel st d with
    | some (.ok st') => oRun C bufsz fuel st' ops
    | r => r
  | st, OOp.flush :: ops =>
    match oFlush C bufsz fuel st with
    | some (.ok st') => oRun C bufsz fuel st' ops
    | r => r

/-! ## the wrapped input stream: any chunking -/

/--
The stream under the decoder.  Each `get_buffered_data` call shows a non-empty prefix of what is
left, its length taken from `script` (entry `k` = at most `k+1` bytes; script exhausted = everything);
a positive return value (end of input) exactly when nothing is left.
-/
structure Inner where
  rest : Bytes
  script : List Nat
  deriving DecidableEq

def Inner.peek (i : Inner) : Bytes × Bool × Inner :=
  let i' := { i with script := i.script.drop 1 }
  if i.rest.length = 0 then ([], true, i')
  else
    let n := match i.script with
      | [] => i.rest.length
      | k :: _ => min (k + 1) i.rest.length
    (i.rest.take n, false, i')

def Inner.advance (i : Inner) (n : Nat) : Inner := { i with rest := i.rest.drop n }

/-! ## `istream_xfrm_t` -/

structure IState (σ : Type) where
  cs : σ
  /-- `uncompressed[0 .. buffer_used)` -/
  buf : Bytes
  /-- `buffer_offset` -/
  off : Nat
  inner : Inner
  deriving DecidableEq

/-- one round of the `for (;;)` loop of `precache` (after the buffer has been compacted) -/
def precacheBody {σ : Type} (C : Codec σ) (bufsz : Nat) :
    σ × Bytes × Inner → LoopStep (σ × Bytes × Inner) (Except Int (σ × Bytes × Inner))
  | (cs, buf, inner) =>
    let chunk := inner.peek.1                                            -- wrapped->get_buffered_data(.., BUFSZ)
    let eof := inner.peek.2.1
    let mode := if eof then Flush.full else Flush.none
    let r := C.step cs chunk (bufsz - buf.length) mode
    if r.res = Res.error then LoopStep.done (.error errCompressor)
    else
      let buf' := buf ++ r.out                                           -- buffer_used = out_off
      let inner2 := inner.peek.2.2.advance r.consumed                    -- wrapped->advance_buffer(in_off)
      if r.res = Res.bufferFull || decide (bufsz ≤ buf'.length) then LoopStep.done (.ok (r.st, buf', inner2))
      else if eof then LoopStep.done (.ok (r.st, buf', inner2))
      else LoopStep.next (r.st, buf', inner2)

def precacheLoop {σ : Type} (C : Codec σ) (bufsz : Nat) (fuel : Nat) (cs : σ) (buf : Bytes) (inner : Inner) :
    Outcome (σ × Bytes × Inner) :=
  iter (precacheBody C bufsz) fuel (cs, buf, inner)

/-- `precache`: drop the used part (`memmove`), then fill -/
def precache {σ : Type} (C : Codec σ) (bufsz fuel : Nat) (st : IState σ) : Outcome (IState σ) :=
  match precacheLoop C bufsz fuel st.cs (st.buf.drop st.off) st.inner with
  | none => none
  | some (.error e) => some (.error e)
  | some (.ok (cs, buf, inner)) => some (.ok { cs := cs, buf := buf, off := 0, inner := inner })

/-- `xfrm_get_buffered_data(strm, &out, &size, want)`: the visible bytes and the return value (`true` = 1 = EOF) -/
def iGet {σ : Type} (C : Codec σ) (bufsz fuel : Nat) (st : IState σ) (want : Nat) : Outcome (IState σ × Bytes × Bool) :=
  let want := if bufsz < want then bufsz else want
  match (if st.buf.length = 0 || decide (st.buf.length - st.off < want) then precache C bufsz fuel st
         else some (.ok st)) with
  | none => none
  | some (.error e) => some (.error e)
  | some (.ok st1) =>
    let vis := st1.buf.drop st1.off
    some (.ok (st1, vis, vis.length = 0))

/-- `xfrm_advance_buffer(strm, count)`; `none` = one of the two `assert`s fails -/
def iAdvance {σ : Type} (st : IState σ) (count : Nat) : Option (IState σ) :=
  if count ≤ st.buf.length ∧ st.off + count ≤ st.buf.length then some { st with off := st.off + count } else none

def iInit {σ : Type} (C : Codec σ) (inner : Inner) : IState σ := { cs := C.init, buf := [], off := 0, inner := inner }

/--
A reader: each entry `(want, take)` is one `get_buffered_data(want)` followed by
`advance_buffer(min take size)`.  Returns everything taken and whether end-of-stream was reported.
-/
def iRead {σ : Type} (C : Codec σ) (bufsz fuel : Nat) : IState σ → List (Nat × Nat) → Bytes → Outcome (IState σ × Bytes × Bool)
  | st, [], acc => some (.ok (st, acc, false))
  | st, (want, take) :: ops, acc =>
    match iGet C bufsz fuel st want with
    | none => none
    | some (.error e) => some (.error e)
    | some (.ok (st1, vis, eof)) =>
      if eof then some (.ok (st1, acc, true))
      else
        let n := min take vis.length
        match iAdvance st1 n with
        | none => some (.error 0)                                      -- unreachable: n ≤ size
        | some st2 => iRead C bufsz fuel st2 ops (acc ++ vis.take n)

/--
A reader that **reads the stream to its end** (what `gzip -t`, `xz -t` … do, and what the repair proposal
`fixes/C15-drain-compressed-input.patch` makes the tar iterator do once it has seen the end-of-archive marker):
`n` rounds of `get_buffered_data(want = 1)` followed by `advance_buffer(size)` — everything that is visible is taken
(at most `bufsz` bytes are ever visible).  The tar reader of the current tree is *not* such a reader: it stops at the
end-of-archive marker (`lib/tar/src/read_header.c`, two zero records) and never calls `get_buffered_data` again.
-/
def drainOps (bufsz n : Nat) : List (Nat × Nat) := List.replicate n (1, bufsz)

/-! ## the same wrappers over wrapped streams that can **fail**

`flush_inbuf` returns what `wrapped->append` returns (`if (ioret) return ioret;`), `xfrm_flush` what `wrapped->flush` returns,
`precache` what `wrapped->get_buffered_data` returns when negative (`if (ret < 0) return ret;`).  The functions below are the
functions above with that failure path; they are the ones the correspondence check runs (ops `ostreamx`, `istreamx`), and
`Sqfs/Proofs/XfrmIoErr.lean` shows that without a failure they **are** the functions above, so the theorems apply to them.
-/

/-- the `k`-th call (counted from 0) fails with the non-zero code `e` -/
def failCode (f : Option (Nat × Int)) (k : Nat) : Option Int :=
  match f with
  | some (kf, e) => if kf = k ∧ e ≠ 0 then some e else none
  | none => none

/-- behaviour of the wrapped output stream: which `append` / `flush` call fails, with which code (nothing is stored by a
failing `append`) -/
structure OEnv where
  appendFail : Option (Nat × Int) := none
  flushFail : Option (Nat × Int) := none

def OEnv.good : OEnv := {}

/-- an error: the code that is returned, and what the wrapped stream holds at that moment -/
abbrev OutcomeE (α : Type) := Option (Except (Int × Bytes) α)

/-- loop state of `flush_inbuf` plus the number of `wrapped->append` calls made so far -/
abbrev FlushStE (σ : Type) := σ × Bytes × Bytes × Nat

def flushBodyE {σ : Type} (C : Codec σ) (bufsz : Nat) (E : OEnv) (finish : Bool) :
    FlushStE σ → LoopStep (FlushStE σ) (Except (Int × Bytes) (FlushStE σ))
  | (cs, rest, sink, k) =>
    if finish || decide (0 < rest.length) then
      let r := C.step cs rest bufsz (if finish then Flush.full else Flush.none)
      if r.res = Res.error then LoopStep.done (.error (errCompressor, sink))
      else
        match failCode E.appendFail k with
        | some e => LoopStep.done (.error (e, sink))                             -- `if (ioret) return ioret;`
        | none =>
          if r.res = Res.streamEnd then LoopStep.done (.ok (r.st, rest.drop r.consumed, sink ++ r.out, k + 1))
          else LoopStep.next (r.st, rest.drop r.consumed, sink ++ r.out, k + 1)
    else LoopStep.done (.ok (cs, rest, sink, k))

/-- `ostream_xfrm_t` and the number of `wrapped->append` calls so far -/
structure OStateE (σ : Type) where
  st : OState σ
  appends : Nat

def flushInbufE {σ : Type} (C : Codec σ) (bufsz fuel : Nat) (E : OEnv) (s : OStateE σ) (finish : Bool) : OutcomeE (OStateE σ) :=
  match iter (flushBodyE C bufsz E finish) fuel (s.st.cs, s.st.inbuf, s.st.sink, s.appends) with
  | none => none
  | some (.error e) => some (.error e)
  | some (.ok (cs, rest, sink, k)) => some (.ok ⟨{ s.st with cs := cs, inbuf := rest, sink := sink }, k⟩)

def appendBodyE {σ : Type} (C : Codec σ) (bufsz fuel : Nat) (E : OEnv) :
    OStateE σ × Bytes → LoopStep (OStateE σ × Bytes) (OutcomeE (OStateE σ))
  | (s, data) =>
    if data.length = 0 then LoopStep.done (some (.ok s))
    else
      match (if bufsz ≤ s.st.inbuf.length then flushInbufE C bufsz fuel E s false else some (.ok s)) with
      | none => LoopStep.done none
      | some (.error e) => LoopStep.done (some (.error e))
      | some (.ok s1) =>
        let diff := min (bufsz - s1.st.inbuf.length) data.length
        LoopStep.next (⟨{ s1.st with inbuf := s1.st.inbuf ++ data.take diff }, s1.appends⟩, data.drop diff)

def oAppendE {σ : Type} (C : Codec σ) (bufsz fuel : Nat) (E : OEnv) (s : OStateE σ) (data : Bytes) : OutcomeE (OStateE σ) :=
  match iter (appendBodyE C bufsz fuel E) (data.length + 1) (s, data) with
  | none => none
  | some r => r

/-- `xfrm_flush`: `flush_inbuf(finish)` if anything is buffered, then `return wrapped->flush(wrapped)` -/
def oFlushE {σ : Type} (C : Codec σ) (bufsz fuel : Nat) (E : OEnv) (s : OStateE σ) : OutcomeE (OStateE σ) :=
  match (if 0 < s.st.inbuf.length then flushInbufE C bufsz fuel E s true else some (.ok s)) with
  | none => none
  | some (.error e) => some (.error e)
  | some (.ok s1) =>
    match failCode E.flushFail s1.st.flushed with
    | some e => some (.error (e, s1.st.sink))
    | none => some (.ok ⟨{ s1.st with flushed := s1.st.flushed + 1 }, s1.appends⟩)

def oRunE {σ : Type} (C : Codec σ) (bufsz fuel : Nat) (E : OEnv) : OStateE σ → List OOp → OutcomeE (OStateE σ)
  | s, [] => some (.ok s)
  | s, OOp.append d :: ops =>
    match oAppendE C bufsz fuel E s d with
    | some (.ok s') => oRunE C bufsz fuel E s' ops
    | r => r
  | s, OOp.flush :: ops =>
    match oFlushE C bufsz fuel E s with
    | some (.ok s') => oRunE C bufsz fuel E s' ops
    | r => r

/-- the wrapped input stream with a failing `get_buffered_data` call: the call number `fail.1` returns `fail.2 < 0` -/
structure InnerE where
  inner : Inner
  calls : Nat
  fail : Option (Nat × Int)

/-- the negative code the next `get_buffered_data` call returns, if it fails -/
def InnerE.failNow (i : InnerE) : Option Int :=
  match i.fail with
  | some (kf, e) => if kf = i.calls ∧ e < 0 then some e else none
  | none => none

def precacheBodyE {σ : Type} (C : Codec σ) (bufsz : Nat) :
    σ × Bytes × InnerE → LoopStep (σ × Bytes × InnerE) (Except Int (σ × Bytes × InnerE))
  | (cs, buf, ie) =>
    match ie.failNow with
    | some e => LoopStep.done (.error e)                                       -- `if (ret < 0) return ret;`
    | none =>
      let inner := ie.inner
      let chunk := inner.peek.1
      let eof := inner.peek.2.1
      let mode := if eof then Flush.full else Flush.none
      let r := C.step cs chunk (bufsz - buf.length) mode
      if r.res = Res.error then LoopStep.done (.error errCompressor)
      else
        let buf' := buf ++ r.out
        let ie2 : InnerE := { ie with inner := inner.peek.2.2.advance r.consumed, calls := ie.calls + 1 }
        if r.res = Res.bufferFull || decide (bufsz ≤ buf'.length) then LoopStep.done (.ok (r.st, buf', ie2))
        else if eof then LoopStep.done (.ok (r.st, buf', ie2))
        else LoopStep.next (r.st, buf', ie2)

structure IStateE (σ : Type) where
  cs : σ
  buf : Bytes
  off : Nat
  inner : InnerE

def precacheE {σ : Type} (C : Codec σ) (bufsz fuel : Nat) (st : IStateE σ) : Outcome (IStateE σ) :=
  match iter (precacheBodyE C bufsz) fuel (st.cs, st.buf.drop st.off, st.inner) with
  | none => none
  | some (.error e) => some (.error e)
  | some (.ok (cs, buf, inner)) => some (.ok { cs := cs, buf := buf, off := 0, inner := inner })

def iGetE {σ : Type} (C : Codec σ) (bufsz fuel : Nat) (st : IStateE σ) (want : Nat) : Outcome (IStateE σ × Bytes × Bool) :=
  let want := if bufsz < want then bufsz else want
  match (if st.buf.length = 0 || decide (st.buf.length - st.off < want) then precacheE C bufsz fuel st
         else some (.ok st)) with
  | none => none
  | some (.error e) => some (.error e)
  | some (.ok st1) =>
    let vis := st1.buf.drop st1.off
    some (.ok (st1, vis, vis.length = 0))

def iAdvanceE {σ : Type} (st : IStateE σ) (count : Nat) : Option (IStateE σ) :=
  if count ≤ st.buf.length ∧ st.off + count ≤ st.buf.length then some { st with off := st.off + count } else none

def iReadE {σ : Type} (C : Codec σ) (bufsz fuel : Nat) : IStateE σ → List (Nat × Nat) → Bytes → Outcome (IStateE σ × Bytes × Bool)
  | st, [], acc => some (.ok (st, acc, false))
  | st, (want, take) :: ops, acc =>
    match iGetE C bufsz fuel st want with
    | none => none
    | some (.error e) => some (.error e)
    | some (.ok (st1, vis, eof)) =>
      if eof then some (.ok (st1, acc, true))
      else
        let n := min take vis.length
        match iAdvanceE st1 n with
        | none => some (.error 0)
        | some st2 => iReadE C bufsz fuel st2 ops (acc ++ vis.take n)

/-- `flush_mode` as the backends read it: `if (flush_mode < 0 || flush_mode >= XFRM_STREAM_FLUSH_COUNT) flush_mode = XFRM_STREAM_FLUSH_NONE;` -/
def clampFlush (m : Int) : Flush :=
  if m < 0 ∨ (Sqfs.Consts.xfrmFlushCount : Int) ≤ m then Flush.none
  else if m = Sqfs.Consts.xfrmFlushSync then Flush.sync
  else if m = Sqfs.Consts.xfrmFlushFull then Flush.full
  else Flush.none

/-! ## the backends' `process_data` loops over an abstract library stream -/

/-- return codes of the library call, as far as the wrappers distinguish them -/
inductive LibRet where
  | ok            -- Z_OK / LZMA_OK / BZ_OK, BZ_RUN_OK, BZ_FLUSH_OK, BZ_FINISH_OK
  | streamEnd     -- Z_STREAM_END / LZMA_STREAM_END / BZ_STREAM_END
  | bufError      -- Z_BUF_ERROR / LZMA_BUF_ERROR (no progress possible)
  | dataError     -- Z_DATA_ERROR, Z_NEED_DICT, Z_MEM_ERROR / LZMA_FORMAT_ERROR, LZMA_DATA_ERROR, .. / BZ_DATA_ERROR, ..
  | streamError   -- Z_STREAM_ERROR
  deriving DecidableEq, Repr, Inhabited

structure LibOut (τ : Type) where
  st : τ
  consumed : Nat       -- avail_in before − after
  out : Bytes          -- avail_out before − after
  ret : LibRet

/--
A zlib-style stream object (`z_stream`, `lzma_stream`, `bz_stream`): one call gets the offered input, the
room and the action.  `reset` is what the wrapper does after the end of a member (`deflateReset`/`inflateReset`,
or `lzma_end`/`BZ2_bz*End` followed by a fresh `*Init` on the next call).  `totalIn` is the `total_in` counter
(bytes consumed since the last init/reset).
-/
structure Lib (τ : Type) where
  init : τ
  call : τ → Bytes → Nat → Flush → LibOut τ
  reset : τ → τ
  totalIn : τ → Nat

/-- which library convention a wrapper follows -/
inductive Backend where
  | gzip | xz | bzip2
  deriving DecidableEq, Repr, Inhabited

/-- does the wrapper turn this library code into `XFRM_STREAM_ERROR`? -/
def isLibError (b : Backend) (r : LibRet) : Bool :=
  match b, r with
  | _, LibRet.dataError => true      -- gzip.c: `ret != Z_OK && ret != Z_STREAM_END && ret != Z_BUF_ERROR`; xz.c; bzip2.c `ret < 0`
  | _, LibRet.streamError => true
  | _, _ => false

/-- loop state of `process_data`: library state, input left, room left, `*in_read`, `*out_written` -/
abbrev WrapSt (τ : Type) := τ × Bytes × Nat × Nat × Bytes

/--
One round of the common loop of `gzip.c`, `xz.c`, `bzip2.c` (`process_data`):
`while ((in_size > 0 || flush_mode == XFRM_STREAM_FLUSH_FULL) && out_size > 0)`.
-/
def wrapBody {τ : Type} (L : Lib τ) (b : Backend) (compress : Bool) (fl : Flush) :
    WrapSt τ → LoopStep (WrapSt τ) (StepOut τ)
  | (st, inp, room, ai, ao) =>
    if (decide (0 < inp.length) || decide (fl = Flush.full)) && decide (0 < room) then
      let r := L.call st inp room fl
      -- bzip2.c: `if (ret == BZ_OUTBUFF_FULL) return XFRM_STREAM_BUFFER_FULL;` comes before the accounting
      if b = Backend.bzip2 ∧ r.ret = LibRet.bufError then LoopStep.done ⟨r.st, ai, ao, Res.bufferFull⟩
      else if isLibError b r.ret then LoopStep.done ⟨r.st, ai, ao, Res.error⟩
      else
        let inp' := inp.drop r.consumed
        let ai' := ai + r.consumed
        let ao' := ao ++ r.out
        if r.ret = LibRet.streamEnd then LoopStep.done ⟨L.reset r.st, ai', ao', Res.streamEnd⟩
        -- "no more input will follow and nothing is left to unpack"
        else if !compress && decide (inp'.length = 0) && decide (r.out.length = 0) && decide (fl = Flush.full) then
          if 0 < L.totalIn r.st then LoopStep.done ⟨r.st, ai', ao', Res.error⟩
          else LoopStep.done ⟨r.st, ai', ao', Res.streamEnd⟩
        else if r.ret = LibRet.bufError then LoopStep.done ⟨r.st, ai', ao', Res.bufferFull⟩
        else LoopStep.next (r.st, inp', room - r.out.length, ai', ao')
    else LoopStep.done ⟨st, ai, ao, Res.ok⟩

def wrapLoop {τ : Type} (L : Lib τ) (b : Backend) (compress : Bool) (fl : Flush) (fuel : Nat)
    (st : τ) (inp : Bytes) (room ai : Nat) (ao : Bytes) : Option (StepOut τ) :=
  iter (wrapBody L b compress fl) fuel (st, inp, room, ai, ao)

/-- `process_data` of a gzip/xz/bzip2 stream object; `none` = the loop never leaves -/
def wrapProcess {τ : Type} (L : Lib τ) (b : Backend) (compress : Bool) (st : τ) (inp : Bytes) (room : Nat) (fl : Flush) :
    Option (StepOut τ) :=
  wrapLoop L b compress fl (inp.length + room + 2) st inp room 0 []

/-- a backend stream object as a `Codec`; a `process_data` that never returns is reported as `error` here (the
theorems about `wrapCodec` show separately that this does not happen) -/
def wrapCodec {τ : Type} (L : Lib τ) (b : Backend) (compress : Bool) : Codec τ where
  init := L.init
  step s inp room fl :=
    match wrapProcess L b compress s inp room fl with
    | some r => r
    | none => ⟨s, 0, [], Res.error⟩

/-! ### libzstd convention -/

/-- `ZSTD_compressStream2` / `ZSTD_decompressStream`: `hint = 0` ⇔ frame completely flushed / decoded -/
structure ZOut (τ : Type) where
  st : τ
  consumed : Nat
  out : Bytes
  isError : Bool
  hint : Nat

structure ZLib (τ : Type) where
  init : τ
  call : τ → Bytes → Nat → Flush → ZOut τ

/-- `xfrm_zstd_t`: the library context and the `pending` flag -/
structure ZState (τ : Type) where
  lib : τ
  pending : Bool
  deriving DecidableEq

/-- loop state of zstd's `process_data` -/
abbrev ZWrapSt (τ : Type) := ZState τ × Bytes × Nat × Nat × Bytes

/-- one round of the `zstd.c: process_data` loop; result: final loop state and "error" -/
def zstdBody {τ : Type} (L : ZLib τ) (compress : Bool) (fl : Flush) :
    ZWrapSt τ → LoopStep (ZWrapSt τ) (ZWrapSt τ × Bool)
  | (st, inp, room, ai, ao) =>
    if (decide (0 < inp.length) || (st.pending && decide (fl = Flush.full))) && decide (0 < room) then
      let r := L.call st.lib inp room fl
      if r.isError then LoopStep.done (({ st with lib := r.st }, inp, room, ai, ao), true)   -- the context is spoilt
      -- "no more input will follow, but the frame is incomplete"
      else if decide (inp.length = 0) && decide (r.consumed = 0) && decide (r.out.length = 0) then
        LoopStep.done (({ st with lib := r.st }, inp, room, ai, ao), true)
      else
        let pending := decide (r.hint ≠ 0) || (compress && decide (fl ≠ Flush.full))
        LoopStep.next (⟨r.st, pending⟩, inp.drop r.consumed, room - r.out.length, ai + r.consumed, ao ++ r.out)
    else LoopStep.done ((st, inp, room, ai, ao), false)

def zstdLoop {τ : Type} (L : ZLib τ) (compress : Bool) (fl : Flush) (fuel : Nat)
    (st : ZState τ) (inp : Bytes) (room ai : Nat) (ao : Bytes) : Option (ZWrapSt τ × Bool) :=
  iter (zstdBody L compress fl) fuel (st, inp, room, ai, ao)

def zstdProcess {τ : Type} (L : ZLib τ) (compress : Bool) (st : ZState τ) (inp : Bytes) (room : Nat) (fl : Flush) :
    Option (StepOut (ZState τ)) :=
  match zstdLoop L compress fl (inp.length + room + 2) st inp room 0 [] with
  | none => none
  | some ((st', _, _, ai, ao), true) => some ⟨st', ai, ao, Res.error⟩
  | some ((st', inp', room', ai, ao), false) =>
    if fl ≠ Flush.none ∧ inp'.length = 0 ∧ !st'.pending then some ⟨st', ai, ao, Res.streamEnd⟩
    else if 0 < inp'.length ∧ room' = 0 then some ⟨st', ai, ao, Res.bufferFull⟩
    else some ⟨st', ai, ao, Res.ok⟩

def zstdCodec {τ : Type} (L : ZLib τ) (compress : Bool) : Codec (ZState τ) where
  init := ⟨L.init, false⟩
  step s inp room fl :=
    match zstdProcess L compress s inp room fl with
    | some r => r
    | none => ⟨s, 0, [], Res.error⟩

/-! ## `tar_open_stream`: is the input compressed, and how (`lib/xfrm/src/compress.c`, `lib/tar/src/iterator.c`) -/

/-- the table `compressors[]` of compress.c, in its order: (id, magic) -/
def magicTable : List (Nat × Bytes) :=
  [ (Sqfs.Consts.xfrmCompGzip, [0x1F, 0x8B, 0x08]),
    (Sqfs.Consts.xfrmCompXz, [0xFD, 0x37, 0x7A, 0x58, 0x5A, 0x00]),          -- "\xFD" "7zXZ" and the string's NUL, count 6
    (Sqfs.Consts.xfrmCompZstd, [0x28, 0xB5, 0x2F, 0xFD]),
    (Sqfs.Consts.xfrmCompBzip2, [0x42, 0x5A, 0x68]) ]                         -- "BZh"

/-- `xfrm_compressor_id_from_magic(data, count)`: first entry whose magic is not longer than the data and is a prefix of it; −1 -/
def compressorIdFromMagic (data : Bytes) : Int :=
  match magicTable.find? (fun e => decide (e.2.length ≤ data.length) && (data.take e.2.length == e.2)) with
  | some e => e.1
  | none => -1

/-- `tar_probe(data, size)`: `ustar` at the magic offset, looked for behind a leading all-zero record if there is one -/
def tarProbe (data : Bytes) : Bool :=
  let rs := Sqfs.Consts.tarRecordSize
  let d := if decide (rs ≤ data.length) && (data.take rs).all (· == 0) then data.drop rs else data
  let off := Sqfs.Consts.tarMagicOffset
  decide (off + 5 ≤ d.length) && ((d.drop off).take 5 == [0x75, 0x73, 0x74, 0x61, 0x72])

/-- what `tar_open_stream` does with the first bytes `data` the stream shows: `none` = read it as it is, `some id` = wrap it
in a decompressor of that kind -/
def openStreamCodec (data : Bytes) : Option Nat :=
  if tarProbe data then none
  else
    let id := compressorIdFromMagic data
    if 0 < id then some id.toNat else none

/-! ## a concrete toy codec (also implemented in `harness/h_c15.c`) -/
namespace Toy

/--
Knobs of the toy codec: it takes in at most `absorb+1` bytes per call, only while at most `thresh` bytes
wait in its internal queue, and hands out at most `gran+1` bytes per call.
-/
structure Params where
  absorb : Nat
  gran : Nat
  thresh : Nat
  deriving Repr, Inhabited

/-- member format: every data byte `b` becomes `01 b`; the member ends with `00` -/
def encBytes : Bytes → Bytes
  | [] => []
  | b :: r => 1 :: b :: encBytes r

def encode (x : Bytes) : Bytes := encBytes x ++ [0]

/-- one-shot reference decoder of exactly one member -/
def decode : Bytes → Option Bytes
  | [] => none
  | [z] => if z = 0 then some [] else none
  | m :: b :: r => if m = 1 then (decode r).map (b :: ·) else none

structure Enc where
  q : Bytes          -- encoded, not yet handed out
  fin : Bool         -- the terminator has been queued
  deriving Repr, Inhabited, DecidableEq

def encStep (P : Params) (s : Enc) (inp : Bytes) (room : Nat) (fl : Flush) : StepOut Enc :=
  if room = 0 then ⟨s, 0, [], Res.ok⟩
  else
    let n := if s.fin then 0 else if s.q.length ≤ P.thresh then min (P.absorb + 1) inp.length else 0
    let q1 := s.q ++ encBytes (inp.take n)
    let fin1 := s.fin || (decide (fl = Flush.full) && decide (n = inp.length))
    let q2 := if fin1 && !s.fin then q1 ++ [0] else q1
    let m := min (min room (P.gran + 1)) q2.length
    let q3 := q2.drop m
    if fin1 && decide (q3.length = 0) then ⟨⟨[], false⟩, n, q2.take m, Res.streamEnd⟩
    else ⟨⟨q3, fin1⟩, n, q2.take m, Res.ok⟩

def encoder (P : Params) : Codec Enc := { init := ⟨[], false⟩, step := encStep P }

structure Dec where
  q : Bytes          -- decoded, not yet handed out
  inData : Bool      -- a `01` marker has been read, the data byte is next
  fresh : Bool       -- no byte of the current member has been consumed
  done : Bool        -- the terminator has been read
  bad : Bool         -- a malformed marker has been seen
  deriving Repr, Inhabited, DecidableEq

/-- parse up to the given bytes of the current member: (consumed, decoded, inData, done, bad) -/
def parse : Bool → Bytes → Nat × Bytes × Bool × Bool × Bool
  | inData, [] => (0, [], inData, false, false)
  | true, b :: r =>
    let (c, d, i, dn, bd) := parse false r
    (c + 1, b :: d, i, dn, bd)
  | false, m :: r =>
    if m = 0 then (1, [], false, true, false)
    else if m = 1 then
      let (c, d, i, dn, bd) := parse true r
      (c + 1, d, i, dn, bd)
    else (0, [], false, false, true)

/-- what the decoding engine does in one call, before any end-of-input rule -/
structure Core where
  n : Nat            -- consumed
  q : Bytes          -- queue after parsing, before handing out
  m : Nat            -- handed out
  inData : Bool
  fresh : Bool
  done : Bool
  bad : Bool

def decCore (P : Params) (s : Dec) (inp : Bytes) (room : Nat) : Core :=
  let (n, d, inData1, done1, bad1) :=
    if s.done then (0, [], s.inData, true, false)
    else if s.q.length ≤ P.thresh then parse s.inData (inp.take (P.absorb + 1))
    else (0, [], s.inData, false, false)
  let q1 := s.q ++ d
  { n := n, q := q1, m := min (min room (P.gran + 1)) q1.length, inData := inData1,
    fresh := s.fresh && decide (n = 0), done := done1, bad := bad1 }

def decFresh : Dec := ⟨[], false, true, false, false⟩

def decStep (P : Params) (s : Dec) (inp : Bytes) (room : Nat) (fl : Flush) : StepOut Dec :=
  if room = 0 then ⟨s, 0, [], Res.ok⟩
  else if s.bad then ⟨s, 0, [], Res.error⟩
  else
    let c := decCore P s inp room
    if c.bad then ⟨{ s with bad := true }, c.n, [], Res.error⟩
    else
      let q2 := c.q.drop c.m
      if c.done && decide (q2.length = 0) then ⟨decFresh, c.n, c.q.take c.m, Res.streamEnd⟩
      -- end of input announced, nothing left in the input, nothing handed out by this call
      else if decide (fl = Flush.full) && decide (c.n = inp.length) && decide (c.m = 0) then
        if c.fresh then ⟨decFresh, c.n, [], Res.streamEnd⟩
        else ⟨⟨q2, c.inData, c.fresh, c.done, true⟩, c.n, [], Res.error⟩
      else if decide (0 < q2.length) && decide (c.m = room) then
        ⟨⟨q2, c.inData, c.fresh, c.done, false⟩, c.n, c.q.take c.m, Res.bufferFull⟩
      else ⟨⟨q2, c.inData, c.fresh, c.done, false⟩, c.n, c.q.take c.m, Res.ok⟩

def decoder (P : Params) : Codec Dec := { init := decFresh, step := decStep P }

/-! ### the same engines behind a library-style interface (fake zlib / liblzma / libbz2 / libzstd) -/

structure LibSt (ε : Type) where
  eng : ε
  total : Nat
  deriving Repr, DecidableEq

/-- what a library call that could neither consume nor produce answers: zlib and liblzma have `*_BUF_ERROR` for it,
libbz2 answers `BZ_OK` / `BZ_FINISH_OK` -/
def stuckRet (b : Backend) : LibRet := if b = Backend.bzip2 then LibRet.ok else LibRet.bufError

/-- `deflate`-like: one engine step per call; `Z_STREAM_END` when the member is complete -/
def encLib (P : Params) (b : Backend := Backend.gzip) : Lib (LibSt Enc) where
  init := ⟨⟨[], false⟩, 0⟩
  call s inp room fl :=
    let r := encStep P s.eng inp room fl
    { st := ⟨r.st, s.total + r.consumed⟩, consumed := r.consumed, out := r.out,
      ret := if r.res = Res.streamEnd then LibRet.streamEnd
             else if r.consumed = 0 ∧ r.out.length = 0 then stuckRet b else LibRet.ok }
  reset _ := ⟨⟨[], false⟩, 0⟩
  totalIn s := s.total

/-- `inflate`-like: malformed input is `Z_DATA_ERROR` -/
def decLib (P : Params) (b : Backend := Backend.gzip) : Lib (LibSt Dec) where
  init := ⟨decFresh, 0⟩
  call s inp room _fl :=
    if s.eng.bad then { st := s, consumed := 0, out := [], ret := LibRet.dataError }
    else
      let c := decCore P s.eng inp room
      if c.bad then { st := ⟨{ s.eng with bad := true }, s.total + c.n⟩, consumed := c.n, out := [], ret := LibRet.dataError }
      else
        let q2 := c.q.drop c.m
        if c.done && decide (q2.length = 0) then
          { st := ⟨decFresh, s.total + c.n⟩, consumed := c.n, out := c.q.take c.m, ret := LibRet.streamEnd }
        else
          { st := ⟨⟨q2, c.inData, c.fresh, c.done, false⟩, s.total + c.n⟩, consumed := c.n, out := c.q.take c.m,
            ret := if c.n = 0 ∧ c.m = 0 then stuckRet b else LibRet.ok }
  reset _ := ⟨decFresh, 0⟩
  totalIn s := s.total

/-- `ZSTD_compressStream2`-like: the hint is the number of queued bytes, plus one while the frame is open under `e_end` -/
def encZLib (P : Params) : ZLib Enc where
  init := ⟨[], false⟩
  call s inp room fl :=
    let r := encStep P s inp room fl
    { st := r.st, consumed := r.consumed, out := r.out, isError := false,
      hint := if r.res = Res.streamEnd then 0 else r.st.q.length + (if fl = Flush.full then 1 else 0) }

/-- `ZSTD_decompressStream`-like: hint 0 exactly at a frame boundary with everything handed out -/
def decZLib (P : Params) : ZLib Dec where
  init := decFresh
  call s inp room _fl :=
    if s.bad then { st := s, consumed := 0, out := [], isError := true, hint := 0 }
    else
      let c := decCore P s inp room
      if c.bad then { st := { s with bad := true }, consumed := c.n, out := [], isError := true, hint := 0 }
      else
        let q2 := c.q.drop c.m
        if c.done && decide (q2.length = 0) then
          { st := decFresh, consumed := c.n, out := c.q.take c.m, isError := false, hint := 0 }
        else
          { st := ⟨q2, c.inData, c.fresh, c.done, false⟩, consumed := c.n, out := c.q.take c.m, isError := false,
            hint := if c.fresh && decide (q2.length = 0) then 0 else q2.length + 1 }

end Toy

end Sqfs.Xfrm
