/-
Model of `bin/rdsquashfs/src/describe.c` **as it is in /repo** since fix 4b35342 "refuse to print a link target or input
location that contains a line feed" (property C16).

The pack-file format cannot express a line feed inside a field: `istream_get_line` cuts the listing at every LF
before `split_line` sees it, and `split_line` knows the escapes `\"` and `\\` only.  `print_escaped()` therefore
returns an error for such a string (diagnostic on stderr, `rdsquashfs` exits non-zero); entry names go through the
same function, so a name with LF is refused too instead of being printed on two lines.  Before the fix the string was
printed and the listing did not rebuild the tree (`Sqfs.Quote.describeNode` is that printer; witnesses in
`Sqfs/Witness/C16.lean`, section LF).

Everything else is shared with `Sqfs.Quote`: same `getPath`, `nodePath`, `printPerm`, `printNat`, same quoting rule.
-/
import Sqfs.Model.Quote
namespace Sqfs.QuoteLF
open Sqfs.Path (Bytes)
open Sqfs.Quote

/-- `print_escaped`: `if (strchr(str, '\n') != NULL) { fprintf(stderr, …); return -1; }`, then as before -/
def printEscaped (s : Bytes) : Except DErr Bytes :=
  if s.contains LF then .error .newline else .ok (Sqfs.Quote.printEscaped s)

/-- `print_name(n, NULL)` on the canonical path: the root is still printed as `/` without asking
`print_escaped`; `ret = print_escaped(name)` otherwise -/
def printName (path : Bytes) : Except DErr Bytes :=
  if path = [] then .ok [SL] else printEscaped path

/-- the optional last field of `print_simple` -/
def extraTail : Option Bytes → Bytes
  | none => []
  | some e => SP :: e

/-- `print_simple(type, n, extra)` with an `extra` that was formatted beforehand (NULL or `"%c %u %u"`): the only
fallible step is `print_name(n, NULL)` -/
def simpleLine (comps : List Bytes) (n : Node) (kwd : Bytes) (extra : Option Bytes) : Except DErr Bytes :=
  match nodePath comps with
  | .error e => .error e
  | .ok p =>
    match printName p with
    | .error e => .error e
    | .ok nm => .ok (kwd ++ [SP] ++ nm ++ printPerm n ++ extraTail extra ++ [LF])

/-- `print_slink` / the `S_IFREG` branch with `unpack_root`: after name and permissions, a last field (a function of
the canonical path) that goes through `print_escaped` -/
def escapedLine (comps : List Bytes) (n : Node) (kwd : Bytes) (last : Bytes → Bytes) : Except DErr Bytes :=
  match nodePath comps with
  | .error e => .error e
  | .ok p =>
    match printName p with
    | .error e => .error e
    | .ok nm =>
      match printEscaped (last p) with
      | .error e => .error e
      | .ok x => .ok (kwd ++ [SP] ++ nm ++ printPerm n ++ SP :: x ++ [LF])

/--
One call of `describe_tree` without the recursion into children.  The order of the fallible steps is
the order of the C code: `is_filename_sane`, `print_name(n, NULL)` (path, canonicalisation, LF in the path), then —
for a symlink — `print_escaped(target)`, for a file with `--unpack-root` — `print_name(n, unpack_root)` (LF in
`<root>/<path>`).
-/
def describeNode (unpackRoot : Option Bytes) (comps : List Bytes) (n : Node) : Except DErr Bytes :=
  if !(Sqfs.Path.isFilenameSane (comps.getLast?.getD [])) then .error .insaneName
  else
    match n.kind with
    | .sock => simpleLine comps n KW_SOCK none
    | .slink => escapedLine comps n KW_SLINK (fun _ => n.target)
    | .fifo => simpleLine comps n KW_PIPE none
    | .file =>
      match unpackRoot with
      | none => simpleLine comps n KW_FILE none
      | some root => escapedLine comps n KW_FILE (fun p => root ++ SL :: p)
    | .chr => simpleLine comps n KW_NOD (some ([99, SP] ++ printNat 10 (devMajor (n.devno % 2^32) % 2^32) ++ [SP] ++ printNat 10 (devMinor (n.devno % 2^32) % 2^32)))
    | .blk => simpleLine comps n KW_NOD (some ([98, SP] ++ printNat 10 (devMajor (n.devno % 2^32) % 2^32) ++ [SP] ++ printNat 10 (devMinor (n.devno % 2^32) % 2^32)))
    | .dir =>
      if comps ≠ [] && comps.getLast?.getD [] = [] then .ok [] else simpleLine comps n KW_DIR none
    | .other => .ok []

mutual
/-- the recursion of `describe_tree` -/
def describeTree (unpackRoot : Option Bytes) (comps : List Bytes) : Tree → Except DErr Bytes
  | .mk _ node children =>
    match describeNode unpackRoot comps node with
    | .error e => .error e
    | .ok line =>
      if node.kind = .dir then
        match describeForest unpackRoot comps children with
        | .error e => .error e
        | .ok rest => .ok (line ++ rest)
      else .ok line
def describeForest (unpackRoot : Option Bytes) (parents : List Bytes) : List Tree → Except DErr Bytes
  | [] => .ok []
  | .mk name node ch :: ts =>
    match describeTree unpackRoot (parents ++ [name]) (.mk name node ch) with
    | .error e => .error e
    | .ok a =>
      match describeForest unpackRoot parents ts with
      | .error e => .error e
      | .ok b => .ok (a ++ b)
end

/-- `describe_tree(root, unpack_root)` as `rdsquashfs -d` calls it (see `Sqfs.Quote.describe` for a named root) -/
def describe (unpackRoot : Option Bytes) (t : Tree) : Except DErr Bytes :=
  if t.name = [] then describeTree unpackRoot [] t
  else if !(Sqfs.Path.isFilenameSane t.name) then .error .insaneName
  else if t.node.kind = .other then .ok []
  else .error .path

end Sqfs.QuoteLF
