/-
Model of the tar header **reader**: `lib/tar/src/read_header.c` (`check_version`, `decode_header`,
`read_header`), `record_to_memory.c`, `read_sparse_map_old.c`, `read_sparse_map_new.c`.

The input stream is the list of the bytes not yet consumed.  `sqfs_istream_read(fp, buf, n)` returns
`min n remaining` bytes, so a read is `take`/`drop` and "short read" is a length test.  `sqfs_istream_skip(fp, n)`
(lib/sqfs/src/io/stream_api.c, since /repo 1ef571c) fails with `SQFS_ERROR_OUT_OF_BOUNDS` when fewer than `n` bytes
are left — `istreamSkip` — so an archive cut inside padding or inside skipped data is an error, not a clean end.
-/
import Sqfs.Model.TarPax
import Sqfs.Model.TarHeader
namespace Sqfs.Tar

/-- `data[off .. off+n)` of a header block -/
def slice (b : Bytes) (off n : Nat) : Bytes := (b.drop off).take n

/-- `strndup(p, n)` / `strnlen`: bytes before the first NUL, at most `n` -/
def strn (b : Bytes) : Bytes := b.takeWhile (· ≠ 0)

inductive Version | v7 | prePosix | posix
  deriving Repr, DecidableEq

/-- `check_version`; `none` = `ETV_UNKNOWN` -/
def checkVersion (h : Bytes) : Option Version :=
  let magic := slice h 257 6
  let version := slice h 263 2
  if magic = zeros 6 ∧ version = zeros 2 then some .v7
  else if magic = [117, 115, 116, 97, 114, 0] ∧ version = [48, 48] then some .posix       -- "ustar\0" "00"
  else if magic = magicOld ∧ version = versionOld then some .prePosix                     -- "ustar " " \0"
  else none

/-- `sqfs_istream_skip(fp, n)`: `none` = `SQFS_ERROR_OUT_OF_BOUNDS` (the input ends before `n` bytes were skipped; fix 1ef571c);
    skipping 0 bytes never touches the stream -/
def istreamSkip (s : Bytes) (n : Nat) : Option Bytes :=
  if s.length < n then none else some (s.drop n)

/-- `record_to_memory`: `size` bytes and the padding to the next multiple of 512; `none` = short read, or the input ends
    inside the padding (record_to_memory.c:32-38: `sqfs_istream_skip` fails) -/
def recordToMemory (s : Bytes) (size : Nat) : Option (Bytes × Bytes) :=
  if s.length < size then none
  else match istreamSkip (s.drop size) (padding size) with
    | none => none
    | some s' => some (s.take size, s')

/-! ### old GNU sparse map (`read_sparse_map_old.c`) -/

/-- is a numeric field of the map in use?  Repaired code (`fixes/C04-old-sparse-base256.patch`): a digit, or the marker 0x80 of a
    positive base-256 number — GNU tar writes offsets and sizes from 8 GiB (8^11) on that way.  `b256 = false` is the code before
    the repair: `isdigit` only, so such an entry is taken for the end of the list and the rest of the map is dropped silently. -/
def oldSparseUsed (b256 : Bool) (c : UInt8) : Bool := isDigit c || (b256 && c = 0x80)

/-- `parse`: up to `count` 24-byte entries; result: entries and whether the list ended early (`return 1`) -/
def oldSparseParse (b256 : Bool) : Nat → Bytes → List (Nat × Nat) → Option (List (Nat × Nat) × Bool)
  | 0, _, acc => some (acc, false)
  | n + 1, b, acc =>
    let off := b.take 12
    let num := (b.drop 12).take 12
    if ¬ oldSparseUsed b256 (off.headD 0) ∨ ¬ oldSparseUsed b256 (num.headD 0) then some (acc, true)
    else match readNumber off, readNumber num with
      | some o, some c => oldSparseParse b256 n (b.drop 24) (acc ++ [(o, c)])
      | _, _ => none

/-- the `do … while` loop over the 512-byte extension records -/
def oldSparseExt (b256 : Bool) : Nat → Bytes → List (Nat × Nat) → Option (List (Nat × Nat) × Bytes)
  | 0, _, _ => none
  | f + 1, s, acc =>
    if s.length < 512 then none                                     -- "unexpected end-of-file"
    else
      let rec512 := s.take 512
      match oldSparseParse b256 21 rec512 acc with
      | none => none
      | some (acc', stop) =>
        if ¬ stop ∧ (slice rec512 504 1).headD 0 ≠ 0 then oldSparseExt b256 f (s.drop 512) acc'
        else some (acc', s.drop 512)

/-- `read_gnu_old_sparse` (the caller treats an empty list as failure) -/
def readGnuOldSparse (b256 : Bool) (h : Bytes) (s : Bytes) : Option (List (Nat × Nat) × Bytes) :=
  match oldSparseParse b256 4 (slice h 386 96) [] with
  | none => none
  | some (l, stop) =>
    if stop ∨ (slice h 482 1).headD 0 = 0 then some (l, s)
    else oldSparseExt b256 (s.length / 512 + 1) s l

/-! ### GNU sparse 1.0 map in the data area (`read_sparse_map_new.c`) -/

/-- `decode(str, len, &out)`: `(ret, value)`; `none` = −1 -/
def newDecodeLoop (out count : Nat) : Nat → Bytes → Option (Nat × Nat × Bytes)
  | 0, b => some (out, count, b)
  | len + 1, b =>
    match b with
    | [] => some (out, count, b)
    | c :: t =>
      if isDigit c then
        let v := out * 10 + (c.toNat - 48)
        if v ≥ U64 then none                                          -- `SZ_MUL_OV` / `SZ_ADD_OV`
        else newDecodeLoop v (count + 1) len t
      else some (out, count, b)

def newDecode (b : Bytes) (len : Nat) : Option (Nat × Nat) :=
  match newDecodeLoop 0 0 len b with
  | none => none
  | some (v, count, rest) =>
    if count = 0 ∨ count = len then some (0, v)
    else if rest.headD 0 = 10 then some (count + 1, v) else none

structure NewSparseState where
  buf : Bytes              -- the 512 (or 1024) bytes of `buffer` that are valid
  diff : Nat
  s : Bytes                -- the stream
  recordSize : Nat

/-- body of the `for (i = 0; i < count * 2; ++i)` loop: the next number -/
def newSparseNext (st : NewSparseState) : Option (NewSparseState × Nat) :=
  match newDecode (st.buf.drop st.diff) (512 - st.diff) with
  | none => none
  | some (ret, value) =>
    if ret > 0 then some ({ st with diff := st.diff + ret }, value)
    else
      if st.recordSize < 512 then none
      else if st.s.length < 512 then none
      else
        let buf2 := st.buf.take 512 ++ st.s.take 512
        match newDecode (buf2.drop st.diff) (1024 - st.diff) with
        | none => none
        | some (ret2, value2) =>
          if ret2 = 0 then none
          else some ({ buf := st.s.take 512, diff := st.diff + ret2 - 512, s := st.s.drop 512,
                       recordSize := st.recordSize - 512 }, value2)

def newSparseLoop : Nat → NewSparseState → List (Nat × Nat) → Option (List (Nat × Nat) × NewSparseState)
  | 0, st, acc => some (acc, st)
  | n + 1, st, acc =>
    match newSparseNext st with
    | none => none
    | some (st1, off) =>
      match newSparseNext st1 with
      | none => none
      | some (st2, cnt) => newSparseLoop n st2 (acc ++ [(off, cnt)])

/-- `read_gnu_new_sparse`: map, remaining stream, remaining `record_size` -/
def readGnuNewSparse (s : Bytes) (recordSize : Nat) : Option (List (Nat × Nat) × Bytes × Nat) :=
  if recordSize < 512 then none
  else if s.length < 512 then none
  else
    let buf := s.take 512
    match newDecode buf 512 with
    | none => none
    | some (diff, count) =>
      if diff = 0 then none
      else if count = 0 ∨ count > 65536 then none
      else
        match newSparseLoop count { buf := buf, diff := diff, s := s.drop 512, recordSize := recordSize - 512 } [] with
        | none => none
        | some (l, st) => some (l, st.s, st.recordSize)

/-! ### `decode_header` -/

def toSignedField (field : Nat) : Int := toSigned field

/-- `decode_header`; numeric fields not overridden by a PAX record come from the header
    (the `if`s are parenthesised terms, not `do`-level branches: no join points, the term stays linear) -/
def decodeHeader (h : Bytes) (mask : Nat) (out : Decoded) (v : Version) : Option Decoded := do
  let out :=
    if hasFlag mask PAX_NAME then out
    else
      let pfx := slice h 345 155
      if pfx.headD 0 ≠ 0 ∧ v = .posix then
        { out with name := some (strn pfx ++ [47] ++ strn (slice h 0 100)) }
      else { out with name := some (strn (slice h 0 100)) }
  let out ← (if hasFlag mask PAX_SIZE then some out
             else (readNumber (slice h 124 12)).map fun x => { out with recordSize := x })
  let out ← (if hasFlag mask PAX_UID then some out
             else (readNumber (slice h 108 8)).map fun x => { out with uid := x })
  let out ← (if hasFlag mask PAX_GID then some out
             else (readNumber (slice h 116 8)).map fun x => { out with gid := x })
  let out ← (if hasFlag mask PAX_DEV_MAJ then some out
             else (readNumber (slice h 329 8)).map fun x => { out with devMajor := x % 4294967296 })
  let out ← (if hasFlag mask PAX_DEV_MIN then some out
             else (readNumber (slice h 337 8)).map fun x => { out with devMinor := x % 4294967296 })
  let out ← (if hasFlag mask PAX_MTIME then some out
             else (readNumber (slice h 136 12)).map fun x => { out with mtime := toSigned x })
  let m ← readNumber (slice h 100 8)
  let out := { out with mode := m % 4096 }
  let tf := (slice h 156 1).headD 0
  let out :=
    if (tf = 49 ∨ tf = 50) ∧ ¬ hasFlag mask PAX_SLINK_TARGET then
      { out with link := some (strn (slice h 157 100)) }
    else out
  let out := { out with unknown := false }
  pure <|
    if tf = 0 ∨ tf = 48 ∨ tf = 83 then { out with mode := out.mode + S_IFREG }
    else if tf = 49 then { out with hardLink := true }
    else if tf = 50 then { out with mode := S_IFLNK + 0o777 }
    else if tf = 51 then { out with mode := out.mode + S_IFCHR }
    else if tf = 52 then { out with mode := out.mode + S_IFBLK }
    else if tf = 53 then { out with mode := out.mode + S_IFDIR }
    else if tf = 54 then { out with mode := out.mode + S_IFIFO }
    else { out with unknown := true }

/-! ### `read_header` -/

/-- Σ `count` over the map (the repaired code checks this sum without 64-bit overflow) -/
def sparseDataSum : List (Nat × Nat) → Nat
  | [] => 0
  | (_, c) :: t => c + sparseDataSum t

inductive ReadResult
  | eof                      -- returns 1
  | err                      -- returns −1
  | ok (d : Decoded) (rest : Bytes)
  deriving Repr

def isZeroBlock (h : Bytes) : Bool := h.all (· = 0)

/-- variants of the reader: `rejectOversizedMap = false` is the tree without the D22 repair (`fixes/C07-sparse-map-bound.patch`);
    `xattrKeepOrder = true` is a hypothetical reader that appends xattrs (the real one prepends; the fix-point repair is on the
    sqfs2tar side, `fixes/C04-sqfs2tar-xattr-order.patch`) -/
structure ReadCfg where
  rejectOversizedMap : Bool := true
  xattrKeepOrder : Bool := false
  schilyKeyDecode : Bool := true          -- `false`: the reader before `fixes/C04-xattr-key-escape.patch`
  oldSparseBase256 : Bool := true         -- `false`: the reader before `fixes/C04-old-sparse-base256.patch`

/-- the `for (;;)` loop of `read_header`; `fuel` bounds the number of 512-byte records read -/
def readHeaderLoop (cfg : ReadCfg) : Nat → Bytes → Decoded → Nat → Bool → ReadResult
  | 0, _, _, _, _ => .err
  | f + 1, s, out, mask, prevZero =>
    if s.length < 512 then
      -- short read: trailing garbage that is shorter than a header is not a clean end of the archive (fix 800780c);
      -- nothing at all, or only zero bytes, is
      if isZeroBlock s then .eof else .err
    else
      let h := s.take 512
      let s := s.drop 512
      if isZeroBlock h then
        if prevZero then .eof else readHeaderLoop cfg f s out mask true
      else
        match checkVersion h with
        | none => .err                                             -- "input is not a ustar tar archive!"
        | some v =>
          if ¬ isChecksumValid h then .err
          else
            let tf := (slice h 156 1).headD 0
            let sizeField := readNumber (slice h 124 12)
            if tf = 75 then                                        -- 'K' GNU long link
              match sizeField with
              | none => .err
              | some sz =>
                if sz < 1 ∨ sz > 65536 then .err
                else match recordToMemory s sz with
                  | none => .err
                  | some (p, s') => readHeaderLoop cfg f s' { out with link := some (cstr p) } (setFlag mask PAX_SLINK_TARGET) false
            else if tf = 76 then                                   -- 'L' GNU long name
              match sizeField with
              | none => .err
              | some sz =>
                if sz < 1 ∨ sz > 65536 then .err
                else match recordToMemory s sz with
                  | none => .err
                  | some (p, s') => readHeaderLoop cfg f s' { out with name := some (cstr p) } (setFlag mask PAX_NAME) false
            else if tf = 103 then                                  -- 'g' PAX global: skipped
              match sizeField with
              | none => .err
              | some sz =>
                -- read_header.c:253-260: `pax_size += 512 - pax_size % 512` is a 64-bit addition; the skip fails when the
                -- input ends inside the record or its padding
                match istreamSkip s ((sz + padding sz) % U64) with
                | none => .err
                | some s' => readHeaderLoop cfg f s' out mask false
            else if tf = 120 then                                  -- 'x' PAX
              match sizeField with
              | none => .err
              | some sz =>
                if sz < 1 ∨ sz > 65536 then .err
                else match recordToMemory s sz with
                  | none => .err
                  | some (p, s') =>
                    match readPaxHeader ⟨cfg.xattrKeepOrder, cfg.schilyKeyDecode⟩ p {} 0 with                -- `clear_header(out); set_by_pax = 0`
                    | none => .err
                    | some (out', mask') => readHeaderLoop cfg f s' out' mask' false
            else
              -- 'S': old GNU sparse map and real size, then fall through to decode_header
              let pre : Option (Decoded × Bytes) :=
                if tf = 83 then
                  match readGnuOldSparse cfg.oldSparseBase256 h s with
                  | none => none
                  | some (l, s') =>
                    if l.isEmpty then none
                    else (readNumber (slice h 483 12)).map fun rs => ({ out with sparse := l, actualSize := rs }, s')
                else some (out, s)
              match pre with
              | none => .err
              | some (out, s) =>
                match decodeHeader h mask out v with
                | none => .err
                | some out =>
                  let fin : Option (Decoded × Bytes) :=
                    if hasFlag mask PAX_SPARSE_GNU_1_X then
                      match readGnuNewSparse s out.recordSize with
                      | none => none
                      | some (l, s', rsz) => some ({ out with sparse := l, recordSize := rsz }, s')
                    else some (out, s)
                  match fin with
                  | none => .err
                  | some (out, s) =>
                    -- repaired (`fixes/C07-sparse-map-bound.patch`, D22): a map whose data regions do not fit
                    -- into the record is rejected (`cfg.rejectOversizedMap = false` models the unrepaired code)
                    if cfg.rejectOversizedMap ∧ ¬ out.sparse.isEmpty ∧ sparseDataSum out.sparse > out.recordSize then .err
                    else
                    let out := if out.sparse.isEmpty then { out with actualSize := out.recordSize } else out
                    .ok out s

/-- `read_header` (repaired: oversized sparse maps are rejected) -/
def readHeaderWith (cfg : ReadCfg) (s : Bytes) : ReadResult := readHeaderLoop cfg (s.length / 512 + 2) s {} 0 false

def readHeader (s : Bytes) : ReadResult := readHeaderWith {} s

/-- `read_header` of the unrepaired code (D22) -/
def readHeaderCur (s : Bytes) : ReadResult := readHeaderWith { rejectOversizedMap := false, xattrKeepOrder := false } s

end Sqfs.Tar
