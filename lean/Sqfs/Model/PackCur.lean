/-
Model of the fragment-block rule of the **pinned snapshot** (finding D24), kept apart from the specification.

Differences from `Sqfs/Spec/PackSpec.lean` (everything else is shared):

 * `backend.c: process_completed_fragment` gives a fragment block the flags
   `(first member's flags & DONT_COMPRESS) | FRAGMENT_BLOCK`, later `|= member's DONT_COMPRESS`; so
   `IGNORE_SPARSE` is lost, and `block_processor.c: process_block` flags a closed fragment block that consists
   of zero bytes only `IS_SPARSE`.
 * `process_completed_block` then does not store it; its fragment table entry stays `(0, 0)` as appended; and
   because the fragment block *is* the first member's `sqfs_block_t`, `blk->inode` is the first member's inode:
   it is made extended, `sparse += |fragment block|`, and `set_block_size(inode, blk->index, 0)` writes a zero
   block word at index = **fragment table index**.

 * (finding D27) the fragment hash table is keyed by `(size, checksum, bytes)` only, so a `dont_compress` tail is
   deduplicated against an equal tail of a file without that flag and then lives in a fragment block that may be
   compressed (`lookupChunkCur`).

`packCur` returns the layout together with flags saying whether those branches were taken.
-/
import Sqfs.Spec.PackSpec
namespace Sqfs.PackCur
open Sqfs.Pack

structure StateCur where
  s : State := {}
  openFirst : Nat := 0                        -- position (in the file list) of the first member of the open block
  pending : List (Nat × Nat × Nat) := []      -- (file position, sparse bytes to add, index of the zeroed block word)
  d24 : Bool := false
  d27 : Bool := false                         -- a dedup hit across different DONT_COMPRESS settings

/-- `process_block` on a closed fragment block, pinned snapshot: the sparse test is **not** suppressed -/
def workFragBlockCur (P : Params) (fb : FragBlock) : Option Stored :=
  if allZero fb.data then none else some (workFragBlock P fb)

def closeOpenCur (P : Params) (σ : StateCur) : StateCur :=
  match σ.s.openFrag with
  | none => σ
  | some fb =>
    match workFragBlockCur P fb with
    | some st =>
      { σ with s := { σ.s with hist := σ.s.hist ++ [st]
                               frags := σ.s.frags ++ [⟨P.base + bytesOf σ.s.hist, st.data.length, st.raw⟩]
                               openFrag := none } }
    | none =>
      { σ with s := { σ.s with frags := σ.s.frags ++ [⟨0, 0, false⟩], openFrag := none }
               pending := σ.pending ++ [(σ.openFirst, fb.data.length, σ.s.frags.length)]
               d24 := true }

def addFragmentCur (P : Params) (σ : StateCur) (pos : Nat) (F : Flags) (ck : UInt32) (t : Bytes) : StateCur × (Nat × Nat) :=
  let σ1 := match σ.s.openFrag with
    | some fb => if fb.data.length + t.length > P.B then closeOpenCur P σ else σ
    | none => σ
  let idx := σ1.s.frags.length
  match σ1.s.openFrag with
  | none =>
    ({ σ1 with s := { σ1.s with openFrag := some ⟨t, F.dontCompress⟩, chunks := ⟨idx, 0, F.dontCompress, ck, t⟩ :: σ1.s.chunks }
               openFirst := pos }, (idx, 0))
  | some fb =>
    ({ σ1 with s := { σ1.s with openFrag := some ⟨fb.data ++ t, fb.dontCompress || F.dontCompress⟩
                                chunks := ⟨idx, fb.data.length, F.dontCompress, ck, t⟩ :: σ1.s.chunks } }, (idx, fb.data.length))

/-- pinned snapshot: `chunk_info_equals` compares size, checksum and bytes -/
def lookupChunkCur (chunks : List Chunk) (ck : UInt32) (t : Bytes) : Option Chunk :=
  chunks.find? (fun c => c.cksum == ck && c.data == t)

def placeTailCur (P : Params) (σ : StateCur) (pos : Nat) (F : Flags) (t : Bytes) : StateCur × TailResult :=
  if !F.ignoreSparse && allZero t then (σ, .sparse)
  else
    let ck := cksumOf P F t
    match (if F.dontDedup then none else lookupChunkCur σ.s.chunks ck t) with
    | some c => ({ σ with d27 := σ.d27 || (c.dontCompress != F.dontCompress) }, .frag c.index c.offset)
    | none =>
      let r := addFragmentCur P σ pos F ck t
      (r.1, .frag r.2.1 r.2.2)

def packFileCur (P : Params) (σ : StateCur) (pos : Nat) (f : InFile) : StateCur × FileResult :=
  if f.data = [] then (σ, ⟨0, [], 0, none, 0, false⟩)
  else
    let worked := (dataBlocksOf P.B f).map (workData P f.flags)
    let words := worked.map Worked.word
    let sparse := (worked.map Worked.sparseBytes).sum
    let pl := placeBlocks P.base f.flags.dontDedup σ.s.hist (worked.filterMap Worked.stored?)
    let σ1 := { σ with s := { σ.s with hist := pl.1 } }
    if hasTailFrag P.B f then
      let t := tailOf P.B f.data
      match placeTailCur P σ1 pos f.flags t with
      | (σ2, .sparse) => (σ2, ⟨f.data.length, words ++ [.sparse], pl.2.1, none, sparse + t.length, pl.2.2⟩)
      | (σ2, .frag i o) => (σ2, ⟨f.data.length, words, pl.2.1, some (i, o), sparse, pl.2.2⟩)
    else (σ1, ⟨f.data.length, words, pl.2.1, none, sparse, pl.2.2⟩)

def packFilesCur (P : Params) : StateCur → Nat → List InFile → StateCur × List FileResult
  | σ, _, [] => (σ, [])
  | σ, pos, f :: fs =>
    let r := packFileCur P σ pos f
    let rs := packFilesCur P r.1 (pos + 1) fs
    (rs.1, r.2 :: rs.2)

/-- `set_block_size(inode, index, 0)`: words beyond the old end that are skipped over are uninitialised memory in
the C code; they are shown as 0 here and lie beyond the block count a reader derives from the file size. -/
def zeroWordAt (ws : List Word) (i : Nat) : List Word :=
  if i < ws.length then ws.set i .sparse else ws ++ List.replicate (i - ws.length) .sparse ++ [.sparse]

def applyPending (rs : List FileResult) : List (Nat × Nat × Nat) → List FileResult
  | [] => rs
  | (pos, add, wi) :: t =>
    applyPending (rs.modify pos (fun r => { r with sparse := r.sparse + add, words := zeroWordAt r.words wi })) t

/-- layout produced by the pinned snapshot, and whether the D24 / D27 branches were taken -/
def packCur (P : Params) (files : List InFile) : Out × Bool × Bool :=
  let r := packFilesCur P {} 0 files
  let σ := closeOpenCur P r.1
  (⟨σ.s.hist, σ.s.frags, applyPending r.2 σ.pending⟩, σ.d24, σ.d27)

end Sqfs.PackCur
