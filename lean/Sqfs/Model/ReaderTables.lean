/-
Model of the reader code around the tables (property C05), with the exact C integer widths, in the style of
`Sqfs/Model/ReaderBounds.lean`: every routine is a total function from field values (and answers of the outside
world: `read_at` fails, values found in the metadata stream) to a status and the list of `Access`es it performs.

* `read_super.c`     — `sqfs_super_read` (every check, in order)
* `id_table.c`       — `sqfs_id_table_read` (location checks, the arguments handed to `sqfs_read_table`, the byte
                        swap loop), `sqfs_id_table_index_to_id`
* `frag_table.c`     — `sqfs_frag_table_read`, `sqfs_frag_table_lookup`
* `xattr_reader.c`   — `sqfs_xattr_reader_load`, `_get_desc`, `_seek_kv`, `read_key_hdr`, `read_value_hdr`,
                        `_read_key`, `_read_value`, `_read` (the key-value pair reader), `_read_all`
* `dir_reader.c`     — `sqfs_readdir_state_init`/`sqfs_dir_reader_open_dir`, `sqfs_dir_reader_read` (`.`/`..`
                        states), `sqfs_dir_reader_get_inode`; `inode.c: sqfs_dir_entry_from_inode`;
                        `dir_iterator.c: it_read_link`

The meta data reader enters through its model (`seek`, `mread` of `ReaderBounds`): the routines here are chains of
such calls; `RV.bind` is "return the error, else go on", exactly the `if (ret) return ret;` of the C text.
-/
import Sqfs.Model.ReaderBounds
namespace Sqfs.ReaderTables
open Sqfs Sqfs.ReaderBounds

/-! ## `read_super.c` -/

/-- `sqfs_super_t` after the `le*toh` conversions -/
structure Super where
  magic : UInt32
  inodeCount : UInt32
  modTime : UInt32
  blockSize : UInt32
  fragCount : UInt32
  compId : UInt16
  blockLog : UInt16
  flags : UInt16
  idCount : UInt16
  vMajor : UInt16
  vMinor : UInt16
  rootRef : UInt64
  bytesUsed : UInt64
  idTableStart : UInt64
  xattrIdTableStart : UInt64
  inodeTableStart : UInt64
  dirTableStart : UInt64
  fragTableStart : UInt64
  exportTableStart : UInt64
  deriving Repr, Inhabited

/-- `block_size = 1; for (i = 0; i < temp.block_log; ++i) block_size <<= 1;` (`size_t`) -/
def shiftLoop : Nat → UInt64 → UInt64
  | 0, b => b
  | n + 1, b => shiftLoop n (b <<< 1)

/-- `sqfs_super_read` (read_super.c:17-84).  `io` = `read_at(file, 0, &temp, sizeof(temp))` failed. -/
def superRead (io : Bool) (s : Super) : Except Err Unit × List Access :=
  let a := [Access.mk .superBuf 0 Consts.sizeofSuper Consts.sizeofSuper]
  if io then (.error .io, a)
  -- :46  if (temp.magic != SQFS_MAGIC)
  else if s.magic != Consts.magic.toUInt32 then (.error .superMagic, a)
  -- :49  version_major / version_minor
  else if s.vMajor != Consts.versionMajor.toUInt16 || s.vMinor != Consts.versionMinor.toUInt16 then (.error .superVersion, a)
  -- :53  if ((temp.block_size - 1) & temp.block_size)        (u32: block_size = 0 passes here)
  else if (s.blockSize - 1) &&& s.blockSize != 0 then (.error .superBlockSize, a)
  -- :56  if (temp.block_size < SQFS_MIN_BLOCK_SIZE)
  else if s.blockSize < Consts.minBlockSize.toUInt32 then (.error .superBlockSize, a)
  -- :59  if (temp.block_size > SQFS_MAX_BLOCK_SIZE)
  else if s.blockSize > Consts.maxBlockSize.toUInt32 then (.error .superBlockSize, a)
  -- :62  if (temp.block_log < 12 || temp.block_log > 20)
  else if s.blockLog < 12 || s.blockLog > 20 then (.error .corrupted, a)
  -- :70  if (temp.block_size != block_size)                  (u32 against size_t)
  else if s.blockSize.toUInt64 != shiftLoop s.blockLog.toNat 1 then (.error .corrupted, a)
  -- :73  compression_id < SQFS_COMP_MIN || > SQFS_COMP_MAX
  else if s.compId < Consts.compMin.toUInt16 || s.compId > Consts.compMax.toUInt16 then (.error .unsupported, a)
  -- :77  if (temp.id_count == 0)
  else if s.idCount == 0 then (.error .corrupted, a)
  else (.ok (), a)

/-! ## `id_table.c`, `frag_table.c` -/

/-- the arguments of a `sqfs_read_table` call -/
structure TableReq where
  tableSize : UInt64       -- size_t
  location : UInt64
  lower : UInt64
  upper : UInt64
  deriving Repr, DecidableEq

/-- `sqfs_id_table_read` (id_table.c:97-127) up to the `sqfs_read_table` call -/
def idTableReq (s : Super) : Except Err TableReq :=
  -- :105  if (!super->id_count || super->id_table_start >= super->bytes_used)
  if s.idCount == 0 || s.idTableStart ≥ s.bytesUsed then .error .corrupted
  else
    let upper := s.idTableStart
    let lower := s.dirTableStart
    -- :111  fragment table between them?
    let lower := if s.fragTableStart > lower && s.fragTableStart < upper then s.fragTableStart else lower
    -- :116  export table between them?
    let lower := if s.exportTableStart > lower && s.exportTableStart < upper then s.exportTableStart else lower
    -- :124  super->id_count * sizeof(sqfs_u32)        (u16 promoted, size_t product)
    .ok ⟨s.idCount.toUInt64 * 4, s.idTableStart, lower, upper⟩

/-- the byte swap loop `for (i = 0; i < super->id_count; ++i) raw_ids[i] = le32toh(raw_ids[i])` (id_table.c:130)
on the `table_size` bytes `sqfs_read_table` allocated -/
def idTableSwap (s : Super) (req : TableReq) : List Access :=
  (List.range s.idCount.toNat).map fun i => Access.mk .idTable (i * 4) 4 req.tableSize.toNat

/-- `sqfs_id_table_read`: `rt` = what `sqfs_read_table` answered -/
def idTableRead (s : Super) (rt : Except Err Unit) : Except Err Unit × List Access :=
  match idTableReq s with
  | .error e => (.error e, [])
  | .ok req =>
    match rt with
    | .error e => (.error e, [])
    | .ok () => (.ok (), idTableSwap s req)

/-- `sqfs_id_table_index_to_id` (id_table.c:87-95); `used` = `tbl->ids.used`, the table holds `used * 4` bytes -/
def indexToId (used : UInt64) (index : UInt16) : Except Err (List Access) :=
  if index.toUInt64 ≥ used then .error .oob
  else .ok [Access.mk .idTable (index.toNat * 4) 4 (used.toNat * 4)]

/-- `sqfs_frag_table_read` (frag_table.c:70-123) up to the `sqfs_read_table` call; `none` = empty table, success -/
def fragTableReq (s : Super) : Except Err (Option TableReq) :=
  -- :81  if (super->flags & SQFS_FLAG_NO_FRAGMENTS)
  if s.flags &&& Consts.flagNoFragments.toUInt16 != 0 then .ok none
  -- :84  if (super->fragment_table_start == 0xFFFFFFFFFFFFFFFFUL)
  else if s.fragTableStart == 0xFFFFFFFFFFFFFFFF then .ok none
  -- :87  if (super->fragment_entry_count == 0)
  else if s.fragCount == 0 then .ok none
  -- :90  if (super->fragment_table_start >= super->bytes_used)
  else if s.fragTableStart ≥ s.bytesUsed then .error .oob
  -- :95  if (super->fragment_table_start < super->directory_table_start)
  else if s.fragTableStart < s.dirTableStart then .error .corrupted
  -- :98  if (super->fragment_table_start >= super->id_table_start)
  else if s.fragTableStart ≥ s.idTableStart then .error .corrupted
  else
    -- :105  if (super->export_table_start < super->id_table_start) upper = export_table_start
    let upper := if s.exportTableStart < s.idTableStart then s.exportTableStart else s.idTableStart
    -- :108  SZ_MUL_OV(super->fragment_entry_count, sizeof(sqfs_fragment_t), &size)
    match mulOv s.fragCount.toUInt64 Consts.sizeofFragment.toUInt64 with
    | none => .error .overflow
    | some size => .ok (some ⟨size, s.fragTableStart, s.dirTableStart, upper⟩)

/-- `sqfs_frag_table_lookup` (frag_table.c:162-174) / `array_get`; `used` = `tbl->table.used` -/
def fragLookup (used : UInt64) (index : UInt32) : Except Err (List Access) :=
  if index.toUInt64 ≥ used then .error .oob
  else .ok [Access.mk .fragTable (index.toNat * Consts.sizeofFragment) Consts.sizeofFragment (used.toNat * Consts.sizeofFragment)]

/-! ## chains of meta reader calls -/

/-- state of one meta reader, result, accesses so far -/
structure RV (α : Type) where
  st : MetaSt
  r : Except Err α
  acc : List Access

/-- `ret = …; if (ret) return ret;` then go on -/
def RV.bind {α β : Type} (a : RV α) (f : α → MetaSt → RV β) : RV β :=
  match a.r with
  | .error e => ⟨a.st, .error e, a.acc⟩
  | .ok v => let b := f v a.st; ⟨b.st, b.r, a.acc ++ b.acc⟩

def ofRes (r : Res) : RV Unit := ⟨r.st, r.r, r.acc⟩

/-- `sqfs_meta_reader_read(m, dst, n)` into a destination that has `cap` bytes left at offset `off` of `buf` -/
def readInto (c : MetaCfg) (m : MetaSt) (buf : Buf) (off n cap : UInt64) : RV Unit :=
  let r := mread true c m n
  ⟨r.st, r.r, Access.mk buf off.toNat n.toNat cap.toNat :: r.acc⟩

/-! ## `xattr_reader.c` -/

abbrev szXattrId : Nat := Consts.sizeofXattrId            -- sizeof(sqfs_xattr_id_t) = 16
abbrev szXattrIdTable : Nat := Consts.sizeofXattrIdTable  -- sizeof(sqfs_xattr_id_table_t) = 16
abbrev szXattrEntry : Nat := Consts.sizeofXattrEntry      -- sizeof(sqfs_xattr_entry_t) = 4
abbrev szXattrValue : Nat := Consts.sizeofXattrValue      -- sizeof(sqfs_xattr_value_t) = 4
abbrev szXattrT : Nat := Consts.sizeofXattrT              -- sizeof(sqfs_xattr_t)

/-- `sqfs_xattr_reader_t` -/
structure XattrSt where
  xattrStart : UInt64
  xattrEnd : UInt64
  numIdBlocks : UInt64           -- size_t
  numIds : UInt64                -- size_t
  blockStarts : Nat → UInt64     -- `id_block_starts[i]`
  loaded : Bool                  -- `idrd` and `kvrd` exist
  idrd : MetaSt
  kvrd : MetaSt

/-- after `sqfs_xattr_reader_create` (`calloc`) -/
def XattrSt.init : XattrSt := ⟨0, 0, 0, 0, fun _ => 0, false, MetaSt.init, MetaSt.init⟩

structure XRes where
  st : XattrSt
  r : Except Err Unit
  acc : List Access

/-- `num_id_blocks` (xattr_reader.c:124-128): `(num_ids * sizeof(sqfs_xattr_id_t)) / SQFS_META_BLOCK_SIZE`, plus one
if there is a remainder (`size_t` arithmetic; `num_ids` comes from a 32 bit field) -/
def xattrIdBlocks (numIds : UInt64) : UInt64 :=
  let bytes := numIds * szXattrId.toUInt64
  if bytes % metaCap.toUInt64 != 0 then bytes / metaCap.toUInt64 + 1 else bytes / metaCap.toUInt64

/-- the loop xattr_reader.c:143-150 over the locations read from the image -/
def xattrCheckStarts (bytesUsed : UInt64) (starts : Nat → UInt64) (n : Nat) : Nat → Nat → List Access →
    Except Err Unit × List Access
  | 0, _, acc => (.ok (), acc)
  | rem + 1, i, acc =>
    let acc := acc ++ [Access.mk .idBlockStarts (i * 8) 8 (n * 8)]
    if starts i > bytesUsed then (.error .oob, acc)
    else xattrCheckStarts bytesUsed starts n rem (i + 1) acc

/--
`sqfs_xattr_reader_load` (xattr_reader.c:91-181).  `io1` = reading the `sqfs_xattr_id_table_t` failed, `tblStart`,
`ids` = its fields, `io2` = reading the locations failed, `starts` = the locations.
-/
def xattrLoad (s : Super) (x : XattrSt) (io1 : Bool) (tblStart : UInt64) (ids : UInt32) (io2 : Bool)
    (starts : Nat → UInt64) : XRes :=
  -- :99  if (super->flags & SQFS_FLAG_NO_XATTRS) return 0;
  if s.flags &&& Consts.flagNoXattrs.toUInt16 != 0 then ⟨x, .ok (), []⟩
  -- :102  if (super->xattr_id_table_start == 0xFFFFFFFFFFFFFFFF) return 0;
  else if s.xattrIdTableStart == 0xFFFFFFFFFFFFFFFF then ⟨x, .ok (), []⟩
  -- :105  if (super->xattr_id_table_start >= super->bytes_used)
  else if s.xattrIdTableStart ≥ s.bytesUsed then ⟨x, .error .oob, []⟩
  else
    -- :109  drop the readers, free the locations
    let x := { x with loaded := false }
    -- :116  read_at(file, xattr_id_table_start, &idtbl, sizeof(idtbl))
    let a1 := [Access.mk .xattrIdTbl 0 szXattrIdTable szXattrIdTable]
    if io1 then ⟨x, .error .io, a1⟩
    else
      let numIds := ids.toUInt64
      let n := xattrIdBlocks numIds
      let x := { x with xattrStart := tblStart, numIds := numIds, numIdBlocks := n }
      -- :130  alloc_array(sizeof(sqfs_u64), xr->num_id_blocks)
      match mulOv 8 n with
      | none => ⟨x, .error .overflow, a1⟩
      | some cap =>
        -- :137  read_at(file, xattr_id_table_start + sizeof(idtbl), id_block_starts, sizeof(sqfs_u64) * num_id_blocks)
        let a2 := a1 ++ [Access.mk .idBlockStarts 0 (8 * n).toNat cap.toNat]
        if io2 then ⟨x, .error .io, a2⟩
        else
          match xattrCheckStarts s.bytesUsed starts n.toNat n.toNat 0 a2 with
          | (.error e, acc) => ⟨x, .error e, acc⟩
          | (.ok (), acc) =>
            -- :153  both readers: sqfs_meta_reader_create(file, cmp, super->id_table_start, super->bytes_used)
            ⟨{ x with blockStarts := starts, loaded := true, idrd := MetaSt.init, kvrd := MetaSt.init,
                      xattrEnd := s.bytesUsed }, .ok (), acc⟩

/-- `sqfs_xattr_reader_get_desc` (xattr_reader.c:384-416); `c` = the readers' window and the image -/
def xattrGetDesc (c : MetaCfg) (x : XattrSt) (idx : UInt32) : XRes :=
  -- :390  memset(desc, 0, sizeof(*desc))
  let a0 := [Access.mk .xattrDesc 0 szXattrId szXattrId]
  -- :392  if (idx == 0xFFFFFFFF) return 0;
  if idx == 0xFFFFFFFF then ⟨x, .ok (), a0⟩
  -- :395  if (xr->kvrd == NULL || xr->idrd == NULL) return idx == 0 ? 0 : SQFS_ERROR_OUT_OF_BOUNDS;
  else if !x.loaded then ⟨x, if idx == 0 then .ok () else .error .oob, a0⟩
  -- :398  if (idx >= xr->num_ids)
  else if idx.toUInt64 ≥ x.numIds then ⟨x, .error .oob, a0⟩
  else
    -- :401  (idx * sizeof(*desc)) % / SQFS_META_BLOCK_SIZE      (size_t)
    let pos := idx.toUInt64 * szXattrId.toUInt64
    let offset := pos % metaCap.toUInt64
    let block := pos / metaCap.toUInt64
    let a1 := a0 ++ [Access.mk .idBlockStarts (block.toNat * 8) 8 (x.numIdBlocks.toNat * 8)]
    let r := (ofRes (seek c x.idrd (x.blockStarts block.toNat) offset)).bind fun _ m =>
      readInto c m .xattrDesc 0 szXattrId.toUInt64 szXattrId.toUInt64
    ⟨{ x with idrd := r.st }, r.r, a1 ++ r.acc⟩

/-- `sqfs_xattr_reader_seek_kv` (xattr_reader.c:371-382); `xattr` = `desc->xattr` -/
def xattrSeekKv (c : MetaCfg) (x : XattrSt) (xattr : UInt64) : XRes :=
  let offset : UInt32 := (xattr &&& 0xFFFF).toUInt32
  let block := x.xattrStart + (xattr >>> 16)
  if !x.loaded then ⟨x, .error .oob, []⟩
  else
    let r := seek c x.kvrd block offset.toUInt64
    ⟨{ x with kvrd := r.st }, r.r, r.acc⟩

/-- what the key-value stream holds at the current position (any values: the image is hostile) -/
structure KvAns where
  ktype : UInt16        -- key.type
  ksize : UInt16        -- key.size
  vsize : UInt32        -- value.size of the header that counts (the second one for an out-of-line value)
  ref : UInt64          -- the out-of-line reference
  deriving Repr, Inhabited

/-- `strlen(sqfs_get_xattr_prefix(type & SQFS_XATTR_PREFIX_MASK))`: "user.", "trusted.", "security." -/
def prefixLen (ktype : UInt16) : Option UInt64 :=
  let id := ktype &&& Consts.xattrPrefixMask.toUInt16
  if id == Consts.xattrUser.toUInt16 then some 5
  else if id == Consts.xattrTrusted.toUInt16 then some 8
  else if id == Consts.xattrSecurity.toUInt16 then some 9
  else none

def isOol (ktype : UInt16) : Bool := ktype &&& Consts.xattrFlagOol.toUInt16 != 0

/-- `read_key_hdr` (xattr_reader.c:183-201): returns the prefix length -/
def readKeyHdr (c : MetaCfg) (a : KvAns) (m : MetaSt) : RV UInt64 :=
  (readInto c m .xattrKeyHdr 0 szXattrEntry.toUInt64 szXattrEntry.toUInt64).bind fun _ m =>
    match prefixLen a.ktype with
    | none => ⟨m, .error .unsupported, []⟩
    | some plen => ⟨m, .ok plen, []⟩

/-- `read_value_hdr` (xattr_reader.c:203-244): returns the position to go back to (`*start`, `*offset`) -/
def readValueHdr (c : MetaCfg) (xs xe : UInt64) (a : KvAns) (m : MetaSt) : RV (UInt64 × UInt64) :=
  (readInto c m .xattrValHdr 0 szXattrValue.toUInt64 szXattrValue.toUInt64).bind fun _ m =>
    if isOol a.ktype then
      -- :217  sqfs_meta_reader_read(xr->kvrd, &ref, sizeof(ref))
      (readInto c m .xattrRef 0 8 8).bind fun _ m =>
        let newStart := xs + (a.ref >>> 16)
        let newOffset := a.ref &&& 0xFFFF
        -- :225  if (new_start >= xr->xattr_end || new_offset >= SQFS_META_BLOCK_SIZE)
        if newStart ≥ xe || newOffset ≥ metaCap.toUInt64 then ⟨m, .error .oob, []⟩
        else
          let saved := getPosition m
          (ofRes (seek c m newStart newOffset)).bind fun _ m =>
            (readInto c m .xattrValHdr 0 szXattrValue.toUInt64 szXattrValue.toUInt64).bind fun _ m =>
              ⟨m, .ok saved, []⟩
    else ⟨m, .ok (0, 0), []⟩

/-- `if (key->type & SQFS_XATTR_FLAG_OOL) sqfs_meta_reader_seek(xr->kvrd, start, offset)` -/
def restorePos (c : MetaCfg) (a : KvAns) (saved : UInt64 × UInt64) (m : MetaSt) : RV Unit :=
  if isOol a.ktype then ofRes (seek c m saved.1 saved.2) else ⟨m, .ok (), []⟩

/-- `sqfs_xattr_reader_read_key` (xattr_reader.c:246-282) on the key-value reader -/
def kvReadKey (c : MetaCfg) (a : KvAns) (m : MetaSt) : RV Unit :=
  (readKeyHdr c a m).bind fun plen m =>
    -- :260  plen + key.size, + 1, + sizeof(*out), each with SZ_ADD_OV
    match (addOv plen a.ksize.toUInt64).bind (addOv · 1) |>.bind (addOv szXattrEntry.toUInt64 ·) with
    | none => ⟨m, .error .overflow, []⟩
    | some total =>
      -- :269  *out = key;  memcpy(out->key, prefix, plen);
      let acc := [Access.mk .xattrKeyOut 0 szXattrEntry total.toNat,
                  Access.mk .xattrKeyOut szXattrEntry plen.toNat total.toNat]
      let r := readInto c m .xattrKeyOut (szXattrEntry.toUInt64 + plen) a.ksize.toUInt64 total
      ⟨r.st, r.r, acc ++ r.acc⟩

/-- `sqfs_xattr_reader_read_value` (xattr_reader.c:284-321); `a.ktype` = the type field of the key passed in -/
def kvReadValue (c : MetaCfg) (xs xe : UInt64) (a : KvAns) (m : MetaSt) : RV Unit :=
  (readValueHdr c xs xe a m).bind fun saved m =>
    -- :298  size = sizeof(*out) + 1;  SZ_ADD_OV(size, value.size, &size)
    match addOv (szXattrValue.toUInt64 + 1) a.vsize.toUInt64 with
    | none => ⟨m, .error .overflow, []⟩
    | some size =>
      let acc := [Access.mk .xattrValOut 0 szXattrValue size.toNat]
      let r := (readInto c m .xattrValOut szXattrValue.toUInt64 a.vsize.toUInt64 size).bind fun _ m =>
        restorePos c a saved m
      ⟨r.st, r.r, acc ++ r.acc⟩

/-- `sqfs_xattr_reader_read` (xattr_reader.c:323-397): key and value into one `sqfs_xattr_t` that is grown -/
def kvRead (c : MetaCfg) (xs xe : UInt64) (a : KvAns) (m : MetaSt) : RV Unit :=
  (readKeyHdr c a m).bind fun plen m =>
    -- :340  total = sizeof(*kv) + plen + 1;  SZ_ADD_OV(total, key.size, &total)
    match addOv (szXattrT.toUInt64 + plen + 1) a.ksize.toUInt64 with
    | none => ⟨m, .error .overflow, []⟩
    | some total0 =>
      -- :349  memcpy(kv->data, prefix, plen);  sqfs_meta_reader_read(xr->kvrd, kv->data + plen, key.size)
      let acc1 := [Access.mk .xattrKv szXattrT plen.toNat total0.toNat]
      let r := (readInto c m .xattrKv (szXattrT.toUInt64 + plen) a.ksize.toUInt64 total0).bind fun _ m =>
        (readValueHdr c xs xe a m).bind fun saved m =>
          -- :360  SZ_ADD_OV(total, value.size, &total) || SZ_ADD_OV(total, 1, &total);  realloc(kv, total)
          match (addOv total0 a.vsize.toUInt64).bind (addOv · 1) with
          | none => ⟨m, .error .overflow, []⟩
          | some total =>
            let voff := szXattrT.toUInt64 + plen + a.ksize.toUInt64 + 1
            -- :369  sqfs_meta_reader_read(xr->kvrd, kv->data + plen + key.size + 1, value.size)
            (readInto c m .xattrKv voff a.vsize.toUInt64 total).bind fun _ m =>
              (restorePos c a saved m).bind fun _ m =>
                -- :384  kv->data[plen + key.size + 1 + value.size] = '\0';
                ⟨m, .ok (), [Access.mk .xattrKv (voff + a.vsize.toUInt64).toNat 1 total.toNat]⟩
      ⟨r.st, r.r, acc1 ++ r.acc⟩

/-- the loop of `sqfs_xattr_reader_read_all` (xattr_reader.c:438-452): `count` pairs, `ans i` = what the stream
holds for pair `i` -/
def kvReadMany (c : MetaCfg) (xs xe : UInt64) (ans : Nat → KvAns) : Nat → Nat → MetaSt → RV Unit
  | 0, _, m => ⟨m, .ok (), []⟩
  | rem + 1, i, m => (kvRead c xs xe (ans i) m).bind fun _ m => kvReadMany c xs xe ans rem (i + 1) m

/-- `sqfs_xattr_reader_read_all` (xattr_reader.c:418-457); `xattr`, `count` = the fields of the descriptor that
`get_desc` read -/
def xattrReadAll (c : MetaCfg) (x : XattrSt) (idx : UInt32) (xattr : UInt64) (count : UInt32) (ans : Nat → KvAns) : XRes :=
  if idx == 0xFFFFFFFF then ⟨x, .ok (), []⟩
  else
    let d := xattrGetDesc c x idx
    match d.r with
    | .error e => ⟨d.st, .error e, d.acc⟩
    | .ok () =>
      let s := xattrSeekKv c d.st xattr
      match s.r with
      | .error e => ⟨s.st, .error e, d.acc ++ s.acc⟩
      | .ok () =>
        let r := kvReadMany c s.st.xattrStart s.st.xattrEnd ans count.toNat 0 s.st.kvrd
        ⟨{ s.st with kvrd := r.st }, r.r, d.acc ++ s.acc ++ r.acc⟩

/-! ## `dir_reader.c`, `readdir.c: sqfs_readdir_state_init`, `inode.c: sqfs_dir_entry_from_inode` -/

/-- what `sqfs_dir_reader_open_dir` looks at in the inode -/
structure DirIno where
  type : UInt16
  startBlock : UInt32
  offset : UInt16
  size : UInt32             -- `dir.size` (u16) or `dir_ext.size` (u32)
  inum : UInt32
  parentInum : UInt32
  deriving Repr, Inhabited

inductive DState | none | opened | dot | entries
  deriving DecidableEq, Repr, Inhabited

/-- `sqfs_dir_reader_state_t` -/
structure DirSt where
  block : UInt64
  offset : UInt64           -- size_t
  size : UInt64             -- size_t
  state : DState
  dirRef : UInt64
  parentRef : UInt64
  entRef : UInt64
  deriving Repr, Inhabited

def DirSt.zero : DirSt := ⟨0, 0, 0, .none, 0, 0, 0⟩

/-- `sqfs_dir_reader_open_dir` (dir_reader.c:176-216) with `sqfs_readdir_state_init` (readdir.c:70-89).
`dotEntries` = the reader was created with `SQFS_DIR_READER_DOT_ENTRIES`, `cache` = `sqfs_dir_reader_resolve_inum`
(the tree of directory inodes seen so far). -/
def openDir (dotEntries : Bool) (flags : UInt32) (dts rootRef : UInt64) (cache : UInt32 → Option UInt64)
    (ino : DirIno) : Except Err DirSt :=
  -- :183  if (flags & (~SQFS_DIR_OPEN_ALL_FLAGS))
  if flags &&& ~~~(1 : UInt32) != 0 then .error .unsupported
  -- readdir.c:75  only SQFS_INODE_DIR (1) and SQFS_INODE_EXT_DIR (8)
  else if ino.type != 1 && ino.type != 8 then .error .notDir
  else
    -- readdir.c:87  s->block += super->directory_table_start        (u64, may wrap; every seek checks the window)
    let st : DirSt := { DirSt.zero with block := ino.startBlock.toUInt64 + dts, offset := ino.offset.toUInt64,
                                         size := ino.size.toUInt64 }
    if dotEntries && flags &&& 1 == 0 then
      match cache ino.inum with
      | none => .error .noEntry
      | some dirRef =>
        if dirRef == rootRef then .ok { st with dirRef := dirRef, parentRef := dirRef, state := .opened }
        else match cache ino.parentInum with
          | none => .error .noEntry
          | some p => .ok { st with dirRef := dirRef, parentRef := p, state := .opened }
    else .ok { st with state := .entries }

/-- `mk_dummy_entry(str)` (dir_reader.c:218-235): `calloc(1, sizeof(sqfs_dir_node_t) + len + 1)`, `strcpy` -/
def dummyEntry (len : Nat) : List Access := [Access.mk .dirEntName 0 (len + 1) (szDirNode + len + 1 - szDirNode)]

/-- `sqfs_dir_reader_read` (dir_reader.c:237-267) in the states that do not touch the image: `some (state, accesses)`;
`none` = the call goes on to `sqfs_meta_reader_readdir` (state `entries`) -/
def dirReadDot (st : DirSt) : Option (Except Err DirSt × List Access) :=
  match st.state with
  | .opened => some (.ok { st with state := .dot, entRef := st.dirRef }, dummyEntry 1)
  | .dot => some (.ok { st with state := .entries, entRef := st.parentRef }, dummyEntry 2)
  | .entries => none
  | .none => some (.error .sequence, [])

/-- the inode location `sqfs_dir_reader_get_inode` passes to `sqfs_meta_reader_read_inode` (dir_reader.c:275) -/
def inodeLocation (ref : UInt64) : UInt64 × UInt64 := (ref >>> 16, ref &&& 0xFFFF)

/-- the entry reference `sqfs_meta_reader_readdir` composes (readdir.c:148-151) -/
def entryRef (inodeBlock : UInt64) (offset : UInt16) : UInt64 := (inodeBlock <<< 16) ||| offset.toUInt64

/-- `len > 0 ? strnlen(name, len) : strlen(name)` on a buffer `name ++ [0]` -/
def entryNameLen (name : List UInt8) (len : UInt64) : Nat :=
  if len > 0 then (if (cstr name).length < len.toNat then (cstr name).length else len.toNat) else (cstr name).length

/-- number of bytes of the buffer that `strnlen` / `strlen` look at -/
def entryNameExamined (name : List UInt8) (len : UInt64) : Nat :=
  if len > 0 then (if (cstr name).length < len.toNat then (cstr name).length + 1 else len.toNat)
  else (cstr name).length + 1

/--
`sqfs_dir_entry_from_inode(name, len, inode, idtbl, &out)` (inode.c:392-450).  `used` = `idtbl->ids.used`; `name` =
the bytes of the buffer before its last byte, which is a NUL (a `sqfs_dir_node_t` name: `size + 2` bytes from
`calloc`, `size + 1` of them read from the image, embedded NUL bytes possible).
-/
def dirEntryFromInode (used : UInt64) (uidIdx gidIdx : UInt16) (name : List UInt8) (len : UInt64) :
    Except Err Unit × List Access :=
  match indexToId used uidIdx with
  | .error _ => (.error .corrupted, [])
  | .ok a1 =>
    match indexToId used gidIdx with
    | .error _ => (.error .corrupted, a1)
    | .ok a2 =>
      -- :406  len = len > 0 ? strnlen(name, len) : strlen(name);
      let n := entryNameLen name len
      let examined := entryNameExamined name len
      let a3 := a1 ++ a2 ++ [Access.mk .nameIn 0 examined (name.length + 1)]
      -- :407  alloc_flex(sizeof(*ent), 1, len + 1)
      match allocFlex Consts.sizeofDirEntry.toUInt64 1 (n.toUInt64 + 1) with
      | none => (.error .alloc, a3)
      | some alloc =>
        -- :411  memcpy(ent->name, name, len)
        (.ok (), a3 ++ [Access.mk .nameIn 0 n (name.length + 1),
                        Access.mk .dirEntryOut Consts.sizeofDirEntry n alloc.toNat])

/-- `it_read_link` (dir_iterator.c:83-107): `calloc(1, size + 1)`, `memcpy(*out, inode->extra, size)`; the payload of
a symlink inode holds `target_size + 1` bytes (`readInodeSlink`) -/
def readLink (targetSize : UInt32) : List Access :=
  let size : UInt64 := targetSize.toUInt64
  [Access.mk .linkOut 0 size.toNat (size + 1).toNat, Access.mk .inodeExtra 0 size.toNat (targetSize.toNat + 1)]

end Sqfs.ReaderTables
