/-
C17 — model of `pack_files` / `pack_file` (bin/gensquashfs/src/mkfs.c:9-98, called from `main` at :196-201) as far as the packing directives are
concerned: **which files are handed to the block processor, in which order, each with which flag word**.

  pack_files:  for (node = fs->files; node != NULL; node = node->next_by_type)      -- the list `fstree_sort_files` left
                   pack_file(data, path, node, opt);
  pack_file:   flags = n->data.file.flags;                                          -- what the sort file put there
               if (opt->no_tail_packing && filesize > opt->cfg.block_size)
                   flags |= SQFS_BLK_DONT_FRAGMENT;
               sqfs_block_processor_create_ostream(&out, path, data, &(n->data.file.inode), flags);
               … splice the whole file into `out`, flush

The flag word is a C `int` handled with `|=` — here a `Nat` with `|||` and the `SQFS_BLK_*` values regenerated from the
headers; `Pack.Flags.ofNat` is how `specPack`'s input decodes such a word.  What is *not* modelled: opening the file,
`file_exceeds_block_list`, the error paths (a failing file ends the run without an image), `chdir`; `filesize` is
taken to be the number of bytes read (`fstat` vs. a file that changes under the packer is outside the property).
The contents are a parameter `content : path ↦ bytes`.
-/
import Sqfs.Model.Sort
import Sqfs.Spec.PackSpec
namespace Sqfs.C17Mkfs
open Sqfs.Sort Sqfs.Pack

/-- `pack_file`, mkfs.c:35-37 -/
def packFileFlags (noTailPacking : Bool) (B size flags : Nat) : Nat :=
  if noTailPacking && size > B then flags ||| Consts.blkDontFragment else flags

/-- one `pack_file` call: the file as the block processor gets it (`begin_file(flags)`, all bytes, `end_file`) -/
def packFile (noTailPacking : Bool) (B : Nat) (content : List UInt8 → List UInt8) (n : FileEnt) : InFile :=
  ⟨Flags.ofNat (packFileFlags noTailPacking B (content n.path).length n.flags), content n.path⟩

/-- `pack_files`: the loop over `fs->files` in list order -/
def packFiles (noTailPacking : Bool) (B : Nat) (content : List UInt8 → List UInt8) : List FileEnt → List InFile
  | [] => []
  | n :: rest => packFile noTailPacking B content n :: packFiles noTailPacking B content rest

/-- `fstree_sort_files` followed by `pack_files` (mkfs.c `main`: sort file first, then `pack_files`): the list
`specPack` is applied to.  Without a sort file `fs->files` keeps its default order and all-zero flag words. -/
def sortThenPack (mt : Matcher) (sortFile : Option (List (List UInt8))) (paths : List (List UInt8)) (noTailPacking : Bool)
    (B : Nat) (content : List UInt8 → List UInt8) : Except (Err × Nat) (List InFile) :=
  match sortFile with
  | none => .ok (packFiles noTailPacking B content (paths.map (fun p => { path := p })))
  | some rawLines =>
    match sortFiles true mt rawLines paths with
    | .error e => .error e
    | .ok fs => .ok (packFiles noTailPacking B content fs)

end Sqfs.C17Mkfs
