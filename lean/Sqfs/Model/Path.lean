/-
Model of `lib/util/src/canonicalize_name.c` and `lib/util/src/filename_sane.c`
(POSIX branch, i.e. `is_allowed_by_os` is the constant `true`).

A C string is modelled by the list of its bytes before the terminating NUL, so
every model input is NUL-free by construction of the harness; the theorems that
need it carry `0 ∉ s` explicitly where it matters (it does not, for these two
functions: nothing below inspects byte values other than '/' and '.').

The C functions work in place with a read cursor `src` and a write cursor `dst`
(`dst ≤ src` always, so the read cursor never sees a byte the write cursor
produced).  The model is therefore "read the original, emit the output", one
structural recursion per C loop nest, with the loop's control state as an
explicit argument.
-/
namespace Sqfs.Path

abbrev Bytes := List UInt8

/-- `'/'` -/
abbrev SL : UInt8 := 47
/-- `'.'` -/
abbrev DOT : UInt8 := 46

/--
`normalize_slashes`.  `started` = something has been emitted already (so a
pending slash is real and not part of the leading run that line 14–15 of the C
file skips); `pending` = the inner `while (*src == '/')` loop has consumed at
least one slash that has not been emitted yet.  A pending slash is emitted only
when a non-slash byte follows (`if (*src == '\0') break;`).
-/
def normGo (started pending : Bool) : Bytes → Bytes
  | [] => []
  | c :: t =>
    if c = SL then normGo started true t
    else if started && pending then SL :: c :: normGo true false t
    else c :: normGo true false t

def normalizeSlashes (s : Bytes) : Bytes := normGo false false s

/--
Main loop of `canonicalize_name`, after the first `normalize_slashes`.
`atStart = true` ⇔ `src` is at the top of the outer `while`, i.e. at the first
byte of a component.  `none` is the `return -1`.
-/
def canonGo : Bool → Bytes → Option Bytes
  | _, [] => some []
  | false, c :: t =>
    if c = SL then (canonGo true t).map (SL :: ·)    -- `if (*src == '/') *(dst++) = *(src++);`
    else (canonGo false t).map (c :: ·)             -- inner copy loop
  | true, [c] =>
    if c = DOT then some []                          -- "." then NUL: break
    else if c = SL then (canonGo true []).map (SL :: ·)
    else (canonGo false []).map (c :: ·)
  | true, [c, d] =>
    if c = DOT ∧ d = SL then canonGo true []         -- "./": src += 2; continue
    else if c = DOT ∧ d = DOT then none              -- ".." then NUL: return -1
    else if c = SL then (canonGo true [d]).map (SL :: ·)
    else (canonGo false [d]).map (c :: ·)
  | true, c :: d :: e :: t =>
    if c = DOT ∧ d = SL then canonGo true (e :: t)   -- "./": src += 2; continue
    else if c = DOT ∧ d = DOT ∧ e = SL then none     -- "../": return -1
    else if c = SL then (canonGo true (d :: e :: t)).map (SL :: ·)
    else (canonGo false (d :: e :: t)).map (c :: ·)

/-- `canonicalize_name`: `none` ⇔ returns -1; `some r` ⇔ returns 0 with the buffer rewritten to `r`. -/
def canonicalize (s : Bytes) : Option Bytes :=
  (canonGo true (normalizeSlashes s)).map normalizeSlashes

/-- `is_filename_sane(name, false)` and, on POSIX, also `(name, true)`. -/
def isFilenameSane (n : Bytes) : Bool :=
  if n = [DOT] || n = [DOT, DOT] then false
  else !(n.contains SL)

end Sqfs.Path
