/-
Model of the printer in `bin/rdsquashfs/src/describe.c` **as it is in the pinned snapshot** (before
`fixes/C16-describe-quoting.patch`): `print_name` quotes only when the name contains a space or a `"`, escapes
only `"`; symlink targets and `--unpack-root` locations are printed verbatim; the root directory is not printed.
Used by `Sqfs/Witness/C16.lean` (negation of the round trip, concrete witnesses) and by the check, which accepts
the real printer's output if it equals either this model or the repaired one (`Sqfs.Quote.describeNode`).
-/
import Sqfs.Model.Quote
namespace Sqfs.QuoteOld
open Sqfs.Path (Bytes)
open Sqfs.Quote

/-- the `do … while` of `print_name`: every `"` becomes `\"`, nothing else is touched -/
def escapeDQ : Bytes → Bytes
  | [] => []
  | c :: r => if c = DQ then BS :: DQ :: escapeDQ r else c :: escapeDQ r

/-- `print_name(n, dont_escape)` on the canonical path -/
def printName (name : Bytes) (dontEscape : Bool) : Bytes :=
  if dontEscape || (!name.contains SP && !name.contains DQ) then name
  else DQ :: escapeDQ name ++ [DQ]

def describeNode (unpackRoot : Option Bytes) (comps : List Bytes) (n : Node) : Except DErr Bytes :=
  if !(Sqfs.Path.isFilenameSane (comps.getLast?.getD [])) then .error .insaneName
  else
    let simple (kwd : Bytes) (extra : Option Bytes) : Except DErr Bytes :=
      match nodePath comps with
      | .error e => .error e
      | .ok p => .ok (kwd ++ [SP] ++ printName p false ++ printPerm n ++ (match extra with | none => [] | some e => SP :: e) ++ [LF])
    match n.kind with
    | .sock => simple KW_SOCK none
    | .slink => simple KW_SLINK (some n.target)
    | .fifo => simple KW_PIPE none
    | .file =>
      match unpackRoot with
      | none => simple KW_FILE none
      | some root =>
        match nodePath comps with
        | .error e => .error e
        | .ok p => simple KW_FILE (some (root ++ SL :: printName p true))
    | .chr => simple KW_NOD (some ([99, SP] ++ printNat 10 (devMajor (n.devno % 2^32) % 2^32) ++ [SP] ++ printNat 10 (devMinor (n.devno % 2^32) % 2^32)))
    | .blk => simple KW_NOD (some ([98, SP] ++ printNat 10 (devMajor (n.devno % 2^32) % 2^32) ++ [SP] ++ printNat 10 (devMinor (n.devno % 2^32) % 2^32)))
    | .dir =>
      -- `if (root->name[0] != '\0')`: the root (and any nameless directory) prints nothing
      if comps.getLast?.getD [] = [] then .ok [] else simple KW_DIR none
    | .other => .ok []

mutual
def describeTree (unpackRoot : Option Bytes) (comps : List Bytes) : Tree → Except DErr Bytes
  | .mk _ node children =>
    match describeNode unpackRoot comps node with
    | .error e => .error e
    | .ok line =>
      if node.kind = .dir then
        match describeForest unpackRoot comps children with
        | .error e => .error e
        | .ok rest => .ok (line ++ rest)
      else .ok line
def describeForest (unpackRoot : Option Bytes) (parents : List Bytes) : List Tree → Except DErr Bytes
  | [] => .ok []
  | .mk name node ch :: ts =>
    match describeTree unpackRoot (parents ++ [name]) (.mk name node ch) with
    | .error e => .error e
    | .ok a =>
      match describeForest unpackRoot parents ts with
      | .error e => .error e
      | .ok b => .ok (a ++ b)
end

def describe (unpackRoot : Option Bytes) (t : Tree) : Except DErr Bytes :=
  if t.name ≠ [] then .error .path else describeTree unpackRoot [] t

end Sqfs.QuoteOld
