/-
Model of the packers' output-file protocol (C14, reusable for C13).

What is modelled, function by function (all under /repo):

* `lib/sqfs/src/io/file.c`   `stdio_write_at`, `stdio_truncate`, `stdio_get_size`, `stdio_read_at`
                             → `fWrite`, `fTrunc`, `WState.size`, `readAt`; the file itself is a byte list
                             under the two system calls the code issues on it (`pwrite`, `ftruncate`) → `Op`.
* `lib/sqfs/src/super.c`, `write_super.c`, `read_super.c` → `superInit`, `Super.encode`, `superRead`.
* `lib/sqfs/src/id_table.c`  `sqfs_id_table_read` up to and including the location-list read of
                             `sqfs_read_table` → `idTableStage`;  `sqfs_id_table_write` → `idTableWrite`.
* `lib/sqfs/src/comp/compressor.c` `sqfs_generic_write_options` → `writeOptions`.
* `lib/sqfs/src/block_writer.c` `write_data_block`, `deduplicate_blocks`,
  `lib/util/src/file_cmp.c` `check_file_range_equal` → `writeDataBlock`, `dedup`, `rangeCmp`.
* `lib/sqfs/src/meta_writer.c` `flush`, `append`, `write_block`, `write_to_file`, `reset` → `metaFlush`, …
* `lib/sqfs/src/write_table.c` → `writeTable`;  `frag_table.c: sqfs_frag_table_write` → `fragTableWrite`;
  `dir_writer.c: sqfs_dir_writer_write_export_table` → `exportTableWrite`.
* `lib/sqfs/src/xattr/xattr_writer_flush.c` `sqfs_xattr_writer_flush` (file operations and location table;
  the key/value records are an abstract payload) → `xattrFlush`.
* `lib/common/src/writer/init.c`, `serialize_fstree.c`, `finish.c` → `wInit`, `serialize`, `finish`, `run`.

Abstract payloads (`Run`): what the data blocks, inode/directory records, tables and xattr records *contain*
is input; the compressor is an arbitrary function `cmp`.  What the model fixes is every offset, length and
order of the system calls on the output file, and every byte of the two superblock writes.

Errors are sticky (`WState.err`): once a primitive or a modelled check fails the C code returns the error up
to `main`, which issues no further output-file call; in the model `fWrite`/`fTrunc` become no-ops.

Failing runs (`Fault`, `Run.fault`, `Run.inputError`): a run may be subjected to a failure at any step — the
output call that would be the `k`-th fails (ENOSPC/EIO, or any other failure detected at that point: allocation,
read error), the file cannot grow beyond `n` bytes, or the input turns out to be damaged/truncated while the data
is being packed.  `stdio_write_at`/`stdio_truncate` then return `SQFS_ERROR_IO` without having changed the file,
every caller returns the error (`if (ret) return ret;` … `goto out`), `main` calls `sqfs_writer_cleanup` with
`EXIT_FAILURE`, which issues exactly one more call on the output path: `unlink` (`unlinkAtExit`).  In
particular `sqfs_writer_finish` reaches the final `sqfs_super_write` only if every earlier step succeeded.
-/
import Sqfs.Generated.Consts
namespace Sqfs.Writer
open Sqfs.Consts

abbrev Bytes := List UInt8

def zeros (n : Nat) : Bytes := List.replicate n 0

/-! ## The output file under the two system calls issued on it -/

inductive Op where
  | pwrite (off : Nat) (data : Bytes)
  | ftruncate (len : Nat)
deriving Repr, DecidableEq

/-- POSIX `pwrite` of all of `d` at `off` (a gap beyond EOF reads as zeros). -/
def filePwrite (f : Bytes) (off : Nat) (d : Bytes) : Bytes :=
  f.take off ++ zeros (off - f.length) ++ d ++ f.drop (off + d.length)

/-- POSIX `ftruncate` (extension reads as zeros). -/
def fileTrunc (f : Bytes) (n : Nat) : Bytes := f.take n ++ zeros (n - f.length)

def Op.apply : Op → Bytes → Bytes
  | .pwrite off d, f => filePwrite f off d
  | .ftruncate n, f => fileTrunc f n

def applyOps (f : Bytes) (ops : List Op) : Bytes := ops.foldl (fun f o => o.apply f) f

/-- The file left behind by a process that created the (empty) output file and then issued `ops`. -/
def image (ops : List Op) : Bytes := applyOps [] ops

/-- An operation that cannot touch the superblock region `[0, sizeof(sqfs_super_t))`. -/
def Op.Safe : Op → Prop
  | .pwrite off _ => sizeofSuper ≤ off
  | .ftruncate n => sizeofSuper ≤ n

instance : DecidablePred Op.Safe := fun o => by
  cases o <;> simp only [Op.Safe] <;> exact inferInstance

/-! ## Little-endian fields -/

def le : Nat → Nat → Bytes
  | 0, _ => []
  | n + 1, v => UInt8.ofNat (v % 256) :: le n (v / 256)

def leVal : Bytes → Nat
  | [] => 0
  | b :: r => b.toNat + 256 * leVal r

/-- `n`-byte little-endian field at offset `off`. -/
def field (b : Bytes) (off n : Nat) : Nat := leVal ((b.drop off).take n)

/-! ## Superblock (`sqfs_super_t`) -/

structure Super where
  magic : Nat := 0
  inodeCount : Nat := 0
  mtime : Nat := 0
  blockSize : Nat := 0
  fragCount : Nat := 0
  compId : Nat := 0
  blockLog : Nat := 0
  flags : Nat := 0
  idCount : Nat := 0
  vMajor : Nat := 0
  vMinor : Nat := 0
  rootRef : Nat := 0
  bytesUsed : Nat := 0
  idStart : Nat := 0
  xattrStart : Nat := 0
  inodeStart : Nat := 0
  dirStart : Nat := 0
  fragStart : Nat := 0
  exportStart : Nat := 0
deriving Repr, DecidableEq, Inhabited

/-- `0xFFFFFFFFFFFFFFFF`, "table not present". -/
def unset : Nat := 0xFFFFFFFFFFFFFFFF

/-- `sqfs_super_write`: the struct's fields in declaration order, each `htoleNN`. -/
def Super.encode (s : Super) : Bytes :=
  le 4 s.magic ++ le 4 s.inodeCount ++ le 4 s.mtime ++ le 4 s.blockSize ++ le 4 s.fragCount ++
  le 2 s.compId ++ le 2 s.blockLog ++ le 2 s.flags ++ le 2 s.idCount ++ le 2 s.vMajor ++ le 2 s.vMinor ++
  le 8 s.rootRef ++ le 8 s.bytesUsed ++ le 8 s.idStart ++ le 8 s.xattrStart ++ le 8 s.inodeStart ++
  le 8 s.dirStart ++ le 8 s.fragStart ++ le 8 s.exportStart

/-- the `leNNtoh` block of `sqfs_super_read`, fields located by the generated `offsetof` constants -/
def Super.decode (b : Bytes) : Super where
  magic := field b offSuperMagic 4
  inodeCount := field b offSuperInodeCount 4
  mtime := field b offSuperMtime 4
  blockSize := field b offSuperBlockSize 4
  fragCount := field b offSuperFragCount 4
  compId := field b offSuperCompId 2
  blockLog := field b offSuperBlockLog 2
  flags := field b offSuperFlags 2
  idCount := field b offSuperIdCount 2
  vMajor := field b offSuperVersionMajor 2
  vMinor := field b offSuperVersionMinor 2
  rootRef := field b offSuperRootInode 8
  bytesUsed := field b offSuperBytesUsed 8
  idStart := field b offSuperIdTable 8
  xattrStart := field b offSuperXattrTable 8
  inodeStart := field b offSuperInodeTable 8
  dirStart := field b offSuperDirTable 8
  fragStart := field b offSuperFragTable 8
  exportStart := field b offSuperExportTable 8

/-- `for (i = block_size; i != 0x01; i >>= 1) super->block_log += 1;` (fuel 64 ≥ bit width of `unsigned int`;
`i = 0` would not terminate in C and is excluded by the range checks before the loop). -/
def blockLogLoop : Nat → Nat → Nat → Nat
  | 0, _, acc => acc
  | fuel + 1, i, acc => if i = 1 then acc else blockLogLoop fuel (i / 2) (acc + 1)

/-- `sqfs_super_init`; `.error` carries `-SQFS_ERROR_*`. -/
def superInit (blockSize mtime compId : Nat) : Except Nat Super :=
  if blockSize &&& (blockSize - 1) ≠ 0 then .error errSuperBlockSize
  else if blockSize < minBlockSize then .error errSuperBlockSize
  else if blockSize > maxBlockSize then .error errSuperBlockSize
  else .ok {
    magic := magic
    mtime := mtime % 2 ^ 32
    blockSize := blockSize
    compId := compId % 2 ^ 16
    flags := flagNoFragments ||| flagNoXattrs ||| flagNoDuplicates
    vMajor := versionMajor
    vMinor := versionMinor
    bytesUsed := sizeofSuper
    idStart := unset, xattrStart := unset, inodeStart := unset
    dirStart := unset, fragStart := unset, exportStart := unset
    blockLog := blockLogLoop 64 blockSize 0 }

/-- `stdio_read_at` on the byte list: all `n` bytes from `off`, or `SQFS_ERROR_OUT_OF_BOUNDS` (pread returned 0). -/
def readAt (f : Bytes) (off n : Nat) : Except Nat Bytes :=
  if n = 0 then .ok []                                       -- `while (size > 0)` never runs
  else if off + n ≤ f.length then .ok ((f.drop off).take n) else .error errOutOfBounds

/-- `sqfs_super_read`, checks in source order. -/
def superRead (f : Bytes) : Except Nat Super :=
  match readAt f 0 sizeofSuper with
  | .error e => .error e
  | .ok raw =>
    let t := Super.decode raw
    if t.magic ≠ magic then .error errSuperMagic
    else if t.vMajor ≠ versionMajor ∨ t.vMinor ≠ versionMinor then .error errSuperVersion
    else if ((t.blockSize + 2 ^ 32 - 1) % 2 ^ 32) &&& t.blockSize ≠ 0 then .error errSuperBlockSize
    else if t.blockSize < minBlockSize then .error errSuperBlockSize
    else if t.blockSize > maxBlockSize then .error errSuperBlockSize
    else if t.blockLog < 12 ∨ t.blockLog > 20 then .error errCorrupted
    else if t.blockSize ≠ 2 ^ t.blockLog then .error errCorrupted
    else if t.compId < compMin ∨ t.compId > compMax then .error errUnsupported
    else if t.idCount = 0 then .error errCorrupted
    else .ok t

/-- number of metadata blocks of a table of `size` bytes (`sqfs_write_table`, `sqfs_read_table`) -/
def tableBlocks (size : Nat) : Nat :=
  size / metaBlockSize + (if size % metaBlockSize ≠ 0 then 1 else 0)

/-- `sqfs_id_table_read` as far as it does not depend on decompression: the entry check and the read of the
location list by `sqfs_read_table`.  (The metadata blocks themselves are read after this.) -/
def idTableStage (f : Bytes) (s : Super) : Except Nat Unit :=
  if s.idCount = 0 ∨ s.idStart ≥ s.bytesUsed then .error errCorrupted
  else match readAt f s.idStart (8 * tableBlocks (s.idCount * 4)) with
    | .error e => .error e
    | .ok _ => .ok ()

/-- What every reader (`rdsquashfs`, `sqfs2tar`, `sqfsdiff`) evaluates before it decodes anything:
`sqfs_super_read` and the entry of `sqfs_id_table_read`. -/
def readerVerdict (f : Bytes) : Except Nat Unit :=
  match superRead f with
  | .error e => .error e
  | .ok s => idTableStage f s

def readerAccepts (f : Bytes) : Bool :=
  match readerVerdict f with
  | .ok _ => true
  | .error _ => false

/-! ## Writer state and the two file primitives -/

/-- The failure a run is subjected to (none by default).

* `failAt = some k`: the run fails when `k` output calls have been issued — the output call that would be the
  `k`-th (0-based) returns an error (ENOSPC, EIO, …; `pwrite`/`ftruncate` return -1 without changing the file), or a
  failure of another kind (allocation, read error) is reported by the step that would issue it.
* `limit = some n`: "disk full" — every call that would make the file longer than it is *and* longer than `n`
  bytes fails; calls that stay within the bytes already there (such as the final superblock write) succeed. -/
structure Fault where
  failAt : Option Nat := none
  limit : Option Nat := none
deriving Repr, DecidableEq

structure WState where
  ops : List Op := []
  /-- contents of the output file (ghost: always `image ops`, lemma `Good`) -/
  file : Bytes := []
  /-- `sqfs_file_stdio_t.size` -/
  size : Nat := 0
  /-- sticky error, `-SQFS_ERROR_*` -/
  err : Option Nat := none
  /-- the injected failure (constant during a run) -/
  fault : Fault := {}
deriving Repr, DecidableEq

/-- does the output call that is about to be issued, and that would leave the file `newLen` bytes long if that is
more than it has now, fail? -/
def WState.faults (s : WState) (newLen : Nat) : Bool :=
  s.fault.failAt == some s.ops.length ||
  (match s.fault.limit with
   | some l => decide (l < newLen ∧ s.file.length < newLen)
   | none => false)

def WState.fail (s : WState) (e : Nat) : WState :=
  if s.err.isSome then s else { s with err := some e }

/-- `stdio_write_at`: no system call for an empty buffer, but `file->size` is still raised to `offset`.
A failing `pwrite` (`ret < 0`, not EINTR): `return SQFS_ERROR_IO`, nothing else changes. -/
def fWrite (s : WState) (off : Nat) (d : Bytes) : WState :=
  if s.err.isSome then s else
  if d.length ≠ 0 ∧ s.faults (off + d.length) = true then { s with err := some errIo } else
  { s with
    ops := if d.length = 0 then s.ops else s.ops ++ [.pwrite off d]
    file := if d.length = 0 then s.file else filePwrite s.file off d
    size := if off + d.length ≥ s.size then off + d.length else s.size }

/-- `stdio_truncate` (`sqfs_native_file_seek(…TRUNCATE)`: a failing `ftruncate` gives `SQFS_ERROR_IO`) -/
def fTrunc (s : WState) (n : Nat) : WState :=
  if s.err.isSome then s else
  if s.faults n = true then { s with err := some errIo } else
  { s with ops := s.ops ++ [.ftruncate n], file := fileTrunc s.file n, size := n }

/-! ## Compressor options (`sqfs_generic_write_options`) -/

/-- returns the new state and whether `SQFS_FLAG_COMPRESSOR_OPTIONS` is to be set (`ret > 0`).  An empty `opts`
models a compressor whose `write_options` returns 0 without writing. -/
def writeOptions (s : WState) (opts : Bytes) : WState × Bool :=
  if opts.length = 0 then (s, false)
  else if opts.length ≥ 64 - 2 then (s.fail errInternal, false)
  else (fWrite s sizeofSuper (le 2 (0x8000 ||| opts.length) ++ opts), true)

/-! ## Metadata writer -/

abbrev Cmp := Bytes → Option Bytes

structure MetaW where
  /-- `m->data[0 .. m->offset)` -/
  data : Bytes := []
  blockOffset : Nat := 0
  /-- `SQFS_META_WRITER_KEEP_IN_MEMORY` -/
  keep : Bool := false
  /-- queued `outblk->data` buffers -/
  list : List Bytes := []
deriving Repr

/-- `outblk->data` (2-byte header + payload, `calloc`ed to `SQFS_META_BLOCK_SIZE + 2`) and `count`. -/
def metaOutBlk (cmp : Cmp) (d : Bytes) : Bytes × Nat :=
  let body : Bytes × Nat := match cmp d with
    | some c => if c.length = 0 then (d, d.length ||| 0x8000) else (c, c.length)
    | none => (d, d.length ||| 0x8000)
  let buf := le 2 body.2 ++ body.1
  (buf ++ zeros (metaBlockSize + 2 - buf.length), body.1.length + 2)

/-- `write_block`: `count = header & 0x7FFF`, `count + 2` bytes at `get_size` -/
def metaWriteBlock (s : WState) (buf : Bytes) : WState :=
  let count := field buf 0 2 &&& 0x7FFF
  fWrite s s.size (buf.take (count + 2))

/-- `sqfs_meta_writer_flush` -/
def metaFlush (cmp : Cmp) (s : WState) (m : MetaW) : WState × MetaW :=
  if m.data.length = 0 then (s, m) else
  let (buf, count) := metaOutBlk cmp m.data
  if m.keep then (s, { m with list := m.list ++ [buf], data := [], blockOffset := m.blockOffset + count })
  else (metaWriteBlock s buf, { m with data := [], blockOffset := m.blockOffset + count })

/-- `sqfs_meta_writer_append`; fuel = number of bytes still to copy (each round copies at least one) -/
def metaAppendLoop (cmp : Cmp) : Nat → WState → MetaW → Bytes → WState × MetaW
  | 0, s, m, _ => (s, m)
  | fuel + 1, s, m, d =>
    if d.length = 0 then (s, m) else
    let sm := if metaBlockSize - m.data.length = 0 then metaFlush cmp s m else (s, m)
    let diff := min (metaBlockSize - sm.2.data.length) d.length
    metaAppendLoop cmp fuel sm.1 { sm.2 with data := sm.2.data ++ d.take diff } (d.drop diff)

def metaAppend (cmp : Cmp) (s : WState) (m : MetaW) (d : Bytes) : WState × MetaW :=
  let sm := metaAppendLoop cmp d.length s m d
  if sm.2.data.length = metaBlockSize then metaFlush cmp sm.1 sm.2 else sm

def metaAppendAll (cmp : Cmp) (s : WState) (m : MetaW) : List Bytes → WState × MetaW
  | [] => (s, m)
  | d :: r => let sm := metaAppend cmp s m d; metaAppendAll cmp sm.1 sm.2 r

/-- `sqfs_meta_write_write_to_file` -/
def metaWriteList (s : WState) : List Bytes → WState
  | [] => s
  | b :: r => metaWriteList (metaWriteBlock s b) r

/-! ## Block writer -/

structure Blk where
  offset : Nat
  hash : Nat
deriving Repr, DecidableEq, Inhabited

structure BlockW where
  /-- `wr->blocks.data[0 .. used)` -/
  blocks : List Blk := []
  fileStart : Nat := 0
deriving Repr

/-- one `write_data_block` call: payload, `SQFS_BLK_*` flags, checksum -/
structure BlkCall where
  data : Bytes
  flags : Nat
  chksum : Nat
deriving Repr

def hasFlag (flags bit : Nat) : Bool := flags &&& bit ≠ 0

/-- `MK_BLK_HASH` -/
def mkBlkHash (chksum size : Nat) : Nat := ((size % 2 ^ 32) <<< 32) ||| (chksum % 2 ^ 32)
/-- `SIZE_FROM_HASH` -/
def sizeFromHash (h : Nat) : Nat := (h >>> 32) &&& (2 ^ 24 - 1)

/-- `check_file_range_equal` with `scratch_sz / 2`-byte chunks: `.ok true` = 0 (equal), `.ok false` = 1,
`.error` = a read beyond EOF.  Fuel = bytes left. -/
def rangeCmp (f : Bytes) : Nat → Nat → Nat → Nat → Except Nat Bool
  | 0, _, _, _ => .ok true
  | fuel + 1, a, b, sz =>
    if sz = 0 then .ok true else
    let diff := min (blockWriterScratch / 2) sz
    match readAt f a diff, readAt f b diff with
    | .error e, _ => .error e
    | _, .error e => .error e
    | .ok x, .ok y => if x ≠ y then .ok false else rangeCmp f fuel (a + diff) (b + diff) (sz - diff)

def hashAt (blocks : List Blk) (i : Nat) : Nat := (blocks.getD i ⟨0, 0⟩).hash
def offsetAt (blocks : List Blk) (i : Nat) : Nat := (blocks.getD i ⟨0, 0⟩).offset

/-- the inner `for (j …)` of `deduplicate_blocks`: all `count` hashes equal -/
def hashesMatch (blocks : List Blk) (i fileStart : Nat) : Nat → Bool
  | 0 => true
  | j + 1 => hashesMatch blocks i fileStart j && (hashAt blocks (i + j) == hashAt blocks (fileStart + j))

/-- the outer `for (i …)`: first `i < file_start` whose hashes match and whose bytes are equal; `fileStart` if none -/
def dedupSearch (f : Bytes) (blocks : List Blk) (fileStart count locA sz : Nat) : Nat → Nat → Except Nat Nat
  | 0, i => .ok i
  | fuel + 1, i =>
    if hashesMatch blocks i fileStart count then
      match rangeCmp f sz locA (offsetAt blocks i) sz with
      | .error e => .error e
      | .ok true => .ok i
      | .ok false => dedupSearch f blocks fileStart count locA sz fuel (i + 1)
    else dedupSearch f blocks fileStart count locA sz fuel (i + 1)

def sumSizes (blocks : List Blk) (start : Nat) : Nat → Nat
  | 0 => 0
  | n + 1 => sumSizes blocks start n + sizeFromHash (hashAt blocks (start + n))

/-- `deduplicate_blocks` (block writer created with flags 0, as `sqfs_writer_init` does); returns `*out` too -/
def dedup (s : WState) (w : BlockW) (flags : Nat) : WState × BlockW × Nat :=
  let count := w.blocks.length - w.fileStart
  if count = 0 then (s, w, 0)
  else if hasFlag flags blkDontDeduplicate then (s, w, offsetAt w.blocks w.fileStart)
  else
    let sz := sumSizes w.blocks w.fileStart count
    let locA := offsetAt w.blocks w.fileStart
    match dedupSearch s.file w.blocks w.fileStart count locA sz w.fileStart 0 with
    | .error e => (s.fail e, w, 0)
    | .ok i =>
      if i ≥ w.fileStart then (s, w, offsetAt w.blocks i)
      else
        let used := if count ≥ w.fileStart - i then i + count else w.fileStart
        let kept := w.blocks.take used
        match kept.getLast? with
        | none => (s.fail errInternal, w, 0)          -- unreachable (`used ≥ 1`): C would index `blocks[-1]`
        | some b => (fTrunc s (b.offset + sizeFromHash b.hash), { w with blocks := kept }, offsetAt w.blocks i)

/-- `write_data_block` -/
def writeDataBlock (s : WState) (w : BlockW) (c : BlkCall) : WState × BlockW × Nat :=
  let w := if hasFlag c.flags blkFirstBlock then { w with fileStart := w.blocks.length } else w
  let loc := s.size
  let sw : WState × BlockW :=
    if c.data.length ≠ 0 ∧ ¬ hasFlag c.flags blkIsSparse then
      let out := c.data.length ||| (if hasFlag c.flags blkIsCompressed then 0 else 2 ^ 24)
      (fWrite s loc c.data, { w with blocks := w.blocks ++ [⟨loc, mkBlkHash c.chksum out⟩] })
    else (s, w)
  if hasFlag c.flags blkLastBlock then
    if sw.1.err.isSome then (sw.1, sw.2, loc) else dedup sw.1 sw.2 c.flags
  else (sw.1, sw.2, loc)

def writeDataBlocks (s : WState) (w : BlockW) : List BlkCall → WState × BlockW
  | [] => (s, w)
  | c :: r => let x := writeDataBlock s w c; writeDataBlocks x.1 x.2.1 r

/-! ## Tables -/

/-- the `while (table_size > 0)` loop of `sqfs_write_table`; fuel = bytes left -/
def writeTableLoop (cmp : Cmp) : Nat → WState → MetaW → List Nat → Bytes → WState × MetaW × List Nat
  | 0, s, m, locs, _ => (s, m, locs)
  | fuel + 1, s, m, locs, d =>
    if d.length = 0 then (s, m, locs) else
    let locs := locs ++ [s.size]
    let diff := min metaBlockSize d.length
    let sm := metaAppend cmp s m (d.take diff)
    writeTableLoop cmp fuel sm.1 sm.2 locs (d.drop diff)

def leList (n : Nat) : List Nat → Bytes
  | [] => []
  | v :: r => le n v ++ leList n r

/-- `sqfs_write_table`: returns the state and `*start` -/
def writeTable (cmp : Cmp) (s : WState) (payload : Bytes) : WState × Nat :=
  let r := writeTableLoop cmp payload.length s {} [] payload
  let sm := metaFlush cmp r.1 r.2.1
  let s := sm.1
  (fWrite s s.size (leList 8 r.2.2), s.size)

/-- `sqfs_frag_table_write` (`anyCompressed`: some entry has the compressed bit clear in its size word) -/
def fragTableWrite (cmp : Cmp) (s : WState) (sup : Super) (table : Bytes) (anyCompressed : Bool) : WState × Super :=
  if table.length / sizeofFragment = 0 then
    (s, { sup with fragStart := unset,
                   flags := ((sup.flags ||| flagNoFragments) &&& (0xFFFF - flagAlwaysFragments)) &&& (0xFFFF - flagUncompressedFragments) })
  else
    let r := writeTable cmp s table
    let fl := ((sup.flags &&& (0xFFFF - flagNoFragments)) ||| flagAlwaysFragments) ||| flagUncompressedFragments
    let fl := if anyCompressed then fl &&& (0xFFFF - flagUncompressedFragments) else fl
    (r.1, { sup with fragStart := r.2, fragCount := (table.length / sizeofFragment) % 2 ^ 32, flags := fl })

/-- `sqfs_dir_writer_write_export_table` (`none`: `export_tbl.data == NULL`) -/
def exportTableWrite (cmp : Cmp) (s : WState) (sup : Super) : Option Bytes → WState × Super
  | none => (s, sup)
  | some t =>
    let r := writeTable cmp s t
    (r.1, { sup with exportStart := r.2, flags := sup.flags ||| flagExportable })

/-- `sqfs_id_table_write` -/
def idTableWrite (cmp : Cmp) (s : WState) (sup : Super) (ids : List Nat) : WState × Super :=
  let r := writeTable cmp s (leList 4 ids)
  (r.1, { sup with idCount := ids.length % 2 ^ 16, idStart := r.2 })

/-- abstract xattr payload: the byte strings appended to the key/value stream and the 16-byte id entries -/
structure XattrIn where
  kv : List Bytes
  idEntries : List Bytes
deriving Repr

/-- `write_id_table` of xattr_writer_flush.c: `locations[]` bookkeeping around each append -/
def xattrIdLoop (cmp : Cmp) (s : WState) (m : MetaW) (locs : List Nat) : List Bytes → WState × MetaW × List Nat
  | [] => (s, m, locs)
  | e :: r =>
    let sm := metaAppend cmp s m e
    let locs := if sm.2.blockOffset ≠ locs.getLastD 0 then locs ++ [sm.2.blockOffset] else locs
    xattrIdLoop cmp sm.1 sm.2 locs r

/-- `write_kv_pairs`: the key/value records, then `sqfs_meta_writer_flush` -/
def xattrKv (cmp : Cmp) (s : WState) (x : XattrIn) : WState × MetaW :=
  let sm := metaAppendAll cmp s {} x.kv
  metaFlush cmp sm.1 sm.2

/-- `sqfs_meta_writer_reset`, `write_id_table` -/
def xattrIds (cmp : Cmp) (s : WState) (m : MetaW) (x : XattrIn) : WState × List Nat :=
  let r := xattrIdLoop cmp s { m with blockOffset := 0, data := [] } [0] x.idEntries
  ((metaFlush cmp r.1 r.2.1).1, r.2.2)

/-- `write_location_table`: 16-byte `sqfs_xattr_id_table_t` at `xattr_id_table_start`, then the locations -/
def xattrLocTable (s : WState) (kvStart nIds : Nat) (locs : List Nat) : WState :=
  let start := s.size
  let s1 := fWrite s start (le 8 kvStart ++ le 4 nIds ++ le 4 0)
  fWrite s1 (start + sizeofXattrIdTable) (leList 8 locs)

/-- `sqfs_xattr_writer_flush` -/
def xattrFlush (cmp : Cmp) (s : WState) (sup : Super) (x : XattrIn) : WState × Super :=
  if x.kv.length = 0 ∨ x.idEntries.length = 0 then
    (s, { sup with xattrStart := unset, flags := sup.flags ||| flagNoXattrs })
  else
    let kvStart := s.size
    let kv := xattrKv cmp s x
    let idStart := kv.1.size
    let count := tableBlocks (x.idEntries.length * sizeofXattrId)          -- alloc_location_table
    let ids := xattrIds cmp kv.1 kv.2 x
    let start := ids.1.size
    let locs := (ids.2.take count).map (· + idStart)
    (xattrLocTable ids.1 kvStart x.idEntries.length locs,
     { sup with xattrStart := start, flags := sup.flags &&& (0xFFFF - flagNoXattrs) })

/-! ## The packers' skeleton: `sqfs_writer_init`, data, `sqfs_writer_finish` -/

structure Run where
  blockSize : Nat
  mtime : Nat
  compId : Nat
  /-- compressor option payload (empty: `write_options` returns 0) -/
  opts : Bytes
  cmp : Cmp
  /-- the `write_data_block` calls the block processor makes, in order -/
  blocks : List BlkCall
  /-- `fs.unique_inode_count` -/
  inodeCount : Nat
  /-- byte strings appended to the inode metadata writer by `sqfs_serialize_fstree` -/
  inodeData : List Bytes
  /-- byte strings appended to the (in-memory) directory metadata writer -/
  dirData : List Bytes
  rootRef : Nat
  /-- raw fragment table (`sqfs_fragment_t[]`) -/
  fragTable : Bytes
  fragAnyCompressed : Bool
  /-- `cfg->exportable` and the raw export table -/
  exportTable : Option (Option Bytes)
  ids : List Nat
  /-- `!cfg->no_xattr` and what the xattr writer holds -/
  xattr : Option XattrIn
  devblksize : Nat
  /-- the failure injected into the run's output calls (none: a fault-free run) -/
  fault : Fault := {}
  /-- `process_tarball` / `pack_files` / `fstree_post_process` report a failure after having made the
  `write_data_block` calls in `blocks` (damaged or truncated tar stream, unreadable input file, failed
  allocation): `main` does `goto out` -/
  inputError : Option Nat := none

/-- `sqfs_writer_init` as far as the output file is concerned -/
def wInit (r : Run) : WState × Super :=
  match superInit r.blockSize r.mtime r.compId with
  | .error e => ({ err := some e, fault := r.fault }, default)
  | .ok sup =>
    let s := fWrite { fault := r.fault } 0 sup.encode       -- sqfs_super_write (provisional)
    let so := writeOptions s r.opts                          -- cmp->write_options
    (so.1, if so.2 then { sup with flags := sup.flags ||| flagCompressorOptions } else sup)

/-- `sqfs_serialize_fstree` -/
def serialize (r : Run) (s : WState) (sup : Super) : WState × Super :=
  let sup := { sup with inodeStart := s.size }
  let im := metaAppendAll r.cmp s {} r.inodeData
  let dm := metaAppendAll r.cmp im.1 { keep := true } r.dirData
  let im := metaFlush r.cmp dm.1 im.2
  let dm := metaFlush r.cmp im.1 dm.2
  let s := dm.1
  let sup := { sup with rootRef := r.rootRef, dirStart := s.size }
  (metaWriteList s dm.2.list, sup)

/-- `sqfs_writer_finish` from `sqfs_serialize_fstree` up to, not including, the final `sqfs_super_write` -/
def tables (r : Run) (s : WState) (sup : Super) : WState × Super :=
  let x := serialize r s sup
  let x := fragTableWrite r.cmp x.1 x.2 r.fragTable r.fragAnyCompressed
  let x := match r.exportTable with
    | none => x
    | some t => exportTableWrite r.cmp x.1 x.2 t
  let x := idTableWrite r.cmp x.1 x.2 r.ids
  match r.xattr with
  | none => x
  | some xa => xattrFlush r.cmp x.1 x.2 xa

/-- `if (process_tarball(tar, &sqfs)) goto out;` (tar2sqfs), `if (pack_files(…)) goto out;` (gensquashfs),
`if (fstree_post_process(&sqfs.fs)) goto out;`: a failure reported by the input side ends the run -/
def inputCheck (r : Run) (s : WState) : WState :=
  match r.inputError with
  | none => s
  | some e => s.fail e

/-- everything up to, not including, the final `sqfs_super_write` of `sqfs_writer_finish` -/
def preFinal (r : Run) : WState × Super :=
  let i := wInit r
  let d := writeDataBlocks i.1 {} r.blocks                  -- pack_files … sqfs_block_processor_finish
  tables r (inputCheck r d.1) { i.2 with inodeCount := r.inodeCount % 2 ^ 32 }

/-- the superblock `sqfs_writer_finish` writes last -/
def finalSuper (r : Run) : Super :=
  let p := preFinal r
  { p.2 with bytesUsed := p.1.size }

/-- `padd_sqfs` -/
def padd (s : WState) (size blocksize : Nat) : WState :=
  if size % blocksize = 0 then s
  else fWrite s s.size (zeros (blocksize - size % blocksize))

/-- the state after `sqfs_writer_finish` has attempted the final `sqfs_super_write` — reached with `err = none`
only if every earlier step succeeded -/
def commit (r : Run) : WState :=
  fWrite (preFinal r).1 0 (finalSuper r).encode             -- sqfs_super_write (final)

/-- `sqfs_writer_init` … `sqfs_writer_finish`: the complete run -/
def run (r : Run) : WState :=
  padd (commit r) (finalSuper r).bytesUsed r.devblksize

/-- `sqfs_writer_cleanup(&sqfs, status)`: after a failed run (`status != EXIT_SUCCESS`) the one further call on
the output path is `unlink(sqfs->filename)`; the file is absent from then on -/
def unlinkAtExit (r : Run) : Bool := (run r).err.isSome

/-- the same payload subjected to the output fault `f` -/
def Run.withFault (r : Run) (f : Fault) : Run := { r with fault := f }

/-- number of output-file operations up to and including the final superblock write -/
def kFinal (r : Run) : Nat := (preFinal r).1.ops.length + 1

/-! ## Shape of an operation log (checked on the logs of the real packers) -/

/-- `p` is exactly what `sqfs_super_init` + `sqfs_super_write` produce for the parameters it carries -/
def isProvisional (p : Bytes) : Bool :=
  let t := Super.decode p
  match superInit t.blockSize t.mtime t.compId with
  | .error _ => false
  | .ok s => s.encode == p

def isZeros (d : Bytes) : Bool := d.all (· == 0)

/-- split `rest` at the first operation that can touch `[0, sizeof super)` -/
def splitSafe : List Op → List Op × List Op
  | [] => ([], [])
  | o :: r => if o.Safe then let x := splitSafe r; (o :: x.1, x.2) else ([], o :: r)

/-- The log is: provisional superblock; operations that stay clear of the superblock region; one 96-byte
write at offset 0; then nothing, or one append of zeros at `bytes_used`. -/
def shapeCheck (ops : List Op) : Bool :=
  match ops with
  | .pwrite 0 p :: rest =>
    isProvisional p &&
    (match splitSafe rest with
     | (mid, .pwrite 0 s :: pad) =>
       let before := image (.pwrite 0 p :: mid)
       s.length == sizeofSuper &&
       (Super.decode s).bytesUsed == before.length &&
       (match pad with
        | [] => true
        | [.pwrite off z] => off == before.length && isZeros z
        | _ => false)
     | _ => false)
  | _ => false

/-- position just after the second superblock write of a log of that shape -/
def kFinalOf (ops : List Op) : Nat := (splitSafe ops.tail).1.length + 2

/-- Shape of the log of a run that failed before it committed: nothing at all, or the provisional superblock
followed only by operations that stay clear of the superblock region — no second write at offset 0 (checked on
the logs of the real packers' *failing* runs). -/
def failShapeCheck (ops : List Op) : Bool :=
  match ops with
  | [] => true
  | .pwrite 0 p :: rest => isProvisional p && rest.all (fun o => decide o.Safe)
  | _ => false

end Sqfs.Writer
