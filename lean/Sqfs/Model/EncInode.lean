/-
C01 — inodes.

* `Inode`: `sqfs_inode_generic_t` (`include/sqfs/inode.h`): base + per-type data + the flexible payload
  (`extra[]`: block size words of a file, the directory index of an extended directory, the target of a symlink).
  The 14 on-disk kinds are 10 constructors (`dev`/`devExt` carry "character?", `ipc`/`ipcExt` carry "socket?").
* `encInode` = `sqfs_meta_writer_write_inode` (`lib/sqfs/src/write_inode.c`): the bytes appended to the inode
  meta writer.
* `decInode` = `sqfs_meta_reader_read_inode` (`lib/sqfs/src/read_inode.c`) after the seek, on the flat stream.
* `makeExtended`, `makeBasic`, `setXattrIndex` = `lib/sqfs/src/inode.c`.
* `serializeInode` = the selection done by `serialize_tree_node` (`lib/common/src/writer/serialize_fstree.c:117-149`).

All integer fields are `Nat`; the encoder truncates to the C field width exactly where the C assignment does
(`le w` = `htoleNN` of a `sqfs_uNN`).  `size_t` is 64 bits (the overflow guards of `read_inode_slink` and
`alloc_flex` cannot fire for 32-bit on-disk fields and are not modelled here; `Sqfs.ReaderBounds` has them).
-/
import Sqfs.Model.EncBytes
namespace Sqfs.Enc
open Sqfs.Consts

/-- `sqfs_inode_t` without `type` (which is the constructor).  `mode` is the in-memory value: the full `st_mode`
including the `S_IFMT` bits (`serialize_tree_node`: `inode->base.mode = n->mode`; the reader's `set_mode`). -/
structure Base where
  mode : Nat
  uidIdx : Nat
  gidIdx : Nat
  mtime : Nat
  inum : Nat
  deriving Repr, DecidableEq, Inhabited

/-- one `sqfs_dir_index_t` + name in the payload of an extended directory inode; `size` = `name.length - 1` -/
structure DirIdx where
  index : Nat
  startBlock : Nat
  name : Bytes
  deriving Repr, DecidableEq

inductive Inode where
  | dir (b : Base) (startBlock nlink size offset parent : Nat)
  | file (b : Base) (blocksStart fragIdx fragOff fileSize : Nat) (blocks : List Nat)
  | slink (b : Base) (nlink targetSize : Nat) (target : Bytes)
  | dev (b : Base) (chr : Bool) (nlink devno : Nat)
  | ipc (b : Base) (sock : Bool) (nlink : Nat)
  | dirExt (b : Base) (nlink size startBlock parent inodexCount offset xattr : Nat) (index : List DirIdx)
  | fileExt (b : Base) (blocksStart fileSize sparse nlink fragIdx fragOff xattr : Nat) (blocks : List Nat)
  | slinkExt (b : Base) (nlink targetSize : Nat) (target : Bytes) (xattr : Nat)
  | devExt (b : Base) (chr : Bool) (nlink devno xattr : Nat)
  | ipcExt (b : Base) (sock : Bool) (nlink xattr : Nat)
  deriving Repr, DecidableEq

namespace Inode

/-- `base.type` -/
def typ : Inode → Nat
  | .dir .. => inodeDir
  | .file .. => inodeFile
  | .slink .. => inodeSlink
  | .dev _ chr .. => if chr then inodeCdev else inodeBdev
  | .ipc _ sock .. => if sock then inodeSocket else inodeFifo
  | .dirExt .. => inodeExtDir
  | .fileExt .. => inodeExtFile
  | .slinkExt .. => inodeExtSlink
  | .devExt _ chr .. => if chr then inodeExtCdev else inodeExtBdev
  | .ipcExt _ sock .. => if sock then inodeExtSocket else inodeExtFifo

def base : Inode → Base
  | .dir b .. | .file b .. | .slink b .. | .dev b .. | .ipc b .. | .dirExt b .. | .fileExt b .. | .slinkExt b ..
  | .devExt b .. | .ipcExt b .. => b

def withBase (f : Base → Base) : Inode → Inode
  | .dir b a1 a2 a3 a4 a5 => .dir (f b) a1 a2 a3 a4 a5
  | .file b a1 a2 a3 a4 bl => .file (f b) a1 a2 a3 a4 bl
  | .slink b a1 a2 t => .slink (f b) a1 a2 t
  | .dev b c a1 a2 => .dev (f b) c a1 a2
  | .ipc b s a1 => .ipc (f b) s a1
  | .dirExt b a1 a2 a3 a4 a5 a6 a7 ix => .dirExt (f b) a1 a2 a3 a4 a5 a6 a7 ix
  | .fileExt b a1 a2 a3 a4 a5 a6 a7 bl => .fileExt (f b) a1 a2 a3 a4 a5 a6 a7 bl
  | .slinkExt b a1 a2 t x => .slinkExt (f b) a1 a2 t x
  | .devExt b c a1 a2 x => .devExt (f b) c a1 a2 x
  | .ipcExt b s a1 x => .ipcExt (f b) s a1 x

def isExt : Inode → Bool
  | .dirExt .. | .fileExt .. | .slinkExt .. | .devExt .. | .ipcExt .. => true
  | _ => false

/-- the `S_IFMT` bits that belong to the kind (what `set_mode` of read_inode.c ORs in) -/
def typeBits : Inode → Nat
  | .dir .. | .dirExt .. => sIFDIR
  | .file .. | .fileExt .. => sIFREG
  | .slink .. | .slinkExt .. => sIFLNK
  | .dev _ chr .. | .devExt _ chr .. => if chr then sIFCHR else sIFBLK
  | .ipc _ sock .. | .ipcExt _ sock .. => if sock then sIFSOCK else sIFIFO

/-- `sqfs_inode_get_xattr_index` (inode.c:39-75) -/
def xattr : Inode → Nat
  | .dirExt _ _ _ _ _ _ _ x _ => x
  | .fileExt _ _ _ _ _ _ _ x _ => x
  | .slinkExt _ _ _ _ x => x
  | .devExt _ _ _ _ x => x
  | .ipcExt _ _ _ x => x
  | _ => NONE32

/-- the link count a reader reports (`nlink` field; a basic file has none and counts as 1) -/
def nlink : Inode → Nat
  | .dir _ _ n _ _ _ => n
  | .file .. => 1
  | .slink _ n _ _ => n
  | .dev _ _ n _ => n
  | .ipc _ _ n => n
  | .dirExt _ n .. => n
  | .fileExt _ _ _ _ n .. => n
  | .slinkExt _ n .. => n
  | .devExt _ _ n .. => n
  | .ipcExt _ _ n _ => n

end Inode

/-! ### `sqfs_meta_writer_write_inode` -/

/-- `n->base.mode & ~SQFS_INODE_MODE_MASK`, stored in a `sqfs_u16` (write_inode.c:97) -/
def permBits (mode : Nat) : Nat := (mode % 65536) &&& (65535 - inodeModeMask)

/-- `write_dir_index` (write_inode.c:47-83): per entry the 12-byte struct, then `size + 1` name bytes -/
def encIndex : List DirIdx → Bytes
  | [] => []
  | e :: r => encFields [(4, e.index), (4, e.startBlock), (4, e.name.length - 1)] ++ e.name ++ encIndex r

def encBase (typ : Nat) (b : Base) : Bytes :=
  encFields [(2, typ), (2, permBits b.mode), (2, b.uidIdx), (2, b.gidIdx), (4, b.mtime), (4, b.inum)]   -- :96-101

/-- the `switch (n->base.type)` of `sqfs_meta_writer_write_inode` (write_inode.c:107-219) -/
def encBody : Inode → Bytes
  | .dir _ sb nl sz off par => encFields [(4, sb), (4, nl), (2, sz), (2, off), (4, par)]                    -- :108-116
  | .file _ st fi fo sz blks => encFields [(4, st), (4, fi), (4, fo), (4, sz)] ++ encWords 4 blks            -- :118-130
  | .slink _ nl ts t => encFields [(4, nl), (4, ts)] ++ t.take ts                                             -- :131-141
  | .dev _ _ nl d => encFields [(4, nl), (4, d)]                                                              -- :143-149
  | .ipc _ _ nl => encFields [(4, nl)]                                                                        -- :151-156
  | .dirExt _ nl sz sb par ic off x idx =>                                                                    -- :158-173
    encFields [(4, nl), (4, sz), (4, sb), (4, par), (2, ic), (2, off), (4, x)] ++ encIndex idx
  | .fileExt _ st sz sp nl fi fo x blks =>                                                                    -- :174-189
    encFields [(8, st), (8, sz), (8, sp), (4, nl), (4, fi), (4, fo), (4, x)] ++ encWords 4 blks
  | .slinkExt _ nl ts t x => encFields [(4, nl), (4, ts)] ++ t.take ts ++ encFields [(4, x)]                  -- :190-206
  | .devExt _ _ nl d x => encFields [(4, nl), (4, d), (4, x)]                                                 -- :207-215
  | .ipcExt _ _ nl x => encFields [(4, nl), (4, x)]                                                           -- :216-222

/-- `sqfs_meta_writer_write_inode` (write_inode.c:90-219): everything it appends, in order -/
def encInode (i : Inode) : Bytes := encBase i.typ i.base ++ encBody i

/-! ### `sqfs_meta_reader_read_inode` -/

/-- `set_mode` (read_inode.c:25-63); `.error SQFS_ERROR_UNSUPPORTED` for an unknown type -/
def setMode (typ mode : Nat) : Except Status Nat :=
  let m := (mode % 65536) &&& (65535 - sIFMT)
  if typ = inodeSocket ∨ typ = inodeExtSocket then .ok (m ||| sIFSOCK)
  else if typ = inodeSlink ∨ typ = inodeExtSlink then .ok (m ||| sIFLNK)
  else if typ = inodeFile ∨ typ = inodeExtFile then .ok (m ||| sIFREG)
  else if typ = inodeBdev ∨ typ = inodeExtBdev then .ok (m ||| sIFBLK)
  else if typ = inodeDir ∨ typ = inodeExtDir then .ok (m ||| sIFDIR)
  else if typ = inodeCdev ∨ typ = inodeExtCdev then .ok (m ||| sIFCHR)
  else if typ = inodeFifo ∨ typ = inodeExtFifo then .ok (m ||| sIFIFO)
  else .error errUnsupported

/-- `get_block_count` (read_inode.c:65-77) -/
def getBlockCount (size blockSize fragIdx fragOff : Nat) : Nat :=
  if size % blockSize ≠ 0 ∧ (fragIdx = NONE32 ∨ fragOff = NONE32) then size / blockSize + 1 else size / blockSize

/-- the `for (i < dir.inodex_count)` loop of `read_inode_dir_ext` (read_inode.c:239-282) -/
def decIndex : Nat → Bytes → Except Status (List DirIdx × Bytes)
  | 0, r => .ok ([], r)
  | n + 1, r =>
    match readFields [4, 4, 4] r with
    | .ok ([idx, sb, sz], r) =>
      match take? (sz + 1) r with
      | .ok (nm, r) =>
        match decIndex n r with
        | .ok (l, r) => .ok (⟨idx, sb, nm⟩ :: l, r)
        | .error e => .error e
      | .error e => .error e
    | .ok _ => .error errInternal
    | .error e => .error e

/-- `read_inode_file` (read_inode.c:79-121) -/
def decFile (b : Base) (blockSize : Nat) (r : Bytes) : Except Status (Inode × Bytes) :=
  match readFields [4, 4, 4, 4] r with
  | .ok ([st, fi, fo, sz], r) =>
    let count := getBlockCount sz blockSize fi fo
    match take? (4 * count) r with
    | .ok (w, r) => .ok (.file b st fi fo sz (decWords 4 count w), r)
    | .error e => .error e
  | .ok _ => .error errInternal
  | .error e => .error e

/-- `read_inode_file_ext` (read_inode.c:123-172) -/
def decFileExt (b : Base) (blockSize : Nat) (r : Bytes) : Except Status (Inode × Bytes) :=
  match readFields [8, 8, 8, 4, 4, 4, 4] r with
  | .ok ([st, sz, sp, nl, fi, fo, x], r) =>
    let count := getBlockCount sz blockSize fi fo
    match take? (4 * count) r with
    | .ok (w, r) => .ok (.fileExt b st sz sp nl fi fo x (decWords 4 count w), r)
    | .error e => .error e
  | .ok _ => .error errInternal
  | .error e => .error e

/-- `read_inode_slink` (read_inode.c:174-212): header, then `target_size` bytes -/
def decSlinkBody (r : Bytes) : Except Status ((Nat × Nat × Bytes) × Bytes) :=
  match readFields [4, 4] r with
  | .ok ([nl, ts], r) =>
    match take? ts r with
    | .ok (t, r) => .ok ((nl, ts, t), r)
    | .error e => .error e
  | .ok _ => .error errInternal
  | .error e => .error e

/-- `read_inode_dir_ext` (read_inode.c:214-288): **no index is read when `size == 0`** (:234) -/
def decDirExt (b : Base) (r : Bytes) : Except Status (Inode × Bytes) :=
  match readFields [4, 4, 4, 4, 2, 2, 4] r with
  | .ok ([nl, sz, sb, par, ic, off, x], r) =>
    if sz = 0 then .ok (.dirExt b nl sz sb par ic off x [], r)
    else
      match decIndex ic r with
      | .ok (idx, r) => .ok (.dirExt b nl sz sb par ic off x idx, r)
      | .error e => .error e
  | .ok _ => .error errInternal
  | .error e => .error e

/-- the base inode: read, `SWAB`, `set_mode` (read_inode.c:301-320) -/
def decBase (bs : Bytes) : Except Status ((Nat × Base) × Bytes) :=
  match readFields [2, 2, 2, 2, 4, 4] bs with                                             -- :307-316
  | .ok ([typ, mode, uid, gid, mtime, inum], r) =>
    match setMode typ mode with                                                             -- :318
    | .error e => .error e
    | .ok m => .ok ((typ, ⟨m, uid, gid, mtime, inum⟩), r)
  | .ok _ => .error errInternal
  | .error e => .error e

/-- the type switch of `sqfs_meta_reader_read_inode` (read_inode.c:322-420) -/
def decBody (blockSize typ : Nat) (b : Base) (r : Bytes) : Except Status (Inode × Bytes) :=
  if typ = inodeFile then decFile b blockSize r                                             -- :323-336
  else if typ = inodeSlink then
    match decSlinkBody r with
    | .ok ((nl, ts, t), r) => .ok (.slink b nl ts t, r)
    | .error e => .error e
  else if typ = inodeExtFile then decFileExt b blockSize r
  else if typ = inodeExtSlink then                                                          -- read_inode_slink_ext
    match decSlinkBody r with
    | .ok ((nl, ts, t), r) =>
      match readFields [4] r with
      | .ok ([x], r) => .ok (.slinkExt b nl ts t x, r)
      | .ok _ => .error errInternal
      | .error e => .error e
    | .error e => .error e
  else if typ = inodeExtDir then decDirExt b r
  else if typ = inodeDir then                                                               -- :347-358
    match readFields [4, 4, 2, 2, 4] r with
    | .ok ([sb, nl, sz, off, par], r) => .ok (.dir b sb nl sz off par, r)
    | .ok _ => .error errInternal
    | .error e => .error e
  else if typ = inodeBdev ∨ typ = inodeCdev then                                            -- :359-367
    match readFields [4, 4] r with
    | .ok ([nl, d], r) => .ok (.dev b (typ = inodeCdev) nl d, r)
    | .ok _ => .error errInternal
    | .error e => .error e
  else if typ = inodeFifo ∨ typ = inodeSocket then                                          -- :368-375
    match readFields [4] r with
    | .ok ([nl], r) => .ok (.ipc b (typ = inodeSocket) nl, r)
    | .ok _ => .error errInternal
    | .error e => .error e
  else if typ = inodeExtBdev ∨ typ = inodeExtCdev then                                      -- :376-385
    match readFields [4, 4, 4] r with
    | .ok ([nl, d, x], r) => .ok (.devExt b (typ = inodeExtCdev) nl d x, r)
    | .ok _ => .error errInternal
    | .error e => .error e
  else if typ = inodeExtFifo ∨ typ = inodeExtSocket then                                    -- :386-394
    match readFields [4, 4] r with
    | .ok ([nl, x], r) => .ok (.ipcExt b (typ = inodeExtSocket) nl x, r)
    | .ok _ => .error errInternal
    | .error e => .error e
  else .error errUnsupported                                                                -- unreachable after set_mode

/-- `sqfs_meta_reader_read_inode` (read_inode.c:290-425) once the reader stands at the inode: the inode and the
rest of the stream -/
def decInode (blockSize : Nat) (bs : Bytes) : Except Status (Inode × Bytes) :=
  match decBase bs with
  | .error e => .error e
  | .ok ((typ, b), r) => decBody blockSize typ b r

/-! ### `inode.c`: basic ↔ extended -/

/-- `sqfs_inode_make_extended` (inode.c:118-175), **repaired** (`fixes/C01-make-extended-ipc.patch`): for FIFO and
SOCKET the new `xattr_idx` is `ipc_ext.xattr_idx`.  `makeExtendedCur` is the code as it is in /repo. -/
def makeExtended : Inode → Inode
  | .dir b sb nl sz off par => .dirExt b nl sz sb par 0 off NONE32 []                       -- :121-132
  | .file b st fi fo sz blks => .fileExt b st sz 0 1 fi fo NONE32 blks                       -- :134-146
  | .slink b nl ts t => .slinkExt b nl ts t NONE32                                           -- :148
  | .dev b c nl d => .devExt b c nl d NONE32                                                 -- :151-153
  | .ipc b s nl => .ipcExt b s nl NONE32                                                     -- :155-157 (repaired)
  | i => i                                                                                   -- :159-166

/-- `sqfs_inode_make_extended` as it is in /repo: the FIFO/SOCKET branch (inode.c:155-157) stores `0xFFFFFFFF` into
`data.dev_ext.xattr_idx` (union offset `offDevExtXattr` = 8) while an extended IPC inode keeps its index in
`data.ipc_ext.xattr_idx` (offset `offIpcExtXattr` = 4), which therefore keeps whatever those four bytes held:
`stale` (0 after `calloc`). -/
def makeExtendedCur (stale : Nat) : Inode → Inode
  | .ipc b s nl => .ipcExt b s nl (if offIpcExtXattr = offDevExtXattr then NONE32 else stale)
  | i => makeExtended i

/-- `sqfs_inode_make_basic` (inode.c:177-239) -/
def makeBasic : Inode → Inode
  | .dirExt b nl sz sb par ic off x idx =>
    if x ≠ NONE32 then .dirExt b nl sz sb par ic off x idx                                   -- :182-184
    else if sz > 0xFFFF then .dirExt b nl sz sb par ic off x idx                             -- :204
    else .dir b sb nl sz off par
  | .fileExt b st sz sp nl fi fo x blks =>
    if x ≠ NONE32 then .fileExt b st sz sp nl fi fo x blks
    else if st > 0xFFFFFFFF ∨ sz > 0xFFFFFFFF ∨ sp > 0 ∨ nl > 1 then .fileExt b st sz sp nl fi fo x blks   -- :218-225
    else .file b st fi fo sz blks
  | .slinkExt b nl ts t x => if x ≠ NONE32 then .slinkExt b nl ts t x else .slink b nl ts t
  | .devExt b c nl d x => if x ≠ NONE32 then .devExt b c nl d x else .dev b c nl d
  | .ipcExt b s nl x => if x ≠ NONE32 then .ipcExt b s nl x else .ipc b s nl
  | i => i

/-- the assignment half of `sqfs_inode_set_xattr_index` (inode.c:87-113) -/
def putXattr (x : Nat) : Inode → Inode
  | .dirExt b nl sz sb par ic off _ idx => .dirExt b nl sz sb par ic off x idx
  | .fileExt b st sz sp nl fi fo _ blks => .fileExt b st sz sp nl fi fo x blks
  | .slinkExt b nl ts t _ => .slinkExt b nl ts t x
  | .devExt b c nl d _ => .devExt b c nl d x
  | .ipcExt b s nl _ => .ipcExt b s nl x
  | i => i

/-- `sqfs_inode_set_xattr_index` (inode.c:77-116) -/
def setXattrIndex (x : Nat) (i : Inode) : Inode :=
  putXattr x (if x ≠ NONE32 then makeExtended i else i)

/-- the same on the code as it is (`stale` is overwritten at once, so the defect of `makeExtendedCur` is invisible
here: `setXattrIndexCur_eq`) -/
def setXattrIndexCur (stale x : Nat) (i : Inode) : Inode :=
  putXattr x (if x ≠ NONE32 then makeExtendedCur stale i else i)

/-! ### `sqfs_inode_set_file_size`, `sqfs_inode_set_file_block_start` (the block processor's two stores) -/

/-- the plain store into `data.file_ext.file_size` / `data.file.file_size` -/
def putFileSize (size : Nat) : Inode → Inode
  | .fileExt b st _ sp nl fi fo x blks => .fileExt b st size sp nl fi fo x blks
  | .file b st fi fo _ blks => .file b st fi fo size blks
  | i => i

/-- the plain store into `blocks_start` -/
def putBlockStart (loc : Nat) : Inode → Inode
  | .fileExt b _ sz sp nl fi fo x blks => .fileExt b loc sz sp nl fi fo x blks
  | .file b _ fi fo sz blks => .file b loc fi fo sz blks
  | i => i

/-- `sqfs_inode_set_file_size` (inode.c:241-260), `size` a `sqfs_u64`; `none` = `SQFS_ERROR_NOT_FILE`.  An extended
inode is demoted when the new size is **below** `0xFFFFFFFF` (and `make_basic` finds everything else fitting), a basic
one promoted when it is **above**. -/
def setFileSize (size : Nat) : Inode → Option Inode
  | .fileExt b st sz sp nl fi fo x blks =>
    let i := putFileSize size (.fileExt b st sz sp nl fi fo x blks)                           -- :244
    some (if size < 0xFFFFFFFF then makeBasic i else i)                                       -- :246-247
  | .file b st fi fo sz blks =>
    if size > 0xFFFFFFFF then some (putFileSize size (makeExtended (.file b st fi fo sz blks)))   -- :249-251
    else some (putFileSize size (.file b st fi fo sz blks))                                   -- :253
  | _ => none                                                                                 -- :256

/-- `sqfs_inode_set_file_block_start` (inode.c:279-298), same shape -/
def setFileBlockStart (loc : Nat) : Inode → Option Inode
  | .fileExt b st sz sp nl fi fo x blks =>
    let i := putBlockStart loc (.fileExt b st sz sp nl fi fo x blks)                          -- :282
    some (if loc < 0xFFFFFFFF then makeBasic i else i)                                        -- :284-285
  | .file b st fi fo sz blks =>
    if loc > 0xFFFFFFFF then some (putBlockStart loc (makeExtended (.file b st fi fo sz blks)))   -- :287-289
    else some (putBlockStart loc (.file b st fi fo sz blks))                                  -- :291
  | _ => none                                                                                 -- :294

/-! ### `serialize_tree_node` -/

/-- what `serialize_tree_node` takes from the `tree_node_t` -/
structure NodeAttr where
  mode : Nat
  mtime : Nat
  inum : Nat
  linkCount : Nat
  xattrIdx : Nat
  deriving Repr, DecidableEq

/-- `inode->data.file_ext.nlink = n->link_count` (serialize_fstree.c:128-133).  On a basic file inode that is not
made extended the store lands in union bytes no basic field occupies (invisible). -/
def setFileNlink (lc : Nat) : Inode → Inode
  | .file b st fi fo sz blks =>
    if lc > 1 then
      match makeExtended (.file b st fi fo sz blks) with
      | .fileExt b st sz sp _ fi fo x blks => .fileExt b st sz sp lc fi fo x blks
      | i => i
    else .file b st fi fo sz blks
  | .fileExt b st sz sp _ fi fo x blks => .fileExt b st sz sp lc fi fo x blks
  | i => i

/-- `inode->data.dir.nlink = node->link_count` / `dir_ext.nlink` (serialize_fstree.c:100-104) -/
def setDirNlink (lc : Nat) : Inode → Inode
  | .dir b sb _ sz off par => .dir b sb lc sz off par
  | .dirExt b _ sz sb par ic off x idx => .dirExt b lc sz sb par ic off x idx
  | i => i

/-- `tree_node_to_inode` (serialize_fstree.c:14-58) for the five kinds it handles; `none` = `assert(0)` -/
def treeNodeToInode (mode linkCount devno : Nat) (target : Bytes) : Option Inode :=
  let b : Base := ⟨0, 0, 0, 0, 0⟩                                       -- calloc
  let fmt := mode &&& sIFMT
  if fmt = sIFSOCK then some (.ipc b true linkCount)
  else if fmt = sIFIFO then some (.ipc b false linkCount)
  else if fmt = sIFLNK then some (.slink b linkCount target.length target)
  else if fmt = sIFBLK then some (.dev b false linkCount devno)
  else if fmt = sIFCHR then some (.dev b true linkCount devno)
  else none

/-- `serialize_tree_node` (serialize_fstree.c:117-149) from the point where `inode` exists to the id-table lookups:
`i0` is what `write_dir_entries` (directories, link count already stored), the block processor (regular files) or
`tree_node_to_inode` produced. -/
def serializeInode (isDir isReg : Bool) (a : NodeAttr) (i0 : Inode) : Inode :=
  let i1 := if isReg then setFileNlink a.linkCount i0 else i0                              -- :124-134
  let i2 := i1.withBase (fun b => { b with mode := a.mode, mtime := a.mtime, inum := a.inum })   -- :142-144
  let i3 := setXattrIndex a.xattrIdx i2                                                    -- :146
  if a.xattrIdx = NONE32 ∧ ¬ isDir then makeBasic i3 else i3                               -- :148-149

/-- `sqfs_id_table_id_to_index` results stored into `base.uid_idx` / `base.gid_idx` (`sqfs_u16`) -/
def setIds (uidIdx gidIdx : Nat) (i : Inode) : Inode :=
  i.withBase (fun b => { b with uidIdx := uidIdx, gidIdx := gidIdx })

/-! ### what a reader learns from an inode, whichever of the two layouts carries it -/

/-- the attributes `rdsquashfs`/`sqfs_dir_entry_from_inode`/the data reader take from an inode, independent of the
basic/extended layout: kind, base, link count, xattr index and the per-kind payload.  (The directory index is an
accelerator and not part of it.) -/
structure View where
  typeBits : Nat
  base : Base
  nlink : Nat
  xattr : Nat
  /-- dir: start_block, size, offset, parent · file: blocks_start, file_size, sparse, frag idx, frag offset · dev: devno -/
  nums : List Nat
  /-- file: block size words -/
  words : List Nat
  /-- symlink: target -/
  bytes : Bytes
  deriving Repr, DecidableEq

def Inode.view : Inode → View
  | .dir b sb nl sz off par => ⟨sIFDIR, b, nl, NONE32, [sb, sz, off, par], [], []⟩
  | .dirExt b nl sz sb par _ off x _ => ⟨sIFDIR, b, nl, x, [sb, sz, off, par], [], []⟩
  | .file b st fi fo sz blks => ⟨sIFREG, b, 1, NONE32, [st, sz, 0, fi, fo], blks, []⟩
  | .fileExt b st sz sp nl fi fo x blks => ⟨sIFREG, b, nl, x, [st, sz, sp, fi, fo], blks, []⟩
  | .slink b nl ts t => ⟨sIFLNK, b, nl, NONE32, [ts], [], t⟩
  | .slinkExt b nl ts t x => ⟨sIFLNK, b, nl, x, [ts], [], t⟩
  | .dev b c nl d => ⟨if c then sIFCHR else sIFBLK, b, nl, NONE32, [d], [], []⟩
  | .devExt b c nl d x => ⟨if c then sIFCHR else sIFBLK, b, nl, x, [d], [], []⟩
  | .ipc b c nl => ⟨if c then sIFSOCK else sIFIFO, b, nl, NONE32, [], [], []⟩
  | .ipcExt b c nl x => ⟨if c then sIFSOCK else sIFIFO, b, nl, x, [], [], []⟩

/-- everything the basic layout of the kind can hold (`sqfs_inode_make_basic` turns exactly these into basic
inodes; for the others a basic inode would truncate a field) -/
def Inode.fitsBasic : Inode → Bool
  | .dirExt _ _ sz _ _ _ _ x _ => x == NONE32 && sz ≤ 0xFFFF
  | .fileExt _ st sz sp nl _ _ x _ => x == NONE32 && st ≤ 0xFFFFFFFF && sz ≤ 0xFFFFFFFF && sp == 0 && nl ≤ 1
  | .slinkExt _ _ _ _ x => x == NONE32
  | .devExt _ _ _ _ x => x == NONE32
  | .ipcExt _ _ _ x => x == NONE32
  | _ => true

/-! ### well-formedness (what `decInode ∘ encInode = id` needs; established by the serializer) -/

def WfBase (typeBits : Nat) (b : Base) : Prop :=
  b.mode < 65536 ∧ b.mode / 4096 * 4096 = typeBits ∧ b.uidIdx < 65536 ∧ b.gidIdx < 65536 ∧ b.mtime < 2 ^ 32 ∧ b.inum < 2 ^ 32

instance (t : Nat) (b : Base) : Decidable (WfBase t b) := by unfold WfBase; exact inferInstance

def WfIdx (e : DirIdx) : Prop := e.index < 2 ^ 32 ∧ e.startBlock < 2 ^ 32 ∧ 1 ≤ e.name.length ∧ e.name.length ≤ 2 ^ 32

instance (e : DirIdx) : Decidable (WfIdx e) := by unfold WfIdx; exact inferInstance

/-- the block size words are exactly as many as the reader will expect, each a `sqfs_u32` -/
def WfBlocks (blockSize size fragIdx fragOff : Nat) (blks : List Nat) : Prop :=
  blks.length = getBlockCount size blockSize fragIdx fragOff ∧ ∀ w ∈ blks, w < 2 ^ 32

instance (a b c d : Nat) (l : List Nat) : Decidable (WfBlocks a b c d l) := by unfold WfBlocks; exact inferInstance

/-- the per-kind part: every field fits its on-disk width, the payload is as long as the header fields announce -/
def WfBody (blockSize : Nat) (i : Inode) : Prop :=
  match i with
  | .dir _ sb nl sz off par => sb < 2 ^ 32 ∧ nl < 2 ^ 32 ∧ sz < 65536 ∧ off < 65536 ∧ par < 2 ^ 32
  | .file _ st fi fo sz blks => st < 2 ^ 32 ∧ fi < 2 ^ 32 ∧ fo < 2 ^ 32 ∧ sz < 2 ^ 32 ∧ WfBlocks blockSize sz fi fo blks
  | .slink _ nl ts t => nl < 2 ^ 32 ∧ ts < 2 ^ 32 ∧ ts = t.length
  | .dev _ _ nl d => nl < 2 ^ 32 ∧ d < 2 ^ 32
  | .ipc _ _ nl => nl < 2 ^ 32
  | .dirExt _ nl sz sb par ic off x idx =>
    nl < 2 ^ 32 ∧ sz < 2 ^ 32 ∧ sb < 2 ^ 32 ∧ par < 2 ^ 32 ∧ ic < 65536 ∧ off < 65536 ∧ x < 2 ^ 32 ∧
      ic = idx.length ∧ (sz = 0 → idx = []) ∧ ∀ e ∈ idx, WfIdx e
  | .fileExt _ st sz sp nl fi fo x blks =>
    st < 2 ^ 64 ∧ sz < 2 ^ 64 ∧ sp < 2 ^ 64 ∧ nl < 2 ^ 32 ∧ fi < 2 ^ 32 ∧ fo < 2 ^ 32 ∧ x < 2 ^ 32 ∧
      WfBlocks blockSize sz fi fo blks
  | .slinkExt _ nl ts t x => nl < 2 ^ 32 ∧ ts < 2 ^ 32 ∧ ts = t.length ∧ x < 2 ^ 32
  | .devExt _ _ nl d x => nl < 2 ^ 32 ∧ d < 2 ^ 32 ∧ x < 2 ^ 32
  | .ipcExt _ _ nl x => nl < 2 ^ 32 ∧ x < 2 ^ 32

/-- every field fits its on-disk width, the mode carries the `S_IFMT` bits of the kind, the payload is as long as
the header fields announce -/
def WfInode (blockSize : Nat) (i : Inode) : Prop := WfBase i.typeBits i.base ∧ WfBody blockSize i

instance (bs : Nat) (i : Inode) : Decidable (WfBody bs i) := by
  unfold WfBody; cases i <;> exact inferInstance

instance (bs : Nat) (i : Inode) : Decidable (WfInode bs i) := by
  unfold WfInode; exact inferInstance

end Sqfs.Enc
