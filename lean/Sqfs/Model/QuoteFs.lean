/-
Model of what `gensquashfs --pack-file` does with the entries `handle_line` decodes (property C16, the step after
`Sqfs.Quote.fstreeFromFile`): `lib/fstree/src/fstree.c`

* `fstree_init`                      — `initRoot`
* `child_by_name`, `insert_sorted`   — `childByName`, `insertSorted` (`strcmp` on unsigned bytes: `nameLt`)
* `mknode`                           — `mkAttr`, `linkChild`
* `fstree_get_node_by_path(fs, root, path, create_implicitly = true, stop_at_parent = true)` followed by the body of
  `fstree_add_generic` — `addAt` (one descent along the components that rebuilds the spine), `overwrite` (the
  `child != NULL` branch), `addEntry` (the argument checks in front)
* the per-line loop of `fstree_from_file_stream` with the real `fstree_add_generic` — `buildFromFile`

The tree is a value (`FNode`), a node's children are the list `data.children` in list order.  The entry's `name` is a
path `canonicalize_name` has produced (that is all `handle_line` passes on), so cutting it at '/' (`pathOf`) is the
component loop of `fstree_get_node_by_path`.  `ent->flags` is 0 on this path (`alloc_flex` zeroes it and nothing sets
it — the `link` keyword included, defect D10 of C01), so the hard-link branches of `mknode` are not modelled.
`inode_num`, `xattr_idx`, `inode_ref`, `next_by_type` are assigned later (`fstree_post_process`, the writer) and are
not part of this model.  (Property C11 owns an independent model of the same functions for the directory scan.)
-/
import Sqfs.Model.Quote
import Sqfs.Spec.Path
namespace Sqfs.QuoteFs
open Sqfs.Path (Bytes splitSlash)
open Sqfs.Quote (Entry)
open Sqfs.Consts

/-- the fields of `tree_node_t` that `fstree_add_generic` sets -/
structure FAttr where
  mode : Nat
  uid : Nat
  gid : Nat
  mtime : Nat             -- `mod_time`
  linkCount : Nat
  implicit : Bool         -- `flags & FLAG_DIR_CREATED_IMPLICITLY`
  rdev : Nat              -- `data.devno` (S_IFBLK / S_IFCHR), 0 otherwise
  extra : Option Bytes    -- `data.target` (S_IFLNK) / `data.file.input_file` (S_IFREG), NULL otherwise
  deriving DecidableEq, Repr

inductive FNode
  | mk (name : Bytes) (a : FAttr) (children : List FNode)
  deriving Repr

def FNode.name : FNode → Bytes | .mk n _ _ => n
def FNode.attr : FNode → FAttr | .mk _ a _ => a
def FNode.children : FNode → List FNode | .mk _ _ c => c

mutual
/-- the tree in pre-order: depth, name, attributes of every node (what the harness dumps) -/
def FNode.flat (depth : Nat) : FNode → List (Nat × Bytes × FAttr)
  | .mk n a cs => (depth, n, a) :: FNode.flatList (depth + 1) cs
def FNode.flatList (depth : Nat) : List FNode → List (Nat × Bytes × FAttr)
  | [] => []
  | c :: cs => FNode.flat depth c ++ FNode.flatList depth cs
end

/-- `fstree_defaults_t` -/
structure Defaults where
  uid : Nat := 0
  gid : Nat := 0
  mode : Nat := 0o755
  mtime : Nat := 0
  deriving Repr

inductive FsErr
  | inval     -- EINVAL: symbolic link without a target
  | range     -- ERANGE: uid/gid/device number does not fit 32 bits
  | notdir    -- ENOTDIR: a component of the path exists and is not a directory
  | exist     -- EEXIST: the entry exists (and is not an implicitly created directory being defined now)
  | mlink     -- EMLINK: the parent's link count is exhausted
  deriving DecidableEq, Repr

/-- `(mode & S_IFMT) == ty` -/
def isType (mode ty : Nat) : Bool := (mode &&& sIFMT) == ty

def FNode.isDir (t : FNode) : Bool := isType t.attr.mode sIFDIR

/-- `strcmp(a, b) < 0` for C strings: lexicographic on unsigned bytes -/
def nameLt : Bytes → Bytes → Bool
  | [], [] => false
  | [], _ :: _ => true
  | _ :: _, [] => false
  | a :: as, b :: bs => if a.toNat < b.toNat then true else if a.toNat = b.toNat then nameLt as bs else false

/-- `child_by_name`: the first child with that name -/
def childByName : List FNode → Bytes → Option FNode
  | [], _ => none
  | c :: cs, n => if c.name = n then some c else childByName cs n

/-- `insert_sorted`: skip while `strcmp(it->name, n->name) < 0`, link `n` in front of the first that is not smaller -/
def insertSorted (n : FNode) : List FNode → List FNode
  | [] => [n]
  | c :: cs => if nameLt c.name n.name then c :: insertSorted n cs else n :: c :: cs

/-- the in-place update of the node `child_by_name` found (the first with that name) -/
def replaceChild (c' : FNode) : List FNode → List FNode
  | [] => []
  | c :: cs => if c.name = c'.name then c' :: cs else c :: replaceChild c' cs

/-- `clamp_timestamp` on a non-negative value -/
def clampTime (ts : Nat) : Nat := if ts > 0xFFFFFFFF then 0xFFFFFFFF else ts

/-- the attribute part of `mknode` (`ent->flags == 0`) -/
def mkAttr (mode uid gid mtime rdev : Nat) (extra : Option Bytes) : FAttr :=
  { mode := if isType mode sIFLNK then sIFLNK ||| 0o777 else mode
    uid := uid
    gid := gid
    mtime := clampTime mtime
    linkCount := if isType mode sIFDIR then 2 else 1
    implicit := false
    rdev := if isType mode sIFBLK || isType mode sIFCHR then rdev else 0
    extra := if isType mode sIFREG || isType mode sIFLNK then extra else none }

/-- tail of `mknode`: the `EMLINK` test, `insert_sorted(parent, n)`, `parent->link_count++` -/
def linkChild (parent : FNode) (n : FNode) : Except FsErr FNode :=
  match parent with
  | .mk pn pa pc =>
    if pa.linkCount = 0xFFFFFFFF then .error .mlink
    else .ok (.mk pn { pa with linkCount := pa.linkCount + 1 } (insertSorted n pc))

/-- `fstree_init`: the root is a directory with the default attributes, flagged as created implicitly -/
def initRoot (d : Defaults) : FNode :=
  .mk [] { mode := sIFDIR ||| (d.mode &&& 0o7777), uid := d.uid, gid := d.gid, mtime := d.mtime, linkCount := 2,
           implicit := true, rdev := 0, extra := none } []

/-- the node `fstree_get_node_by_path` fabricates for a missing directory on the way -/
def implicitDir (d : Defaults) (name : Bytes) : FNode :=
  .mk name { mkAttr (sIFDIR ||| (d.mode &&& 0o7777)) d.uid d.gid d.mtime 0 none with implicit := true } []

/-- the `child != NULL` branch of `fstree_add_generic` (`mtime` is `ent->mtime`, assigned without clamping) -/
def overwrite (c : FNode) (e : Entry) (mtime : Nat) : Except FsErr FNode :=
  match c with
  | .mk n a cs =>
    if !isType a.mode sIFDIR || !isType e.mode sIFDIR || !a.implicit then .error .exist
    else .ok (.mk n { a with uid := e.uid, gid := e.gid, mode := e.mode, mtime := mtime % 2^32, implicit := false } cs)

/-- the new leaf `mknode` creates for the entry -/
def leafOf (d : Defaults) (name : Bytes) (e : Entry) : FNode :=
  .mk name (mkAttr e.mode e.uid e.gid d.mtime e.rdev e.extra) []

/-- the directory `dir` with its child of that name updated in place -/
def putChild (dir : FNode) (c' : FNode) : FNode := .mk dir.name dir.attr (replaceChild c' dir.children)

/--
`fstree_get_node_by_path(…, true, true)` + `child_by_name` + overwrite / `mknode`, along the components of the path.
An implicitly created directory is a fresh childless node; the descent goes on inside it before it is linked into
its parent, which gives the same tree (and the same error: only the linking can fail) as linking first.
-/
def addAt (d : Defaults) (e : Entry) : List Bytes → FNode → Except FsErr FNode
  | [], root => overwrite root e d.mtime                       -- `ent->name[0] == '\0'`: child = fs->root
  | [n], dir =>
    if !dir.isDir then .error .notdir
    else match childByName dir.children n with
      | some c => (overwrite c e d.mtime).map (putChild dir)
      | none => linkChild dir (leafOf d n e)
  | n :: m :: rest, dir =>
    if !dir.isDir then .error .notdir
    else match childByName dir.children n with
      | some c => (addAt d e (m :: rest) c).map (putChild dir)
      | none => (addAt d e (m :: rest) (implicitDir d n)).bind (linkChild dir)

/-- the components of a path `canonicalize_name` has produced -/
def pathOf (name : Bytes) : List Bytes := if name = [] then [] else splitSlash name

/-- `fstree_add_generic(fs, ent, extra)` with `ent->mtime = fs->defaults.mtime`, `ent->flags = 0` (as `handle_line`
sets them) -/
def addEntry (d : Defaults) (e : Entry) (root : FNode) : Except FsErr FNode :=
  if isType e.mode sIFLNK && e.extra.isNone then .error .inval
  else if e.uid > 0xFFFFFFFF || e.gid > 0xFFFFFFFF then .error .range
  else if (isType e.mode sIFBLK || isType e.mode sIFCHR) && e.rdev > 0xFFFFFFFF then .error .range
  else addAt d e (pathOf e.name) root

/-- entries added one after the other; the first failure stops (the tree so far is returned with it) -/
def addAll (d : Defaults) : List Entry → FNode → FNode × Option FsErr
  | [], t => (t, none)
  | e :: es, t =>
    match addEntry d e t with
    | .error x => (t, some x)
    | .ok t' => addAll d es t'

inductive BuildErr
  | parse (e : Sqfs.Quote.FErr)
  | fs (e : FsErr)
  deriving DecidableEq, Repr

/-- `fstree_init` + `fstree_from_file_stream` with the real `fstree_add_generic`: the tree built so far, and what
stopped it.  (The entries in front of the first line that does not parse are added before that line is read, so a
failure of `fstree_add_generic` among them comes first.) -/
def buildFromFile (opt : Sqfs.Quote.Opt) (d : Defaults) (content : Bytes) : FNode × Option BuildErr :=
  let p := Sqfs.Quote.fstreeFromFile opt content
  match addAll d p.1 (initRoot d) with
  | (t, some x) => (t, some (.fs x))
  | (t, none) => (t, p.2.map .parse)

end Sqfs.QuoteFs
