/-
Model of what `gensquashfs --pack-file` does with the entries `handle_line` decodes (property C16, the step after
`Sqfs.Quote.fstreeFromFile`): `lib/fstree/src/fstree.c`

* `fstree_init`                      — `initRoot`
* `child_by_name`, `insert_sorted`   — `childByName`, `insertSorted` (`strcmp` on unsigned bytes: `nameLt`)
* `mknode`                           — `mkAttr`, `linkChild`
* `fstree_get_node_by_path(fs, root, path, create_implicitly = true, stop_at_parent = true)` followed by the body of
  `fstree_add_generic` — `addAt` (one descent along the components that rebuilds the spine), `overwrite` (the
  `child != NULL` branch), `addEntry` (the argument checks in front)
* the per-line loop of `fstree_from_file_stream` with the real `fstree_add_generic` — `buildFromFile`

The tree is a value (`FNode`), a node's children are the list `data.children` in list order.  The entry's `name` is a
path `canonicalize_name` has produced (that is all `handle_line` passes on), so cutting it at '/' (`pathOf`) is the
component loop of `fstree_get_node_by_path`.  `ent->flags` is the keyword's `flags` column (since 99d70b1:
SQFS_DIR_ENTRY_FLAG_HARD_LINK for `link`): such an entry becomes a `S_IFLNK | 0777` leaf flagged `FLAG_LINK_IS_HARD`
whose target is the canonicalised path; resolving it (`fstree_post_process` → `fstree_resolve_hard_links`) happens
after `fstree_from_file_stream` and is not part of this model (property C07 owns that).  `rdsquashfs --describe`
never prints a `link` line, so nothing on the describe path is a hard link.
`inode_num`, `xattr_idx`, `inode_ref`, `next_by_type` are assigned later and are not part of this model.  (Property C11 owns an independent model of the same functions for the directory scan.)
-/
import Sqfs.Model.Quote
import Sqfs.Spec.Path
namespace Sqfs.QuoteFs
open Sqfs.Path (Bytes splitSlash)
open Sqfs.Quote (Entry)
open Sqfs.Consts

/-- the fields of `tree_node_t` that `fstree_add_generic` sets -/
structure FAttr where
  mode : Nat
  uid : Nat
  gid : Nat
  mtime : Nat             -- `mod_time`
  linkCount : Nat
  implicit : Bool         -- `flags & FLAG_DIR_CREATED_IMPLICITLY`
  hard : Bool := false    -- `flags & FLAG_LINK_IS_HARD`: an unresolved hard link, `extra` = canonical path of its target
  rdev : Nat              -- `data.devno` (S_IFBLK / S_IFCHR), 0 otherwise
  extra : Option Bytes    -- `data.target` (S_IFLNK) / `data.file.input_file` (S_IFREG), NULL otherwise
  deriving DecidableEq, Repr

inductive FNode
  | mk (name : Bytes) (a : FAttr) (children : List FNode)
  deriving Repr

def FNode.name : FNode → Bytes | .mk n _ _ => n
def FNode.attr : FNode → FAttr | .mk _ a _ => a
def FNode.children : FNode → List FNode | .mk _ _ c => c

mutual
/-- the tree in pre-order: depth, name, attributes of every node (what the harness dumps) -/
def FNode.flat (depth : Nat) : FNode → List (Nat × Bytes × FAttr)
  | .mk n a cs => (depth, n, a) :: FNode.flatList (depth + 1) cs
def FNode.flatList (depth : Nat) : List FNode → List (Nat × Bytes × FAttr)
  | [] => []
  | c :: cs => FNode.flat depth c ++ FNode.flatList depth cs
end

/-- `fstree_defaults_t` -/
structure Defaults where
  uid : Nat := 0
  gid : Nat := 0
  mode : Nat := 0o755
  mtime : Nat := 0
  deriving Repr

inductive FsErr
  | inval     -- EINVAL: symbolic link without a target
  | range     -- ERANGE: uid/gid/device number does not fit 32 bits
  | notdir    -- ENOTDIR: a component of the path exists and is not a directory
  | exist     -- EEXIST: the entry exists (and is not an implicitly created directory being defined now)
  | mlink     -- EMLINK: the parent's link count is exhausted
  | nametoolong  -- ENAMETOOLONG: a directory nested deeper than SQFS_MAX_DIR_NESTING
  deriving DecidableEq, Repr

/-- `(mode & S_IFMT) == ty` -/
def isType (mode ty : Nat) : Bool := (mode &&& sIFMT) == ty

def FNode.isDir (t : FNode) : Bool := isType t.attr.mode sIFDIR

/-- `strcmp(a, b) < 0` for C strings: lexicographic on unsigned bytes -/
def nameLt : Bytes → Bytes → Bool
  | [], [] => false
  | [], _ :: _ => true
  | _ :: _, [] => false
  | a :: as, b :: bs => if a.toNat < b.toNat then true else if a.toNat = b.toNat then nameLt as bs else false

/-- `child_by_name`: the first child with that name -/
def childByName : List FNode → Bytes → Option FNode
  | [], _ => none
  | c :: cs, n => if c.name = n then some c else childByName cs n

/-- `insert_sorted`: skip while `strcmp(it->name, n->name) < 0`, link `n` in front of the first that is not smaller -/
def insertSorted (n : FNode) : List FNode → List FNode
  | [] => [n]
  | c :: cs => if nameLt c.name n.name then c :: insertSorted n cs else n :: c :: cs

/-- the in-place update of the node `child_by_name` found (the first with that name) -/
def replaceChild (c' : FNode) : List FNode → List FNode
  | [] => []
  | c :: cs => if c.name = c'.name then c' :: cs else c :: replaceChild c' cs

/-- `clamp_timestamp` on a non-negative value -/
def clampTime (ts : Nat) : Nat := if ts > 0xFFFFFFFF then 0xFFFFFFFF else ts

/-- the attribute part of `mknode` (`ent->flags == 0`) -/
def mkAttr (mode uid gid mtime rdev : Nat) (extra : Option Bytes) : FAttr :=
  { mode := if isType mode sIFLNK then sIFLNK ||| 0o777 else mode
    uid := uid
    gid := gid
    mtime := clampTime mtime
    linkCount := if isType mode sIFDIR then 2 else 1
    implicit := false
    rdev := if isType mode sIFBLK || isType mode sIFCHR then rdev else 0
    extra := if isType mode sIFREG || isType mode sIFLNK then extra else none }

/-- tail of `mknode`: the `EMLINK` test, `insert_sorted(parent, n)`, `parent->link_count++` -/
def linkChild (parent : FNode) (n : FNode) : Except FsErr FNode :=
  match parent with
  | .mk pn pa pc =>
    if pa.linkCount = 0xFFFFFFFF then .error .mlink
    else .ok (.mk pn { pa with linkCount := pa.linkCount + 1 } (insertSorted n pc))

/-- `fstree_init`: the root is a directory with the default attributes, flagged as created implicitly -/
def initRoot (d : Defaults) : FNode :=
  .mk [] { mode := sIFDIR ||| (d.mode &&& 0o7777), uid := d.uid, gid := d.gid, mtime := d.mtime, linkCount := 2,
           implicit := true, rdev := 0, extra := none } []

/-- the node `fstree_get_node_by_path` fabricates for a missing directory on the way -/
def implicitDir (d : Defaults) (name : Bytes) : FNode :=
  .mk name { mkAttr (sIFDIR ||| (d.mode &&& 0o7777)) d.uid d.gid d.mtime 0 none with implicit := true } []

/-- the `child != NULL` branch of `fstree_add_generic` (`mtime` is `ent->mtime`, assigned without clamping) -/
def overwrite (c : FNode) (e : Entry) (mtime : Nat) : Except FsErr FNode :=
  match c with
  | .mk n a cs =>
    if !isType a.mode sIFDIR || !isType e.mode sIFDIR || !a.implicit then .error .exist
    else .ok (.mk n { a with uid := e.uid, gid := e.gid, mode := e.mode, mtime := mtime % 2^32, implicit := false } cs)

/-- the new leaf `mknode` creates for an entry that is not a hard link -/
def leafOf (d : Defaults) (name : Bytes) (e : Entry) : FNode :=
  .mk name (mkAttr e.mode e.uid e.gid d.mtime e.rdev e.extra) []

/-- `ent->flags & SQFS_DIR_ENTRY_FLAG_HARD_LINK` (set by the `link` keyword since 99d70b1) -/
def isHard (e : Entry) : Bool := (e.flags &&& dirEntryFlagHardLink) != 0

/-- the leaf `mknode` creates for a hard-link entry: `S_IFLNK | 0777`, `FLAG_LINK_IS_HARD`, target = the
canonicalised `extra` (the link is resolved later, by `fstree_post_process`) -/
def hardLeaf (d : Defaults) (name : Bytes) (e : Entry) (target : Option Bytes) : FNode :=
  .mk name { mode := sIFLNK ||| 0o777, uid := e.uid, gid := e.gid, mtime := clampTime d.mtime, linkCount := 1, implicit := false,
             hard := true, rdev := 0, extra := target } []

/--
`mknode` up to (not including) the `EMLINK` test, for a new child of a directory at depth `depth` (root = 0):
the nesting limit for directories (`size = 1 + number of ancestors of the parent`), `canonicalize_name` on the
target of a hard link (`EINVAL`), the type switch.
-/
def mknodeOf (d : Defaults) (depth : Nat) (name : Bytes) (e : Entry) : Except FsErr FNode :=
  if isType e.mode sIFDIR && !isHard e && decide (depth + 1 > sqfsMaxDirNesting) then .error .nametoolong
  else if isHard e then
    match e.extra with
    | none => .ok (hardLeaf d name e none)
    | some x =>
      match Sqfs.Path.canonicalize x with
      | none => .error .inval
      | some x' => .ok (hardLeaf d name e (some x'))
  else .ok (leafOf d name e)

/-- the directory `dir` with its child of that name updated in place -/
def putChild (dir : FNode) (c' : FNode) : FNode := .mk dir.name dir.attr (replaceChild c' dir.children)

/--
`fstree_get_node_by_path(…, true, true)` + `child_by_name` + overwrite / `mknode`, along the components of the path;
`depth` is the depth of the directory the walk is in (root = 0).  An implicitly created directory is a fresh
childless node; after the two tests `mknode` makes for it (nesting limit, `EMLINK`) the descent goes on inside it
before it is linked into its parent, which gives the same tree as linking first.
-/
def addAt (d : Defaults) (e : Entry) : List Bytes → Nat → FNode → Except FsErr FNode
  | [], _, root => overwrite root e d.mtime                       -- `ent->name[0] == '\0'`: child = fs->root
  | [n], depth, dir =>
    if !dir.isDir then .error .notdir
    else match childByName dir.children n with
      | some c => (overwrite c e d.mtime).map (putChild dir)
      | none => (mknodeOf d depth n e).bind (linkChild dir)
  | n :: m :: rest, depth, dir =>
    if !dir.isDir then .error .notdir
    else match childByName dir.children n with
      | some c => (addAt d e (m :: rest) (depth + 1) c).map (putChild dir)
      | none =>
        if depth + 1 > sqfsMaxDirNesting then .error .nametoolong
        else if dir.attr.linkCount = 0xFFFFFFFF then .error .mlink
        else (addAt d e (m :: rest) (depth + 1) (implicitDir d n)).bind (linkChild dir)

/--
What a failing `fstree_add_generic` leaves behind: `fstree_get_node_by_path` links every directory it creates
implicitly into the tree at once, so the ones created before the failure (a later one over the nesting limit, the
entry's own `mknode` failing, …) stay.  Same walk as `addAt`, without the entry.
-/
def residue (d : Defaults) : List Bytes → Nat → FNode → FNode
  | [], _, X => X
  | [_], _, X => X
  | n :: m :: rest, depth, dir =>
    if !dir.isDir then dir
    else match childByName dir.children n with
      | some c => putChild dir (residue d (m :: rest) (depth + 1) c)
      | none =>
        if depth + 1 > sqfsMaxDirNesting then dir
        else if dir.attr.linkCount = 0xFFFFFFFF then dir
        else match linkChild dir (residue d (m :: rest) (depth + 1) (implicitDir d n)) with
          | .ok t => t
          | .error _ => dir

/-- the components of a path `canonicalize_name` has produced -/
def pathOf (name : Bytes) : List Bytes := if name = [] then [] else splitSlash name

/-- `fstree_add_generic(fs, ent, extra)` with `ent->mtime = fs->defaults.mtime` (as `handle_line` sets it) -/
def addEntry (d : Defaults) (e : Entry) (root : FNode) : Except FsErr FNode :=
  if isType e.mode sIFLNK && e.extra.isNone then .error .inval
  else if e.uid > 0xFFFFFFFF || e.gid > 0xFFFFFFFF then .error .range
  else if (isType e.mode sIFBLK || isType e.mode sIFCHR) && !isHard e && e.rdev > 0xFFFFFFFF then .error .range
  else addAt d e (pathOf e.name) 0 root

/-- the tree after a failing `fstree_add_generic`: untouched when one of the argument checks in front fired,
otherwise with the implicitly created directories of the walk -/
def afterFailure (d : Defaults) (e : Entry) (root : FNode) : FNode :=
  if isType e.mode sIFLNK && e.extra.isNone then root
  else if e.uid > 0xFFFFFFFF || e.gid > 0xFFFFFFFF then root
  else if (isType e.mode sIFBLK || isType e.mode sIFCHR) && !isHard e && e.rdev > 0xFFFFFFFF then root
  else residue d (pathOf e.name) 0 root

/-- entries added one after the other; the first failure stops (the tree it leaves is returned with it) -/
def addAll (d : Defaults) : List Entry → FNode → FNode × Option FsErr
  | [], t => (t, none)
  | e :: es, t =>
    match addEntry d e t with
    | .error x => (afterFailure d e t, some x)
    | .ok t' => addAll d es t'

inductive BuildErr
  | parse (e : Sqfs.Quote.FErr)
  | fs (e : FsErr)
  deriving DecidableEq, Repr

/-- `fstree_init` + `fstree_from_file_stream` with the real `fstree_add_generic`: the tree built so far, and what
stopped it.  (The entries in front of the first line that does not parse are added before that line is read, so a
failure of `fstree_add_generic` among them comes first.) -/
def buildFromFile (opt : Sqfs.Quote.Opt) (d : Defaults) (content : Bytes) : FNode × Option BuildErr :=
  let p := Sqfs.Quote.fstreeFromFile opt content
  match addAll d p.1 (initRoot d) with
  | (t, some x) => (t, some (.fs x))
  | (t, none) => (t, p.2.map .parse)

end Sqfs.QuoteFs
