/-
Model of the stream adapter of the tar iterator (property C12):

  lib/tar/src/iterator.c   is_sparse_region, drop_parent, strm_get_buffered_data, strm_advance_buffer,
                           strm_destroy, it_open_file_ro, the head of it_next (skip record + padding) and its
                           `fail:` exit with drain_compressed_stream, the two ways tar_open_stream sets up
                           `tar->stream` / `tar->compressed`
  lib/tar/src/read_header.c:190-214   only the part of `read_header` that recognises the end of the archive

`tar_istream_t` is what tar2sqfs reads the content of an archive member through.  It is *not* a client of
`sqfs_istream_read/skip`: it calls `get_buffered_data` / `advance_buffer` of the archive stream (the file istream,
or the decompressing stream on top of it) directly, clamps the window to the bytes of the member that are left
in the current data region, and synthesises zero bytes for the holes of a GNU sparse member.  Like the xfrm
streams it is a transformer of the stream interface `StreamI`, so the OS reaches it only through the windows of
the wrapped stream.

Not modelled: decoding a header block (`read_header`'s switch, `decode_header`, PAX records — the `Tar` model of
C04/C07 covers those); the geometry of the member (record size, real size, sparse map) is an input here, and the
correspondence harness checks that the real `read_header` decodes exactly that geometry from the scenario's
header block.  Sizes are `Nat` (`sqfs_u64`/`size_t` in C; nothing near 2^64 is exercised).
-/
import Sqfs.Model.IoLoops
import Sqfs.Model.XfrmStream
namespace Sqfs.IoLoops

/-- `sparse_map_t`: a data region of a sparse member (`offset`, `count`) -/
structure SparseEnt where
  off : Nat
  count : Nat
  deriving DecidableEq, Repr

/-- `tar->state` of the iterator: 0, 1 (end of archive), a negative `SQFS_ERROR_*`, or the -1 that `read_header`
returns for every failure -/
inductive TState where
  | ok
  | eof
  | err (e : Err)
  | minus1
  deriving DecidableEq, Repr

def TState.ofGRet : GRet → TState
  | .ok => .ok
  | .eof => .eof
  | .fail e => .err e

/-- The fields of `tar_iterator_t` that the member stream and the head of `it_next` read and write. -/
structure TarIt (σ : Type) where
  stream : σ               -- `tar->stream`: the archive stream
  state : TState           -- `tar->state`
  locked : Bool
  recordSize : Nat         -- bytes of the member's record not consumed yet
  fileSize : Nat           -- `tar->file_size` (= `current.actual_size`)
  offset : Nat             -- position inside the (expanded) member
  padding : Nat
  sparse : List SparseEnt  -- `tar->current.sparse`
  lastSparse : Bool
  compressed : Bool := false  -- `tar->compressed`: `tar_open_stream` put a decompressor around the input

/-- `tar_istream_t`. `crashed` is model-only: `strm_advance_buffer` has dereferenced `tar->parent == NULL`. -/
structure TarStrm (σ : Type) where
  it : TarIt σ
  alive : Bool             -- `tar->parent != NULL`
  state : GRet             -- `tar->state` of the stream (what `get_buffered_data` returns once the parent is gone)
  crashed : Bool

/-- first loop of `is_sparse_region` (iterator.c:58-67): the first data region that contains `offset` -/
def sparseDataAt (offset : Nat) : List SparseEnt → Option Nat
  | [] => none
  | e :: r =>
    if offset ≥ e.off ∧ offset - e.off < e.count then some (e.count - (offset - e.off))
    else sparseDataAt offset r

/-- second loop of `is_sparse_region` (iterator.c:69-76): distance to the nearest data region behind `offset` -/
def sparseHoleLen (offset : Nat) : Nat → List SparseEnt → Nat
  | count, [] => count
  | count, e :: r =>
    sparseHoleLen offset (if offset < e.off ∧ e.off - offset < count then e.off - offset else count) r

/-- `is_sparse_region` (iterator.c:50-79): (in a hole?, bytes left in the current region) -/
def isSparseRegion (offset fileSize : Nat) (sparse : List SparseEnt) : Bool × Nat :=
  let count := fileSize - offset
  if sparse.isEmpty then (false, count)
  else
    match sparseDataAt offset sparse with
    | some c => (false, c)
    | none => (true, sparseHoleLen offset count sparse)

/-- `drop_parent` (iterator.c:83-94) -/
def dropParent {σ : Type} (x : TarStrm σ) (st : GRet) : TarStrm σ :=
  if x.alive then
    { x with it := { x.it with state := if st ≠ .ok ∧ x.it.state = .ok then TState.ofGRet st else x.it.state,
                               locked := false },
             alive := false, state := st }
  else { x with state := st }

/-- `out_eof:` of `strm_get_buffered_data` (iterator.c:143-146) -/
def tarEof {σ : Type} (x : TarStrm σ) : TarStrm σ := { dropParent x .ok with state := .eof }

/-- `strm_get_buffered_data` (iterator.c:101-147). The zero window of a hole is at most `sizeof(tar->buffer)` = 4096. -/
def tarGet {σ : Type} (I : StreamI σ) (x : TarStrm σ) (want : Nat) (os : OS) : GRet × Bytes × TarStrm σ × OS :=
  if x.crashed then (.fail .nullDeref, [], x, os) else
  if !x.alive then (x.state, [], x, os) else                                   -- parent == NULL: return tar->state
  if x.it.offset ≥ x.it.fileSize then (.eof, [], tarEof x, os) else
  let r := isSparseRegion x.it.offset x.it.fileSize x.it.sparse
  let x1 : TarStrm σ := { x with it := { x.it with lastSparse := r.1 } }       -- parent->last_sparse = ...
  if r.2 = 0 then (.eof, [], tarEof x1, os) else
  let diff := if r.2 > want then want else r.2
  if r.1 then
    (.ok, List.replicate (if diff ≤ 4096 then diff else 4096) 0, x1, os)
  else
    match I.get x1.it.stream diff os with
    | (.eof, _, s', os') =>                                                     -- ret > 0: fail_borked
      (.fail .corrupted, [], dropParent { x1 with it := { x1.it with stream := s' } } (.fail .corrupted), os')
    | (.fail e, _, s', os') =>                                                  -- ret < 0: fail_io
      (.fail e, [], dropParent { x1 with it := { x1.it with stream := s' } } (.fail e), os')
    | (.ok, w, s', os') =>                                                      -- if (*size > diff) *size = diff
      (.ok, w.take diff, { x1 with it := { x1.it with stream := s' } }, os')

/-- `strm_advance_buffer` (iterator.c:149-159). -/
def tarAdv {σ : Type} (I : StreamI σ) (x : TarStrm σ) (count : Nat) : TarStrm σ :=
  if x.crashed then x else
  if !x.alive then { x with crashed := true } else                              -- tar->parent->last_sparse, parent == NULL
  if !x.it.lastSparse then
    { x with it := { x.it with stream := I.adv x.it.stream count, recordSize := x.it.recordSize - count,
                               offset := x.it.offset + count } }
  else { x with it := { x.it with offset := x.it.offset + count } }

def tarStream {σ : Type} (I : StreamI σ) : StreamI (TarStrm σ) :=
  ⟨tarGet I, tarAdv I, fun x => x.it.fileSize - x.it.offset⟩

/-- `it_open_file_ro` (iterator.c:275-302) once its guards have passed (not locked, state 0, a regular file) -/
def tarOpen {σ : Type} (it : TarIt σ) : TarStrm σ :=
  { it := { it with locked := true }, alive := true, state := .ok, crashed := false }

/-- `strm_destroy` (iterator.c:161-167): the iterator as the stream leaves it -/
def tarClose {σ : Type} (x : TarStrm σ) : TarIt σ := (dropParent x .ok).it

/-- the member geometry `it_next` copies out of the decoded header (iterator.c:201-208) -/
structure MemberGeom where
  recordSize : Nat
  fileSize : Nat
  sparse : List SparseEnt
  deriving DecidableEq, Repr

def TarIt.setMember {σ : Type} (it : TarIt σ) (g : MemberGeom) : TarIt σ :=
  { it with offset := 0, lastSparse := false, recordSize := g.recordSize, fileSize := g.fileSize,
            padding := if g.recordSize % 512 > 0 then 512 - g.recordSize % 512 else 0, sparse := g.sparse }

/-- `tar_open_stream` leaves this iterator (all zero, `calloc`) around the archive stream -/
def TarIt.init {σ : Type} (s : σ) : TarIt σ := ⟨s, .ok, false, 0, 0, 0, 0, [], false, false⟩

/-! ### the end-of-archive part of `read_header` and the head of `it_next` -/

def allZero (d : Bytes) : Bool := d.all (· = 0)

/-- what `read_header` makes of the next blocks, as far as this model goes -/
inductive HdrRet where
  | header (d : Bytes)   -- a full non-zero block: decoded by the rest of `read_header` (not modelled here)
  | eof                  -- return 1
  | fail                 -- return -1 (every failure)
  deriving DecidableEq, Repr

/-- The `for (;;)` loop of `read_header` up to the version check (read_header.c:190-214): a read error or a
non-zero fragment shorter than a block is a failure, a short zero fragment or two zero blocks are the end. -/
def readHeaderHead {σ : Type} (I : StreamI σ) : Nat → σ → Bool → OS → HdrRet × σ × OS
  | 0, s, _, os => (.fail, s, os)
  | fuel + 1, s, prevZero, os =>
    match istreamRead I s 512 os with
    | (.fail _, s', os') => (.fail, s', os')
    | (.n d, s', os') =>
      if d.length < 512 then (if d.length > 0 ∧ !allZero d then .fail else .eof, s', os')
      else if allZero d then
        (if prevZero then (.eof, s', os') else readHeaderHead I fuel s' true os')
      else (.header d, s', os')

/-- `drain_compressed_stream` (iterator.c:181-194): read the archive stream to its end, window by window
(`get_buffered_data(1)`, `advance_buffer(size)`); a read or decompressor error is returned, the end is 0.  The C loop
is a `for (;;)`; the model gives it fuel (`Err.fuel` when it runs out; `tarNext` hands it the stream's own bound). -/
def drainLoop {σ : Type} (I : StreamI σ) : Nat → σ → OS → Err × σ × OS
  | 0, s, os => (.fuel, s, os)
  | fuel + 1, s, os =>
    match I.get s 1 os with
    | (.fail e, _, s', os') => (e, s', os')                                   -- ret < 0: return ret
    | (.eof, _, s', os') => (.ok, s', os')                                    -- ret > 0: return 0
    | (.ok, w, s', os') => drainLoop I fuel (I.adv s' w.length) os'           -- advance_buffer(strm, size)

/-- what `it_next` returns, as far as this model goes -/
inductive NextRet where
  | sequence             -- SQFS_ERROR_SEQUENCE (a member stream is still open)
  | state (s : TState)   -- the sticky `tar->state`
  | header (d : Bytes)   -- `read_header` met a header block
  deriving DecidableEq, Repr

/-- The head of `it_next` (iterator.c:196-227) and its `fail:` exit (iterator.c:267-275): skip what is left of the
record, skip the padding, read the next header.  A block that is neither zero nor short ends the model's knowledge
(`header`).  At the end of the archive (`read_header` returned 1) with a compressed input (`tar->compressed`) the
rest of the stream is drained first and an error met there becomes the result and the sticky state. -/
def tarNext {σ : Type} (I : StreamI σ) (it : TarIt σ) (os : OS) : NextRet × TarIt σ × OS :=
  if it.locked then (.sequence, it, os) else
  if it.state ≠ .ok then (.state it.state, it, os) else
  match (if it.recordSize > 0 then istreamSkip I it.stream it.recordSize os else (.ok, it.stream, os)) with
  | (.ok, s1, os1) =>
    match (if it.padding > 0 then istreamSkip I s1 it.padding os1 else (.ok, s1, os1)) with
    | (.ok, s2, os2) =>
      match readHeaderHead I 3 s2 false os2 with
      | (.header d, s3, os3) => (.header d, { it with stream := s3 }, os3)
      | (.eof, s3, os3) =>
        if it.compressed then                                                   -- ret > 0 && tar->compressed
          match drainLoop I (I.bound s3 + 2) s3 os3 with
          | (.ok, s4, os4) => (.state .eof, { it with stream := s4, state := .eof }, os4)
          | (e, s4, os4) => (.state (.err e), { it with stream := s4, state := .err e }, os4)
        else (.state .eof, { it with stream := s3, state := .eof }, os3)
      | (.fail, s3, os3) => (.state .minus1, { it with stream := s3, state := .minus1 }, os3)
    | (e, s2, os2) => (.state (.err e), { it with stream := s2, state := .err e }, os2)
  | (e, s1, os1) => (.state (.err e), { it with stream := s1, state := .err e }, os1)

/-- One archive member from a fresh iterator to the `it_next` after it, as tar2sqfs drives the iterator and as the
correspondence harness does: `it_next` (the header block; the geometry it decodes is the parameter `g`),
`open_file_ro`, the client's operations on the member stream, `sqfs_drop(stream)`, `it_next`.  Result: status of the
first `it_next`, the observations, status of the second `it_next`, the iterator, client output stream. -/
def tarRunFrom {σ : Type} (I : StreamI σ) (it0 : TarIt σ) (g : MemberGeom) (o : OStream) (ops : List Op) (os0 : OS) :
    NextRet × List Obs × Option NextRet × TarIt σ × OStream × OS :=
  match tarNext I it0 os0 with
  | (.header d, it1, os1) =>
    match runOps (tarStream I) ⟨tarOpen (it1.setMember g), o, 0⟩ ops os1 with
    | (obs, c, os2) =>
      match tarNext I (tarClose c.s) os2 with
      | (r2, it2, os3) => (.header d, obs, some r2, it2, c.o, os3)
  | (r1, it1, os1) => (r1, [], none, it1, o, os1)

/-- `tar_open_stream` when the probe finds a tar archive (or nothing it knows): probe (`get_buffered_data(512)`,
result only looked at), the iterator reads from the stream it was given, `compressed` stays false; then the member
run. -/
def tarMemberRun {σ : Type} (I : StreamI σ) (s : σ) (g : MemberGeom) (o : OStream) (ops : List Op) (os : OS) :
    NextRet × List Obs × Option NextRet × TarIt σ × OStream × OS :=
  match I.get s 512 os with                                                     -- tar_open_stream: probe
  | (_, _, s0, os0) => tarRunFrom I (TarIt.init s0) g o ops os0

/-- Which way `tar_open_stream` goes (iterator.c:420-432): the probe must succeed (`ret == 0`) and its window must be
recognised as compressed — `isZ` stands for "`tar_probe` says no and `xfrm_compressor_id_from_magic` says yes". -/
def tarOpenDetect {σ : Type} (I : StreamI σ) (s : σ) (isZ : Bytes → Bool) (os : OS) : Bool :=
  match I.get s 512 os with
  | (.ok, w, _, _) => isZ w
  | _ => false

/-- `tar_open_stream` when the probe window carries the magic of a compressor (iterator.c:420-449): the probe is made
on the *raw* stream, then the iterator reads through `istream_xfrm_create(strm, decompressor)` — a fresh transforming
istream (codec in its initial state `k0`, empty buffer) around the raw stream as the probe left it — and
`compressed = true`; then the member run.  Which way `tar_open_stream` goes is a function of the probe window
(`tar_probe`, `xfrm_compressor_id_from_magic`: not modelled; the harness checks that the code took this branch). -/
def tarMemberRunZ {σ κ : Type} (I : StreamI σ) (C : Codec κ) (k0 : κ) (BX limit : Nat) (s : σ) (g : MemberGeom)
    (o : OStream) (ops : List Op) (os : OS) :
    NextRet × List Obs × Option NextRet × TarIt (XStream σ κ) × OStream × OS :=
  match I.get s 512 os with                                                     -- tar_open_stream: probe (raw stream)
  | (_, _, s0, os0) =>
    tarRunFrom (xfrmStream I C BX limit) { TarIt.init (⟨s0, k0, 0, []⟩ : XStream σ κ) with compressed := true } g o ops os0

end Sqfs.IoLoops
