/-!
`lib/util/src/mempool.c` AS REPAIRED by `fixes/C19-mempool-latent.patch` (the code before it: `createOld`, `createPoolOld`,
`shiftIntOld`; 222 lines; compiled in /repo's DEFAULT configuration, the allocator under `rbtree.c`): pools of
fixed-size objects in `mmap`ed blocks of `DEF_POOL_SIZE` bytes, each block = `pool_t` header | allocation bitmap
(`bitmap_count` words of `unsigned int`) | padding | `32 * bitmap_count` objects of `obj_size` bytes.

One Lean function per C function / loop:
* `poolSizeFromBitmapCount` — `pool_size_from_bitmap_count` (mempool.c:44-61), `size_t` arithmetic (wrapping, `w64`);
* `searchCount` / `create`  — `mem_pool_create` (98-122): alignment to `MEM_ALIGN`, the `for (;;)` search, `--count`;
* `createPool`              — `create_pool` (63-96) given the address `mmap` returned (padding by the offset inside the block);
* `scanWords`, `scanBits`   — the two scan loops of `mem_pool_allocate` (160-163, 170-173);
* `takeSlot`                — lines 160-187 for one block `it` (`none` = one of the two `it->obj_free = 0; goto retry_pool`);
* `walk`                    — the `for (it = mem->pool_list; …)` loop 146-149 fused with what is then done to `it`;
* `allocate`                — `mem_pool_allocate` with the `retry_pool` loop (explicit fuel) and block growth;
* `free`                    — `mem_pool_free` (190-216), the three `assert`s are errors;
* `destroy`                 — `mem_pool_destroy` (124-138): the blocks in the order they are unmapped.

Addresses are abstract: an object is (block id, byte offset from the block's start); the block id is the ordinal of the
successful `mmap` call.  `mmap` is an oracle: a queue of answers (`some base` = the address returned, `none` = MAP_FAILED;
exhausted queue = MAP_FAILED).  Integer widths: `size_t` = 64 bit (`w64`), bitmap words = `BitVec 32`;
`sizeof(pool_t)` = `offsetof(pool_t, blob)` = 40 (LP64; the harness prints the real value on every run).
-/
namespace Sqfs.MemPool

abbrev Word := BitVec 32

def DEF_POOL_SIZE : Nat := 65536
def MEM_ALIGN : Nat := 8
/-- `sizeof(pool_t)`: next, data, limit, bitmap (pointers), obj_free (size_t); `blob[]` starts here -/
def HDR : Nat := 40
def UINT_MAX : Nat := 4294967295

/-- `size_t` wrap-around -/
def w64 (x : Nat) : Nat := x % 18446744073709551616

/-- `pool_size_from_bitmap_count(count, obj_size)`, mempool.c:44-61.  `obj_size = 0` divides by zero (line 56): `none`. -/
def poolSizeFromBitmapCount (count objSize : Nat) : Option Nat :=
  if objSize = 0 then none else
  let size := HDR                                                     -- :48
  let size := if size % 4 ≠ 0 then w64 (size + (4 - size % 4)) else size   -- :49-50
  let byteCount := w64 (count * 4)                                    -- :52
  let bitCount := w64 (byteCount * 8)                                 -- :53
  let size := w64 (size + byteCount)                                  -- :55
  let size := if size % objSize ≠ 0 then w64 (size + (objSize - size % objSize)) else size   -- :56-57
  some (w64 (size + w64 (bitCount * objSize)))                        -- :59

/-- the `for (;;)` of `mem_pool_create` (109-114): the first `count` whose total exceeds `DEF_POOL_SIZE` -/
def searchCount (objSize : Nat) : Nat → Nat → Option Nat
  | 0, _ => none
  | fuel + 1, count =>
    match poolSizeFromBitmapCount count objSize with
    | none => none
    | some total => if total > DEF_POOL_SIZE then some count else searchCount objSize fuel (w64 (count + 1))

structure Block where
  id : Nat
  base : Nat              -- what mmap returned
  dataOff : Nat           -- pool->data  - (unsigned char *)pool
  limitOff : Nat          -- pool->limit - (unsigned char *)pool
  bitmap : List Word      -- pool->bitmap[0 .. bitmap_count)
  objFree : Nat           -- pool->obj_free
deriving DecidableEq, Repr

structure Pool where
  objSize : Nat
  poolSize : Nat
  bitmapCount : Nat
  blocks : List Block     -- pool_list, head first
deriving DecidableEq, Repr

inductive CreateRes where
  | ok (p : Pool)
  | null                  -- calloc failed
  | sigfpe                -- obj_size (after alignment) is 0: `size % obj_size`
  | fuel                  -- the search did not stop within the fuel (not reachable for obj_size < 2^32, `create_total`)
deriving DecidableEq, Repr

/-- enough for every count the search can reach while nothing wraps: 40 + 4 * count ≤ 65536 -/
def SEARCH_FUEL : Nat := 16400

/-- mempool.c:106-107: `obj_size` rounded up to `MEM_ALIGN` (in `size_t`) -/
def alignUp (objSize : Nat) : Nat :=
  if objSize % MEM_ALIGN ≠ 0 then w64 (objSize + (MEM_ALIGN - objSize % MEM_ALIGN)) else objSize

/-- the rest of `mem_pool_create` for the aligned size `o` -/
def createSized (o : Nat) : CreateRes :=
  if o = 0 then .sigfpe else
  match searchCount o SEARCH_FUEL 1 with
  | none => .fuel
  | some count =>
    let count := w64 (count + 18446744073709551615)                                   -- `--count`
    if count = 0 then                                                                 -- `if (count == 0) {`
      match poolSizeFromBitmapCount 1 o with                                          --   count = 1; pool_size = pool_size_from_bitmap_count(1, obj_size)
      | some ps => .ok ⟨o, ps, 1, []⟩
      | none => .sigfpe
    else .ok ⟨o, DEF_POOL_SIZE, count, []⟩

/-- `mem_pool_create(obj_size)` (repaired: when not even one bitmap word with its 32 objects fits into `DEF_POOL_SIZE`
the pool gets one word per block and blocks of exactly the size that needs) -/
def create (objSize : Nat) (callocOk : Bool := true) : CreateRes :=
  if !callocOk then .null else createSized (alignUp objSize)

/-- `create_pool(mem)` after a successful `mmap` that returned `base` (repaired: the data area is padded by the OFFSET inside
the block, `(size_t)(ptr - (unsigned char *)pool) % mem->obj_size`, which is what `pool_size_from_bitmap_count` budgets) -/
def createPool (p : Pool) (id base : Nat) : Block :=
  let objFree := w64 (w64 (p.bitmapCount * 4) * 8)
  let off := HDR + 4 * p.bitmapCount                                                  -- ptr - (unsigned char *)pool
  let off := if off % p.objSize ≠ 0 then off + p.objSize - off % p.objSize else off
  { id := id, base := base, dataOff := off,
    limitOff := off + objFree * p.objSize - 1,
    bitmap := List.replicate p.bitmapCount 0, objFree := objFree }

/-! #### the code before the repair (`fixes/C19-mempool-latent.patch`): only the witness theorems speak about these -/

/-- `mem_pool_create` before the repair: `bitmap_count` may come out as 0 -/
def createOld (objSize : Nat) (callocOk : Bool := true) : CreateRes :=
  if !callocOk then .null else
  let o := if objSize % MEM_ALIGN ≠ 0 then w64 (objSize + (MEM_ALIGN - objSize % MEM_ALIGN)) else objSize
  if o = 0 then .sigfpe else
  match searchCount o SEARCH_FUEL 1 with
  | none => .fuel
  | some count => .ok ⟨o, DEF_POOL_SIZE, w64 (count + 18446744073709551615), []⟩

/-- `create_pool` before the repair: padding by the ABSOLUTE address `((uintptr_t)ptr) % mem->obj_size` -/
def createPoolOld (p : Pool) (id base : Nat) : Block :=
  let objFree := w64 (w64 (p.bitmapCount * 4) * 8)
  let ptr := base + HDR + 4 * p.bitmapCount
  let ptr := if ptr % p.objSize ≠ 0 then ptr + p.objSize - ptr % p.objSize else ptr
  { id := id, base := base, dataOff := ptr - base,
    limitOff := ptr - base + objFree * p.objSize - 1,
    bitmap := List.replicate p.bitmapCount 0, objFree := objFree }

/-- `1 << j` in type `int` (before the repair, mempool.c:212,214): defined only if `2^j` is representable (C11 6.5.7p4) -/
def shiftIntOld (j : Nat) : Option Word := if 2 ^ j ≤ 2147483647 then some (BitVec.twoPow 32 j) else none
/-- `1U << j` (repaired): defined for every `j < 32` -/
def shiftUnsigned (j : Nat) : Option Word := if j < 32 then some (BitVec.twoPow 32 j) else none

/-- `for (i = 0; i < mem->bitmap_count; ++i) if (it->bitmap[i] < UINT_MAX) break;` (160-163); `none`: `i == bitmap_count` -/
def scanWords : List Word → Option Nat
  | [] => none
  | w :: ws => if w.toNat < UINT_MAX then some 0 else (scanWords ws).map (· + 1)

/-- `for (j = 0; j < 32; ++j) if (!(it->bitmap[i] & (1UL << j))) break;` (170-173) from `j` with `n` rounds left -/
def scanBits (w : Word) : Nat → Nat → Option Nat
  | 0, _ => none
  | n + 1, j => if w.getLsbD j = false then some j else scanBits w n (j + 1)

def setBit (bm : List Word) (i j : Nat) : List Word := bm.set i (bm.getD i 0 ||| BitVec.twoPow 32 j)
def clearBit (bm : List Word) (i j : Nat) : List Word := bm.set i (bm.getD i 0 &&& ~~~ BitVec.twoPow 32 j)

/-- lines 160-187 for the block `it`: `some (offset of the object, block afterwards)`; `none` = no clear bit found
(`it->obj_free = 0; goto retry_pool`, 165-168 / 175-178) -/
def takeSlot (objSize : Nat) (b : Block) : Option (Nat × Block) :=
  match scanWords b.bitmap with
  | none => none
  | some i =>
    match scanBits (b.bitmap.getD i 0) 32 0 with
    | none => none
    | some j =>
      let idx := i * 32 + j                                                           -- :180
      some (b.dataOff + idx * objSize,                                                -- :181
            { b with bitmap := setBit b.bitmap i j,                                   -- :183
                     objFree := w64 (b.objFree + 18446744073709551615) })             -- :184

inductive Walk where
  | none                                     -- no block with obj_free > 0 (`it == NULL`)
  | got (bid off : Nat) (bs : List Block)    -- object handed out
  | stale (bs : List Block)                  -- obj_free > 0 but no clear bit: obj_free := 0, retry
deriving DecidableEq, Repr

/-- the search for the first block with `obj_free > 0` (146-149) and what happens to it (160-187) -/
def walk (objSize : Nat) : List Block → Walk
  | [] => .none
  | b :: bs =>
    if b.objFree > 0 then
      match takeSlot objSize b with
      | some (off, b') => .got b.id off (b' :: bs)
      | none => .stale ({ b with objFree := 0 } :: bs)
    else match walk objSize bs with
      | .none => .none
      | .got i off bs' => .got i off (b :: bs')
      | .stale bs' => .stale (b :: bs')

/-- the `mmap` oracle: answers still to come, and the ordinal of the next successful call -/
structure Env where
  q : List (Option Nat)
  nextId : Nat
deriving DecidableEq, Repr

inductive AllocRes where
  | ptr (bid off : Nat)
  | null
  | fuel
deriving DecidableEq, Repr

/-- `mem_pool_allocate(mem)`, mempool.c:140-188 -/
def allocate : Nat → Pool → Env → AllocRes × Pool × Env
  | 0, p, e => (.fuel, p, e)
  | fuel + 1, p, e =>
    match walk p.objSize p.blocks with
    | .got bid off bs => (.ptr bid off, { p with blocks := bs }, e)
    | .stale bs => allocate fuel { p with blocks := bs } e
    | .none =>                                                                        -- :151 it == NULL
      match e.q with
      | [] => (.null, p, e)                                                           -- :153
      | none :: q => (.null, p, { e with q := q })
      | some base :: q =>
        let nb := createPool p e.nextId base
        let e' : Env := { q := q, nextId := e.nextId + 1 }
        match takeSlot p.objSize nb with                                              -- :156-157 linked in, then scanned
        | some (off, nb') => (.ptr nb.id off, { p with blocks := nb' :: p.blocks }, e')
        | none => allocate fuel { p with blocks := { nb with objFree := 0 } :: p.blocks } e'

/-- fuel that always suffices from a consistent state (`allocate_fuel_enough`) -/
def allocFuel (p : Pool) (e : Env) : Nat := e.q.length + p.blocks.length + 2

inductive FreeErr where
  | noBlock       -- assert(it != NULL), :202
  | misaligned    -- assert((idx % mem->obj_size) == 0), :206
  | notAllocated  -- assert((it->bitmap[i] & (1 << j)) != 0), :212
deriving DecidableEq, Repr

/-- the loop 195-200: first block whose `[data, limit)` contains the pointer -/
def locate (bid off : Nat) : List Block → Option (List Block × Block × List Block)
  | [] => none
  | b :: bs =>
    if b.id = bid ∧ b.dataOff ≤ off ∧ off < b.limitOff then some ([], b, bs)
    else match locate bid off bs with
      | some (pre, x, post) => some (b :: pre, x, post)
      | none => none

/-- `mem_pool_free(mem, ptr)`, mempool.c:190-216 -/
def free (p : Pool) (bid off : Nat) : Except FreeErr Pool :=
  match locate bid off p.blocks with
  | none => .error .noBlock
  | some (pre, b, post) =>
    let idx := off - b.dataOff                                                        -- :204
    if idx % p.objSize ≠ 0 then .error .misaligned else
    let idx := idx / p.objSize                                                        -- :207
    let i := idx / 32
    let j := idx % 32
    if (b.bitmap.getD i 0).getLsbD j = false then .error .notAllocated else                -- :212 `& (1U << j)`
    .ok { p with blocks := pre ++ { b with bitmap := clearBit b.bitmap i j, objFree := w64 (b.objFree + 1) } :: post }

/-- `mem_pool_destroy`: the blocks in the order they are unmapped (each with `mem->pool_size` bytes) -/
def destroy (p : Pool) : List Nat := p.blocks.map (·.id)

/-! ### bit-level reading of a bitmap (used by the theorems and by the driver's `state` line) -/

def bitAt (bm : List Word) (k : Nat) : Bool := (bm.getD (k / 32) 0).getLsbD (k % 32)

/-- number of clear bits among the `32 * length` bits -/
def clearBits (bm : List Word) : Nat := (List.range (32 * bm.length)).countP (fun k => !bitAt bm k)

/-- address of slot `k` of block `b` -/
def slotAddr (objSize : Nat) (b : Block) (k : Nat) : Nat × Nat := (b.id, b.dataOff + k * objSize)

/-! ### histories -/

inductive Op where
  | alloc
  | free (a : Nat × Nat)
deriving DecidableEq, Repr

/-- A history that respects the API: `free` only of what was allocated and not yet freed (`live`); anything else, an
assertion of `mem_pool_free` and running out of fuel end the run with `none`. -/
def runOps : Pool → Env → List (Nat × Nat) → List Op → Option (Pool × Env × List (Nat × Nat))
  | p, e, live, [] => some (p, e, live)
  | p, e, live, .alloc :: ops =>
    match allocate (allocFuel p e) p e with
    | (.ptr bid off, p', e') => runOps p' e' ((bid, off) :: live) ops
    | (.null, p', e') => runOps p' e' live ops
    | (.fuel, _, _) => none
  | p, e, live, .free a :: ops =>
    if a ∈ live then
      match free p a.1 a.2 with
      | .ok p' => runOps p' e (live.erase a) ops
      | .error _ => none
    else none

end Sqfs.MemPool
