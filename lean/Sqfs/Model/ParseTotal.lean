/-
C07 — index-explicit models of the small parsers that untrusted tar streams and description
files reach first.  Unlike the value-level codec models of C04 (a field = the list of its
bytes), every function here takes the *whole buffer* and the index it starts at, performs each
`*p` of the C code as a checked access `buf[i]?`, and answers `.oob` when the C code would
touch memory outside the buffer.  The C07 theorems are then of the form "for every buffer
content the answer is never `.oob`" (and never "still running").

Modelled here:
  * `lib/tar/src/number.c`      `read_number` / `read_octal` / `read_binary`
  * `lib/util/src/parse_int.c`  `parse` / `parse_uint` / `parse_uint_oct` / `parse_int`
  * `lib/util/src/hex_decode.c`, `lib/util/src/base64_decode.c`
`isspace`, `isdigit`, `isupper`, … are the "C" locale classes (the tools never call `setlocale`).
-/
namespace Sqfs.ParseTotal

abbrev Bytes := List UInt8

/-- result of a C function that walks a buffer -/
inductive R (α : Type)
  | ok (a : α)
  /-- the function's own error return -/
  | fail (code : Nat)
  /-- an access outside the buffer: never a result of the C function, always a defect -/
  | oob
  /-- the fuel of a modelled loop ran out: the C loop would still be running -/
  | spin
  deriving DecidableEq, Repr

def R.isOob {α : Type} : R α → Bool
  | .oob => true
  | _ => false

def R.isOk {α : Type} : R α → Bool
  | .ok _ => true
  | _ => false

/-- `2^64` -/
abbrev U64 : Nat := 18446744073709551616

def isSpace (c : UInt8) : Bool := c.toNat = 32 || (9 ≤ c.toNat && c.toNat ≤ 13)
def isDigit (c : UInt8) : Bool := 48 ≤ c.toNat && c.toNat ≤ 57
def isOct (c : UInt8) : Bool := 48 ≤ c.toNat && c.toNat ≤ 55
def isUpper (c : UInt8) : Bool := 65 ≤ c.toNat && c.toNat ≤ 90
def isLower (c : UInt8) : Bool := 97 ≤ c.toNat && c.toNat ≤ 122
def isXDigit (c : UInt8) : Bool :=
  isDigit c || (65 ≤ c.toNat && c.toNat ≤ 70) || (97 ≤ c.toNat && c.toNat ≤ 102)

/-! ## `read_number` (tar header fields) -/

/-- `while (digits > 0 && isspace(*str)) { ++str; --digits; }` — returns the new (index, digits) -/
def skipSpaces (buf : Bytes) : Nat → Nat → R (Nat × Nat)
  | i, 0 => .ok (i, 0)
  | i, d + 1 =>
    match buf[i]? with
    | none => .oob
    | some c => if isSpace c then skipSpaces buf (i + 1) d else .ok (i, d + 1)

/-- `while (digits > 0 && *str >= '0' && *str <= '7')` with the overflow guard; fail 1 = "numeric overflow" -/
def octLoop (buf : Bytes) : Nat → Nat → Nat → R Nat
  | _, 0, acc => .ok acc
  | i, d + 1, acc =>
    match buf[i]? with
    | none => .oob
    | some c =>
      if isOct c then
        if acc > 0x1FFFFFFFFFFFFFFF then .fail 1
        else octLoop buf (i + 1) d (acc * 8 + (c.toNat - 48))     -- `(result << 3) | (*str - '0')`, no bit is lost
      else .ok acc

def readOctal (buf : Bytes) (i digits : Nat) : R Nat :=
  match skipSpaces buf i digits with
  | .ok (j, d) => octLoop buf j d 0
  | .fail c => .fail c
  | .oob => .oob
  | .spin => .spin

/--
`while (digits > 0)` of `read_binary` (number.c) after the first byte: `ov = (result >> 56) & 0xFF;
if (ov != (negative ? 0xFF : 0x00)) goto fail_ov; result = (result << 8) | x;`.
(The guard of 1.2.0, `ov != 0 && ov != 0xFF`, let a number wrap silently; it lives on only in
`Sqfs/Witness/C07.lean`.)
-/
def binLoop (neg : Bool) (buf : Bytes) : Nat → Nat → Nat → R Nat
  | _, 0, r => .ok r
  | i, d + 1, r =>
    match buf[i]? with
    | none => .oob
    | some x =>
      let ov := r / 72057594037927936 % 256
      if (if neg then ov ≠ 255 else ov ≠ 0) then .fail 1
      else binLoop neg buf (i + 1) d ((r * 256 + x.toNat) % U64)

/-- `read_binary` (`digits ≥ 1`) -/
def readBinary (buf : Bytes) (i digits : Nat) : R Nat :=
  match digits with
  | 0 => .ok 0
  | d + 1 =>
    match buf[i]? with
    | none => .oob
    | some x0 =>
      if x0.toNat = 255 then
        -- first iteration: result = all ones, ov = 0xFF, result = (result << 8) | 0xFF = all ones
        match binLoop true buf (i + 1) d (U64 - 1) with
        | .ok r => if r < 9223372036854775808 then .fail 1 else .ok r     -- `negative && !(result & 0x8000…)`
        | e => e
      else
        let x := x0.toNat % 128
        if d > 7 ∧ x ≠ 0 then .fail 1
        else binLoop false buf (i + 1) d x

/-- `read_number(str, digits, &out)` with `str = buf + i`; reads `*str` first, whatever `digits` is -/
def readNumber (buf : Bytes) (i digits : Nat) : R Nat :=
  match buf[i]? with
  | none => .oob
  | some c => if c.toNat ≥ 128 then readBinary buf i digits else readOctal buf i digits

/-! ## `parse_uint` / `parse_int` (`lib/util/src/parse_int.c`)

`len = none` is the callers' `-1` (`(size_t)-1`: "the string is NUL terminated"); the buffer then has to
contain the terminator, otherwise the scan runs off its end (`.oob`).  Error codes: 5 = CORRUPTED,
7 = OVERFLOW, 8 = OUT_OF_BOUNDS (`-SQFS_ERROR_*`). -/

def lenPos : Option Nat → Bool
  | none => true
  | some n => n > 0

def lenDec : Option Nat → Option Nat
  | none => none
  | some n => some (n - 1)

/-- the `while (len > 0 && isdigit(*in))` loop; returns (value, index after the digits, remaining len) -/
def parseLoop (base : Nat) (buf : Bytes) : Nat → Nat → Option Nat → Nat → R (Nat × Nat × Option Nat)
  | 0, _, _, _ => .spin           -- fuel: one iteration per buffer byte
  | fuel + 1, i, len, acc =>
    if !lenPos len then .ok (acc, i, len)
    else match buf[i]? with
      | none => .oob
      | some c =>
        if !isDigit c then .ok (acc, i, len)
        else
          let x := c.toNat - 48
          if x ≥ base then .ok (acc, i, len)
          else if acc ≥ (U64 - 1) / base then .fail 7
          else if acc * base > (U64 - 1) - x then .fail 7
          else parseLoop base buf fuel (i + 1) (lenDec len) (acc * base + x)

/--
`parse(in, len, diff, base, vmin, vmax, out)`.  `wantDiff` = `diff != NULL`.  Returns the value and
`*diff`.
-/
def parseU (base : Nat) (buf : Bytes) (i : Nat) (len : Option Nat) (wantDiff : Bool) (vmin vmax : Nat) : R (Nat × Nat) :=
  if !lenPos len then .fail 5
  else match buf[i]? with
    | none => .oob
    | some c =>
      if !isDigit c then .fail 5
      else match parseLoop base buf (buf.length + 1) i len 0 with
        | .oob => .oob
        | .spin => .spin
        | .fail c => .fail c
        | .ok (v, j, len') =>
          if vmin < vmax ∧ (v < vmin ∨ v > vmax) then .fail 8
          else if !wantDiff && lenPos len' then
            -- `if (diff == NULL && (len > 0 && *in != '\0'))`
            match buf[j]? with
            | none => .oob
            | some c => if c.toNat ≠ 0 then .fail 5 else .ok (v, j - i)
          else .ok (v, j - i)

/-- `parse_int` with `vmin = vmax = 0` (all callers): optional '-', magnitude `< 2^63 - 1` -/
def parseI (buf : Bytes) (i : Nat) (len : Option Nat) (wantDiff : Bool) : R (Int × Nat) :=
  if !lenPos len then
    match parseU 10 buf i len wantDiff 0 0 with
    | .ok (v, d) => .ok (v, d)
    | .fail c => .fail c
    | .oob => .oob
    | .spin => .spin
  else match buf[i]? with
    | none => .oob
    | some c =>
      let neg := c.toNat = 45
      match parseU 10 buf (if neg then i + 1 else i) (if neg then lenDec len else len) wantDiff 0 0 with
      | .oob => .oob
      | .spin => .spin
      | .fail c => .fail c
      | .ok (v, d) =>
        if v ≥ 0x7FFFFFFFFFFFFFFF then .fail 7
        else if neg then .ok (-(v : Int), d + 1) else .ok ((v : Int), d)

/-! ## `hex_decode`, `base64_decode` -/

def xdigit (c : UInt8) : Nat :=
  if isUpper c then c.toNat - 65 + 10 else if isLower c then c.toNat - 97 + 10 else c.toNat - 48

/--
`hex_decode(in, in_sz, out, out_sz)` with `in = buf + i`: returns the bytes written to `out`
(at most `out_sz`) or fail 1 (= -1: input left over).  Reads `in[0]`, `in[1]` only while `in_sz >= 2`.
-/
def hexDecode (buf : Bytes) : Nat → Nat → Nat → Bytes → R Bytes
  | i, inSz, outSz, acc =>
    match outSz with
    | 0 => if inSz > 0 then .fail 1 else .ok acc.reverse
    | o + 1 =>
      if inSz < 2 then (if inSz > 0 then .fail 1 else .ok acc.reverse)
      else match buf[i]?, buf[i + 1]? with
        | some a, some b =>
          if isXDigit a && isXDigit b then
            hexDecode buf (i + 2) (inSz - 2) o (UInt8.ofNat ((xdigit a * 16 + xdigit b) % 256) :: acc)
          else .fail 1
        | _, _ => .oob

/-- `base64_digit`: 0..63 or none (= -1) -/
def b64digit (c : UInt8) : Option Nat :=
  if isUpper c then some (c.toNat - 65)
  else if isLower c then some (c.toNat - 97 + 26)
  else if isDigit c then some (c.toNat - 48 + 52)
  else if c.toNat = 43 then some 62
  else if c.toNat = 47 ∨ c.toNat = 45 then some 63
  else none

def isPad (c : UInt8) : Bool := c.toNat = 61 || c.toNat = 95      -- '=' or '_'

/-- output so far (reversed) together with the capacity check `count >= *out_len` -/
def push (cap : Nat) (acc : Bytes) (b : Nat) : Option Bytes :=
  if acc.length ≥ cap then none else some (UInt8.ofNat (b % 256) :: acc)

/-- the tail of `base64_decode` for `in_len` = 0 … 3 ("bizarre bastardization of truncated base64") -/
def b64Tail (buf : Bytes) (i inLen cap : Nat) (acc : Bytes) : R Bytes :=
  if inLen = 0 then .ok acc.reverse
  else if inLen = 1 then .fail 1
  else match buf[i]?, buf[i + 1]? with
    | some c1, some c2 =>
      (match b64digit c1, b64digit c2 with
       | some i1, some i2 =>
         (match push cap acc (i1 * 4 + i2 / 16) with
          | none => .fail 1
          | some acc1 =>
            if inLen > 2 then
              match buf[i + 2]? with
              | none => .oob
              | some c3 =>
                if isPad c3 then .ok acc1.reverse
                else match b64digit c3 with
                  | none => .fail 1
                  | some i3 =>
                    (match push cap acc1 (i2 % 16 * 16 + i3 / 4) with
                     | none => .fail 1
                     | some acc2 => .ok acc2.reverse)
            else .ok acc1.reverse)
       | _, _ => .fail 1)
    | _, _ => .oob

/--
`base64_decode(in, in_len, out, &out_len)` with `in = buf + i`, `cap = *out_len`.  `groups` is
`in_len / 4` at the start (structural recursion on it); returns the bytes written to `out`.
-/
def b64Loop (buf : Bytes) (cap : Nat) : Nat → Nat → Nat → Bytes → R Bytes
  | 0, i, inLen, acc => b64Tail buf i inLen cap acc
  | g + 1, i, inLen, acc =>
    if inLen < 4 then b64Tail buf i inLen cap acc
    else match buf[i]?, buf[i + 1]?, buf[i + 2]?, buf[i + 3]? with
      | some c1, some c2, some c3, some c4 =>
        let rest := inLen - 4
        (match b64digit c1, b64digit c2 with
         | some i1, some i2 =>
           (match push cap acc (i1 * 4 + i2 / 16) with
            | none => .fail 1
            | some acc1 =>
              if isPad c3 then
                (if !isPad c4 || rest > 0 then .fail 1 else b64Tail buf (i + 4) rest cap acc1)
              else match b64digit c3 with
                | none => .fail 1
                | some i3 =>
                  (match push cap acc1 (i2 % 16 * 16 + i3 / 4) with
                   | none => .fail 1
                   | some acc2 =>
                     if isPad c4 then (if rest > 0 then .fail 1 else b64Tail buf (i + 4) rest cap acc2)
                     else match b64digit c4 with
                       | none => .fail 1
                       | some i4 =>
                         (match push cap acc2 (i3 % 4 * 64 + i4) with
                          | none => .fail 1
                          | some acc3 => b64Loop buf cap g (i + 4) rest acc3)))
         | _, _ => .fail 1)
      | _, _, _, _ => .oob

def base64Decode (buf : Bytes) (i inLen cap : Nat) : R Bytes := b64Loop buf cap (inLen / 4) i inLen []

end Sqfs.ParseTotal
