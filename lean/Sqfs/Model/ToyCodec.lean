/-
The deterministic toy block codec of the verification harnesses (`harness/h_c08.c: toy_do_block`, mirrored in
`tools/checks/c08.py`): run-length pairs `(byte, count)` with `1 ≤ count ≤ 255`.  The compressor declines
(`do_block` returns 0) unless the result is strictly smaller than the input; the uncompressor fails on an odd
length or a zero count and when the output would exceed `limit` bytes.
-/
import Sqfs.Model.FragDedup
namespace Sqfs.ToyCodec
open Sqfs.FragDedup

/-- `fuel` = remaining input length (each step consumes ≥ 1 byte) -/
def rleGo : (fuel : Nat) → Bytes → Bytes
  | 0, _ => []
  | _, [] => []
  | fuel + 1, b :: t =>
    let run := (t.takeWhile (· == b)).length
    let n := min run 254
    b :: UInt8.ofNat (n + 1) :: rleGo fuel (t.drop n)

def rle (x : Bytes) : Bytes := rleGo x.length x

def compress (x : Bytes) : Option Bytes :=
  let r := rle x
  if r.length < x.length then some r else none

def expand (limit : Nat) : Bytes → Nat → Option Bytes
  | [], _ => some []
  | [_], _ => none
  | b :: n :: t, used =>
    if n = 0 then none
    else if n.toNat > limit - used then none
    else (expand limit t (used + n.toNat)).map (List.replicate n.toNat b ++ ·)

/-- the codec as the block processor uses it with `max_block_size = limit` (it never hands the compressor more
than `limit` bytes; the guard only makes the round-trip contract unconditional) -/
def codec (limit : Nat) : Codec :=
  { cmp := fun x => if x.length ≤ limit then compress x else none, unc := fun y => expand limit y 0 }

/-- never compresses: what the fragment model is run with when the real codec is zlib (the model's answers do
not depend on the codec, `Sqfs.C08.frag_sound` holds for every codec with the round-trip contract) -/
def ident : Codec := { cmp := fun _ => none, unc := fun y => some y }

end Sqfs.ToyCodec
