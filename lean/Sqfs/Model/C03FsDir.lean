/-
C03: model of how one directory's children list is built in `lib/fstree/src/fstree.c` — `child_by_name`,
`insert_sorted`, the part of `mknode` / `fstree_add_generic` that decides whether an entry is created and keeps
`link_count` — i.e. where the order and the uniqueness of the names in a directory listing come from
(`write_dir_entries` in serialize_fstree.c hands the children to the dir writer in list order, and
`sqfs_dir_writer_end` keeps that order: `Sqfs.C03.dir_end_headers_ok`).

A name is the list of its bytes (NUL-free, no '/': a path component).  Only the names and the parent's link count
are modelled; node payloads do not influence either.
-/
namespace Sqfs.C03FsDir

abbrev Bytes := List UInt8

/-- `strcmp(a, b) < 0` on NUL-free byte strings: bytes compare as `unsigned char`, a proper prefix is smaller -/
def strLt : Bytes → Bytes → Bool
  | [], [] => false
  | [], _ :: _ => true
  | _ :: _, [] => false
  | a :: as, b :: bs => if a < b then true else if b < a then false else strLt as bs

/-- `insert_sorted` (fstree.c:57-74): skip while `strcmp(it->name, n->name) < 0`, link in front of the rest -/
def insertSorted (n : Bytes) : List Bytes → List Bytes
  | [] => [n]
  | it :: rest => if strLt it n then it :: insertSorted n rest else n :: it :: rest

/-- a directory node: the names of `data.children` in list order and `link_count` -/
structure Dir where
  children : List Bytes := []
  linkCount : Nat := 2          -- fstree_init :172, mknode :134
  deriving Repr, DecidableEq

inductive AddErr where
  | eexist        -- fstree_add_generic :284
  | emlink        -- mknode :140-144
  deriving Repr, DecidableEq

/--
`fstree_add_generic` for a non-directory entry directly below an existing directory `d`: `child_by_name` (:279)
finds a child with the same name → `EEXIST` (:281-286; the one exception there, re-declaring an implicitly created
*directory*, changes attributes only and creates no entry); otherwise `mknode`: `parent->link_count == 0xFFFFFFFF`
→ `EMLINK`, else `insert_sorted(parent, n)` and `parent->link_count++`.
-/
def addChild (d : Dir) (n : Bytes) : Except AddErr Dir :=
  if d.children.contains n then .error .eexist
  else if d.linkCount = 0xFFFFFFFF then .error .emlink
  else .ok { children := insertSorted n d.children, linkCount := d.linkCount + 1 }

/-- a sequence of adds; a refused add leaves the directory as it was (the tools stop there) -/
def addAll (d : Dir) (names : List Bytes) : Dir :=
  names.foldl (fun d n => match addChild d n with | .ok d' => d' | .error _ => d) d

end Sqfs.C03FsDir
