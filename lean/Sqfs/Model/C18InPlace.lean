/-
C18: *in-place* model of `lib/util/src/canonicalize_name.c`.

`Sqfs.Model.Path` models the two passes as "read the original, emit the output".
That is only faithful if, in the C code, the write cursor never overtakes the read
cursor.  This file removes the assumption: it models the C statements over a flat
byte memory (`Mem = List UInt8`, the `char` array that `filename` points to, index
0 = `filename[0]`), with the C pointers `src`/`dst` as indices, every `*p` as a
bounds-checked read and every `*p = c` as a bounds-checked write into the *same*
memory that later reads see.  `none` = the run left the array (or ran out of fuel),
so "`= some …`" in `Sqfs/Proofs/C18InPlace.lean` is also a memory-safety statement.

One Lean function per C loop, the loop's fuel as first argument (structural
recursion); the comments give the C lines (canonicalize_name.c).
-/
import Sqfs.Model.Path
namespace Sqfs.PathIP
open Sqfs.Path

abbrev Mem := List UInt8

/-- `*p` -/
def rd (m : Mem) (i : Nat) : Option UInt8 := m[i]?

/-- `*p = c` -/
def wr (m : Mem) (i : Nat) (c : UInt8) : Option Mem :=
  if i < m.length then some (m.set i c) else none

/-- lines 14-15 and 19-20: `while (*src == '/') ++src;` -/
def skipSl : Nat → Mem → Nat → Option Nat
  | 0, _, _ => none
  | f + 1, m, src =>
    match rd m src with
    | none => none
    | some c => if c = SL then skipSl f m (src + 1) else some src

/-- lines 17-27: the main loop of `normalize_slashes`; returns the memory and `dst` -/
def normLoop : Nat → Mem → Nat → Nat → Option (Mem × Nat)
  | 0, _, _, _ => none
  | f + 1, m, src, dst =>
    match rd m src with
    | none => none
    | some c =>
      if c = 0 then some (m, dst)                               -- `while (*src != '\0')`
      else if c = SL then                                       -- `if (*src == '/')`
        match skipSl (f + 1) m src with                         --   `while (*src == '/') ++src;`
        | none => none
        | some src' =>
          match rd m src' with
          | none => none
          | some c' =>
            if c' = 0 then some (m, dst)                        --   `if (*src == '\0') break;`
            else match wr m dst SL with                         --   `*(dst++) = '/';`
              | none => none
              | some m' => normLoop f m' src' (dst + 1)
      else match wr m dst c with                                -- `*(dst++) = *(src++);`
        | none => none
        | some m' => normLoop f m' (src + 1) (dst + 1)

/-- `normalize_slashes(filename)` (lines 10-30) -/
def normalizeIP (fuel : Nat) (m : Mem) : Option Mem :=
  match skipSl fuel m 0 with
  | none => none
  | some src =>
    match normLoop fuel m src 0 with
    | none => none
    | some (m', dst) => wr m' dst 0                              -- `*dst = '\0';`

/-- lines 50-51: `while (*src != '\0' && *src != '/') *(dst++) = *(src++);` -/
def copyComp : Nat → Mem → Nat → Nat → Option (Mem × Nat × Nat)
  | 0, _, _, _ => none
  | f + 1, m, src, dst =>
    match rd m src with
    | none => none
    | some c =>
      if c = 0 ∨ c = SL then some (m, src, dst)
      else match wr m dst c with
        | none => none
        | some m' => copyComp f m' (src + 1) (dst + 1)

/-- lines 50-54 (the tail of one iteration of the outer loop), then the next iteration -/
def copyThen (next : Mem → Nat → Nat → Option (Option (Mem × Nat)))
    (fuel : Nat) (m : Mem) (src dst : Nat) : Option (Option (Mem × Nat)) :=
  match copyComp fuel m src dst with
  | none => none
  | some (m1, s1, d1) =>
    match rd m1 s1 with
    | none => none
    | some c =>
      if c = SL then                                            -- `if (*src == '/') *(dst++) = *(src++);`
        match wr m1 d1 SL with
        | none => none
        | some m2 => next m2 (s1 + 1) (d1 + 1)
      else next m1 s1 d1

/--
lines 38-55: the outer loop of `canonicalize_name`.  Outer `none`: left the array /
out of fuel; `some none`: `return -1`; `some (some (m, dst))`: loop left normally.
The short-circuit order of the C conditions is kept: `src[1]` is read only when
`src[0] == '.'`, `src[2]` only when `src[1] == '.'`.
-/
def canonLoop : Nat → Mem → Nat → Nat → Option (Option (Mem × Nat))
  | 0, _, _, _ => none
  | f + 1, m, src, dst =>
    match rd m src with
    | none => none
    | some c0 =>
      if c0 = 0 then some (some (m, dst))                       -- `while (*src != '\0')`
      else if c0 = DOT then                                     -- `if (src[0] == '.')`
        match rd m (src + 1) with
        | none => none
        | some c1 =>
          if c1 = 0 then some (some (m, dst))                   --   `if (src[1] == '\0') break;`
          else if c1 = SL then canonLoop f m (src + 2) dst      --   `if (src[1] == '/') { src += 2; continue; }`
          else if c1 = DOT then
            match rd m (src + 2) with
            | none => none
            | some c2 =>
              if c2 = SL ∨ c2 = 0 then some none                --   `return -1;`
              else copyThen (canonLoop f) (f + 1) m src dst
          else copyThen (canonLoop f) (f + 1) m src dst
      else copyThen (canonLoop f) (f + 1) m src dst

/-- result of `canonicalize_name` on the array: `fail` = returned -1 (array contents unspecified) -/
inductive Result where
  | fail
  | ok (m : Mem)
deriving DecidableEq, Repr

/-- `canonicalize_name(filename)` (lines 32-60) -/
def canonicalizeIP (fuel : Nat) (m : Mem) : Option Result :=
  match normalizeIP fuel m with                                  -- line 36
  | none => none
  | some m1 =>
    match canonLoop fuel m1 0 0 with                             -- lines 38-55
    | none => none
    | some none => some Result.fail
    | some (some (m2, dst)) =>
      match wr m2 dst 0 with                                     -- line 57
      | none => none
      | some m3 =>
        match normalizeIP fuel m3 with                           -- line 58
        | none => none
        | some m4 => some (Result.ok m4)

/-- the C string at index 0: bytes before the first NUL (`none` if the array has no NUL) -/
def cstr : Mem → Option Bytes
  | [] => none
  | c :: t => if c = 0 then some [] else (cstr t).map (c :: ·)

/--
The function as the harness sees it: array = the string's bytes, a NUL, nothing
else; fuel = array length + 2 (every loop iteration consumes a byte or stops).
`none` only if the run left the array or the result lost its terminator.
-/
def canonInPlace (s : Bytes) : Option (Option Bytes) :=
  let m := s ++ [0]
  match canonicalizeIP (m.length + 2) m with
  | none => none
  | some Result.fail => some none
  | some (Result.ok m') => (cstr m').map some

end Sqfs.PathIP
