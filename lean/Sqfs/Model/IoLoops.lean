/-
Model of the retry loops and stream buffering that sit between the tools and the
operating system's `read` / `write` / `pread` / `pwrite` (property C12, shared with C13):

  lib/sqfs/src/io/file.c        stdio_read_at, stdio_write_at            (POSIX branch)
  lib/sqfs/src/io/ostream.c     write_all, realize_sparse, file_append, file_flush
  lib/sqfs/src/io/unix.c        sqfs_native_file_seek (lseek + ftruncate retry loop)
  lib/sqfs/src/io/istream.c     precache, file_get_buffered_data, file_advance_buffer
  lib/sqfs/src/io/stream_api.c  sqfs_istream_read, sqfs_istream_skip, sqfs_istream_splice
  lib/util/src/get_line.c       istream_get_line (+ ltrim/rtrim/trim_flags)
  lib/tar/src/record_to_memory.c record_to_memory

The operating system is an *oracle*: a finite script of events, one consumed by every
system call the loops make.  When the script is exhausted every further call completes
in full, so "`EINTR` only finitely often" is the structure of the script, not a side
condition, and the empty script is the run in which the OS never splits a transfer.

Every C loop is one Lean function with the loop's control state as explicit arguments
and explicit fuel; running out of fuel is the distinguished result `Err.fuel` (never a
default), and `Sqfs/Props/C12.lean` proves it is unreachable.

Sizes (`size_t`, `ssize_t`, `sqfs_u64`) are `Nat`: the harness keeps every quantity below
2^31, where none of the C arithmetic wraps (`sqfs_istream_read`'s clamp to 0x7FFFFFFF is
modelled).  The istream buffer size (`BUFSZ` in istream.c) is a parameter `B` of the
model: the theorems hold for every `B > 0`, and the check reads the value the code has.
-/
import Sqfs.Generated.Consts
namespace Sqfs.IoLoops

abbrev Bytes := List UInt8

/-! ### the OS oracle -/

/-- One scripted answer of the OS to one system call. -/
inductive Ev where
  /-- transfer `min (k+1) possible` bytes (a short count; always at least one byte when one is possible) -/
  | part (k : Nat)
  /-- fail with `EINTR` -/
  | eintr
  /-- fail with a hard error (`EIO`) -/
  | err
  /-- return 0 although a transfer was possible (a `write` that writes nothing / a spurious end-of-file) -/
  | zero
  deriving DecidableEq, Repr

/-- What a system call returns: a byte count, `-1/EINTR`, or `-1/EIO`. -/
inductive Ret where
  | n (k : Nat)
  | eintr
  | err
  deriving DecidableEq, Repr

/-- Answer of the OS to a call that could transfer at most `cap` bytes
(`cap` = min(requested, bytes left in the source) for reads, = requested for writes). -/
def answer (cap : Nat) : Option Ev → Ret
  | none => .n cap
  | some (.part k) => .n (min (k + 1) cap)
  | some .eintr => .eintr
  | some .err => .err
  | some .zero => .n 0

/-- Hard events: the run is allowed (and expected) to fail. -/
def Ev.hard : Ev → Bool
  | .err => true
  | .zero => true
  | _ => false

/-- A script without hard events: only short counts and `EINTR`s. -/
def noHard (sc : List Ev) : Bool := sc.all fun e => !e.hard

/-- One system call as the harness logs it: kind (0 read, 1 write, 2 pread, 3 pwrite, 4 ftruncate),
requested size, position (offset for pread/pwrite/ftruncate, bytes already in the sink for write, 0 for read). -/
structure Call where
  kind : Nat
  req : Nat
  pos : Nat
  deriving DecidableEq, Repr

/-- The oracle's state: the events still to come and the log of calls made so far (newest first). -/
structure OS where
  sc : List Ev
  log : List Call
  deriving Repr

/-- The OS that completes every call in full. -/
def OS.full : OS := ⟨[], []⟩

def OS.call (os : OS) (c : Call) (cap : Nat) : Ret × OS :=
  (answer cap os.sc.head?, { sc := os.sc.tail, log := c :: os.log })

/-- Result codes (`SQFS_ERROR_*`), plus the out-of-fuel marker of the model. -/
inductive Err where
  | ok
  | io          -- SQFS_ERROR_IO
  | oob         -- SQFS_ERROR_OUT_OF_BOUNDS
  | compressor  -- SQFS_ERROR_COMPRESSOR (only produced by the xfrm streams)
  | corrupted   -- SQFS_ERROR_CORRUPTED (only produced by the tar member stream, `Sqfs/Model/C12TarStream.lean`)
  | fuel        -- model only: loop bound exceeded (proved unreachable)
  | nullDeref   -- model only: the C code has dereferenced a NULL pointer (tar member stream advanced after its end)
  deriving DecidableEq, Repr

/-! ### file.c: `stdio_read_at` / `stdio_write_at` -/

/-- The `while (size > 0)` loop of `stdio_read_at` (file.c:140-156) over a file with content `file`.
`acc` = bytes stored into the caller's buffer so far. -/
def readAtLoop (file : Bytes) : Nat → Nat → Nat → Bytes → OS → Err × Bytes × OS
  | 0, _, _, acc, os => (.fuel, acc, os)
  | fuel + 1, off, size, acc, os =>
    if size = 0 then (.ok, acc, os) else
    match os.call ⟨2, size, off⟩ (min size (file.length - off)) with
    | (.eintr, os') => readAtLoop file fuel off size acc os'            -- errno == EINTR: continue
    | (.err, os') => (.io, acc, os')                                    -- return SQFS_ERROR_IO
    | (.n 0, os') => (.oob, acc, os')                                   -- ret == 0: SQFS_ERROR_OUT_OF_BOUNDS
    | (.n (k + 1), os') =>                                              -- buffer += ret; size -= ret; offset += ret
      readAtLoop file fuel (off + (k + 1)) (size - (k + 1)) (acc ++ (file.drop off).take (k + 1)) os'

def readAt (file : Bytes) (off size : Nat) (os : OS) : Err × Bytes × OS :=
  readAtLoop file (os.sc.length + size + 1) off size [] os

/-- Effect of one `pwrite(fd, data, |data|, off)` that completes: bytes past the old end are zero-filled. -/
def pwriteBytes (file : Bytes) (off : Nat) (data : Bytes) : Bytes :=
  (file ++ List.replicate (off - file.length) 0).take off ++ data ++ file.drop (off + data.length)

/-- The loop of `stdio_write_at` (file.c:166-182): returns the status, the file content and the advanced offset. -/
def writeAtLoop : Nat → Bytes → Nat → Bytes → OS → Err × Bytes × Nat × OS
  | 0, file, off, _, os => (.fuel, file, off, os)
  | fuel + 1, file, off, data, os =>
    if data.length = 0 then (.ok, file, off, os) else
    match os.call ⟨3, data.length, off⟩ data.length with
    | (.eintr, os') => writeAtLoop fuel file off data os'
    | (.err, os') => (.io, file, off, os')
    | (.n 0, os') => (.oob, file, off, os')
    | (.n (k + 1), os') =>
      writeAtLoop fuel (pwriteBytes file off (data.take (k + 1))) (off + (k + 1)) (data.drop (k + 1)) os'

/-- `stdio_write_at`: the loop, then `if (offset >= file->size) file->size = offset;` (file.c:184-185).
Returns status, file content, the `size` field. -/
def writeAt (file : Bytes) (sizeField off : Nat) (data : Bytes) (os : OS) : Err × Bytes × Nat × OS :=
  match writeAtLoop (os.sc.length + data.length + 1) file off data os with
  | (.ok, file', off', os') => (.ok, file', if off' ≥ sizeField then off' else sizeField, os')
  | (e, file', _, os') => (e, file', sizeField, os')

/-! ### ostream.c: `write_all`, `realize_sparse`, `file_append`, `file_flush` -/

/-- State of a `file_ostream_t` together with the file behind its descriptor.  The descriptor is only ever
written at its position or moved forward, so the position is `out.length + skew`; `skew` is 0 except after a
failed `ftruncate` (see `realizeSparse`). -/
structure OStream where
  out : Bytes          -- bytes in the file
  size : Nat           -- `file->size`
  sparse : Nat         -- `file->sparse_count`
  noSparse : Bool      -- `flags & SQFS_FILE_OPEN_NO_SPARSE`
  /-- bytes by which the descriptor's position is ahead of the end of the file: the `lseek` of
  `sqfs_native_file_seek` (unix.c:73) is not undone when the `ftruncate` after it fails (unix.c:80-84), and
  `realize_sparse` then leaves `sparse_count` as it was. A later `write` zero-fills the gap (POSIX). -/
  skew : Nat
  deriving DecidableEq, Repr

/-- a freshly opened ostream (`sqfs_ostream_open_handle`: `calloc`, then the flags) on an empty file -/
def OStream.init (noSparse : Bool) : OStream := ⟨[], 0, 0, noSparse, 0⟩

/-- `write_all` (ostream.c:28-55). A `write` returning 0 is `EPIPE` → `SQFS_ERROR_IO`. -/
def writeAllLoop : Nat → OStream → Bytes → OS → Err × OStream × OS
  | 0, st, _, os => (.fuel, st, os)
  | fuel + 1, st, data, os =>
    if data.length = 0 then (.ok, st, os) else
    match os.call ⟨1, data.length, st.out.length⟩ data.length with
    | (.eintr, os') => writeAllLoop fuel st data os'
    | (.err, os') => (.io, st, os')
    | (.n 0, os') => (.io, st, os')
    | (.n (k + 1), os') =>
      -- the bytes land at the descriptor's position: a gap left by an earlier seek reads as zeros
      writeAllLoop fuel { st with out := st.out ++ List.replicate st.skew 0 ++ data.take (k + 1), skew := 0,
                                  size := st.size + (k + 1) } (data.drop (k + 1)) os'

def writeAll (st : OStream) (data : Bytes) (os : OS) : Err × OStream × OS :=
  writeAllLoop (os.sc.length + data.length + 1) st data os

/-- The `NO_SPARSE` branch of `realize_sparse` (ostream.c:72-90): zero bytes in pieces of `bufsz`. -/
def sparseLoop (bufsz : Nat) : Nat → OStream → OS → Err × OStream × OS
  | 0, st, os => (.fuel, st, os)
  | fuel + 1, st, os =>
    if st.sparse = 0 then (.ok, st, os) else
    let diff := if st.sparse > bufsz then bufsz else st.sparse
    match writeAll st (List.replicate diff 0) os with
    | (.ok, st', os') => sparseLoop bufsz fuel { st' with sparse := st'.sparse - diff } os'
    | (e, st', os') => (e, st', os')

/-- The `ftruncate` retry loop of `sqfs_native_file_seek` (unix.c:77-82). -/
def ftruncLoop : Nat → Nat → OS → Err × OS
  | 0, _, os => (.fuel, os)
  | fuel + 1, len, os =>
    match os.call ⟨4, len, len⟩ 1 with
    | (.eintr, os') => ftruncLoop fuel len os'
    | (.err, os') => (.io, os')
    | (.n _, os') => (.ok, os')

/-- `realize_sparse` (ostream.c:57-105).  The `lseek(fd, sparse_count, SEEK_CUR)` of the sparse branch is
not scripted (it always succeeds on a regular file); the `ftruncate` to the new position is.  When the
`ftruncate` fails, `sqfs_native_file_seek` returns without seeking back and `realize_sparse` returns before
`sparse_count = 0`: the position stays ahead of the end of the file (`skew`) and the hole is still pending. -/
def realizeSparse (st : OStream) (os : OS) : Err × OStream × OS :=
  if st.sparse = 0 then (.ok, st, os) else
  if st.noSparse then
    sparseLoop (if st.sparse > 1024 then 1024 else st.sparse) (st.sparse + 1) st os
  else
    match ftruncLoop (os.sc.length + 1) (st.out.length + st.skew + st.sparse) os with
    | (.ok, os') => (.ok, { st with out := st.out ++ List.replicate (st.skew + st.sparse) 0, sparse := 0, skew := 0 }, os')
    | (e, os') => (e, { st with skew := st.skew + st.sparse }, os')

/-- `file_append` (ostream.c:107-122). `none` = `data == NULL` (a hole of `size` bytes). -/
def fileAppend (st : OStream) (data : Option Bytes) (size : Nat) (os : OS) : Err × OStream × OS :=
  match data with
  | none => (.ok, { st with sparse := st.sparse + size, size := st.size + size }, os)
  | some d =>
    if size = 0 then (.ok, { st with sparse := st.sparse + size, size := st.size + size }, os) else
    match realizeSparse st os with
    | (.ok, st', os') => writeAll st' d os'
    | (e, st', os') => (e, st', os')

/-- `file_flush` (ostream.c:124-141); the `fsync` is not scripted. -/
def fileFlush (st : OStream) (os : OS) : Err × OStream × OS :=
  realizeSparse st os

/-- One client operation on a file ostream. -/
inductive OOp where
  | data (d : Bytes)     -- append(d, |d|)
  | hole (n : Nat)       -- append(NULL, n)
  | flush
  deriving DecidableEq, Repr

def ostreamStep (st : OStream) (op : OOp) (os : OS) : Err × OStream × OS :=
  match op with
  | .data d => fileAppend st (some d) d.length os
  | .hole n => fileAppend st none n os
  | .flush => fileFlush st os

/-- A client that stops at the first failing call (as every caller in the tools does): status, index of the
failing operation (or the number of operations), final state. -/
def runOOps : Nat → OStream → List OOp → OS → (Err × Nat) × OStream × OS
  | idx, o, [], os => ((.ok, idx), o, os)
  | idx, o, op :: ops, os =>
    match ostreamStep o op os with
    | (.ok, o', os') => runOOps (idx + 1) o' ops os'
    | (e, o', os') => ((e, idx), o', os')

/-- A client that keeps calling after a failure (no tool does; the correspondence check uses it to compare the
state a failed call leaves behind): the status of every call, the final state. -/
def runOOpsAll : OStream → List OOp → OS → List Err × OStream × OS
  | o, [], os => ([], o, os)
  | o, op :: ops, os =>
    match ostreamStep o op os with
    | (e, o', os') =>
      match runOOpsAll o' ops os' with
      | (es, o'', os'') => (e :: es, o'', os'')

/-! ### istream.c: the buffered file input stream -/

/-- State of a `file_istream_t` together with the byte source behind its descriptor. -/
structure IStream where
  eof : Bool
  off : Nat            -- `buffer_offset`
  buf : Bytes          -- `buffer[0 .. buffer_used)`; `buffer_used = buf.length`
  src : Bytes          -- bytes the descriptor has not delivered yet
  deriving DecidableEq, Repr

def IStream.init (data : Bytes) : IStream := ⟨false, 0, [], data⟩

/-- The `while (file->buffer_used < BUFSZ)` loop of `precache` (istream.c:69-89).
Returns status, buffer, remaining source, the eof flag. -/
def precacheLoop (B : Nat) : Nat → Bytes → Bytes → OS → Err × Bytes × Bytes × Bool × OS
  | 0, buf, src, os => (.fuel, buf, src, false, os)
  | fuel + 1, buf, src, os =>
    if buf.length < B then
      match os.call ⟨0, B - buf.length, 0⟩ (min (B - buf.length) src.length) with
      | (.n 0, os') => (.ok, buf, src, true, os')                       -- ret == 0: eof = true; break
      | (.eintr, os') => precacheLoop B fuel buf src os'
      | (.err, os') => (.io, buf, src, false, os')
      | (.n (k + 1), os') => precacheLoop B fuel (buf ++ src.take (k + 1)) (src.drop (k + 1)) os'
    else (.ok, buf, src, false, os)

/-- `precache` (istream.c:53-92): compact, then refill until the buffer is full or end-of-file. -/
def precache (B : Nat) (s : IStream) (os : OS) : Err × IStream × OS :=
  if s.eof then (.ok, s, os) else
  let buf := s.buf.drop s.off                                           -- memmove; used -= offset; offset = 0
  match precacheLoop B (os.sc.length + (B - buf.length) + 2) buf s.src os with
  | (e, buf', src', eof', os') => (e, { eof := eof', off := 0, buf := buf', src := src' }, os')

/-- Return value of `get_buffered_data`: 0, a positive number (end of data), a negative error. -/
inductive GRet where
  | ok
  | eof
  | fail (e : Err)
  deriving DecidableEq, Repr

/-- `file_get_buffered_data` (istream.c:94-112): status and the window `buffer[offset .. used)`. -/
def fileGet (B : Nat) (s : IStream) (want : Nat) (os : OS) : GRet × Bytes × IStream × OS :=
  let want := if want > B then B else want
  if s.buf.length = 0 ∨ s.buf.length - s.off < want then
    match precache B s os with
    | (.ok, s', os') =>
      let w := s'.buf.drop s'.off
      (if s'.eof && w.length = 0 then .eof else .ok, w, s', os')
    | (e, s', os') => (.fail e, [], s', os')
  else
    let w := s.buf.drop s.off
    (if s.eof && w.length = 0 then .eof else .ok, w, s, os)

/-- `file_advance_buffer` (istream.c:114-124). -/
def fileAdvance (s : IStream) (count : Nat) : IStream :=
  if count < s.buf.length - s.off then { s with off := s.off + count }
  else { s with off := 0, buf := [] }

/-! ### the stream interface and its generic clients (stream_api.c, get_line.c, record_to_memory.c)

The C clients call through the function pointers of `sqfs_istream_t`; the model is generic in the same way. -/

structure StreamI (σ : Type) where
  get : σ → Nat → OS → GRet × Bytes × σ × OS
  adv : σ → Nat → σ
  /-- an upper bound on the bytes the stream can still deliver (used only as loop fuel by the model) -/
  bound : σ → Nat

def fileStream (B : Nat) : StreamI IStream :=
  ⟨fileGet B, fileAdvance, fun s => (s.buf.length - s.off) + s.src.length⟩

/-- Return value of `sqfs_istream_read` / `splice`: the bytes transferred (`total`) or a negative error. -/
inductive RdRet where
  | n (data : Bytes)
  | fail (e : Err)
  deriving DecidableEq, Repr

/-- The loop of `sqfs_istream_read` (stream_api.c:20-40). -/
def istreamReadLoop {σ : Type} (I : StreamI σ) : Nat → σ → Nat → Bytes → OS → RdRet × σ × OS
  | 0, s, _, _, os => (.fail .fuel, s, os)
  | fuel + 1, s, size, acc, os =>
    if size = 0 then (.n acc, s, os) else
    match I.get s size os with
    | (.eof, _, s', os') => (.n acc, s', os')                            -- ret > 0: break
    | (.fail e, _, s', os') => (.fail e, s', os')                       -- ret < 0: return ret
    | (.ok, w, s', os') =>
      let diff := if w.length > size then size else w.length
      istreamReadLoop I fuel (I.adv s' diff) (size - diff) (acc ++ w.take diff) os'

/-- `sqfs_istream_read` (stream_api.c:13-43). -/
def istreamRead {σ : Type} (I : StreamI σ) (s : σ) (size : Nat) (os : OS) : RdRet × σ × OS :=
  let size := if size > 0x7FFFFFFF then 0x7FFFFFFF else size
  istreamReadLoop I (size + 1) s size [] os

/-- `sqfs_istream_skip` (stream_api.c:47-73): when the stream reports the end of its data while bytes are still to
be skipped, the call fails with `SQFS_ERROR_OUT_OF_BOUNDS` (everything that was there has been consumed). -/
def istreamSkipLoop {σ : Type} (I : StreamI σ) : Nat → σ → Nat → OS → Err × σ × OS
  | 0, s, _, os => (.fuel, s, os)
  | fuel + 1, s, size, os =>
    if size = 0 then (.ok, s, os) else
    match I.get s size os with
    | (.fail e, _, s', os') => (e, s', os')
    | (.eof, _, s', os') => (.oob, s', os')                              -- ret > 0: return SQFS_ERROR_OUT_OF_BOUNDS
    | (.ok, w, s', os') =>
      let diff := if w.length > size then size else w.length
      istreamSkipLoop I fuel (I.adv s' diff) (size - diff) os'

def istreamSkip {σ : Type} (I : StreamI σ) (s : σ) (size : Nat) (os : OS) : Err × σ × OS :=
  istreamSkipLoop I (size + 1) s size os

/-- `sqfs_istream_splice` (stream_api.c:68-100) into a file ostream; returns the count of bytes moved. -/
def istreamSpliceLoop {σ : Type} (I : StreamI σ) : Nat → σ → OStream → Nat → Nat → OS → (Err × Nat) × σ × OStream × OS
  | 0, s, o, _, total, os => ((.fuel, total), s, o, os)
  | fuel + 1, s, o, size, total, os =>
    if size = 0 then ((.ok, total), s, o, os) else
    match I.get s size os with
    | (.fail e, _, s', os') => ((e, total), s', o, os')
    | (.eof, _, s', os') => ((.ok, total), s', o, os')
    | (.ok, w, s', os') =>
      let diff := if w.length > size then size else w.length
      match fileAppend o (some (w.take diff)) diff os' with
      | (.ok, o', os'') => istreamSpliceLoop I fuel (I.adv s' diff) o' (size - diff) (total + diff) os''
      | (e, o', os'') => ((e, total), s', o', os'')

def istreamSplice {σ : Type} (I : StreamI σ) (s : σ) (o : OStream) (size : Nat) (os : OS) :
    (Err × Nat) × σ × OStream × OS :=
  let size := if size > 0x7FFFFFFF then 0x7FFFFFFF else size
  istreamSpliceLoop I (size + 1) s o size 0 os

/-! #### get_line.c -/

/-- `isspace` in the "C" locale. -/
def isSpace (c : UInt8) : Bool := c = 32 || (9 ≤ c && c ≤ 13)

/-- a C string: the bytes before the first NUL -/
def cstr (l : Bytes) : Bytes := l.takeWhile (· ≠ 0)

/-- `rtrim` on a NUL-free string -/
def rtrimB (l : Bytes) : Bytes := (l.reverse.dropWhile isSpace).reverse

/-- `trim_flags` (get_line.c:43-52) applied to the buffer `raw ++ [0]`; the result is the C string left in the buffer. -/
def trimFlags (flags : Nat) (raw : Bytes) : Bytes :=
  let s := cstr raw
  let s := if flags &&& Consts.istreamLineLtrim ≠ 0 then s.dropWhile isSpace else s
  if flags &&& Consts.istreamLineRtrim ≠ 0 then rtrimB s else s

def skipEmpty (flags : Nat) : Bool := flags &&& Consts.istreamLineSkipEmpty ≠ 0

/-- index of the first '\n' in the window, or its length (get_line.c:81-84) -/
def findNl : Bytes → Nat
  | [] => 0
  | c :: t => if c = 10 then 0 else findNl t + 1

/-- drop one trailing '\r' (get_line.c:107-108) -/
def stripCr (l : Bytes) : Bytes :=
  if l.getLast? = some 13 then l.dropLast else l

inductive LineRet where
  | line (l : Bytes)     -- return 0, *out = l
  | eof                  -- return 1
  | fail (e : Err)
  deriving DecidableEq, Repr

/-- The `for (;;)` loop of `istream_get_line` (get_line.c:62-119). `acc` = `line[0 .. line_len)`. -/
def getLineLoop {σ : Type} (I : StreamI σ) (flags : Nat) : Nat → σ → Bytes → Nat → OS → LineRet × σ × Nat × OS
  | 0, s, _, ln, os => (.fail .fuel, s, ln, os)
  | fuel + 1, s, acc, ln, os =>
    match I.get s 0 os with
    | (.fail e, _, s', os') => (.fail e, s', ln, os')
    | (.eof, _, s', os') =>
      if acc.length = 0 then (.eof, s', ln, os')
      else
        let l := trimFlags flags acc
        if l.length > 0 ∨ !skipEmpty flags then (.line l, s', ln, os') else (.eof, s', ln, os')
    | (.ok, w, s', os') =>
      let i := findNl w
      if i < w.length then
        -- a newline at index i: count = i, advance i + 1
        let acc' := acc ++ w.take i
        let s'' := I.adv s' (i + 1)
        let l := trimFlags flags (stripCr acc')
        if l.length > 0 ∨ !skipEmpty flags then (.line l, s'', ln, os')
        else getLineLoop I flags fuel s'' [] (ln + 1) os'
      else
        getLineLoop I flags fuel (I.adv s' i) (acc ++ w.take i) ln os'

/-- `record_to_memory` (record_to_memory.c:13-49): `none` = NULL. -/
def recordToMemory {σ : Type} (I : StreamI σ) (s : σ) (size : Nat) (os : OS) : Option Bytes × σ × OS :=
  match istreamRead I s size os with
  | (.fail _, s', os') => (none, s', os')
  | (.n d, s', os') =>
    if d.length < size then (none, s', os')
    else if size % 512 ≠ 0 then
      match istreamSkip I s' (512 - size % 512) os' with
      | (.ok, s'', os'') => (some d, s'', os'')
      | (_, s'', os'') => (none, s'', os'')
    else (some d, s', os')

/-! ### histories: a client of an istream -/

/-- One client operation on an istream (and, for `splice`, the ostream it feeds). -/
inductive Op where
  | get (want : Nat)
  | adv (count : Nat)
  | read (size : Nat)
  | skip (size : Nat)
  | splice (size : Nat)
  | line (flags : Nat)
  | record (size : Nat)
  deriving DecidableEq, Repr

/-- What one operation lets the client observe. -/
inductive Obs where
  | get (r : GRet) (w : Bytes)
  | adv
  | read (r : RdRet)
  | skip (e : Err)
  | splice (e : Err) (total : Nat)
  | line (r : LineRet) (lineNum : Nat)
  | record (r : Option Bytes)
  deriving DecidableEq, Repr

/-- Everything the client-side state consists of. -/
structure Client (σ : Type) where
  s : σ
  o : OStream
  ln : Nat

def stepOp {σ : Type} (I : StreamI σ) (c : Client σ) (op : Op) (os : OS) : Obs × Client σ × OS :=
  match op with
  | .get want =>
    match I.get c.s want os with
    | (r, w, s', os') => (.get r w, { c with s := s' }, os')
  | .adv count => (.adv, { c with s := I.adv c.s count }, os)
  | .read size =>
    match istreamRead I c.s size os with
    | (r, s', os') => (.read r, { c with s := s' }, os')
  | .skip size =>
    match istreamSkip I c.s size os with
    | (e, s', os') => (.skip e, { c with s := s' }, os')
  | .splice size =>
    match istreamSplice I c.s c.o size os with
    | ((e, total), s', o', os') => (.splice e total, { c with s := s', o := o' }, os')
  | .line flags =>
    match getLineLoop I flags (I.bound c.s + 2) c.s [] c.ln os with
    | (r, s', ln', os') => (.line r ln', { c with s := s', ln := ln' }, os')
  | .record size =>
    match recordToMemory I c.s size os with
    | (r, s', os') => (.record r, { c with s := s' }, os')

def runOps {σ : Type} (I : StreamI σ) : Client σ → List Op → OS → List Obs × Client σ × OS
  | c, [], os => ([], c, os)
  | c, op :: ops, os =>
    match stepOp I c op os with
    | (o, c', os') =>
      match runOps I c' ops os' with
      | (obs, c'', os'') => (o :: obs, c'', os'')

end Sqfs.IoLoops
