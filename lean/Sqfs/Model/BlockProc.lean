/-
`BlockProc` — the **main-thread state machine** of the block processor
(`lib/sqfs/src/block_processor/{frontend.c, backend.c, block_processor.c}`, `internal.h`), one Lean function per
C function, over an abstract thread pool.  Shared by C02 (determinism); C08/C17 state their theorems against the
pieces `Model/BlockWriter.lean`, `Model/FragDedup.lean`, `Spec/PackSpec.lean`.

What is modelled, and how

* **State** (`Proc`) mirrors `sqfs_block_processor_t`: `frag_block`, `blk_current`, `blk_flags`, `blk_index`,
  `inode`, `begin_called`, `backlog`, `max_backlog` (clamped to ≥ 3 as in `sqfs_block_processor_create_ex`),
  `io_queue` (kept sorted by `io_seq_num` by `store_io_block`), `io_seq_num`, `io_deq_seq_num`, `fblk_in_flight`,
  `cached_frag_blk`, the fragment hash table `frag_ht`, and — in `W` — everything the completed-block path
  writes: the block writer (`Model/BlockWriter.lean`, reused unchanged), the fragment table, the file inodes and
  a ghost log of the `write_data_block` calls.  `free_list`, `stats` and `user` carry no behaviour and are left
  out.
* **Pool.**  The block processor talks to the pool through `submit`, `dequeue`, `get_status` only.  `PoolSt`
  records the calls made so far (`calls`, with the work item identified by its position in `table`), and runs the
  model of `threadpool_serial.c` (`Sqfs.Pool.Serial`, `Spec/Pool.lean`) next to them (`ser`; the field `tracks`
  says `ser = Serial.run … calls`, by construction).  The value a call returns is decided by the *pool behaviour*
  `Params.ans : PoolSt → Op → Ret`: `serialAns` answers what `threadpool_serial.c` answers, `behAns beh` answers
  `beh (calls ++ [op])` for an arbitrary function of the call history (this is how C02 composes with
  `Sqfs.C09.refines_serial`).  The work the pool does on an item, `process_block`, is a pure function of the item
  (nobody else touches a block between `submit` and `dequeue`), so `table` stores the item *already worked*:
  under `serialAns` the pool is a FIFO list of worked items.
  `process_block`: size 0 passes through; all-zero ⇒ `IS_SPARSE` unless `IGNORE_SPARSE`/`FRAGMENT_BLOCK`;
  checksum unless `DONT_HASH`; compressed unless `IS_FRAGMENT`/`DONT_COMPRESS`.  The checksum `h` and the codec
  are parameters.  A failing compressor (`do_block < 0`) is outside the model (C09/C13 treat worker failure).
* **Loops** carry explicit fuel and return `Err.fuel` when it runs out; `Sqfs.C02.run_ok` shows that never
  happens.  `dequeue_block` keeps its three early exits and the `SQFS_ERROR_INTERNAL` return exactly as written.
* `proc->frag_ht` is a list searched front to back (`hash_table.c` probes in an order that can differ; at most one
  entry can answer "equal" — `Sqfs.C08.frag_lookup_unique` — so the result is the same).
* `extra[]` of an inode is a function `Nat → Nat` plus `used` (= `payload_bytes_used / 4`); entries never written
  read as 0 (uninitialised memory in C, never inside `used` at the end of a run).
* Counters that are `sqfs_u32`/`size_t` in C (`io_seq_num`, `backlog`, `blk_index`) are `Nat`: no wrap below 2^32
  blocks.
* `sqfs_block_processor_submit_block` (manual submission) is not modelled; `BLK_FLAG_MANUAL_SUBMISSION` is still
  tested in `dequeueBlock` as the code does.  `begin_file` is always given an inode pointer (the tools do).
-/
import Sqfs.Generated.Consts
import Sqfs.Model.BlockWriter
import Sqfs.Model.FragDedup
import Sqfs.Spec.Pool
namespace Sqfs.BlockProc
open Sqfs.Consts
open Sqfs.BlockWriter (hasFlag)

abbrev Bytes := List UInt8

/-- the block compressor and the matching uncompressor (`sqfs_compressor_t::do_block`), shared with
`Model/FragDedup.lean` and `Model/ToyCodec.lean`.
`cmp x = some z`: returned `|z| > 0`, `z` replaces the data; `none`: returned 0 (keep the input).
`unc z = none`: the uncompressor failed. -/
abbrev Codec := Sqfs.FragDedup.Codec

inductive Err where
  | sequence                       -- SQFS_ERROR_SEQUENCE
  | unsupported                    -- SQFS_ERROR_UNSUPPORTED
  | internal                       -- SQFS_ERROR_INTERNAL: `dequeue_block` found the pool empty (backend.c:315)
  | pool (rc : Int)                -- non-zero pool status
  | alloc                          -- `submit` failed although the status is 0 (frontend.c:73)
  | corrupted                      -- SQFS_ERROR_CORRUPTED (`chunk_info_equals`, `load_frag_block`)
  | outOfBounds                    -- SQFS_ERROR_OUT_OF_BOUNDS (fragment table index / `read_at`)
  | overflow                       -- SQFS_ERROR_OVERFLOW (`uncmp->do_block` returned 0)
  | compressor                     -- `uncmp->do_block` failed
  | writer (e : BlockWriter.Err)   -- `write_data_block` failed
  | nullDeref                      -- `append` of 0 bytes with no open block: NULL dereference in C (frontend.c:171)
  | fuel                           -- artefact of the model: loop fuel exhausted (proved unreachable)
deriving DecidableEq, Repr

/-- `flags & ~c` on a `sqfs_u32` -/
def clearFlag (flags c : Nat) : Nat := flags &&& (0xFFFFFFFF ^^^ c)

def allZero (d : Bytes) : Bool := d.all (· == 0)

/-- `sqfs_block_t` (`size` is `data.length`; `inode` is the position of the file's inode in `W.inodes`) -/
structure Blk where
  seq : Nat := 0
  flags : Nat := 0
  data : Bytes := []
  chk : UInt32 := 0
  index : Nat := 0
  inode : Option Nat := none
deriving DecidableEq, Repr

/-- `chunk_info_t` -/
structure Chunk where
  index : Nat
  offset : Nat
  size : Nat
  hash : UInt32
  flags : Nat
deriving DecidableEq, Repr

/-- the fields of `sqfs_inode_generic_t` the block processor touches -/
structure Inode where
  size : Nat := 0
  extra : Nat → Nat := fun _ => 0
  used : Nat := 0
  start : Nat := 0
  fragIdx : Nat := 0xFFFFFFFF
  fragOff : Nat := 0xFFFFFFFF
  sparse : Nat := 0
  extended : Bool := false

/-- `set_block_size(inode, index, size)` (the `realloc` cannot fail in the model) -/
def Inode.setBlockSize (i : Inode) (index size : Nat) : Inode :=
  { i with extra := fun k => if k = index then size else i.extra k, used := max i.used (index + 1) }

/-- one `write_data_block` call as the writer sees it (`user` is always the pointer given to `begin_file`) -/
structure WrCall where
  chk : UInt32
  flags : Nat
  data : Bytes
deriving DecidableEq, Repr

/-- what `process_completed_block` writes to -/
structure W where
  wr : BlockWriter.State
  fragTbl : List (Nat × Nat) := []          -- `sqfs_frag_table_t`: (start_offset, size word)
  inodes : List Inode := []
  calls : List WrCall := []                 -- ghost: the `write_data_block` calls, in order

/-! ### the pool interface -/

abbrev rc0 : Nat → Int := fun _ => 0

structure PoolSt where
  calls : List Pool.Op := []
  /-- work item `id` = `table[id]`, stored already worked (`processBlock` applied) -/
  table : List Blk := []
  ser : Pool.Serial := Pool.Serial.init
  tracks : ser = Pool.Serial.run rc0 Pool.Serial.init calls := by rfl

def PoolSt.record (p : PoolSt) (op : Pool.Op) (table : List Blk) : PoolSt :=
  { calls := p.calls ++ [op], table := table, ser := Pool.Serial.call rc0 p.ser op,
    tracks := by rw [Pool.Serial.run_append, ← p.tracks]; rfl }

/-- what `threadpool_serial.c` returns for `op` after the calls made so far -/
def serialAns (p : PoolSt) (op : Pool.Op) : Pool.Ret :=
  ((Pool.Serial.call rc0 p.ser op).rets.getLast?).getD .destroyed

/-- the same as a function of the whole call history -/
def serialAnsHist (calls : List Pool.Op) : Pool.Ret :=
  ((Pool.Serial.run rc0 Pool.Serial.init calls).rets.getLast?).getD .destroyed

/-- an arbitrary pool behaviour: the value of the last call of a call history -/
def behAns (beh : List Pool.Op → Pool.Ret) (p : PoolSt) (op : Pool.Op) : Pool.Ret := beh (p.calls ++ [op])

structure Params where
  B : Nat                                   -- `max_block_size`
  codec : Codec
  h : Bytes → UInt32                        -- block checksum (xxh32 in the implementation)
  ans : PoolSt → Pool.Op → Pool.Ret := serialAns
  /-- `desc->file != NULL && desc->uncmp != NULL` (`sqfs_writer_init` passes both) -/
  byteCompare : Bool := true
  /-- what the output file holds when the block writer is created (super block, compressor options) -/
  pre : Bytes := []

/-! ### `process_block` (block_processor.c:10-50), run by the pool on every submitted item -/

def processBlock (P : Params) (b : Blk) : Blk :=
  if b.data.length = 0 then b
  else if !hasFlag b.flags (blkIgnoreSparse ||| blkFragmentBlock) && allZero b.data then
    { b with flags := b.flags ||| blkIsSparse }
  else
    let b1 : Blk := { b with chk := if hasFlag b.flags blkDontHash then 0 else P.h b.data }
    if hasFlag b1.flags (blkIsFragment ||| blkDontCompress) then b1
    else match P.codec.cmp b1.data with
      | some z => if z.length > 0 then { b1 with data := z, flags := b1.flags ||| blkIsCompressed } else b1
      | none => b1

def poolSubmit (P : Params) (p : PoolSt) (b : Blk) : PoolSt × Int :=
  let op := Pool.Op.submit p.table.length
  (p.record op (p.table ++ [processBlock P b]),
    match P.ans p op with
    | .submit rc => rc
    | _ => -1)

def poolDequeue (P : Params) (p : PoolSt) : PoolSt × Option Blk :=
  (p.record .dequeue p.table,
    match P.ans p .dequeue with
    | .deq (some id) => p.table[id]?
    | _ => none)

def poolStatus (P : Params) (p : PoolSt) : PoolSt × Int :=
  (p.record .getStatus p.table,
    match P.ans p .getStatus with
    | .status rc => rc
    | _ => -1)

/-! ### the processor -/

structure Proc where
  maxBacklog : Nat
  -- front end
  beginCalled : Bool := false
  inode : Option Nat := none
  blkFlags : Nat := 0
  blkIndex : Nat := 0
  blkCurrent : Option Blk := none
  -- queues
  backlog : Nat := 0
  fragBlock : Option Blk := none
  pool : PoolSt := {}
  ioQueue : List Blk := []
  ioSeqNum : Nat := 0
  ioDeqSeqNum : Nat := 0
  -- fragment bookkeeping
  fblkInFlight : List (Nat × Bytes) := []
  cachedFragBlk : Option (Nat × Bytes) := none
  fragHt : List Chunk := []
  w : W

/-- `sqfs_block_processor_create_ex`: "we need at least one current data block + one fragment block" -/
def create (P : Params) (maxBacklog : Nat) : Proc :=
  { maxBacklog := if maxBacklog < 3 then 3 else maxBacklog, w := { wr := BlockWriter.init P.pre } }

/-- `release_old_block` -/
def releaseOldBlock (s : Proc) : Proc := { s with backlog := s.backlog - 1 }

def modInode (w : W) (i : Option Nat) (f : Inode → Inode) : W :=
  match i with
  | none => w
  | some i => { w with inodes := w.inodes.modify i f }

/-! #### frontend.c -/

/-- `enqueue_block`: a fragment block leaves a copy of its bytes in `fblk_in_flight` (when the processor can read
blocks back), then the block goes to the pool -/
def enqueueBlock (P : Params) (s : Proc) (b : Blk) : Except Err Proc :=
  if (poolSubmit P s.pool b).2 ≠ 0 then
    .error (if (poolStatus P (poolSubmit P s.pool b).1).2 = 0 then .alloc else .pool (poolStatus P (poolSubmit P s.pool b).1).2)
  else
    .ok { s with fblkInFlight := if hasFlag b.flags blkFragmentBlock && P.byteCompare
                                 then (b.index, b.data) :: s.fblkInFlight else s.fblkInFlight,
                 pool := (poolSubmit P s.pool b).1 }

/-! #### block_processor.c: `load_frag_block`, `chunk_info_equals`; the hash table -/

/-- `proc->frag_block != NULL && proc->frag_block->index == idx`: the open block's bytes -/
def openBytes (o : Option Blk) (idx : Nat) : Option Bytes :=
  match o with
  | some fb => if fb.index = idx then some fb.data else none
  | none => none

/-- `proc->cached_frag_blk != NULL && proc->cached_frag_blk->index == idx` -/
def cacheHit (c : Option (Nat × Bytes)) (idx : Nat) : Option Bytes :=
  match c with
  | some (ci, cd) => if ci = idx then some cd else none
  | none => none

/-- `load_frag_block(proc, index)`: the uncompressed block and the new `cached_frag_blk` -/
def loadFragBlock (P : Params) (s : Proc) (idx : Nat) : Except Err (Bytes × Option (Nat × Bytes)) :=
  match cacheHit s.cachedFragBlk idx with
  | some cd => .ok (cd, s.cachedFragBlk)
  | none =>
    match s.w.fragTbl[idx]? with
    | none => .error .outOfBounds
    | some (start, word) =>
      let size := word % 2 ^ 24                                    -- SQFS_ON_DISK_BLOCK_SIZE
      if size > P.B then .error .corrupted
      else
        match BlockWriter.readAt s.w.wr.file start size with
        | none => .error .outOfBounds
        | some raw =>
          if word &&& (1 <<< 24) = 0 then                          -- SQFS_IS_BLOCK_COMPRESSED
            match P.codec.unc raw with
            | none => .error .compressor
            | some x => if x.isEmpty then .error .overflow else .ok (x, some (idx, x))
          else .ok (raw, some (idx, raw))

/-- the block `it` that `chunk_info_equals` compares against: the in-flight copy, else the open block, else the
block re-read from the output file (through the one-entry cache) -/
def fragBytes (P : Params) (s : Proc) (idx : Nat) : Except Err (Bytes × Option (Nat × Bytes)) :=
  match s.fblkInFlight.find? (fun e => e.1 == idx) with
  | some e => .ok (e.2, s.cachedFragBlk)
  | none =>
    match openBytes s.fragBlock idx with
    | some d => .ok (d, s.cachedFragBlk)
    | none => loadFragBlock P s idx

/-- `chunk_info_equals(proc, key, cmp)` with `proc->current_frag->data = d`; key = `(d.length, hd, kf)`.
Returns the answer and the new cache. -/
def chunkEquals (P : Params) (s : Proc) (d : Bytes) (hd : UInt32) (kf : Nat) (c : Chunk) :
    Except Err (Bool × Option (Nat × Bytes)) :=
  if c.size != d.length || c.hash != hd || c.flags != kf then .ok (false, s.cachedFragBlk)
  else if !P.byteCompare then .ok (true, s.cachedFragBlk)
  else
    match fragBytes P s c.index with
    | .error e => .error e
    | .ok (blk, cache') =>
      if c.offset ≥ blk.length || blk.length - c.offset < c.size then .error .corrupted
      else .ok (BlockWriter.slice blk c.offset c.size == d, cache')

/-- `hash_table_search_pre_hashed`: the first entry the callback calls equal -/
def search (P : Params) (s : Proc) (d : Bytes) (hd : UInt32) (kf : Nat) : List Chunk → Except Err (Option Chunk × Proc)
  | [] => .ok (none, s)
  | c :: rest =>
    match chunkEquals P s d hd kf c with
    | .error e => .error e
    | .ok (true, cache') => .ok (some c, { s with cachedFragBlk := cache' })
    | .ok (false, cache') => search P { s with cachedFragBlk := cache' } d hd kf rest

/-- `hash_table_insert_pre_hashed(ht, hash, chunk, chunk)`: replaces the first entry the callback calls equal, else
adds the new one (`done` = entries already passed) -/
def insert (P : Params) (s : Proc) (d : Bytes) (new : Chunk) (done : List Chunk) : List Chunk → Except Err Proc
  | [] => .ok { s with fragHt := done ++ [new] }
  | c :: rest =>
    match chunkEquals P s d new.hash new.flags c with
    | .error e => .error e
    | .ok (true, cache') => .ok { s with fragHt := done ++ new :: rest, cachedFragBlk := cache' }
    | .ok (false, cache') => insert P { s with cachedFragBlk := cache' } d new (done ++ [c]) rest

/-! #### backend.c -/

/-- `size | (compressed ? 0 : 1 << 24)`: the block size word stored in inodes and in the fragment table -/
def sizeWord (b : Blk) : Nat :=
  if hasFlag b.flags blkIsCompressed then b.data.length else b.data.length ||| (1 <<< 24)

/-- backend.c:88-123: what `process_completed_block` records about a block that was written at `loc` -/
def recordBlock (w : W) (b : Blk) (loc : Nat) : Except Err W :=
  if hasFlag b.flags blkIsSparse then
    .ok (modInode w b.inode (fun i =>
      ({ i with extended := true, sparse := i.sparse + b.data.length } : Inode).setBlockSize b.index 0))
  else if b.data.length != 0 then
    if hasFlag b.flags blkFragmentBlock then
      if b.index < w.fragTbl.length then .ok { w with fragTbl := w.fragTbl.set b.index (loc, sizeWord b) }
      else .error .outOfBounds                                      -- `array_set` beyond `used`
    else .ok (modInode w b.inode (fun i => i.setBlockSize b.index (sizeWord b)))
  else .ok w

/-- the part of `process_completed_block` after the in-flight copy is dropped: everything it does to `W` -/
def completeBlock (w : W) (b : Blk) : Except Err W :=
  match BlockWriter.writeDataBlock w.wr b.chk (clearFlag b.flags blkFlagInternal) b.data with
  | .error e => .error (.writer e)
  | .ok (wr', loc) =>
    match recordBlock { w with wr := wr', calls := w.calls ++ [⟨b.chk, clearFlag b.flags blkFlagInternal, b.data⟩] } b loc with
    | .error e => .error e
    | .ok w2 =>
      .ok (if hasFlag b.flags blkLastBlock then modInode w2 b.inode (fun i => { i with start := loc }) else w2)

/-- `process_completed_block`: the in-flight copy of a fragment block is dropped, the block is written and recorded,
and — whatever the outcome — released -/
def processCompletedBlock (s : Proc) (b : Blk) : Except Err Proc :=
  match completeBlock s.w b with
  | .error e => .error e
  | .ok w' =>
    .ok (releaseOldBlock
      { s with fblkInFlight := if hasFlag b.flags blkFragmentBlock then s.fblkInFlight.eraseP (fun e => e.1 == b.index)
                               else s.fblkInFlight,
               w := w' })

/-- backend.c:151-176: the table lookup of `process_completed_fragment` (skipped under `DONT_DEDUPLICATE`) -/
def lookupFrag (P : Params) (s : Proc) (frag : Blk) : Except Err (Option Chunk × Proc) :=
  if !hasFlag frag.flags blkDontDeduplicate then
    search P s frag.data frag.chk (frag.flags &&& blkDontCompress) s.fragHt
  else .ok (none, s)

/-- backend.c:178-190: the fragment does not fit — the open block gets the next I/O sequence number **now** and goes
to the pool -/
def makeRoom (P : Params) (s : Proc) (len : Nat) : Except Err Proc :=
  match s.fragBlock with
  | some fb =>
    if fb.data.length + len > P.B then
      enqueueBlock P { s with fragBlock := none, ioSeqNum := s.ioSeqNum + 1 } { fb with seq := s.ioSeqNum }
    else .ok s
  | none => .ok s

/-- backend.c:192-217: the fragment becomes the new open block (next table index, offset 0) or is appended to the open
one; result: new state, index, offset -/
def placeFrag (s : Proc) (frag : Blk) : Proc × Nat × Nat :=
  match s.fragBlock with
  | none =>
    ({ s with w := { s.w with fragTbl := s.w.fragTbl ++ [(0, 0)] },
              fragBlock := some { frag with index := s.w.fragTbl.length,
                                            flags := (frag.flags &&& blkDontCompress) ||| blkFragmentBlock } },
     s.w.fragTbl.length, 0)
  | some fb =>
    ({ s with fragBlock := some { fb with data := fb.data ++ frag.data,
                                          flags := fb.flags ||| (frag.flags &&& blkDontCompress) } },
     fb.index, fb.data.length)

/-- backend.c:178-259: a fragment that was not found in the table is stored and recorded -/
def storeFrag (P : Params) (s : Proc) (frag : Blk) : Except Err Proc :=
  match makeRoom P s frag.data.length with
  | .error e => .error e
  | .ok s2 =>
    let r := placeFrag s2 frag
    match insert P r.1 frag.data ⟨r.2.1, r.2.2, frag.data.length, frag.chk, frag.flags &&& blkDontCompress⟩ [] r.1.fragHt with
    | .error e => .error e
    | .ok s4 =>
      let s5 : Proc := { s4 with w := modInode s4.w frag.inode (fun i => { i with fragIdx := r.2.1, fragOff := r.2.2 }) }
      -- `if (frag != proc->frag_block) release_old_block(proc, frag);`
      .ok (match s2.fragBlock with
           | none => s5
           | some _ => releaseOldBlock s5)

/-- `process_completed_fragment` -/
def processCompletedFragment (P : Params) (s : Proc) (frag : Blk) : Except Err Proc :=
  if hasFlag frag.flags blkIsSparse then
    .ok (releaseOldBlock { s with w := modInode s.w frag.inode (fun i =>
      let i1 := ({ i with extended := true } : Inode).setBlockSize frag.index 0
      { i1 with sparse := i1.sparse + frag.data.length }) })
  else
    match lookupFrag P s frag with
    | .error e => .error e
    | .ok (some c, s1) =>
      .ok (releaseOldBlock { s1 with w := modInode s1.w frag.inode (fun i => { i with fragIdx := c.index, fragOff := c.offset }) })
    | .ok (none, s1) => storeFrag P s1 frag

/-- `store_io_block`: insert before the first element whose sequence number is not smaller -/
def storeIo (b : Blk) : List Blk → List Blk
  | [] => [b]
  | x :: t => if x.seq < b.seq then x :: storeIo b t else b :: x :: t

/-- the `while (proc->io_queue != NULL)` loop of `dequeue_block` -/
def releaseGo : Nat → Proc → Except Err Proc
  | 0, s =>
    match s.ioQueue with
    | [] => .ok s
    | b :: _ => if b.seq != s.ioDeqSeqNum then .ok s else .error .fuel
  | fuel + 1, s =>
    match s.ioQueue with
    | [] => .ok s
    | b :: rest =>
      if b.seq != s.ioDeqSeqNum then .ok s
      else
        match processCompletedBlock { s with ioQueue := rest, ioDeqSeqNum := s.ioDeqSeqNum + 1 } b with
        | .error e => .error e
        | .ok s' => releaseGo fuel s'

def release (s : Proc) : Except Err Proc := releaseGo s.ioQueue.length s

/-- does this block get its I/O sequence number when it is dequeued (backend.c:324)? -/
def numberedAtDequeue (b : Blk) : Bool :=
  !hasFlag b.flags blkFragmentBlock || hasFlag b.flags blkFlagManualSubmission

/-- the three early exits shared by `dequeue_block` and `sqfs_block_processor_sync` do not apply -/
def mustWait (s : Proc) : Bool :=
  !(s.backlog == 1 && (s.fragBlock.isSome || s.blkCurrent.isSome)) &&
  !(s.backlog == 2 && s.fragBlock.isSome && s.blkCurrent.isSome)

/-- what `dequeue_block` does with an item the pool handed back -/
def handleDequeued (P : Params) (s : Proc) (blk : Blk) : Except Err Proc :=
  if hasFlag blk.flags blkIsFragment then processCompletedFragment P s blk
  else if numberedAtDequeue blk then
    .ok { s with ioSeqNum := s.ioSeqNum + 1, ioQueue := storeIo { blk with seq := s.ioSeqNum } s.ioQueue }
  else .ok { s with ioQueue := storeIo blk s.ioQueue }

/-- the `do { … } while (proc->backlog >= backlog_old)` loop of `dequeue_block` -/
def dequeueGo (P : Params) (backlogOld : Nat) : Nat → Proc → Except Err Proc
  | 0, _ => .error .fuel
  | fuel + 1, s =>
    match release s with
    | .error e => .error e
    | .ok s1 =>
      if s1.backlog < backlogOld then .ok s1
      else if !mustWait s1 then .ok s1
      else
        let r := poolDequeue P s1.pool
        match r.2 with
        | none =>
          let st := poolStatus P r.1
          .error (if st.2 ≠ 0 then .pool st.2 else .internal)
        | some blk =>
          match handleDequeued P { s1 with pool := r.1 } blk with
          | .error e => .error e
          | .ok s2 => if s2.backlog ≥ backlogOld then dequeueGo P backlogOld fuel s2 else .ok s2

/-- `dequeue_block` -/
def dequeueBlock (P : Params) (s : Proc) : Except Err Proc := dequeueGo P s.backlog (2 * s.backlog + 1) s

/-- the `while (proc->backlog >= proc->max_backlog)` loop of `get_new_block` -/
def getNewBlockGo (P : Params) : Nat → Proc → Except Err Proc
  | 0, _ => .error .fuel
  | fuel + 1, s =>
    if s.backlog ≥ s.maxBacklog then
      match dequeueBlock P s with
      | .error e => .error e
      | .ok s' => getNewBlockGo P fuel s'
    else .ok { s with backlog := s.backlog + 1 }

/-- `get_new_block`; the block itself is all zero (`memset`), i.e. `({} : Blk)` -/
def getNewBlock (P : Params) (s : Proc) : Except Err Proc := getNewBlockGo P (s.backlog + 1) s

/-- `add_sentinel_block` -/
def addSentinelBlock (P : Params) (s : Proc) : Except Err Proc :=
  match getNewBlock P s with
  | .error e => .error e
  | .ok s1 => enqueueBlock P s1 { inode := s1.inode, flags := s1.blkFlags ||| blkLastBlock }

/-- `sqfs_block_processor_begin_file(proc, &inode, user, flags)` -/
def beginFile (s : Proc) (flags : Nat) : Except Err Proc :=
  if s.beginCalled then .error .sequence
  else if flags &&& blkUserSettable != flags then .error .unsupported           -- `flags & ~USER_SETTABLE`
  else
    .ok { s with w := { s.w with inodes := s.w.inodes ++ [{}] }, beginCalled := true,
                 inode := some s.w.inodes.length, blkFlags := flags ||| blkFirstBlock, blkIndex := 0 }

/-- the `while (size > 0)` loop of `sqfs_block_processor_append` and the test after it -/
def appendGo (P : Params) : Nat → Proc → Bytes → Except Err Proc
  | 0, _, _ => .error .fuel
  | fuel + 1, s, data =>
    if data.length = 0 then
      match s.blkCurrent with
      | none => .error .nullDeref
      | some cur =>
        if cur.data.length = P.B then enqueueBlock P { s with blkCurrent := none } cur
        else .ok s
    else
      match s.blkCurrent with
      | none =>
        match getNewBlock P s with
        | .error e => .error e
        | .ok s1 =>
          appendGo P fuel
            { s1 with blkCurrent := some { flags := s1.blkFlags, inode := s1.inode, index := s1.blkIndex },
                      blkIndex := s1.blkIndex + 1, blkFlags := clearFlag s1.blkFlags blkFirstBlock } data
      | some cur =>
        let diff := P.B - cur.data.length
        if diff = 0 then
          match enqueueBlock P { s with blkCurrent := none } cur with
          | .error e => .error e
          | .ok s1 => appendGo P fuel s1 data
        else
          let n := min diff data.length
          appendGo P fuel { s with blkCurrent := some { cur with data := cur.data ++ data.take n } } (data.drop n)

/-- `sqfs_block_processor_append(proc, data, size)` -/
def append (P : Params) (s : Proc) (data : Bytes) : Except Err Proc :=
  if !s.beginCalled then .error .sequence
  else
    appendGo P (3 * data.length + 3)
      { s with w := modInode s.w s.inode (fun i => { i with size := i.size + data.length }) } data

/-- `sqfs_block_processor_end_file` -/
def endFile (P : Params) (s : Proc) : Except Err Proc :=
  if !s.beginCalled then .error .sequence
  else
    match (match s.blkCurrent with
           | none =>
             if !hasFlag s.blkFlags blkFirstBlock then addSentinelBlock P s else .ok s
           | some cur =>
             if hasFlag s.blkFlags blkDontFragment then
               enqueueBlock P { s with blkCurrent := none } { cur with flags := cur.flags ||| blkLastBlock }
             else
               match (if !hasFlag cur.flags blkFirstBlock then addSentinelBlock P s else .ok s) with
               | .error e => .error e
               | .ok s1 => enqueueBlock P { s1 with blkCurrent := none } { cur with flags := cur.flags ||| blkIsFragment }) with
    | .error e => .error e
    | .ok s2 => .ok { s2 with beginCalled := false, inode := none, blkFlags := 0 }

/-! #### block_processor.c: `sync`, `finish` -/

/-- the `for (;;)` loop of `sqfs_block_processor_sync` -/
def syncGo (P : Params) : Nat → Proc → Except Err Proc
  | 0, _ => .error .fuel
  | fuel + 1, s =>
    if s.backlog = 0 then .ok s
    else if !mustWait s then .ok s
    else
      match dequeueBlock P s with
      | .error e => .error e
      | .ok s' => syncGo P fuel s'

/-- the `for (;;)` loop of `sqfs_block_processor_sync` with its fuel: everything the main thread need not hold
itself is dequeued.  (Before /repo 69db961 this was the whole of `sync`.) -/
def syncDrain (P : Params) (s : Proc) : Except Err Proc := syncGo P (s.backlog + 1) s

/-- `sqfs_block_processor_sync` (block_processor.c:205-234): the drain, then
`return proc->pool->get_status(proc->pool);` — a worker failure nobody has looked at yet is reported here -/
def sync (P : Params) (s : Proc) : Except Err Proc :=
  match syncDrain P s with
  | .error e => .error e
  | .ok s1 =>
    if (poolStatus P s1.pool).2 ≠ 0 then .error (.pool (poolStatus P s1.pool).2)
    else .ok { s1 with pool := (poolStatus P s1.pool).1 }

/-- `sqfs_block_processor_finish` -/
def finish (P : Params) (s : Proc) : Except Err Proc :=
  match sync P s with
  | .error e => .error e
  | .ok s1 =>
    match s1.fragBlock with
    | none => .ok s1
    | some fb =>
      match enqueueBlock P { s1 with fragBlock := none, ioSeqNum := s1.ioSeqNum + 1 } { fb with seq := s1.ioSeqNum } with
      | .error e => .error e
      | .ok s2 => sync P s2

/-! ### a whole run: what the packers do (`lib/common/src/data_writer*.c`, `bin/*/`) -/

/-- one input file: user flags (`SQFS_BLK_*`, after `-T` handling) and content -/
structure InFile where
  flags : Nat
  data : Bytes
deriving DecidableEq, Repr

/-- `begin_file`, `append` (not called for an empty file), `end_file`.  With `sy` the caller also calls the public
`sqfs_block_processor_sync` before `end_file`, i.e. while the file is still open (the packers never do; a library
user may) -/
def packFile (P : Params) (s : Proc) (f : InFile) (sy : Bool := false) : Except Err Proc :=
  match beginFile s f.flags with
  | .error e => .error e
  | .ok s1 =>
    match (if f.data.length = 0 then .ok s1 else append P s1 f.data) with
    | .error e => .error e
    | .ok s2 =>
      match (if sy then sync P s2 else .ok s2) with
      | .error e => .error e
      | .ok s3 => endFile P s3

def packFiles (P : Params) (s : Proc) (files : List InFile) (sy : Bool := false) : Except Err Proc :=
  match files with
  | [] => .ok s
  | f :: fs =>
    match packFile P s f sy with
    | .error e => .error e
    | .ok s' => packFiles P s' fs sy

/-- the inode fields the tools serialise for a file -/
structure FileRes where
  size : Nat
  words : List Nat
  start : Nat
  fragIdx : Nat
  fragOff : Nat
  sparse : Nat
  extended : Bool
deriving DecidableEq, Repr

def Inode.res (i : Inode) : FileRes :=
  ⟨i.size, (List.range i.used).map i.extra, i.start, i.fragIdx, i.fragOff, i.sparse, i.extended⟩

/-- the observables: the `write_data_block` calls in order, the output file, the fragment table, the inodes -/
structure Output where
  calls : List WrCall
  file : Bytes
  frags : List (Nat × Nat)
  files : List FileRes
deriving DecidableEq, Repr

def W.output (w : W) : Output := ⟨w.calls, w.wr.file, w.fragTbl, w.inodes.map Inode.res⟩

/-- **the run**: create the processor with `max_backlog = mb`, pack the files in order, `finish` -/
def runProc (P : Params) (mb : Nat) (files : List InFile) (sy : Bool := false) : Except Err Proc :=
  match packFiles P (create P mb) files sy with
  | .error e => .error e
  | .ok s => finish P s

def run (P : Params) (mb : Nat) (files : List InFile) (sy : Bool := false) : Except Err Output :=
  match runProc P mb files sy with
  | .error e => .error e
  | .ok s => .ok s.w.output

end Sqfs.BlockProc
