/-
Model of the inode numbering in `lib/fstree/src/post_process.c`: `alloc_inode_num_dfs` (sub-directories first,
then the children of the directory itself, hard-link entries skipped) and the root's number assigned last in
`fstree_post_process`; then `map_inodes_dfs` + `reorder_hard_links`, which rotates the target of a hard link in front
of the first directory (in inode order) that links it (`Slot`, `rotate`, `reorderDir`, `reorderGo`, `postProcess`).

A tree node is a regular inode (`file`: anything that is not a directory), a hard-link entry (`hlink k`: shares the
inode of its target, gets no number; the target is the `k`-th `file` of the tree in list (pre-)order — hard links to
directories are refused by `resolve_link`) or a directory with its (name-sorted) children.  Structural recursion (mutual, over
the nested inductive), so the definitions reduce under `decide`.
-/
namespace Sqfs.Numbering

inductive Tree where
  | file : Tree
  | hlink (target : Nat) : Tree
  | dir : List Tree → Tree
  deriving Repr

inductive NTree where
  | file (n : Nat) : NTree
  | hlink (target : Nat) : NTree
  | dir (n : Nat) (cs : List NTree) : NTree
  deriving Repr

inductive PTree where
  | file : PTree
  | hlink (target : Nat) : PTree
  | dir (cs : List NTree) : PTree
  deriving Repr

def step2 : List PTree → Nat → List NTree × Nat
  | [], n => ([], n)
  | .file :: rest, n => let r := step2 rest (n + 1); (.file (n + 1) :: r.1, r.2)
  | .hlink k :: rest, n => let r := step2 rest n; (.hlink k :: r.1, r.2)
  | .dir cs :: rest, n => let r := step2 rest (n + 1); (.dir (n + 1) cs :: r.1, r.2)

mutual
def allocT : Tree → Nat → PTree × Nat
  | .file, n => (.file, n)
  | .hlink k, n => (.hlink k, n)
  | .dir cs, n =>
    let a := allocL cs n
    let b := step2 a.1 a.2
    (.dir b.1, b.2)
def allocL : List Tree → Nat → List PTree × Nat
  | [], n => ([], n)
  | t :: rest, n =>
    let a := allocT t n
    let r := allocL rest a.2
    (a.1 :: r.1, r.2)
end

def numberRoot (cs : List Tree) : NTree × Nat :=
  let a := allocL cs 0
  let b := step2 a.1 a.2
  (.dir (b.2 + 1) b.1, b.2 + 1)

mutual
def numsT : NTree → List Nat
  | .file n => [n]
  | .hlink _ => []
  | .dir n cs => numsL cs ++ [n]
def numsL : List NTree → List Nat
  | [] => []
  | t :: r => numsT t ++ numsL r
end

def pnumsT : PTree → List Nat
  | .file => []
  | .hlink _ => []
  | .dir cs => numsL cs

def pnumsL : List PTree → List Nat
  | [] => []
  | t :: r => pnumsT t ++ pnumsL r

/-! ### `map_inodes_dfs` + `reorder_hard_links` (post_process.c:89-138) -/

/-- one slot of `fs->inodes`: the node (named by the number the DFS gave it) and its current `inode_num` field -/
structure Slot where
  id : Nat
  num : Nat
  deriving Repr, DecidableEq

/-- the `for (j = tgt_idx; j > i; --j)` loop and the two assignments after it (post_process.c:125-134): the slots
`i .. tgtIdx-1` move up by one (their `inode_num` incremented), the target lands in slot `i` with number `i + 1` -/
def rotate (arr : List Slot) (i tgtIdx : Nat) : List Slot :=
  match arr[tgtIdx]? with
  | none => arr
  | some tgt =>
    arr.take i ++ (⟨tgt.id, i + 1⟩ :: (((arr.drop i).take (tgtIdx - i)).map (fun s => ⟨s.id, s.num + 1⟩) ++ arr.drop (tgtIdx + 1)))

/-- the loop over the children of the directory in slot `i` (post_process.c:113-136); `links` = the nodes its
hard-link children point to, in child order.  `tgt->inode_num` is read from the node itself. -/
def reorderDir : List Nat → List Slot → Nat → List Slot × Nat
  | [], arr, i => (arr, i)
  | t :: rest, arr, i =>
    match arr.find? (·.id == t) with
    | none => reorderDir rest arr i
    | some s =>
      if s.num - 1 ≤ i then reorderDir rest arr i                    -- :122
      else reorderDir rest (rotate arr i (s.num - 1)) (i + 1)        -- :125-135

/-- the outer loop (post_process.c:107-137); `linksOf id` = `none` for a non-directory -/
def reorderGo (linksOf : Nat → Option (List Nat)) : Nat → List Slot → Nat → List Slot
  | 0, arr, _ => arr
  | f + 1, arr, i =>
    match arr[i]? with
    | none => arr
    | some s =>
      match linksOf s.id with
      | none => reorderGo linksOf f arr (i + 1)
      | some links =>
        let r := reorderDir links arr i
        reorderGo linksOf f r.1 (r.2 + 1)

mutual
/-- the numbers of the `file` nodes in list (pre-)order: what a hard link's `target` indexes -/
def filesT : NTree → List Nat
  | .file n => [n]
  | .hlink _ => []
  | .dir _ cs => filesL cs
def filesL : List NTree → List Nat
  | [] => []
  | t :: r => filesT t ++ filesL r
end

/-- the nodes the hard-link children of a directory point to, in child order (`it->data.target_node`) -/
def linkTargets (files : List Nat) : List NTree → List Nat
  | [] => []
  | .hlink k :: r => files.getD k 0 :: linkTargets files r
  | _ :: r => linkTargets files r

mutual
/-- every directory (by its DFS number) with the targets of its hard-link children -/
def dirsT (files : List Nat) : NTree → List (Nat × List Nat)
  | .file _ => []
  | .hlink _ => []
  | .dir n cs => (n, linkTargets files cs) :: dirsL files cs
def dirsL (files : List Nat) : List NTree → List (Nat × List Nat)
  | [] => []
  | t :: r => dirsT files t ++ dirsL files r
end

/-- `fs->inodes` after `map_inodes_dfs`: slot `k` holds the node numbered `k + 1` -/
def initialSlots (count : Nat) : List Slot := (List.range' 1 count).map (fun n => ⟨n, n⟩)

/-- `fs->inodes` at the end of `fstree_post_process`: in slot order the nodes (named by their DFS number) with their
final `inode_num` -/
def postProcess (cs : List Tree) : List Slot :=
  let r := numberRoot cs
  let dirs := dirsT (filesT r.1) r.1
  reorderGo (fun id => (dirs.find? (·.1 == id)).map (·.2)) (r.2 + 1) (initialSlots r.2) 0

/-- final `inode_num` of the node the DFS numbered `id` -/
def finalNum (arr : List Slot) (id : Nat) : Nat := ((arr.find? (·.id == id)).map (·.num)).getD 0

mutual
/-- the tree with the final numbers -/
def renumT (arr : List Slot) : NTree → NTree
  | .file n => .file (finalNum arr n)
  | .hlink k => .hlink k
  | .dir n cs => .dir (finalNum arr n) (renumL arr cs)
def renumL (arr : List Slot) : List NTree → List NTree
  | [] => []
  | t :: r => renumT arr t :: renumL arr r
end

end Sqfs.Numbering
