/-
Model of the inode numbering in `lib/fstree/src/post_process.c`: `alloc_inode_num_dfs` (sub-directories first,
then the children of the directory itself, hard-link entries skipped) and the root's number assigned last in
`fstree_post_process`.  `reorder_hard_links` (which afterwards rotates hard-link targets in front of the first
directory that links them) is **not** modelled: the theorems speak about trees as numbered by the DFS; on images
with hard links the validator checks "exactly 1..N" on the real output instead.

A tree node is a regular inode (`file`: anything that is not a directory), a hard-link entry (`hlink`, shares its
target's inode, gets no number) or a directory with its (name-sorted) children.  Structural recursion (mutual, over
the nested inductive), so the definitions reduce under `decide`.
-/
namespace Sqfs.Numbering

inductive Tree where
  | file : Tree
  | hlink : Tree
  | dir : List Tree → Tree
  deriving Repr

inductive NTree where
  | file (n : Nat) : NTree
  | hlink : NTree
  | dir (n : Nat) (cs : List NTree) : NTree
  deriving Repr

inductive PTree where
  | file : PTree
  | hlink : PTree
  | dir (cs : List NTree) : PTree
  deriving Repr

def step2 : List PTree → Nat → List NTree × Nat
  | [], n => ([], n)
  | .file :: rest, n => let r := step2 rest (n + 1); (.file (n + 1) :: r.1, r.2)
  | .hlink :: rest, n => let r := step2 rest n; (.hlink :: r.1, r.2)
  | .dir cs :: rest, n => let r := step2 rest (n + 1); (.dir (n + 1) cs :: r.1, r.2)

mutual
def allocT : Tree → Nat → PTree × Nat
  | .file, n => (.file, n)
  | .hlink, n => (.hlink, n)
  | .dir cs, n =>
    let a := allocL cs n
    let b := step2 a.1 a.2
    (.dir b.1, b.2)
def allocL : List Tree → Nat → List PTree × Nat
  | [], n => ([], n)
  | t :: rest, n =>
    let a := allocT t n
    let r := allocL rest a.2
    (a.1 :: r.1, r.2)
end

def numberRoot (cs : List Tree) : NTree × Nat :=
  let a := allocL cs 0
  let b := step2 a.1 a.2
  (.dir (b.2 + 1) b.1, b.2 + 1)

mutual
def numsT : NTree → List Nat
  | .file n => [n]
  | .hlink => []
  | .dir n cs => numsL cs ++ [n]
def numsL : List NTree → List Nat
  | [] => []
  | t :: r => numsT t ++ numsL r
end

def pnumsT : PTree → List Nat
  | .file => []
  | .hlink => []
  | .dir cs => numsL cs

def pnumsL : List PTree → List Nat
  | [] => []
  | t :: r => pnumsT t ++ pnumsL r

end Sqfs.Numbering
