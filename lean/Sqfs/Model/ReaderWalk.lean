/-
Model of the two recursive directory walks of the readers (property C05, termination clause).

* `fillDir`   — `fill_dir` of `lib/common/src/read_tree.c` (rdsquashfs, sqfsdiff): refuses an entry whose
  inode *number* equals that of the directory being filled or of one of its parents (`would_be_own_parent`).
* `dirRec`    — the stack walk of `lib/sqfs/src/io/dir_rec.c` (sqfs2tar) over the squashfs iterator
  (`dir_iterator.c`): the current code has no ancestor check (`fixed = false`, defect D17); the repaired code
  refuses a directory whose inode reference is already on the stack.

The image is abstracted to a directory graph: for an inode reference, the references of the entries of its
listing (in order), whether an inode is a directory, and the `inode_number` field stored in it.  All three are
arbitrary functions — a hostile image can make them anything, cycles and shared sub-directories included.
Recursion is by explicit fuel; the theorems say which fuel is always enough.
-/
import Sqfs.Model.ReaderBounds
namespace Sqfs.ReaderWalk
open Sqfs.ReaderBounds (Err)

structure DirGraph where
  entries : Nat → List Nat
  isDir : Nat → Bool
  inum : Nat → UInt32

/-- the `for`/`while` loops of a walk over the entries `l`: sum of `1 + (nodes below)`; first error wins -/
def sumEntries (sub : Nat → Except Err Nat) (isDir : Nat → Bool) : List Nat → Except Err Nat
  | [] => .ok 0
  | c :: t =>
    match (if isDir c then sub c else .ok 0) with
    | .error e => .error e
    | .ok k =>
      match sumEntries sub isDir t with
      | .error e => .error e
      | .ok n => .ok (1 + k + n)

/--
`fill_dir(dr, root, state, flags)` (read_tree.c:75-171) without `SQFS_TREE_NO_RECURSE`.  `anc` = inode numbers
of `root` and of its parents (the chain `would_be_own_parent` walks).  Returns the number of nodes created.
-/
def fillDir (g : DirGraph) : Nat → List UInt32 → Nat → Except Err Nat
  | 0, _, _ => .error .fuel
  | fuel + 1, anc, ref =>
    -- first loop :84-124: every entry is checked with would_be_own_parent(root, n)
    if (g.entries ref).any (fun c => anc.contains (g.inum c)) then .error .linkLoop
    -- second loop :126-165: recurse into the sub-directories
    else sumEntries (fun c => fillDir g fuel (g.inum c :: anc) c) g.isDir (g.entries ref)

/-- `sqfs_dir_reader_get_full_hierarchy` from the root inode on -/
def readTree (g : DirGraph) (fuel root : Nat) : Except Err Nat := fillDir g fuel [g.inum root] root

/--
The walk of `dir_rec.c` `next()` (:97-171), as the depth-first recursion its explicit stack implements.
`stack` = inode references of the directories entered below the start directory (the repaired code keeps them
in the squashfs iterator, `dir_iterator.c: it_open_subdir`, `fixes/C05-dir-rec-loop.patch`; the start directory
itself has no recorded identity).  `fixed = false`: no check at all.
-/
def dirRec (fixed : Bool) (g : DirGraph) : Nat → List Nat → Nat → Except Err Nat
  | 0, _, _ => .error .fuel
  | fuel + 1, stack, ref =>
    sumEntries (fun c =>
        if fixed && stack.contains c then .error .linkLoop
        else dirRec fixed g fuel (c :: stack) c) g.isDir (g.entries ref)

/-- sqfs2tar: the recursive iterator started on the root directory -/
def tarWalk (fixed : Bool) (g : DirGraph) (fuel root : Nat) : Except Err Nat := dirRec fixed g fuel [] root

end Sqfs.ReaderWalk
