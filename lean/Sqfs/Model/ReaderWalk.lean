/-
Model of the two recursive directory walks of the readers (property C05, termination and size clauses).

* `fillDir`   — `fill_dir` of `lib/common/src/read_tree.c` (rdsquashfs, sqfsdiff): refuses an entry whose
  inode *number* equals that of the directory being filled or of one of its parents (`would_be_own_parent`).
* `dirRec`    — the stack walk of `lib/sqfs/src/io/dir_rec.c` (sqfs2tar) over the squashfs iterator
  (`dir_iterator.c`): the current code has no ancestor check (`fixed = false`, defect D17); the repaired code
  refuses a directory whose inode reference is already on the stack.

Both exist twice: `fillDir` / `dirRec` are the code of /repo before `fixes/C05-dir-visited-set.patch` and
`fixes/C05-nesting-limit.patch` (kept for the witnesses: exponential expansion of shared sub-directories,
recursion depth = nesting depth of the image); `fillDirV` / `dirRecV` are the repaired walks: a set of the
directories entered so far that is shared by the whole walk (every directory is entered at most once), and
`SQFS_MAX_DIR_NESTING` (a parameter here: the theorems hold for every value of the constant).

The image is abstracted to a directory graph: for an inode reference, the references of the entries of its
listing (in order), whether an inode is a directory, and the `inode_number` field stored in it.  All three are
arbitrary functions — a hostile image can make them anything, cycles and shared sub-directories included.
Recursion is by explicit fuel; the theorems say which fuel is always enough.
-/
import Sqfs.Model.ReaderBounds
namespace Sqfs.ReaderWalk
open Sqfs.ReaderBounds (Err)

structure DirGraph where
  entries : Nat → List Nat
  isDir : Nat → Bool
  inum : Nat → UInt32

/-- the `for`/`while` loops of a walk over the entries `l`: sum of `1 + (nodes below)`; first error wins -/
def sumEntries (sub : Nat → Except Err Nat) (isDir : Nat → Bool) : List Nat → Except Err Nat
  | [] => .ok 0
  | c :: t =>
    match (if isDir c then sub c else .ok 0) with
    | .error e => .error e
    | .ok k =>
      match sumEntries sub isDir t with
      | .error e => .error e
      | .ok n => .ok (1 + k + n)

/--
`fill_dir(dr, root, state, flags)` (read_tree.c:75-171) without `SQFS_TREE_NO_RECURSE`.  `anc` = inode numbers
of `root` and of its parents (the chain `would_be_own_parent` walks).  Returns the number of nodes created.
-/
def fillDir (g : DirGraph) : Nat → List UInt32 → Nat → Except Err Nat
  | 0, _, _ => .error .fuel
  | fuel + 1, anc, ref =>
    -- first loop :84-124: every entry is checked with would_be_own_parent(root, n)
    if (g.entries ref).any (fun c => anc.contains (g.inum c)) then .error .linkLoop
    -- second loop :126-165: recurse into the sub-directories
    else sumEntries (fun c => fillDir g fuel (g.inum c :: anc) c) g.isDir (g.entries ref)

/-- `sqfs_dir_reader_get_full_hierarchy` from the root inode on -/
def readTree (g : DirGraph) (fuel root : Nat) : Except Err Nat := fillDir g fuel [g.inum root] root

/--
The walk of `dir_rec.c` `next()` (:97-171), as the depth-first recursion its explicit stack implements.
`stack` = inode references of the directories entered below the start directory (the repaired code keeps them
in the squashfs iterator, `dir_iterator.c: it_open_subdir`, `fixes/C05-dir-rec-loop.patch`; the start directory
itself has no recorded identity).  `fixed = false`: no check at all.
-/
def dirRec (fixed : Bool) (g : DirGraph) : Nat → List Nat → Nat → Except Err Nat
  | 0, _, _ => .error .fuel
  | fuel + 1, stack, ref =>
    sumEntries (fun c =>
        if fixed && stack.contains c then .error .linkLoop
        else dirRec fixed g fuel (c :: stack) c) g.isDir (g.entries ref)

/-- sqfs2tar: the recursive iterator started on the root directory -/
def tarWalk (fixed : Bool) (g : DirGraph) (fuel root : Nat) : Except Err Nat := dirRec fixed g fuel [] root

/-! ## the repaired walks: one visited set per walk, nesting limit -/

/-- the loops of a walk that threads a state (the set of directories entered so far) through the entries `l` in
listing order: sum of `1 + (nodes below)`; first error wins -/
def sumEntriesV {σ : Type} (sub : σ → Nat → Except Err (Nat × σ)) (isDir : Nat → Bool) :
    σ → List Nat → Except Err (Nat × σ)
  | vis, [] => .ok (0, vis)
  | vis, c :: t =>
    match (if isDir c then sub vis c else .ok (0, vis)) with
    | .error e => .error e
    | .ok (k, vis1) =>
      match sumEntriesV sub isDir vis1 t with
      | .error e => .error e
      | .ok (n, vis2) => .ok (1 + k + n, vis2)

/--
`fill_dir(dr, root, state, flags, visited)` with both repairs.  `level` = `nesting_level(root)` (number of parent
nodes), `anc` as in `fillDir`, `vis` = the inode *numbers* in the `visited` tree (all directories entered so far
in this call of `sqfs_dir_reader_get_full_hierarchy`).  Returns the number of nodes created and the new set.
-/
def fillDirV (g : DirGraph) (limit : Nat) : Nat → Nat → List UInt32 → List UInt32 → Nat →
    Except Err (Nat × List UInt32)
  | 0, _, _, _, _ => .error .fuel
  | fuel + 1, level, anc, vis, ref =>
    -- `if (nesting_level(root) > SQFS_MAX_DIR_NESTING) return SQFS_ERROR_OVERFLOW;`
    if level > limit then .error .overflow
    -- first loop: every entry is checked with would_be_own_parent(root, n)
    else if (g.entries ref).any (fun c => anc.contains (g.inum c)) then .error .linkLoop
    -- second loop: `enter_directory(visited, n)` (lookup, else insert), then recurse
    else sumEntriesV (fun vis c =>
        if vis.contains (g.inum c) then .error .linkLoop
        else fillDirV g limit fuel (level + 1) (g.inum c :: anc) (g.inum c :: vis) c) g.isDir vis (g.entries ref)

/-- `sqfs_dir_reader_get_full_hierarchy` from the root inode on (`enter_directory(&visited, tail)` first) -/
def readTreeV (g : DirGraph) (limit fuel root : Nat) : Except Err Nat :=
  match fillDirV g limit fuel 0 [g.inum root] [g.inum root] root with
  | .ok (n, _) => .ok n
  | .error e => .error e

/--
`dir_rec.c` `next()` over `dir_iterator.c` with both repairs.  `depth` = `it->depth` (entries on the stack, the
base directory included), `vis` = the inode *references* in the `dir_tracker_t` shared by the outermost squashfs
iterator and every iterator opened below it.  (`dir_rec.c` opens every entry once, so the "same entry again"
case of `it_open_subdir` does not occur in this walk.)  For a directory entry: first the nesting test of
`dir_rec.c`, then `open_subdir` (lookup, else insert).
-/
def dirRecV (g : DirGraph) (limit : Nat) : Nat → Nat → List Nat → Nat → Except Err (Nat × List Nat)
  | 0, _, _, _ => .error .fuel
  | fuel + 1, depth, vis, ref =>
    sumEntriesV (fun vis c =>
        if depth > limit then .error .overflow
        else if vis.contains c then .error .linkLoop
        else dirRecV g limit fuel (depth + 1) (c :: vis) c) g.isDir vis (g.entries ref)

/-- sqfs2tar: the recursive iterator started on the root directory (whose own reference is not recorded) -/
def tarWalkV (g : DirGraph) (limit fuel root : Nat) : Except Err Nat :=
  match dirRecV g limit fuel 1 [] root with
  | .ok (n, _) => .ok n
  | .error e => .error e

/-- number of directory-listing entries of the directories `R` -/
def listingEntries (g : DirGraph) (R : List Nat) : Nat := (R.map (fun r => (g.entries r).length)).sum

end Sqfs.ReaderWalk
