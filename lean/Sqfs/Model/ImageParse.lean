/-
`parse : Description → Except Err Parsed` and the tree walk — the independent SquashFS reader, written from
`doc/format.adoc` (section names are quoted in the comments).  Everything is total: recursion is structural
on a count taken from the input or on explicit fuel, every read is bounds-checked, directory loops are cut by
a visited set, so hostile input yields an error/problem list, never a hang.

Shared by C03 (validator) and by C01/C04/C11/C14/C17 as "the independent parser".
-/
import Sqfs.Model.Image
namespace Sqfs.Image

/-! ## inode decoding -/

def readU32s (d : ByteArray) : Nat → Nat → Array Nat → Except Err (Array Nat)
  | 0, _, acc => .ok acc
  | n + 1, p, acc => do
    let v ← u32 d p
    readU32s d n (p + 4) (acc.push v)

/-- "Directory Index": u32 index, u32 start, u32 name size (one less than the size), name -/
def readDirIndex (d : ByteArray) : Nat → Nat → Array DirIndex → Except Err (Array DirIndex × Nat)
  | 0, p, acc => .ok (acc, p)
  | n + 1, p, acc => do
    let idx ← u32 d p
    let st ← u32 d (p + 4)
    let sz ← u32 d (p + 8)
    let nm ← slice d (p + 12) (sz + 1)
    readDirIndex d n (p + 12 + sz + 1) (acc.push ⟨idx, st, nm⟩)

/-- "If 'frag index' is set to 0xFFFFFFFF, the number of blocks is computed as ceil(file_size / block_size)
otherwise ... floor(file_size / block_size)" -/
def fileBlockCount (bs size fragIdx : Nat) : Nat :=
  if bs = 0 then 0 else if fragIdx = NOIDX then (size + bs - 1) / bs else size / bs

/-- Decode the inode at stream position `p` ("Common Inode Header" + the 14 type specific layouts). -/
def decodeInode (d : ByteArray) (bs : Nat) (p : Nat) : Except Err Inode := do
  let typ ← u16 d p
  let mode ← u16 d (p + 2)
  let uid ← u16 d (p + 4)
  let gid ← u16 d (p + 6)
  let mtime ← u32 d (p + 8)
  let ino ← u32 d (p + 12)
  let q := p + 16
  let mk (data : InodeData) (len : Nat) : Inode := ⟨typ, mode, uid, gid, mtime, ino, data, p, len⟩
  match typ with
  | 1 =>      -- basic directory: u32 block index, u32 link count, u16 file size, u16 block offset, u32 parent
    pure (mk (.dir (← u32 d q) (← u32 d (q + 4)) (← u16 d (q + 8)) (← u16 d (q + 10)) (← u32 d (q + 12))) 32)
  | 8 =>      -- extended directory: link count, file size, block index, parent, u16 index count, u16 block offset, xattr
    let nlink ← u32 d q
    let size ← u32 d (q + 4)
    let blk ← u32 d (q + 8)
    let parent ← u32 d (q + 12)
    let cnt ← u16 d (q + 16)
    let off ← u16 d (q + 18)
    let xattr ← u32 d (q + 20)
    let (idx, e) ← readDirIndex d cnt (q + 24) #[]
    pure (mk (.dirExt nlink size blk parent cnt off xattr idx) (e - p))
  | 2 =>      -- basic file: u32 blocks start, u32 frag index, u32 block offset, u32 file size, u32[] block sizes
    let start ← u32 d q
    let fi ← u32 d (q + 4)
    let fo ← u32 d (q + 8)
    let size ← u32 d (q + 12)
    let n := fileBlockCount bs size fi
    let blocks ← readU32s d n (q + 16) #[]
    pure (mk (.file start fi fo size blocks) (32 + 4 * n))
  | 9 =>      -- extended file: u64 start, u64 size, u64 sparse, u32 nlink, u32 frag index, u32 block offset, u32 xattr
    let start ← u64 d q
    let size ← u64 d (q + 8)
    let sparse ← u64 d (q + 16)
    let nlink ← u32 d (q + 24)
    let fi ← u32 d (q + 28)
    let fo ← u32 d (q + 32)
    let xattr ← u32 d (q + 36)
    let n := fileBlockCount bs size fi
    let blocks ← readU32s d n (q + 40) #[]
    pure (mk (.fileExt start size sparse nlink fi fo xattr blocks) (56 + 4 * n))
  | 3 =>      -- symlink: u32 link count, u32 target size, target
    let nlink ← u32 d q
    let ts ← u32 d (q + 4)
    let t ← slice d (q + 8) ts
    pure (mk (.slink nlink t) (24 + ts))
  | 10 =>     -- extended symlink: + u32 xattr index after the target
    let nlink ← u32 d q
    let ts ← u32 d (q + 4)
    let t ← slice d (q + 8) ts
    let x ← u32 d (q + 8 + ts)
    pure (mk (.slinkExt nlink t x) (28 + ts))
  | 4 | 5 => pure (mk (.dev (← u32 d q) (← u32 d (q + 4))) 24)
  | 11 | 12 => pure (mk (.devExt (← u32 d q) (← u32 d (q + 4)) (← u32 d (q + 8))) 28)
  | 6 | 7 => pure (mk (.ipc (← u32 d q)) 20)
  | 13 | 14 => pure (mk (.ipcExt (← u32 d q) (← u32 d (q + 4))) 24)
  | t => throw s!"unknown inode type {t} at stream position {p}"

/-- Linear scan of the whole inode stream (inodes are packed back to back). Stops at the first error. -/
def scanInodes (d : ByteArray) (bs : Nat) : Nat → Nat → Array Inode → Array Inode × Option Err
  | 0, _, acc => (acc, some "scan fuel exhausted")
  | f + 1, p, acc =>
    if p ≥ d.size then (acc, none) else
    match decodeInode d bs p with
    | .error e => (acc, some e)
    | .ok i => if i.len = 0 then (acc, some "zero length inode") else scanInodes d bs f (p + i.len) (acc.push i)

/-! ## directory listings -/

/-- entries: u16 offset, s16 inode offset, u16 type, u16 name size (one less), name -/
def readDirEnts (d : ByteArray) (limit : Nat) : Nat → Nat → Array DirEnt → Except Err (Array DirEnt × Nat)
  | 0, p, acc => .ok (acc, p)
  | n + 1, p, acc => do
    if p + 8 > limit then throw s!"directory entry at stream position {p} runs past the listing size"
    let off ← u16 d p
    let dl ← u16 d (p + 2)
    let typ ← u16 d (p + 4)
    let ns ← u16 d (p + 6)
    if p + 8 + ns + 1 > limit then throw s!"name of directory entry at stream position {p} runs past the listing size"
    let nm ← slice d (p + 8) (ns + 1)
    readDirEnts d limit n (p + 8 + ns + 1) (acc.push ⟨off, s16 dl, typ, nm⟩)

/-- the runs of a listing of `size` bytes starting at stream position `start`
(header: u32 count (off by one), u32 start, u32 inode number) -/
def readListing (d : ByteArray) (start size : Nat) : Nat → Nat → Array DirHdr → Except Err (Array DirHdr)
  | 0, _, _ => .error "listing fuel exhausted"
  | f + 1, p, acc =>
    if p = start + size then .ok acc
    else if p + 12 > start + size then .error s!"directory header at stream position {p} runs past the listing size"
    else do
      let cnt ← u32 d p
      let st ← u32 d (p + 4)
      let ino ← u32 d (p + 8)
      let (ents, e) ← readDirEnts d (start + size) (cnt + 1) (p + 12) #[]
      readListing d start size f e (acc.push ⟨p - start, p, cnt + 1, st, ino, ents⟩)

/-- (block index, block offset, listing size incl. the +3) of a directory inode -/
def Inode.dirInfo (i : Inode) : Option (Nat × Nat × Nat × Nat) :=   -- blockIdx, offset, size, parent
  match i.data with
  | .dir b _ s o par => some (b, o, s, par)
  | .dirExt _ s b par _ o _ _ => some (b, o, s, par)
  | _ => none

/-! ## lookup tables ("Storing Lookup Tables") -/

/-- concatenated payload of the blocks named by a location list, in list order -/
def tableBytes (d : Description) (name : String) : Except Err (ByteArray × Array MetaBlk) := do
  match d.locs? name with
  | none => throw s!"no location list for table {name} in the description"
  | some ll =>
    let m : Std.HashMap Nat MetaBlk := (d.blocksOf name).foldl (fun m b => m.insert b.off b) {}
    let mut data := ByteArray.empty
    let mut blks := #[]
    for l in ll.locs do
      match m[l]? with
      | none => throw s!"table {name}: no metadata block at location {l}"
      | some b =>
        if b.status != "ok" then throw s!"table {name}: metadata block at {l} is {b.status}"
        data := data ++ b.data
        blks := blks.push b
    pure (data, blks)

def decodeU32Table (b : ByteArray) (n : Nat) : Except Err (Array Nat) := readU32s b n 0 #[]

def readU64s (d : ByteArray) : Nat → Nat → Array Nat → Except Err (Array Nat)
  | 0, _, acc => .ok acc
  | n + 1, p, acc => do
    let v ← u64 d p
    readU64s d n (p + 8) (acc.push v)

/-- "Fragment Table": u64 start, u32 size, u32 unused -/
def readFrags (d : ByteArray) : Nat → Nat → Array FragEnt → Except Err (Array FragEnt)
  | 0, _, acc => .ok acc
  | n + 1, p, acc => do
    let e : FragEnt := ⟨← u64 d p, ← u32 d (p + 8), ← u32 d (p + 12)⟩
    readFrags d n (p + 16) (acc.push e)

/-- xattr lookup table entry: u64 xattr ref, u32 count, u32 size -/
def readXattrIds (d : ByteArray) : Nat → Nat → Array XattrId → Except Err (Array XattrId)
  | 0, _, acc => .ok acc
  | n + 1, p, acc => do
    let e : XattrId := ⟨← u64 d p, ← u32 d (p + 8), ← u32 d (p + 12)⟩
    readXattrIds d n (p + 16) (acc.push e)

/-! ## extended attributes ("Extended Attribute Table") -/

def xattrPrefix : Nat → Option String
  | 0 => some "user."
  | 1 => some "trusted."
  | 2 => some "security."
  | _ => none

/-- `count` key/value pairs starting at stream position `p`; returns the pairs and the end position -/
def readXattrPairs (kv : MetaStream) : Nat → Nat → Array XattrPair → Except Err (Array XattrPair × Nat)
  | 0, p, acc => .ok (acc, p)
  | n + 1, p, acc => do
    let d := kv.data
    let ty ← u16 d p
    let ns ← u16 d (p + 2)
    let nm ← slice d (p + 4) ns
    let q := p + 4 + ns
    let vs ← u32 d q
    let raw ← slice d (q + 4) vs
    let pre ← match xattrPrefix (ty &&& 0xFF) with
      | some s => pure s
      | none => throw s!"xattr key at stream position {p} has unknown prefix id {ty &&& 0xFF}"
    if ty &&& 0xFE00 != 0 then throw s!"xattr key at stream position {p} has unknown type bits {ty}"
    let ool := ty &&& 0x100 != 0
    let value ← if ool then do
        -- "If the value is stored out of line, this is always 8 ... giving the location of another value structure"
        if vs != 8 then throw s!"out-of-line xattr value at stream position {q} has size {vs}, not 8"
        let ref ← u64 raw 0
        let vp ← kv.resolveRef ref
        let vs2 ← u32 d vp
        slice d (vp + 4) vs2
      else pure raw
    readXattrPairs kv n (q + 4 + vs) (acc.push ⟨pre.toUTF8 ++ nm, value, ool⟩)

/-! ## the parsed image -/

structure Parsed where
  sb : Super
  inodes : MetaStream
  dirs : MetaStream
  ids : Array Nat
  frags : Array FragEnt
  exports : Option (Array Nat)
  xattrKvStart : Nat
  xattrCount : Nat
  xattrIds : Array XattrId
  xattrKv : MetaStream
  tableErrors : Array (String × Err)      -- tables that could not be decoded (the rest is still usable)
  deriving Inhabited

def parseTables (d : Description) : Except Err Parsed := do
  let sb ← Super.decode d.super
  let inodes := MetaStream.ofBlocks sb.inodeTable (d.blocksOf "inode")
  let dirs := MetaStream.ofBlocks sb.dirTable (d.blocksOf "dir")
  let mut errs : Array (String × Err) := #[]
  let mut ids := #[]
  match (do let (b, _) ← tableBytes d "id"; decodeU32Table b sb.idCount) with
  | .ok v => ids := v
  | .error e => errs := errs.push ("id", e)
  let mut frags := #[]
  if sb.fragTable != NOTBL then
    match (do let (b, _) ← tableBytes d "frag"; readFrags b sb.fragCount 0 #[]) with
    | .ok v => frags := v
    | .error e => errs := errs.push ("frag", e)
  let mut exports := none
  if sb.exportTable != NOTBL then
    match (do let (b, _) ← tableBytes d "export"; readU64s b sb.inodeCount 0 #[]) with
    | .ok v => exports := some v
    | .error e => errs := errs.push ("export", e)
  let mut xs := #[]
  let mut kvStart := 0
  let mut xcount := 0
  let mut kv : MetaStream := {}
  if sb.xattrTable != NOTBL then
    match d.xhdr with
    | none => errs := errs.push ("xattr", "no xattr id table header in the description")
    | some (_, h) =>
      match (do
          let kvs ← u64 h 0
          let cnt ← u32 h 8
          let (b, _) ← tableBytes d "xattr"
          let v ← readXattrIds b cnt 0 #[]
          pure (kvs, cnt, v)) with
      | .ok (kvs, cnt, v) =>
        kvStart := kvs; xcount := cnt; xs := v
        kv := MetaStream.ofBlocks kvs (d.blocksOf "xattrkv")
      | .error e => errs := errs.push ("xattr", e)
  pure { sb, inodes, dirs, ids, frags, exports, xattrKvStart := kvStart, xattrCount := xcount, xattrIds := xs,
         xattrKv := kv, tableErrors := errs }

def Parsed.xattrsOf (P : Parsed) (idx : Nat) : Except Err (Array XattrPair) := do
  if idx = NOIDX then return #[]
  match P.xattrIds[idx]? with
  | none => throw s!"xattr index {idx} out of bounds ({P.xattrIds.size} entries)"
  | some e =>
    let p ← P.xattrKv.resolveRef e.ref
    let (pairs, q) ← readXattrPairs P.xattrKv e.count p #[]
    if q - p != e.size then throw s!"xattr set {idx}: pairs occupy {q - p} bytes, table says {e.size}"
    pure pairs

/-! ## tree walk -/

structure Node where
  path : ByteArray                  -- "/" for the root, "/a/b" below
  inode : Inode
  refBlk : Nat
  refOff : Nat
  parentIno : Nat                   -- inode number of the containing directory (0 for the root)
  listing : Array DirHdr            -- for directories
  deriving Inhabited

structure Work where
  path : ByteArray
  blk : Nat
  off : Nat
  parentIno : Nat
  expect : Option (Nat × Int)       -- (type stored in the entry, inode number announced by the entry)
  deriving Inhabited

structure WalkSt where
  nodes : Array Node := #[]
  seenDirs : Std.HashSet Nat := {}
  problems : Array (String × String) := #[]
  deriving Inhabited

def WalkSt.problem (s : WalkSt) (code detail : String) : WalkSt := { s with problems := s.problems.push (code, detail) }

def showBytes (b : ByteArray) : String :=
  String.ofList (b.toList.foldr (fun c acc =>
    if 32 ≤ c ∧ c < 127 ∧ c ≠ 34 ∧ c ≠ 92 then Char.ofNat c.toNat :: acc
    else
      let hx (n : Nat) : Char := if n < 10 then Char.ofNat (48 + n) else Char.ofNat (87 + n)
      '\\' :: 'u' :: '0' :: '0' :: hx (c.toNat / 16) :: hx (c.toNat % 16) :: acc) [])

def childPath (parent name : ByteArray) : ByteArray :=
  if parent.size = 1 then parent ++ name else (parent.push 47) ++ name

def dirChildren (path : ByteArray) (ino : Nat) (hs : Array DirHdr) : List Work :=
  hs.foldr (fun h acc => h.ents.foldr (fun e acc =>
    ⟨childPath path e.name, h.start, e.offset, ino, some (e.typ, (h.ino : Int) + e.delta)⟩ :: acc) acc) []

/-- depth-first, pre-order, listing order; one step per directory entry -/
def walk (P : Parsed) : Nat → List Work → WalkSt → WalkSt
  | 0, [], st => st
  | 0, _ :: _, st => st.problem "walk-fuel" "tree walk ran out of fuel"
  | _ + 1, [], st => st
  | f + 1, w :: rest, st =>
    let pstr := showBytes w.path
    match (do let p ← P.inodes.resolve w.blk w.off; decodeInode P.inodes.data P.sb.blockSize p) with
    | .error e => walk P f rest (st.problem "inode-ref" s!"{pstr}: inode reference ({w.blk},{w.off}) does not resolve: {e}")
    | .ok ino =>
      let st := match w.expect with
        | none => st
        | some (t, n) =>
          let st := if t != basicType ino.typ then st.problem "entry-type" s!"{pstr}: entry says type {t}, inode has type {ino.typ}" else st
          if n != (ino.ino : Int) then st.problem "entry-ino" s!"{pstr}: entry announces inode number {n}, inode has {ino.ino}" else st
      match ino.dirInfo with
      | none => walk P f rest { st with nodes := st.nodes.push ⟨w.path, ino, w.blk, w.off, w.parentIno, #[]⟩ }
      | some (blk, off, size, parent) =>
        let st := if parent != w.parentIno then st.problem "parent" s!"{pstr}: parent inode field is {parent}, containing directory has number {w.parentIno}" else st
        if st.seenDirs.contains ino.pos then
          walk P f rest (st.problem "dir-loop" s!"{pstr}: directory inode at stream position {ino.pos} is reachable twice")
        else
          let st := { st with seenDirs := st.seenDirs.insert ino.pos }
          if size < 4 then   -- "If the file size is set to a value < 4, the directory is empty"
            walk P f rest { st with nodes := st.nodes.push ⟨w.path, ino, w.blk, w.off, w.parentIno, #[]⟩ }
          else
            match (do let p ← P.dirs.resolve blk off; readListing P.dirs.data p (size - 3) (size + 1) p #[]) with
            | .error e =>
              walk P f rest ({ st with nodes := st.nodes.push ⟨w.path, ino, w.blk, w.off, w.parentIno, #[]⟩ }.problem "listing" s!"{pstr}: {e}")
            | .ok hs =>
              walk P f (dirChildren w.path ino.ino hs ++ rest) { st with nodes := st.nodes.push ⟨w.path, ino, w.blk, w.off, w.parentIno, hs⟩ }

def Parsed.walkFuel (P : Parsed) : Nat := (P.inodes.data.size / 16 + 2) * (P.dirs.data.size / 9 + 2)

def Parsed.tree (P : Parsed) : WalkSt :=
  walk P P.walkFuel [⟨"/".toUTF8, P.sb.rootRef >>> 16, P.sb.rootRef &&& 0xFFFF, 0, none⟩] {}

/-! ## canonical tree description (one JSON object per line) -/

def jstr (b : ByteArray) : String := "\"" ++ showBytes b ++ "\""

def hexOf (b : ByteArray) : String :=
  let hx (n : Nat) : Char := if n < 10 then Char.ofNat (48 + n) else Char.ofNat (87 + n)
  String.ofList (b.toList.foldr (fun c acc => hx (c.toNat / 16) :: hx (c.toNat % 16) :: acc) [])

def jnats (a : Array Nat) : String := "[" ++ ",".intercalate (a.toList.map toString) ++ "]"

def Parsed.idOf (P : Parsed) (i : Nat) : String :=
  match P.ids[i]? with
  | some v => toString v
  | none => "null"

def Node.json (P : Parsed) (n : Node) : String :=
  let i := n.inode
  let common := s!"\"path\":{jstr n.path},\"type\":\"{typeName i.typ}\",\"itype\":{i.typ},\"mode\":{i.mode},\"uid\":{P.idOf i.uidIdx},\"gid\":{P.idOf i.gidIdx},\"mtime\":{i.mtime},\"nlink\":{i.nlink},\"ino\":{i.ino},\"ref\":[{n.refBlk},{n.refOff}]"
  let spec := match i.data with
    | .dir b _ s o par => s!",\"parent\":{par},\"listing\":[{b},{o},{s}],\"entries\":{n.listing.foldl (· + ·.count) 0},\"headers\":{n.listing.size},\"index\":0"
    | .dirExt _ s b par c o _ _ => s!",\"parent\":{par},\"listing\":[{b},{o},{s}],\"entries\":{n.listing.foldl (· + ·.count) 0},\"headers\":{n.listing.size},\"index\":{c}"
    | .file st fi fo sz bl => s!",\"size\":{sz},\"start\":{st},\"blocks\":{jnats bl},\"frag\":[{fi},{fo}],\"sparse\":0"
    | .fileExt st sz sp _ fi fo _ bl => s!",\"size\":{sz},\"start\":{st},\"blocks\":{jnats bl},\"frag\":[{fi},{fo}],\"sparse\":{sp}"
    | .slink _ t => s!",\"target\":{jstr t}"
    | .slinkExt _ t _ => s!",\"target\":{jstr t}"
    | .dev _ dv => s!",\"dev\":{dv}"
    | .devExt _ dv _ => s!",\"dev\":{dv}"
    | .ipc _ => ""
    | .ipcExt _ _ => ""
  let xs := match P.xattrsOf i.xattr with
    | .ok ps => "[" ++ ",".intercalate (ps.toList.map (fun (p : XattrPair) => s!"[{jstr p.key},\"{hexOf p.value}\"]")) ++ "]"
    | .error e => s!"\{\"error\":{jstr e.toUTF8}}"
  "{" ++ common ++ spec ++ s!",\"xattr_idx\":{if i.xattr = NOIDX then "null" else toString i.xattr},\"xattrs\":{xs}" ++ "}"

def Super.json (s : Super) : String :=
  let t (v : Nat) : String := if v = NOTBL then "null" else toString v
  s!"\{\"super\":\{\"magic\":{s.magic},\"inode_count\":{s.inodeCount},\"mtime\":{s.mtime},\"block_size\":{s.blockSize},\"frag_count\":{s.fragCount},\"compressor\":{s.compressor},\"block_log\":{s.blockLog},\"flags\":{s.flags},\"id_count\":{s.idCount},\"version\":[{s.vMajor},{s.vMinor}],\"root_ref\":[{s.rootRef >>> 16},{s.rootRef &&& 0xFFFF}],\"bytes_used\":{s.bytesUsed},\"id_table\":{t s.idTable},\"xattr_table\":{t s.xattrTable},\"inode_table\":{t s.inodeTable},\"dir_table\":{t s.dirTable},\"frag_table\":{t s.fragTable},\"export_table\":{t s.exportTable}}}"

/-- the lines printed by `sqfsmodel c03 parse` -/
def parseReport (d : Description) : Array String :=
  match parseTables d with
  | .error e => #[s!"\{\"error\":{jstr e.toUTF8}}"]
  | .ok P =>
    let w := P.tree
    let head := #[P.sb.json, s!"\{\"ids\":{jnats P.ids}}",
      "{\"fragments\":[" ++ ",".intercalate (P.frags.toList.map (fun f => s!"[{f.start},{f.size}]")) ++ "]}"]
    let errs := P.tableErrors.map (fun (t, e) => s!"\{\"problem\":[\"table-{t}\",{jstr e.toUTF8}]}")
    let probs := w.problems.map (fun (c, e) => s!"\{\"problem\":[\"{c}\",{jstr e.toUTF8}]}")
    head ++ w.nodes.map (Node.json P) ++ errs ++ probs

end Sqfs.Image
