/-
Model of the *bounds-check logic* of the libsquashfs readers (property C05), with the exact C integer widths
(`sqfs_u16/u32/u64` = `UInt16/32/64`, `size_t` = `UInt64`; every `+`, `-`, `*` below wraps exactly where the C
expression wraps).

Each routine returns the list of buffer accesses it performs (`Access`: which buffer, offset, length and the
capacity of that buffer at the time of the access — a fixed array size, a caller-supplied size, or the size the
routine itself passed to `calloc`/`malloc`/`realloc`, computed with the C arithmetic).  The property theorems
(`Sqfs/Props/C05.lean`) say that every access satisfies `off + len ≤ cap` in ℕ, for all field values.

Everything the routines obtain from outside (file reads, the block decompressor) is a parameter; the codec enters
only through its contract "returns a negative value or a length `≤ outsize`".

The functions here are the **repaired** logic where the current code is defective (D3, D4, D5, D19, D25; D17 in
`Sqfs/Model/ReaderWalk.lean`); the current code is kept as the `fixed := false` branch of the same definitions
so that `Sqfs/Witness/C05.lean` can prove the negations and the driver can predict the behaviour of an unpatched
tree.  Comments name the C lines each clause mirrors.
-/
import Sqfs.Generated.Consts
namespace Sqfs.ReaderBounds
open Sqfs

/-- `SQFS_ERROR_*` as far as the readers produce them; `fuel` is the model's own "ran out of fuel" marker
(proved unreachable for the fuel the wrappers pass). -/
inductive Err
  | alloc | io | compressor | internal | corrupted | unsupported | overflow | oob | notDir | noEntry
  | linkLoop | notFile | argInvalid | sequence | superMagic | superVersion | superBlockSize | fuel
  deriving DecidableEq, Repr, Inhabited

def Err.name : Err → String
  | .alloc => "ALLOC" | .io => "IO" | .compressor => "COMPRESSOR" | .internal => "INTERNAL"
  | .corrupted => "CORRUPTED" | .unsupported => "UNSUPPORTED" | .overflow => "OVERFLOW" | .oob => "OOB"
  | .notDir => "NOT_DIR" | .noEntry => "NO_ENTRY" | .linkLoop => "LINK_LOOP" | .notFile => "NOT_FILE"
  | .argInvalid => "ARG_INVALID" | .sequence => "SEQUENCE" | .superMagic => "SUPER_MAGIC"
  | .superVersion => "SUPER_VERSION" | .superBlockSize => "SUPER_BLOCK_SIZE" | .fuel => "FUEL"

/-- the buffers the modelled routines touch -/
inductive Buf
  | metaData      -- `sqfs_meta_reader_t.data[SQFS_META_BLOCK_SIZE]`
  | metaScratch   -- `sqfs_meta_reader_t.scratch[SQFS_META_BLOCK_SIZE]`
  | dst           -- the caller's destination buffer of `sqfs_meta_reader_read` / `sqfs_data_reader_read`
  | drScratch     -- `sqfs_data_reader_t.scratch[block_size]`
  | blockOut      -- the buffer `get_block` allocates (`alloc_array(1, max_size)`)
  | fragBlock     -- `data->frag_block` (allocated by `get_block` with `max_size = block_size`)
  | dataBlock     -- `data->data_block` (ditto)
  | fragOut       -- the result buffer of `sqfs_data_reader_get_fragment`
  | streamBuf     -- `stream->buffer` (`malloc(block_size)`)
  | inoData       -- `stream->inodata` / `inode->extra` block-size words
  | table         -- `sqfs_read_table`: `data`
  | locations     -- `sqfs_read_table`: `locations`
  | inodeExtra    -- `inode->extra` payload written by `read_inode.c`
  | dirEntName    -- `sqfs_dir_node_t.name` written by `sqfs_meta_reader_read_dir_ent`
  | idxSrc        -- `inode->extra` read by `sqfs_inode_unpack_dir_index_entry`
  | idxOut        -- the entry `sqfs_inode_unpack_dir_index_entry` allocates
  | path          -- the caller's C string in `sqfs_dir_reader_resolve_path` (capacity = strlen + 1)
  -- `Sqfs/Model/ReaderTables.lean`
  | superBuf      -- `sqfs_super_t temp` in `sqfs_super_read`
  | idTable       -- `tbl->ids.data` (`sqfs_id_table_read`: the table `sqfs_read_table` allocated)
  | fragTable     -- `tbl->table.data` (`sqfs_frag_table_read`)
  | xattrIdTbl    -- `sqfs_xattr_id_table_t idtbl` in `sqfs_xattr_reader_load`
  | idBlockStarts -- `xr->id_block_starts` (`alloc_array(sizeof(sqfs_u64), num_id_blocks)`)
  | xattrDesc     -- the caller's `sqfs_xattr_id_t *desc`
  | xattrKeyHdr   -- `sqfs_xattr_entry_t key` on the stack of the xattr read functions
  | xattrValHdr   -- `sqfs_xattr_value_t value` ditto
  | xattrRef      -- `sqfs_u64 ref` in `read_value_hdr`
  | xattrKeyOut   -- the entry `sqfs_xattr_reader_read_key` allocates
  | xattrValOut   -- the value `sqfs_xattr_reader_read_value` allocates
  | xattrKv       -- the `sqfs_xattr_t` `sqfs_xattr_reader_read` allocates and grows
  | dirEntryOut   -- the `sqfs_dir_entry_t` `sqfs_dir_entry_from_inode` allocates
  | nameIn        -- the `name` argument of `sqfs_dir_entry_from_inode` (the `ent->size + 2` bytes of a `sqfs_dir_node_t` name)
  | linkOut       -- the string `it_read_link` allocates
  deriving DecidableEq, Repr

structure Access where
  buf : Buf
  off : Nat
  len : Nat
  cap : Nat
  deriving DecidableEq, Repr

/-- the safety predicate of the property: the access lies inside its buffer (in ℕ, i.e. un-wrapped) -/
def Access.inBounds (a : Access) : Prop := a.off + a.len ≤ a.cap

instance (a : Access) : Decidable a.inBounds := by unfold Access.inBounds; exact inferInstance

abbrev metaCap : Nat := Consts.metaBlockSize      -- sizeof(m->data) = sizeof(m->scratch)

/-- the contract of `sqfs_compressor_t.do_block` that every theorem about a routine calling it assumes (`MetaCodecOk`,
`hcodec`): the return value is negative (an error code) or at most `outsize` -/
def codecContract (outsize : UInt32) (ret : Int) : Bool := ret < 0 || ret ≤ outsize.toNat

/-! ## `meta_reader.c` -/

/-- `sqfs_meta_reader_t` control state (the block contents are not modelled here) -/
structure MetaSt where
  dataUsed : UInt64          -- size_t data_used
  offset : UInt64            -- size_t offset
  blockOffset : UInt64
  nextBlock : UInt64
  deriving DecidableEq, Repr

/-- state after `sqfs_meta_reader_create` (`calloc` + `block_offset = ~0`) -/
def MetaSt.init : MetaSt := ⟨0, 0, 0xFFFFFFFFFFFFFFFF, 0⟩

/-- what the outside world answers when `sqfs_meta_reader_seek` loads the block at some position -/
structure Load where
  hdrIo : Bool               -- `read_at(header)` failed
  header : UInt16            -- le16 header word
  dataIo : Bool              -- `read_at(data)` failed
  dec : Option UInt32        -- `do_block` on the payload: `none` = negative return, `some n` = n bytes produced
  deriving Repr, Inhabited

structure MetaCfg where
  start : UInt64
  limit : UInt64
  src : UInt64 → Load

/-- result of an operation that changes the reader state even when it fails -/
structure Res where
  st : MetaSt
  r : Except Err Unit
  acc : List Access

/-- the reader after `block_offset = next_block = ~0, data_used = offset = 0` (meta_reader.c:119-122) -/
def MetaSt.cleared : MetaSt := ⟨0, 0, 0xFFFFFFFFFFFFFFFF, 0xFFFFFFFFFFFFFFFF⟩

/--
`sqfs_meta_reader_seek` (meta_reader.c:93-165).  `fixed = true` is the code of the tree: before another block is
loaded the cached one is forgotten (:119-122), and a failed offset test after loading leaves `data_used = 0`
(:155-158) — every failure after that point leaves the cleared reader behind.  `fixed = false` is the code before
these repairs (failures leave the old state, a failed offset test leaves the *new* `data_used` with the old
`offset`: defect D3 needs exactly that).
-/
def seekG (fixed : Bool) (c : MetaCfg) (m : MetaSt) (blockStart offset : UInt64) : Res :=
  -- :101  if (block_start < m->start || block_start >= m->limit)
  if blockStart < c.start || blockStart ≥ c.limit then ⟨m, .error .oob, []⟩
  -- :104  if (block_start == m->block_offset)
  else if blockStart == m.blockOffset then
    if offset ≥ m.dataUsed then ⟨m, .error .oob, []⟩
    else ⟨{ m with offset := offset }, .ok (), []⟩
  else
    -- :119  forget the cached block
    let m0 : MetaSt := if fixed then MetaSt.cleared else m
    let l := c.src blockStart
    -- :124  read_at(header)
    if l.hdrIo then ⟨m0, .error .io, []⟩
    else
      let compressed := (l.header &&& 0x8000) == 0
      let size : UInt32 := (l.header &&& 0x7FFF).toUInt32
      -- :132  if (size > sizeof(m->data))
      if size.toUInt64 > metaCap.toUInt64 then ⟨m0, .error .corrupted, []⟩
      -- :135  if ((block_start + 2 + size) > m->limit)        (u64, wraps)
      else if blockStart + 2 + size.toUInt64 > c.limit then ⟨m0, .error .oob, []⟩
      else
        -- :138  read_at(block_start + 2, m->data, size)
        let a1 := [Access.mk .metaData 0 size.toNat metaCap]
        if l.dataIo then ⟨m0, .error .io, a1⟩
        else
          let after (dataUsed : UInt64) (acc : List Access) : Res :=
            -- :155  if (offset >= m->data_used) { m->data_used = 0; return OUT_OF_BOUNDS; }
            -- (before the repair: data_used is already overwritten, offset is not)
            if offset ≥ dataUsed then ⟨if fixed then m0 else { m with dataUsed := dataUsed }, .error .oob, acc⟩
            else ⟨⟨dataUsed, offset, blockStart, blockStart + size.toUInt64 + 2⟩, .ok (), acc⟩
          if compressed then
            -- :143  ret = do_block(m->data, size, m->scratch, sizeof(m->scratch)); memcpy(m->data, m->scratch, ret)
            match l.dec with
            | none => ⟨m0, .error .compressor, a1⟩
            | some ret =>
              after ret.toUInt64 (a1 ++ [Access.mk .metaScratch 0 ret.toNat metaCap,
                                         Access.mk .metaData 0 ret.toNat metaCap])
          else after size.toUInt64 a1

/-- the seek of the tree -/
def seek (c : MetaCfg) (m : MetaSt) (blockStart offset : UInt64) : Res := seekG true c m blockStart offset

/--
Top of one iteration of `sqfs_meta_reader_read` (meta_reader.c:171-178): compute `diff`, and when the current
block is used up move to the next one.  Returns the seek result (or a no-op) and the bytes now available.
-/
def refill (fixed : Bool) (c : MetaCfg) (m : MetaSt) : Res × UInt64 :=
  -- :171  diff = m->data_used - m->offset      (size_t, wraps when a failed seek left offset > data_used)
  let diff := m.dataUsed - m.offset
  if diff == 0 then
    -- :174  ret = sqfs_meta_reader_seek(m, m->next_block, 0);  diff = m->data_used
    let s := seekG fixed c m m.nextBlock 0
    (s, s.st.dataUsed)
  else (⟨m, .ok (), []⟩, diff)

/--
The loop of `sqfs_meta_reader_read` (meta_reader.c:165-191).  `total` = the `size` the caller passed (capacity
of `data`), `done` = bytes delivered so far, `size` = bytes still wanted.  One unit of fuel per iteration.
`fixed = true` adds the guard of `fixes/C05-meta-read-after-failed-seek.patch`.
-/
def readLoop (fixed : Bool) (c : MetaCfg) (total : Nat) : Nat → MetaSt → (size : UInt64) → (done : Nat) →
    List Access → Res
  | 0, m, _, _, acc => ⟨m, .error .fuel, acc⟩
  | fuel + 1, m, size, done, acc =>
    if size == 0 then ⟨m, .ok (), acc⟩
    else if fixed && m.offset > m.dataUsed then ⟨m, .error .oob, acc⟩
    else
      let p := refill fixed c m
      match p.1.r with
      | .error e => ⟨p.1.st, .error e, acc ++ p.1.acc⟩
      | .ok () =>
        let m1 := p.1.st
        -- :180  if (diff > size) diff = size
        let diff := if p.2 > size then size else p.2
        -- :183  memcpy(data, m->data + m->offset, diff)
        let acc := acc ++ p.1.acc ++ [Access.mk .metaData m1.offset.toNat diff.toNat metaCap,
                                      Access.mk .dst done diff.toNat total]
        readLoop fixed c total fuel { m1 with offset := m1.offset + diff } (size - diff) (done + diff.toNat) acc

/-- `sqfs_meta_reader_read(m, data, size)` -/
def mread (fixed : Bool) (c : MetaCfg) (m : MetaSt) (size : UInt64) : Res :=
  readLoop fixed c size.toNat (size.toNat + 1) m size 0 []

/-- an API history on one meta reader -/
inductive MetaOp
  | seek (block offset : UInt64)
  | read (size : UInt64)
  deriving Repr

/-- all accesses of a history of calls (the reader keeps being used after failed calls) -/
def runOps (fixed : Bool) (c : MetaCfg) : MetaSt → List MetaOp → List Access
  | _, [] => []
  | m, .seek b o :: t => let r := seekG fixed c m b o; r.acc ++ runOps fixed c r.st t
  | m, .read n :: t => let r := mread fixed c m n; r.acc ++ runOps fixed c r.st t

/-- `sqfs_meta_reader_get_position` -/
def getPosition (m : MetaSt) : UInt64 × UInt64 :=
  if m.offset == m.dataUsed then (m.nextBlock, 0) else (m.blockOffset, m.offset)

/-! ## `data_reader.c` -/

def onDiskSize (w : UInt32) : UInt32 := w &&& 0xFFFFFF          -- SQFS_ON_DISK_BLOCK_SIZE
def isCompressed (w : UInt32) : Bool := (w &&& 0x1000000) == 0   -- SQFS_IS_BLOCK_COMPRESSED

/-- outcome of the outside world for one block load: `read_at` fails?; `do_block` result -/
structure BlkLoad where
  io : Bool
  dec : Option UInt32      -- none: negative;  some n: n bytes (0 allowed: treated as OVERFLOW by the callers)
  deriving Repr, Inhabited

/--
`get_block` (data_reader.c:43-98).  `bs` = `data->block_size` = capacity of `data->scratch`.
Returns `*out_sz`.  The allocation `alloc_array(1, max_size)` has capacity `maxSize`.
-/
def getBlock (bs : UInt32) (out : Buf) (w maxSize : UInt32) (l : BlkLoad) : Except Err UInt64 × List Access :=
  -- :56  if (SQFS_IS_SPARSE_BLOCK(size)) return 0;            (*out_sz = max_size)
  if onDiskSize w == 0 then (.ok maxSize.toUInt64, [])
  -- :61  if (on_disk_size > max_size)
  else if onDiskSize w > maxSize then (.error .overflow, [])
  else if isCompressed w then
    -- :67  read_at(off, data->scratch, on_disk_size)
    let a1 := [Access.mk .drScratch 0 (onDiskSize w).toNat bs.toNat]
    if l.io then (.error .io, a1)
    else match l.dec with
      | none => (.error .compressor, a1)
      | some ret =>
        if ret == 0 then (.error .overflow, a1)
        else (.ok ret.toUInt64, a1 ++ [Access.mk out 0 ret.toNat maxSize.toNat])
  else
    -- :82  read_at(off, *out, on_disk_size)
    let a1 := [Access.mk out 0 (onDiskSize w).toNat maxSize.toNat]
    if l.io then (.error .io, a1) else (.ok (onDiskSize w).toUInt64, a1)

/--
`sqfs_data_reader_get_fragment` (data_reader.c:259-297).  `precache` = result of `precache_fragment_block`
(table lookup + `get_block(…, block_size, …)`).  `fixed = false`: `frag_off + frag_sz` in 32 bits (D5).
-/
def getFragment (fixed : Bool) (bs : UInt32) (filesz blockCount : UInt64) (fragOff : UInt32)
    (precache : Except Err Unit) : Except Err (List Access) :=
  -- :274  if (block_count > (UINT64_MAX / data->block_size))
  if blockCount > 0xFFFFFFFFFFFFFFFF / bs.toUInt64 then .error .overflow
  -- :277  if ((sqfs_u64)block_count * data->block_size >= filesz) return 0;
  else if blockCount * bs.toUInt64 ≥ filesz then .ok []
  else
    let fragSz : UInt32 := (filesz % bs.toUInt64).toUInt32
    match precache with
    | .error e => .error e
    | .ok () =>
      -- :286  if (frag_off + frag_sz > data->block_size)
      let tooBig := if fixed then fragOff.toUInt64 + fragSz.toUInt64 > bs.toUInt64
                    else fragOff + fragSz > bs
      if tooBig then .error .oob
      else .ok [Access.mk .fragOut 0 fragSz.toNat fragSz.toNat,
                Access.mk .fragBlock fragOff.toNat fragSz.toNat bs.toNat]

/-- `data_reader_istream_t` control state -/
structure StreamSt where
  bufUsed : UInt64
  bufOff : UInt64
  filesz : UInt64
  blkIdx : UInt32
  blkCount : UInt32
  dead : Bool := false        -- `fail:` freed the buffer
  deriving DecidableEq, Repr

inductive StreamOut | data (n : UInt64) | eof | err (e : Err)
  deriving DecidableEq, Repr

/--
One call of `dr_stream_get_buffered_data` (data_reader.c:376-466) that has to refill.  `w` = the block word at
`blk_idx` (if any), `l` = what the outside world answers, `frag` = `(precache result, frag_blk_size, frag_off)`.
`fixed = false`: the 24-bit on-disk size is not compared with `block_size` (D4).
-/
def streamFill (fixed : Bool) (bs : UInt32) (s : StreamSt) (w : UInt32) (l : BlkLoad)
    (fragPre : Except Err UInt64) (fragOff : UInt32) : StreamSt × StreamOut × List Access :=
  -- :385  if (stream->buf_off < stream->buf_used)  -> serve what is buffered
  if s.bufOff < s.bufUsed then
    (s, .data (s.bufUsed - s.bufOff), [Access.mk .streamBuf s.bufOff.toNat (s.bufUsed - s.bufOff).toNat bs.toNat])
  -- :391  if (stream->filesz == 0)
  else if s.filesz == 0 then ({ s with bufUsed := 0, bufOff := 0, filesz := 0, dead := true }, .eof, [])
  else
    let bufUsed : UInt64 := if s.filesz < bs.toUInt64 then s.filesz else bs.toUInt64
    let fail (e : Err) (acc : List Access) : StreamSt × StreamOut × List Access :=
      ({ s with bufUsed := 0, bufOff := 0, filesz := 0, dead := true }, .err e, acc)
    let done (s' : StreamSt) (acc : List Access) : StreamSt × StreamOut × List Access :=
      ({ s' with bufOff := 0, bufUsed := bufUsed, filesz := s.filesz - bufUsed }, .data bufUsed, acc)
    if s.blkIdx < s.blkCount then
      let s' := { s with blkIdx := s.blkIdx + 1 }
      let a0 := [Access.mk .inoData (s.blkIdx.toNat * 4) 4 (s.blkCount.toNat * 4)]
      let disksz := onDiskSize w
      if disksz == 0 then
        -- :405  memset(stream->buffer, 0, stream->buf_used)
        done s' (a0 ++ [Access.mk .streamBuf 0 bufUsed.toNat bs.toNat])
      else if fixed && disksz > bs then fail .overflow a0
      else if isCompressed w then
        -- :407  read_at(disk_offset, rd->scratch, disksz)
        let a1 := a0 ++ [Access.mk .drScratch 0 disksz.toNat bs.toNat]
        if l.io then fail .io a1
        else match l.dec with
          | none => fail .compressor a1
          | some ret =>
            if ret == 0 then fail .overflow a1
            else
              -- :412 do_block(scratch, disksz, stream->buffer, buf_used); :420 memset(buffer + ret, 0, buf_used - ret)
              done s' (a1 ++ [Access.mk .streamBuf 0 ret.toNat bufUsed.toNat] ++
                (if ret.toUInt64 < bufUsed then [Access.mk .streamBuf ret.toNat (bufUsed - ret.toUInt64).toNat bs.toNat] else []))
      else
        -- :425  read_at(disk_offset, stream->buffer, disksz)
        let a1 := a0 ++ [Access.mk .streamBuf 0 disksz.toNat bs.toNat]
        if l.io then fail .io a1
        else
          done s' (a1 ++
            (if disksz.toUInt64 < bufUsed then [Access.mk .streamBuf disksz.toNat (bufUsed - disksz.toUInt64).toNat bs.toNat] else []))
    else
      -- :437  precache_fragment_block; frag_blk_size checks; memcpy(buffer, frag_block + frag_off, buf_used)
      match fragPre with
      -- since /repo 8447a61 a failed `precache_fragment_block` goes through `fail:` like every other error (before, it
      -- returned with `buf_used` set and the buffer not refilled, so the next call handed out stale bytes: D33, C10)
      | .error e => fail e []
      | .ok fragBlkSize =>
        if fragBlkSize < fragOff.toUInt64 || fragBlkSize - fragOff.toUInt64 < bufUsed then fail .corrupted []
        else done s [Access.mk .fragBlock fragOff.toNat bufUsed.toNat fragBlkSize.toNat,
                     Access.mk .streamBuf 0 bufUsed.toNat bs.toNat]

/-! ## `sqfs_data_reader_read` (data_reader.c:299-372) -/

/-- `for (i = 0; offset > data->block_size && i < block_count; ++i) offset -= block_size;` -/
def dataReadSkip (bs : UInt64) : (remaining : Nat) → (i : Nat) → (offset : UInt64) → Nat × UInt64
  | 0, i, offset => (i, offset)
  | rem + 1, i, offset => if offset > bs then dataReadSkip bs rem (i + 1) (offset - bs) else (i, offset)

/--
`while (i < block_count && size > 0)`: copy from the blocks.  `words i` = `inode->extra[i]`, `blkOk i` = whether
`precache_data_block` succeeds for block `i` (it allocates `block_size` bytes), `cap` = the caller's buffer size.
Returns `(offset, size, total)` after the loop.
-/
def dataReadBlocks (bs : UInt32) (words : Nat → UInt32) (blkOk : Nat → Bool) (blockCount cap : Nat) :
    (remaining : Nat) → (i : Nat) → (offset : UInt64) → (size total : UInt32) → List Access →
    Except Err (UInt64 × UInt32 × UInt32) × List Access
  | 0, _, offset, size, total, acc => (.ok (offset, size, total), acc)
  | rem + 1, i, offset, size, total, acc =>
    if size == 0 then (.ok (offset, size, total), acc)
    else
      -- :333  diff = data->block_size - offset;  if (size < diff) diff = size;
      let diff0 : UInt32 := (bs.toUInt64 - offset).toUInt32
      let diff := if size < diff0 then size else diff0
      let acc := acc ++ [Access.mk .inoData (i * 4) 4 (blockCount * 4)]
      if onDiskSize (words i) == 0 then
        -- :338  memset(buffer, 0, diff)
        dataReadBlocks bs words blkOk blockCount cap rem (i + 1) 0 (size - diff) (total + diff)
          (acc ++ [Access.mk .dst total.toNat diff.toNat cap])
      else if !blkOk i then (.error .io, acc)
      else
        -- :344  memcpy(buffer, (char *)data->data_block + offset, diff)
        dataReadBlocks bs words blkOk blockCount cap rem (i + 1) 0 (size - diff) (total + diff)
          (acc ++ [Access.mk .dataBlock offset.toNat diff.toNat bs.toNat, Access.mk .dst total.toNat diff.toNat cap])

/-- `sqfs_data_reader_read(data, inode, offset, buffer, size)`; `fragPre` = `precache_fragment_block` result
(`frag_blk_size`).  Returns the byte count. -/
def dataRead (bs : UInt32) (words : Nat → UInt32) (blkOk : Nat → Bool) (blockCount : Nat) (filesz offset : UInt64)
    (size0 : UInt32) (fragOff : UInt32) (fragPre : Except Err UInt64) : Except Err UInt32 × List Access :=
  -- :311  if (size >= 0x7FFFFFFF) size = 0x7FFFFFFE;
  let size : UInt32 := if size0 ≥ 0x7FFFFFFF then 0x7FFFFFFE else size0
  -- :320  if (offset >= filesz) return 0;
  if offset ≥ filesz then (.ok 0, [])
  else
    -- :323  if ((filesz - offset) < (sqfs_u64)size) size = filesz - offset;
    let size : UInt32 := if filesz - offset < size.toUInt64 then (filesz - offset).toUInt32 else size
    if size == 0 then (.ok 0, [])
    else
      let (i, offset) := dataReadSkip bs.toUInt64 blockCount 0 offset
      match dataReadBlocks bs words blkOk blockCount size0.toNat (blockCount - i) i offset size 0 [] with
      | (.error e, acc) => (.error e, acc)
      | (.ok (offset, size, total), acc) =>
        -- :355  if (size > 0) copy from the fragment
        if size == 0 then (.ok total, acc)
        else match fragPre with
          | .error e => (.error e, acc)
          | .ok fragBlkSize =>
            -- :360  if ((frag_off + offset) >= data->frag_blk_size)          (u64 sum)
            if fragOff.toUInt64 + offset ≥ fragBlkSize then (.error .oob, acc)
            -- :363  if ((data->frag_blk_size - (frag_off + offset)) < size)
            else if fragBlkSize - (fragOff.toUInt64 + offset) < size.toUInt64 then (.error .oob, acc)
            else
              (.ok (total + size), acc ++ [Access.mk .fragBlock (fragOff.toNat + offset.toNat) size.toNat fragBlkSize.toNat,
                                          Access.mk .dst total.toNat size.toNat size0.toNat])

/-! ## `read_table.c` -/

/--
The copy loop of `sqfs_read_table` (read_table.c:59-77): `tableSize` bytes wanted, `blockCount` =
`ceil(table_size / 8192)` location words.  `stepOk i` = seek+read of iteration `i` succeeded.
-/
def readTableLoop (total blockCount : Nat) (stepOk : Nat → Bool) : Nat → (tableSize : UInt64) → (blkIdx : Nat) →
    (done : Nat) → List Access → Except Err Unit × List Access
  | 0, _, _, _, acc => (.error .fuel, acc)
  | fuel + 1, tableSize, blkIdx, done, acc =>
    if tableSize == 0 then (.ok (), acc)
    else
      -- :60  start = le64toh(locations[blk_idx++])
      let acc := acc ++ [Access.mk .locations (blkIdx * 8) 8 (blockCount * 8)]
      if !stepOk blkIdx then (.error .io, acc)
      else
        let diff : UInt64 := if (8192 : UInt64) > tableSize then tableSize else 8192
        -- :70  sqfs_meta_reader_read(m, ptr, diff)
        let acc := acc ++ [Access.mk .table done diff.toNat total]
        readTableLoop total blockCount stepOk fuel (tableSize - diff) (blkIdx + 1) (done + diff.toNat) acc

def tableBlockCount (tableSize : UInt64) : UInt64 :=
  let bc := tableSize / 8192
  if tableSize % 8192 != 0 then bc + 1 else bc

/-- `sqfs_read_table` from the allocation of `locations` on; `alloc_array(8, block_count)` cannot overflow -/
def readTable (tableSize : UInt64) (stepOk : Nat → Bool) : Except Err Unit × List Access :=
  let bc := tableBlockCount tableSize
  readTableLoop tableSize.toNat bc.toNat stepOk (bc.toNat + 1) tableSize 0 0 []

/-! ## `read_inode.c`: allocation sizes against bytes written -/

abbrev szInodeGeneric : Nat := Consts.sizeofInodeGeneric
abbrev szDirIndex : Nat := Consts.sizeofDirIndex

/-- `SZ_MUL_OV`/`SZ_ADD_OV` -/
def mulOv (a b : UInt64) : Option UInt64 := if a.toNat * b.toNat < 2 ^ 64 then some (a * b) else none
def addOv (a b : UInt64) : Option UInt64 := if a.toNat + b.toNat < 2 ^ 64 then some (a + b) else none

/-- `alloc_flex(base, item, n)`: size passed to `calloc`, or `none` on overflow -/
def allocFlex (base item n : UInt64) : Option UInt64 := do
  let s ← mulOv n item
  addOv base s

/-- `get_block_count` (read_inode.c:66-77); `blockSize ≠ 0` is guaranteed by `sqfs_super_read` -/
def getBlockCount (size blockSize : UInt64) (fragIdx fragOff : UInt32) : UInt64 :=
  let count := size / blockSize
  if size % blockSize != 0 && (fragIdx == 0xFFFFFFFF || fragOff == 0xFFFFFFFF) then count + 1 else count

/--
`read_inode_file` / `read_inode_file_ext` (read_inode.c:79-166) from `get_block_count` on: the payload area has
`alloc - sizeof(*out)` bytes; `count * sizeof(sqfs_u32)` bytes are read into it and then byte-swapped in place.
-/
def readInodeFile (fileSize blockSize : UInt64) (fragIdx fragOff : UInt32) : Except Err (List Access) :=
  let count := getBlockCount fileSize blockSize fragIdx fragOff
  match allocFlex szInodeGeneric.toUInt64 4 count with
  | none => .error .overflow                 -- ALLOC for the basic type; same class: refused
  | some alloc =>
    let cap := alloc.toNat - szInodeGeneric
    -- :109  sqfs_meta_reader_read(ir, out->extra, count * sizeof(sqfs_u32))      (size_t product)
    .ok [Access.mk .inodeExtra 0 (count * 4).toNat cap]

/-- `read_inode_slink` (read_inode.c:168-208) -/
def readInodeSlink (targetSize : UInt32) : Except Err (List Access) :=
  match addOv targetSize.toUInt64 1 with
  | none => .error .overflow
  | some s1 => match addOv szInodeGeneric.toUInt64 s1 with
    | none => .error .overflow
    | some size =>
      -- :199  sqfs_meta_reader_read(ir, out->extra, slink.target_size)
      .ok [Access.mk .inodeExtra 0 targetSize.toNat (size.toNat - szInodeGeneric)]

/-- the doubling loop `while (sizeof(ent) + ent.size + 1 > new_sz - index_used)` (read_inode.c:276-282) -/
def growLoop (need indexUsed : UInt64) : Nat → UInt64 → Option UInt64
  | 0, _ => none
  | fuel + 1, newSz =>
    if need > newSz - indexUsed then
      match mulOv newSz 2 with
      | none => none
      | some n => growLoop need indexUsed fuel n
    else some newSz

/--
`read_inode_dir_ext` index loop (read_inode.c:263-309) over the `size` fields of the index entries the metadata
stream delivers.  State: `index_max` (payload capacity), `index_used`.
-/
def dirExtLoop : List UInt32 → (indexMax indexUsed : UInt64) → List Access → Except Err (UInt64 × UInt64 × List Access)
  | [], indexMax, indexUsed, acc => .ok (indexMax, indexUsed, acc)
  | sz :: rest, indexMax, indexUsed, acc =>
    -- :276  sizeof(ent) + ent.size + 1   (size_t arithmetic: 12 + (size_t)size + 1, cannot wrap)
    let need : UInt64 := szDirIndex.toUInt64 + sz.toUInt64 + 1
    match growLoop need indexUsed 65 indexMax with
    | none => .error .overflow
    | some newSz =>
      let indexMax := if newSz > indexMax then newSz else indexMax
      -- :294  memcpy((char *)out->extra + index_used, &ent, sizeof(ent))
      let a1 := Access.mk .inodeExtra indexUsed.toNat szDirIndex indexMax.toNat
      let indexUsed := indexUsed + szDirIndex.toUInt64
      -- :297  sqfs_meta_reader_read(ir, extra + index_used, ent.size + 1)       (u32 arithmetic: wraps to 0)
      let n : UInt32 := sz + 1
      let a2 := Access.mk .inodeExtra indexUsed.toNat n.toNat indexMax.toNat
      dirExtLoop rest indexMax (indexUsed + n.toUInt64) (acc ++ [a1, a2])

def readInodeDirExt (dirSize : UInt32) (entSizes : List UInt32) : Except Err (UInt64 × UInt64 × List Access) :=
  -- :250  index_max = dir.size ? 128 : 0
  if dirSize == 0 then .ok (0, 0, []) else dirExtLoop entSizes 128 0 []

/-! ## `readdir.c` -/

abbrev szDirNode : Nat := Consts.sizeofDirNode       -- sizeof(sqfs_dir_node_t) = 8
abbrev szDirHeader : Nat := Consts.sizeofDirHeader

/-- `sqfs_meta_reader_read_dir_ent` (readdir.c:37-69): `calloc(1, sizeof(*out) + ent.size + 2)` (int arithmetic),
then `ent.size + 1` bytes into `out->name` -/
def readDirEnt (size : UInt16) : List Access :=
  [Access.mk .dirEntName 0 (size.toNat + 1) (szDirNode + size.toNat + 2 - szDirNode)]

/-- the part of `sqfs_readdir_state_t` that controls termination -/
structure RdState where
  size : UInt64
  entries : UInt64
  deriving DecidableEq, Repr

/--
`sqfs_meta_reader_readdir` (readdir.c:91-157) on its counters; `hdrCount` = `hdr.count` of the header read when
`entries == 0` (already checked `≤ SQFS_MAX_DIR_ENT - 1`), `nameSize` = `ent->size`.  `none` = end of listing.
Failures of the metadata reads are not modelled here (they end the walk).
-/
def readdirStep (s : RdState) (hdrCount : UInt32) (nameSize : UInt16) : Option RdState :=
  let s1? : Option RdState :=
    if s.entries == 0 then
      if s.size ≤ szDirHeader.toUInt64 then none
      else some ⟨s.size - szDirHeader.toUInt64, hdrCount.toUInt64 + 1⟩
    else some s
  match s1? with
  | none => none
  | some s1 =>
    if s1.size ≤ szDirNode.toUInt64 then none
    else
      let size := s1.size - szDirNode.toUInt64
      let count : UInt64 := nameSize.toUInt64 + 1
      some ⟨if count ≥ size then 0 else size - count, s1.entries - 1⟩

/-! ## `inode.c`: `sqfs_inode_unpack_dir_index_entry` -/

/--
`sqfs_inode_unpack_dir_index_entry` (inode.c:322-362) on an `SQFS_INODE_EXT_DIR` inode.  `used` =
`payload_bytes_used`, `szAt off` = the `size` field of the index record header found at payload offset `off`
(arbitrary: the payload comes from the image, or from the API user).  Accesses are reported also when the
routine ends with an error.  `fixed = false` is the current code: the 12-byte header and the name are copied
without comparing with `payload_bytes_used`, and `ent.size + 2`, `ent.size + 1` are evaluated in 32 bits (D25).
-/
def unpackIdx (fixed : Bool) (used : UInt32) (szAt : UInt64 → UInt32) :
    Nat → (offset index : UInt64) → List Access → Except Err Unit × List Access
  | 0, _, _, acc => (.error .fuel, acc)
  | fuel + 1, offset, index, acc =>
    -- :340  if (offset >= inode->payload_bytes_used)
    if offset ≥ used.toUInt64 then (.error .oob, acc)
    else if fixed && used.toUInt64 - offset < szDirIndex.toUInt64 then (.error .oob, acc)
    else
      -- :346 / :351  memcpy(&ent, ptr + offset, sizeof(ent))
      let acc := acc ++ [Access.mk .idxSrc offset.toNat szDirIndex used.toNat]
      let sz := szAt offset
      if index == 0 then
        if fixed && sz.toUInt64 + 1 > used.toUInt64 - offset - szDirIndex.toUInt64 then (.error .oob, acc)
        else
          -- :353  alloc_flex(sizeof(ent), 1, ent.size + 2);  :358  memcpy((*out)->name, …, ent.size + 1)
          let n2 : UInt64 := if fixed then sz.toUInt64 + 2 else (sz + 2).toUInt64
          let n1 : UInt64 := if fixed then sz.toUInt64 + 1 else (sz + 1).toUInt64
          match allocFlex szDirIndex.toUInt64 1 n2 with
          | none => (.error .alloc, acc)
          | some alloc =>
            (.ok (), acc ++ [Access.mk .idxOut 0 szDirIndex alloc.toNat,
                             Access.mk .idxOut szDirIndex n1.toNat alloc.toNat,
                             Access.mk .idxSrc (offset.toNat + szDirIndex) n1.toNat used.toNat])
      else
        -- :347  offset += sizeof(ent) + ent.size + 1     (size_t)
        unpackIdx fixed used szAt fuel (offset + szDirIndex.toUInt64 + sz.toUInt64 + 1) (index - 1) acc

/-! ## `dir_reader.c`: the name comparison of `sqfs_dir_reader_resolve_path` -/

/-- C `strncmp(a, b, n) == 0` on byte lists that stand for NUL-terminated strings (reading past the end of a
list yields the terminator).  Also returns how many positions of `b` were examined. -/
def strncmpEq : (a b : List UInt8) → (n : Nat) → Bool × Nat
  | _, _, 0 => (true, 0)
  | a, b, n + 1 =>
    let ca := a.headD 0
    let cb := b.headD 0
    if ca != cb then (false, 1)
    else if ca == 0 then (true, 1)
    else
      let (r, k) := strncmpEq a.tail b.tail n
      (r, k + 1)

/-- bytes of a C string before its terminator -/
def cstr (s : List UInt8) : List UInt8 := s.takeWhile (· != 0)

/--
One entry comparison in `sqfs_dir_reader_resolve_path` (dir_reader.c:337-346): `name` = the `ent->size + 1`
bytes of the directory entry (may contain NUL), `path` = the rest of the caller's C string (NUL-free list, the
terminator sits at index `path.length`, capacity `path.length + 1`).  Returns whether the entry matches and the
accesses to `path`.  `fixed = false`: `path[len]` is read whenever `strncmp` says equal (D19).
-/
def resolveCompare (fixed : Bool) (name path : List UInt8) : Bool × List Access :=
  let len := name.length
  let cap := path.length + 1
  let (eq, k) := strncmpEq (cstr name) path len
  let a1 := [Access.mk .path 0 k cap]
  let eq := if fixed then eq && (cstr name).length == len else eq
  if eq then
    -- :343  path[len] == '/' || path[len] == '\0'
    let c := path.getD len 0
    (c == 47 || c == 0, a1 ++ [Access.mk .path len 1 cap])
  else (false, a1)

end Sqfs.ReaderBounds
