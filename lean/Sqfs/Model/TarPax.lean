/-
Model of `lib/tar/src/pax_header.c` (`read_pax_header`, `find_handler`, `apply_handler`, the field
table, `pax_sparse_map`, `pax_xattr_libarchive`, `urldecode`) and of the helpers it calls:
`lib/util/src/parse_int.c` (`parse_uint`, `parse_int` with `len = -1`), `base64_decode.c`, `hex_decode.c`.

The record buffer is `entsize` bytes followed by a NUL (`record_to_memory`); a "C string at `p`" is the
bytes from `p` up to the first NUL.  The in-place edits of the parser (`line[len-1] = '\0'`,
`*(ptr++) = '\0'`) are modelled on the copy of the current record.
-/
import Sqfs.Model.TarNumber
namespace Sqfs.Tar

/-- header fields as `read_header` fills them in (`tar_header_decoded_t`); `none` = `NULL` -/
structure Decoded where
  name : Option Bytes := none
  link : Option Bytes := none
  sparse : List (Nat × Nat) := []          -- `[]` = `NULL`
  actualSize : Nat := 0
  recordSize : Nat := 0
  unknown : Bool := false
  hardLink : Bool := false
  xattr : List (Bytes × Bytes) := []        -- in list order (`->next`)
  mode : Nat := 0
  uid : Nat := 0
  gid : Nat := 0
  devMajor : Nat := 0
  devMinor : Nat := 0
  mtime : Int := 0
  deriving Repr, DecidableEq

/-- `set_by_pax` bits -/
abbrev PAX_SIZE : Nat := 0x001
abbrev PAX_UID : Nat := 0x002
abbrev PAX_GID : Nat := 0x004
abbrev PAX_DEV_MAJ : Nat := 0x008
abbrev PAX_DEV_MIN : Nat := 0x010
abbrev PAX_NAME : Nat := 0x020
abbrev PAX_SLINK_TARGET : Nat := 0x040
abbrev PAX_MTIME : Nat := 0x100
abbrev PAX_SPARSE_SIZE : Nat := 0x400
abbrev PAX_SPARSE_GNU_1_X : Nat := 0x800

def hasFlag (mask flag : Nat) : Bool := (mask / flag) % 2 = 1        -- `flag` is a single bit
def setFlag (mask flag : Nat) : Nat := if flag = 0 ∨ hasFlag mask flag then mask else mask + flag

/-- C string starting at the head of `b` (bytes before the first NUL) -/
def cstr (b : Bytes) : Bytes := b.takeWhile (· ≠ 0)

def isDigit (c : UInt8) : Bool := 48 ≤ c.toNat && c.toNat ≤ 57

/-! ### `parse_int.c` -/

/-- the digit loop of `parse` for base 10 (`len = -1`); result: value and number of digits; `none` = overflow -/
def parseLoop (out diff : Nat) : Bytes → Option (Nat × Nat)
  | [] => some (out, diff)
  | c :: t =>
    if isDigit c then
      let x := c.toNat - 48
      if out ≥ 1844674407370955161 then none               -- `0xFFFFFFFFFFFFFFFF / 10`
      else if out * 10 > 18446744073709551615 - x then none
      else parseLoop (out * 10 + x) (diff + 1) t
    else some (out, diff)

/-- `parse_uint(in, -1, &diff, 0, 0, &out)` on a C string -/
def parseUint (s : Bytes) : Option (Nat × Nat) :=
  match s with
  | [] => none
  | c :: _ => if isDigit c then parseLoop 0 0 s else none

/-- `parse_int(in, -1, &diff, 0, 0, &out)` -/
def parseInt (s : Bytes) : Option Int :=
  let (neg, s') := match s with
    | 45 :: t => (true, t)
    | _ => (false, s)
  match parseUint s' with
  | none => none
  | some (v, _) =>
    if v ≥ 0x7FFFFFFFFFFFFFFF then none
    else some (if neg then -(v : Int) else (v : Int))

/-! ### base64 / url decoding (LIBARCHIVE.xattr) -/

def b64Digit (c : UInt8) : Option Nat :=
  let n := c.toNat
  if 65 ≤ n ∧ n ≤ 90 then some (n - 65)
  else if 97 ≤ n ∧ n ≤ 122 then some (n - 97 + 26)
  else if 48 ≤ n ∧ n ≤ 57 then some (n - 48 + 52)
  else if n = 43 then some 62
  else if n = 47 ∨ n = 45 then some 63
  else none

def isPad (c : UInt8) : Bool := c.toNat = 61 || c.toNat = 95      -- '=' or '_'

/-- `base64_decode` (the output capacity equals the input length here, so `count >= *out_len` cannot trigger
    before the input is exhausted; it is still checked like the code does). Fuel = input length. -/
def b64Loop (cap : Nat) : Nat → Bytes → Bytes → Option Bytes
  | 0, _, acc => some acc
  | f + 1, inp, acc =>
    match inp with
    | c1 :: c2 :: c3 :: c4 :: rest =>
      match b64Digit c1, b64Digit c2 with
      | some i1, some i2 =>
        if acc.length ≥ cap then none else
        let acc := acc ++ [UInt8.ofNat ((i1 * 4 + i2 / 16) % 256)]
        if isPad c3 then
          if ¬ isPad c4 ∨ rest ≠ [] then none else some acc
        else match b64Digit c3 with
          | none => none
          | some i3 =>
            if acc.length ≥ cap then none else
            let acc := acc ++ [UInt8.ofNat (((i2 % 16) * 16 + i3 / 4) % 256)]
            if isPad c4 then
              if rest ≠ [] then none else some acc
            else match b64Digit c4 with
              | none => none
              | some i4 =>
                if acc.length ≥ cap then none else
                b64Loop cap f rest (acc ++ [UInt8.ofNat (((i3 % 4) * 64 + i4) % 256)])
      | _, _ => none
    | [] => some acc
    | [_] => none                                               -- `in_len == 1`
    | c1 :: c2 :: rest =>                                       -- truncated tail of 2 or 3 characters
      match b64Digit c1, b64Digit c2 with
      | some i1, some i2 =>
        if acc.length ≥ cap then none else
        let acc := acc ++ [UInt8.ofNat ((i1 * 4 + i2 / 16) % 256)]
        match rest with
        | [] => some acc
        | c3 :: _ =>
          if isPad c3 then some acc
          else match b64Digit c3 with
            | none => none
            | some i3 => if acc.length ≥ cap then none else some (acc ++ [UInt8.ofNat (((i2 % 16) * 16 + i3 / 4) % 256)])
      | _, _ => none

def base64Decode (inp : Bytes) : Option Bytes := b64Loop inp.length (inp.length + 1) inp []

def hexDigitVal (c : UInt8) : Option Nat :=
  let n := c.toNat
  if 48 ≤ n ∧ n ≤ 57 then some (n - 48)
  else if 65 ≤ n ∧ n ≤ 70 then some (n - 55)
  else if 97 ≤ n ∧ n ≤ 102 then some (n - 87)
  else none

/-- `urldecode` on a C string -/
def urlDecode : Bytes → Bytes
  | [] => []
  | 37 :: a :: b :: t =>
    match hexDigitVal a, hexDigitVal b with
    | some x, some y => UInt8.ofNat (x * 16 + y) :: urlDecode t
    | _, _ => 37 :: urlDecode (a :: b :: t)
  | c :: t => c :: urlDecode t

/-! ### `pax_sparse_map` ("GNU.sparse.map" of format 0.1: `off,num,off,num,…`) -/

def sparseMapLoop : Nat → Bytes → List (Nat × Nat) → Option (List (Nat × Nat))
  | 0, _, _ => none
  | f + 1, line, acc =>
    match parseUint line with
    | none => none
    | some (off, d1) =>
      match line.drop d1 with
      | 44 :: l2 =>
        match parseUint l2 with
        | none => none
        | some (cnt, d2) =>
          let acc := acc ++ [(off, cnt)]
          match l2.drop d2 with
          | 44 :: l3 => sparseMapLoop f l3 acc              -- `while (*(line++) == ',')`
          | _ => some acc
      | _ => none

def paxSparseMap (value : Bytes) : Option (List (Nat × Nat)) :=
  sparseMapLoop (value.length + 1) value []

/-! ### the field table -/

inductive PaxKind
  | uid | gid | path | size | linkpath | mtime | sparseName | sparseSize | sparseRealsize
  | sparseMajor | sparseMinor | schily | libarchive | sparseMap
  deriving Repr, DecidableEq

def isPrefixOf (p s : Bytes) : Bool := s.take p.length = p

/-- `find_handler`: first match in table order; the two xattr rows match `<name>.` as a prefix -/
def findHandler (key : Bytes) : Option PaxKind :=
  let a := ascii
  if key = a "uid" then some .uid
  else if key = a "gid" then some .gid
  else if key = a "path" then some .path
  else if key = a "size" then some .size
  else if key = a "linkpath" then some .linkpath
  else if key = a "mtime" then some .mtime
  else if key = a "GNU.sparse.name" then some .sparseName
  else if key = a "GNU.sparse.size" then some .sparseSize
  else if key = a "GNU.sparse.realsize" then some .sparseRealsize
  else if key = a "GNU.sparse.major" then some .sparseMajor
  else if key = a "GNU.sparse.minor" then some .sparseMinor
  else if isPrefixOf (a "SCHILY.xattr.") key then some .schily
  else if isPrefixOf (a "LIBARCHIVE.xattr.") key then some .libarchive
  else if key = a "GNU.sparse.map" then some .sparseMap
  else none

def kindFlag : PaxKind → Nat
  | .uid => PAX_UID | .gid => PAX_GID | .path => PAX_NAME | .size => PAX_SIZE
  | .linkpath => PAX_SLINK_TARGET | .mtime => PAX_MTIME | .sparseName => PAX_NAME
  | .sparseSize => PAX_SPARSE_SIZE | .sparseRealsize => PAX_SPARSE_SIZE
  | .sparseMajor => PAX_SPARSE_GNU_1_X | .sparseMinor => PAX_SPARSE_GNU_1_X
  | .schily => 0 | .libarchive => 0 | .sparseMap => 0

/-- GNU tar's `xattr_decode_keyword`, applied by the **repaired** `pax_xattr_schily` (`fixes/C04-xattr-key-escape.patch`):
    "%25" → '%', "%3D" → '=', everything else verbatim -/
def xattrDecodeKey : Bytes → Bytes
  | 37 :: 50 :: 53 :: t => 37 :: xattrDecodeKey t
  | 37 :: 51 :: 68 :: t => 61 :: xattrDecodeKey t
  | c :: t => c :: xattrDecodeKey t
  | [] => []

/-- variants of `read_pax_header`: `keepOrder = true` is a hypothetical reader that appends xattrs (the real one prepends);
    `schilyDecode = false` is the reader before `fixes/C04-xattr-key-escape.patch` (SCHILY keys taken verbatim) -/
structure PaxCfg where
  keepOrder : Bool := false
  schilyDecode : Bool := true

/-- `apply_handler`; `value` = the bytes between '=' and the record's last byte (which was overwritten by NUL) -/
def applyHandler (pc : PaxCfg) (out : Decoded) (k : PaxKind) (key value : Bytes) : Option Decoded :=
  -- the C code prepends (`xattr->next = out->xattr`), i.e. `keepOrder = false`: a member's xattrs come out in reverse archive order
  let add (l : List (Bytes × Bytes)) (x : Bytes × Bytes) := if pc.keepOrder then l ++ [x] else x :: l
  let sval := cstr value
  match k with
  | .uid => (parseUint sval).map fun v => { out with uid := v.1 }
  | .gid => (parseUint sval).map fun v => { out with gid := v.1 }
  | .size => (parseUint sval).map fun v => { out with recordSize := v.1 }
  | .sparseSize => (parseUint sval).map fun v => { out with actualSize := v.1 }
  | .sparseRealsize => (parseUint sval).map fun v => { out with actualSize := v.1 }
  | .mtime => (parseInt sval).map fun v => { out with mtime := v }
  | .path => some { out with name := some sval }
  | .sparseName => some { out with name := some sval }
  | .linkpath => some { out with link := some sval }
  | .sparseMajor => some out
  | .sparseMinor => some out
  | .schily =>                                                                          -- "SCHILY.xattr."
    some { out with xattr := add out.xattr (if pc.schilyDecode then xattrDecodeKey (key.drop 13) else key.drop 13, value) }
  | .libarchive =>
    match base64Decode value with
    | none => none
    | some v => some { out with xattr := add out.xattr (cstr (urlDecode (key.drop 17)), v) }   -- "LIBARCHIVE.xattr."
  | .sparseMap => (paxSparseMap sval).map fun m => { out with sparse := m }

/-! ### `read_pax_header` -/

/-- `strtol(line, &ptr, 10)`: white space, optional sign, digits.  Result: (negative?, magnitude, bytes consumed);
    `none` = no conversion (`ptr == line`).  (Saturation at `LONG_MAX` is irrelevant: every value above 65536 fails
    the `len > end - line` test anyway.) -/
def strtolDigits (acc n : Nat) : Bytes → Nat × Nat
  | [] => (acc, n)
  | c :: t => if isDigit c then strtolDigits (acc * 10 + (c.toNat - 48)) (n + 1) t else (acc, n)

def strtol10 (l : Bytes) : Option (Bool × Nat × Nat) :=
  let ws := (l.takeWhile isSpace).length
  let l1 := l.drop ws
  let (neg, sg, l2) := match l1 with
    | 45 :: t => (true, 1, t)
    | 43 :: t => (false, 1, t)
    | _ => (false, 0, l1)
  let (v, nd) := strtolDigits 0 0 l2
  if nd = 0 then none else some (neg, v, ws + sg + nd)

/-- local state of one `read_pax_header` call -/
structure PaxState where
  out : Decoded
  mask : Nat
  sparseStarted : Bool := false        -- `sparse_last != NULL`
  offset : Nat := 0                    -- last "GNU.sparse.offset"

/-- what `read_pax_header` does with one parsed record `key=value` of total length `len`: the handler table
    (`find_handler` / `apply_handler`, `set_by_pax |= flag`), else the two GNU.sparse 0.0 keywords, else ignore -/
def paxApply (pc : PaxCfg) (st : PaxState) (key value : Bytes) (len : Nat) : Option (PaxState × Nat) :=
  match findHandler key with
  | some k =>
    match applyHandler pc st.out k key value with
    | none => none
    | some o =>
      -- pax_header.c:350-353 (fix 56b164f): `GNU.sparse.map` (the only `PAX_TYPE_CONST_STRING` field) replaces and frees the
      -- list the `GNU.sparse.numbytes` records are appended to, so the tail pointer is forgotten (`sparse_last = NULL`)
      some ({ st with out := o, mask := setFlag st.mask (kindFlag k),
                      sparseStarted := if k = .sparseMap then false else st.sparseStarted }, len)
  | none =>
    if key = ascii "GNU.sparse.offset" then
      match parseUint (cstr value) with
      | none => none
      | some (v, _) => some ({ st with offset := v }, len)
    else if key = ascii "GNU.sparse.numbytes" then
      match parseUint (cstr value) with
      | none => none
      | some (v, _) =>
        let sp := if st.sparseStarted then st.out.sparse ++ [(st.offset, v)] else [(st.offset, v)]
        some ({ st with out := { st.out with sparse := sp }, sparseStarted := true }, len)
    else some (st, len)

/-- one iteration of the `for (line = buffer; line < end; line += len)` loop on the remaining bytes `l`;
    result: new state and `len` -/
def paxLine (pc : PaxCfg) (st : PaxState) (l : Bytes) : Option (PaxState × Nat) :=
  match strtol10 l with
  | none => none                                               -- `ptr == line`
  | some (neg, len, p) =>
    let atp := (l.drop p).headD 0                              -- `*ptr` (the byte after the buffer is NUL)
    if ¬ isSpace atp ∨ neg ∨ len = 0 then none
    else if len > l.length then none                           -- "Numeric overflow in PAX header."
    else
      let rec' := (l.take len).dropLast ++ [0]                -- `line[len - 1] = '\0'`
      if p ≥ len then none
      else
        let q := p + ((rec'.drop p).takeWhile isSpace).length  -- skip blanks; stops at the NUL at the latest
        if q ≥ len then none
        else
          let keyArea := rec'.drop q
          let key := keyArea.takeWhile (fun c => c ≠ 0 ∧ c ≠ 61)
          let after := keyArea.drop key.length
          match after with
          | 61 :: valueArea =>
            if key.isEmpty then none
            else paxApply pc st key valueArea.dropLast         -- value: `len - (value - line) - 1` bytes
                   len
          | _ => none

def paxLoop (pc : PaxCfg) : Nat → PaxState → Bytes → Option PaxState
  | 0, _, _ => none
  | f + 1, st, l =>
    if l.isEmpty then some st
    else match paxLine pc st l with
      | none => none
      | some (st', len) => paxLoop pc f st' (l.drop len)

/-- `read_pax_header` on the `entsize` payload bytes: new header and `set_by_pax` -/
def readPaxHeader (pc : PaxCfg) (payload : Bytes) (out : Decoded) (mask : Nat) : Option (Decoded × Nat) :=
  (paxLoop pc (payload.length + 1) { out := out, mask := mask } payload).map fun st => (st.out, st.mask)

end Sqfs.Tar
