/-
Model of the two conversions as whole-archive functions on the *flat tree* (C04 fix-point):

* `sqfs2tar` (`bin/sqfs2tar/src/sqfs2tar.c`: `main` loop, `write_entry`, `write_file_data`, `terminate_archive`;
  `bin/sqfs2tar/src/iterator.c`: directories get a trailing '/'; `lib/sqfs/src/io/dir_hl.c`: a hard link is reported with
  mode `S_IFLNK | 0777`, `size = strlen(target)` and the flag set) — without `--root-becomes`/`--subdir` options;
* `tar2sqfs` up to the tree (`process_tarball`: `it->next`, `process_entry`, `fstree_add_generic`) = what the driver's
  `t2s` op evaluates.

The tree is the flat list of `TNode`s (`Model/TarConv.lean`) in iteration order; what an image holds beyond the node fields
(file contents, extended attributes in stored order, device numbers) is `ImgData`, indexed by path.
-/
import Sqfs.Model.TarSparse
import Sqfs.Model.TarConv
namespace Sqfs.Tar
open Sqfs.Path (joinSlash splitSlash SL)

/-- one round of `process_tarball`'s loop on the flat tree: `read_link`, `process_entry`, `fstree_add_generic`; `none` = tar2sqfs
    fails.  Second component: the device numbers handed to `fstree_add_generic` (the flat node does not carry them). -/
def convStep (pe : ConvOpts → CEntry → Action) (o : ConvOpts) (acc : Option (List TNode × List (List Bytes × Nat × Nat)))
    (x : IterEntry) : Option (List TNode × List (List Bytes × Nat × Nat)) :=
  match acc with
  | none => none
  | some (t, devs) =>
    let link := if fmt x.mode = S_IFLNK then x.link else none
    if fmt x.mode = S_IFLNK ∧ link.isNone then none                      -- `read_link` fails: no target
    else
    match pe o ⟨x.name, x.mode, x.uid, x.gid, x.mtime, x.hardLink, link, x.devMajor, x.devMinor⟩ with
    | .skip => some (t, devs)
    | .root e => if e.hardLink ∨ fmt e.mode ≠ S_IFDIR ∨ e.uid > 0xFFFFFFFF ∨ e.gid > 0xFFFFFFFF then none else some (t, devs)
    | .node e => match addGeneric o t e with
      | none => none
      | some t' => some (t', devs ++ [(Sqfs.Path.splitSlash e.name, x.devMajor, x.devMinor)])

/-- fold of `process_tarball` over the iterator's entries on the flat tree -/
def convertWith (pe : ConvOpts → CEntry → Action) (o : ConvOpts) (es : List IterEntry) :
    Option (List TNode × List (List Bytes × Nat × Nat)) :=
  es.foldl (convStep pe o) (some ([], []))

/-- `tar2sqfs` up to the tree: iterate the archive (every regular file read to its end), convert; `none` = failure -/
def tar2sqfsTree (o : ConvOpts) (archive : Bytes) : Option (List TNode × List (List Bytes × Nat × Nat)) :=
  let (es, e) := iterate archive
  if e ≠ .eof then none else convertWith processEntry o es

/-- what an image holds beyond the fields of the flat nodes -/
structure ImgData where
  content : List Bytes → Bytes                      -- regular files
  xattr : List Bytes → List (Bytes × Bytes)         -- in stored order
  dev : List Bytes → Nat × Nat                      -- device nodes: major, minor

/-- the `sqfs_dir_entry_t` sqfs2tar hands to `write_tar_header` for a node -/
def wentryOf (img : ImgData) (n : TNode) : WEntry :=
  { name := joinSlash n.path ++ (if fmt n.mode = S_IFDIR then [SL] else []),       -- iterator.c: `ent->name[nlen++] = '/'`
    mode := n.mode, uid := n.uid, gid := n.gid,
    size := if fmt n.mode = S_IFLNK then (n.target.getD []).length                  -- symlink, hard link (dir_hl.c): `strlen(target)`
            else if fmt n.mode = S_IFREG then (img.content n.path).length else 0,
    mtime := (n.modTime : Int),
    devMajor := if fmt n.mode = S_IFCHR ∨ fmt n.mode = S_IFBLK then (img.dev n.path).1 else 0,   -- `rdev` is 0 for everything else
    devMinor := if fmt n.mode = S_IFCHR ∨ fmt n.mode = S_IFBLK then (img.dev n.path).2 else 0,
    hardLink := n.hardLink }

/-- `write_entry`: xattrs reversed (`fixes/C04-sqfs2tar-xattr-order.patch`), header records, then for a regular file the
    data and the padding; `none` = `SQFS_ERROR_UNSUPPORTED` (nothing written, the entry is skipped) -/
def entryBytes (img : ImgData) (n : TNode) (counter : Nat) : Option Bytes :=
  match writeTarHeader (wentryOf img n) n.target (if n.hardLink then [] else (img.xattr n.path).reverse) counter with
  | none => none
  | some h =>
    some (h ++ (if fmt n.mode = S_IFREG then img.content n.path ++ zeros (padding (img.content n.path).length) else []))

/-- the main loop of sqfs2tar (`record_counter++` on every call) and `terminate_archive` -/
def sqfs2tarLoop (img : ImgData) : List TNode → Nat → Bytes
  | [], _ => zeros 1024
  | n :: t, c => (entryBytes img n c).getD [] ++ sqfs2tarLoop img t (c + 1)

def sqfs2tar (img : ImgData) (t : List TNode) : Bytes := sqfs2tarLoop img t 0

/-- an iterator entry without the position of the underlying stream: what tar2sqfs gets to see of an archive member
    (`data`: the bytes the file stream delivered and how it ended) -/
structure EntryView where
  name : Bytes
  mode : Nat
  hardLink : Bool
  uid : Nat
  gid : Nat
  mtime : Int
  size : Nat
  link : Option Bytes
  data : Option (Bytes × ExpandEnd)
  devMajor : Nat
  devMinor : Nat
  xattr : List (Bytes × Bytes)
  deriving Repr, DecidableEq

def IterEntry.view (x : IterEntry) : EntryView :=
  ⟨x.name, x.mode, x.hardLink, x.uid, x.gid, x.mtime, x.size, x.link, x.data.map fun r => (r.out, r.ending),
   x.devMajor, x.devMinor, x.xattr⟩

/-- the member `it->next` of tar2sqfs is expected to report for a node of the image: canonical name (no trailing slash),
    all attributes, the link target, the complete file content, the xattrs in stored order -/
def viewOf (img : ImgData) (n : TNode) : EntryView :=
  let isReg := fmt n.mode = S_IFREG
  let isDev := fmt n.mode = S_IFCHR ∨ fmt n.mode = S_IFBLK
  { name := joinSlash n.path, mode := n.mode, hardLink := n.hardLink, uid := n.uid, gid := n.gid, mtime := (n.modTime : Int),
    size := if isReg then (img.content n.path).length else 0,
    link := if fmt n.mode = S_IFLNK then n.target else none,
    data := if isReg then some (img.content n.path, .eof) else none,
    devMajor := if isDev then (img.dev n.path).1 else 0,
    devMinor := if isDev then (img.dev n.path).2 else 0,
    xattr := if n.hardLink then [] else img.xattr n.path }

/-- the device numbers tar2sqfs hands to `fstree_add_generic`, per node -/
def devsOf (img : ImgData) (t : List TNode) : List (List Bytes × Nat × Nat) :=
  t.map fun n => (n.path, (viewOf img n).devMajor, (viewOf img n).devMinor)

end Sqfs.Tar
