/-
Model of the object protocol of libsquashfs (`include/sqfs/predef.h`: `sqfs_object_t`, `sqfs_grab`,
`sqfs_drop`, `sqfs_copy`, `sqfs_object_init`) and of the *copy hooks* of every copyable kind, as written in

  lib/sqfs/src/comp/{gzip,xz,lzma,lz4,zstd}.c   `*_create_copy`
  lib/sqfs/src/frag_table.c                      `frag_table_copy`
  lib/sqfs/src/id_table.c                        `id_table_copy`
  lib/sqfs/src/meta_reader.c                     `meta_reader_copy`
  lib/sqfs/src/dir_reader.c                      `dir_reader_copy`
  lib/sqfs/src/data_reader.c                     `data_reader_copy`
  lib/sqfs/src/xattr/xattr_reader.c              `xattr_reader_copy`
  lib/sqfs/src/io/file.c                         `stdio_copy`
  lib/sqfs/src/xattr/xattr_writer.c              `xattr_writer_copy`

A heap is a finite map from object ids to objects `(refcount, destroy hook set?, copy hook set?, owned buffer
slots, internal pointers ("views") into buffers, references to other objects)` and from buffer ids to buffers.
A hook is described by a `CopyDesc` (what the hook does with the header, with every buffer slot, every
internal pointer and every reference slot, in source order, and what its failure path releases).
`desc` is the description of the hooks **as they are in /repo** (since the `fix:` commits 581be1a … 3353bb2 these are
the repaired hooks of fixes/C19-*.patch), `descCurrent` the description of the hooks before those commits (kept for the
witness theorems and so that a reverted fix is recognised); `desc` is compared with the behavioural probe of
`harness/h_c19.c` on every run, slot by slot (`sqfsmodel c19 describe <kind>` against the facts the probe saw, and the
probe line of every fresh copy against `sqfsmodel c19 sim`).

Every kind's last buffer slot stands for **the struct's own plain fields** (everything in the struct that is neither the
object header nor a pointer: cache tags and sizes of the data reader, cursor and the inline 8 KiB block of the meta
reader, the options of a compressor, `super`/`flags` of the dir reader …).  A hook that `memcpy`s the struct or assigns the
fields one by one duplicates that slot (`dup`); one that forgets or resets a field `garble`s it.  The allocation of this
slot is the allocation of the struct (the model counts the header part and the field part as two steps; a failure of
either returns NULL after the same clean-up).  gzip and zstd own one more resource, the codec state (`z_stream` internals
made by `deflateInit2`/`inflateInit`, the `ZSTD_CCtx`), which their hooks create afresh for the copy and which can fail.

Crash states are explicit: calling a NULL hook, touching a freed object or buffer, freeing twice, indexing past
the allocated size of a buffer.  A crashed heap is absorbing.
-/
namespace Sqfs.Obj

inductive Kind where
  | gzip | xz | lzma | lz4 | zstd
  | fragTable | idTable | metaReader | dirReader | dataReader | xattrReader | file | xattrWriter
  deriving DecidableEq, Repr, Inhabited

def Kind.all : List Kind :=
  [.gzip, .xz, .lzma, .lz4, .zstd, .fragTable, .idTable, .metaReader, .dirReader, .dataReader, .xattrReader, .file, .xattrWriter]

def Kind.name : Kind → String
  | .gzip => "gzip" | .xz => "xz" | .lzma => "lzma" | .lz4 => "lz4" | .zstd => "zstd"
  | .fragTable => "fragtable" | .idTable => "idtable" | .metaReader => "meta" | .dirReader => "dir"
  | .dataReader => "data" | .xattrReader => "xattr" | .file => "file" | .xattrWriter => "xwr"

def Kind.ofName (s : String) : Option Kind := Kind.all.find? (fun k => k.name = s)

inductive Crash where
  | nullHook        -- `obj->destroy(obj)` with `destroy == NULL`
  | useAfterFree    -- access to a freed object or buffer
  | doubleFree
  | overflow        -- index ≥ allocated size of a buffer
  | fuel            -- model artefact: recursion budget exhausted (never reached for the library's object graphs)
  deriving DecidableEq, Repr

def Crash.name : Crash → String
  | .nullHook => "null-call" | .useAfterFree => "use-after-free" | .doubleFree => "double-free"
  | .overflow => "heap-overflow" | .fuel => "fuel"

/-- `cap` = allocated size, `used` = the part the owner has filled, `val` = abstract content: *everything* stored in the
used part (for the string tables of the xattr writer: index, use count and bytes of every bucket; for a cached block:
all `used` bytes). -/
structure Buf where
  cap : Nat
  used : Nat
  val : Nat
  deriving DecidableEq, Repr

structure Obj where
  kind : Kind
  rc : Nat
  destroy : Bool                 -- `destroy != NULL`
  copy : Bool                    -- `copy != NULL`
  bufs : List (Option Nat)       -- owned buffer slots (`none` = NULL pointer); freed by the destroy hook
  views : List (Option Nat)      -- internal pointers into buffers (never freed through them, but dereferenced by operations)
  refs : List (Option Nat)       -- referenced objects, `sqfs_drop`ped by the destroy hook
  deriving DecidableEq, Repr

def upd {α : Type} (f : Nat → α) (i : Nat) (v : α) : Nat → α := fun j => if j = i then v else f j

structure Heap where
  objs : Nat → Option Obj
  bufs : Nat → Option Buf
  nobj : Nat                     -- next fresh object id
  nbuf : Nat                     -- next fresh buffer id
  crash : Option Crash
  budget : Option Nat            -- allocation-failure injection: `some k` = the (k+1)-th allocation from now fails

def Heap.empty : Heap := ⟨fun _ => none, fun _ => none, 0, 0, none, none⟩

def Heap.fail (h : Heap) (c : Crash) : Heap :=
  match h.crash with
  | some _ => h
  | none => { h with crash := some c }

def Heap.ok (h : Heap) : Bool := h.crash.isNone

/-! ### `predef.h` -/

/-- `sqfs_grab` (non-NULL argument) -/
def grab (h : Heap) (id : Nat) : Heap :=
  match h.crash with
  | some _ => h
  | none =>
    match h.objs id with
    | none => h.fail .useAfterFree
    | some o => { h with objs := upd h.objs id (some { o with rc := o.rc + 1 }) }

def grabOpt (h : Heap) : Option Nat → Heap
  | none => h
  | some id => grab h id

def freeBuf (h : Heap) (b : Nat) : Heap :=
  match h.crash with
  | some _ => h
  | none =>
    match h.bufs b with
    | none => h.fail .doubleFree
    | some _ => { h with bufs := upd h.bufs b none }

/-- `free(ptr)`; `free(NULL)` is a no-op -/
def freeSlot (h : Heap) : Option Nat → Heap
  | none => h
  | some b => freeBuf h b

def freeObj (h : Heap) (id : Nat) : Heap :=
  match h.crash with
  | some _ => h
  | none => { h with objs := upd h.objs id none }

/--
`sqfs_drop` (non-NULL argument): `if (refcount <= 1) obj->destroy(obj); else refcount -= 1;`.
Every destroy hook of the library has the same shape: `sqfs_drop` every reference slot, `free` every owned
buffer slot, `free` the object (e.g. `data_reader_destroy`, `xattr_reader_destroy`, `dir_reader_destroy`).
The fuel bounds the nesting of destroy hooks (3 in the library: dir reader → meta reader → file).
-/
def drop : Nat → Heap → Nat → Heap
  | 0, h, _ => h.fail .fuel
  | n + 1, h, id =>
    match h.crash with
    | some _ => h
    | none =>
      match h.objs id with
      | none => h.fail .useAfterFree
      | some o =>
        if o.rc ≤ 1 then
          if o.destroy then
            let h1 := o.refs.foldl (fun h r => r.elim h (drop n h)) h       -- `sqfs_drop(NULL)` is a no-op
            let h2 := o.bufs.foldl freeSlot h1
            freeObj h2 id
          else h.fail .nullHook
        else { h with objs := upd h.objs id (some { o with rc := o.rc - 1 }) }

def dropOpt (n : Nat) (h : Heap) : Option Nat → Heap
  | none => h
  | some id => drop n h id

/-! ### allocation -/

/-- `true` if the next allocation succeeds; consumes one unit of the budget -/
def takeAlloc (h : Heap) : Heap × Bool :=
  match h.budget with
  | none => (h, true)
  | some 0 => ({ h with budget := none }, false)      -- exactly one injected failure
  | some (k + 1) => ({ h with budget := some k }, true)

def allocBuf (h : Heap) (b : Buf) : Heap × Option Nat :=
  let (h, ok) := takeAlloc h
  if ok then ({ h with bufs := upd h.bufs h.nbuf (some b), nbuf := h.nbuf + 1 }, some h.nbuf) else (h, none)

def allocObj (h : Heap) (o : Obj) : Heap × Option Nat :=
  let (h, ok) := takeAlloc h
  if ok then ({ h with objs := upd h.objs h.nobj (some o), nobj := h.nobj + 1 }, some h.nobj) else (h, none)

/-! ### descriptions of copy hooks -/

inductive HeaderInit where
  | init      -- `sqfs_object_init(copy, destroy, copy_fn)`
  | memcpy    -- whole struct copied from the original, header included
  | zeroed    -- `calloc`, header never written: refcount 0, both hooks NULL
  deriving DecidableEq, Repr

inductive BufAct where
  | dup       -- fresh allocation of the original's allocated size, contents copied
  | trim      -- fresh allocation of the *used* size only, contents copied
  | alias     -- pointer copied: both objects own the same buffer
  | garble    -- fresh allocation of the right size whose contents are *not* (all of) the original's — e.g. only a prefix
              -- of a cached block, or string buckets without their use counts (`str_table_copy` must carry them over:
              -- `sqfs_xattr_writer_flush` stores a value out of line iff its count is ≥ 2)
  deriving DecidableEq, Repr

inductive ViewAct where
  | repoint   -- internal pointer re-derived to point into the copy's own buffer
  | stale     -- still points into the original's buffer
  deriving DecidableEq, Repr

inductive RefAct where
  | grab      -- same object, `sqfs_grab`bed
  | deep      -- `sqfs_copy` of the referenced object
  | alias     -- pointer copied without a grab
  deriving DecidableEq, Repr

inductive FailAct where
  | unwind      -- releases exactly what the hook has acquired so far
  | dropSlots   -- `sqfs_drop`s whatever the reference slots of the half-built copy hold (after a memcpy: the original's)
  | freeAliased (slots : List Nat)
                -- like `unwind`, but when duplicating one of the listed buffer slots fails half-way, the cleanup also frees the
                -- parts the half-built duplicate still shares with the original (`str_table_copy` → `str_table_cleanup`)
  deriving DecidableEq, Repr

structure CopyDesc where
  header : HeaderInit
  bufs : List BufAct          -- one per buffer slot
  views : List (ViewAct × Nat) -- per internal pointer: action and the buffer slot it points into
  refs : List RefAct          -- one per reference slot
  refsFirst : Bool            -- deep copies happen before the buffers are duplicated: only decides which model step an injected
                              -- failure hits — no observable consequence, not compared with the code
  capAware : Bool             -- the kind records the allocated size next to the pointer and honours it (`array_t.count`)
  onFail : FailAct
  deriving DecidableEq, Repr

/-- A hook description is well-formed when the hook writes the object header, gives the copy its own buffers,
re-derives every internal pointer, holds every reference either by a grab or through a deep copy, and — when it
sizes a fresh buffer by the used part only — belongs to a kind that records that size; its failure path releases
exactly what it acquired. -/
def WfDesc (d : CopyDesc) : Prop :=
  d.header ≠ .zeroed ∧ (∀ a ∈ d.bufs, a ≠ .alias) ∧ (∀ v ∈ d.views, v.1 = .repoint) ∧ (∀ r ∈ d.refs, r ≠ .alias) ∧
  (.trim ∈ d.bufs → d.capAware = true) ∧ d.onFail = .unwind ∧ (∀ a ∈ d.bufs, a ≠ .garble)

instance (d : CopyDesc) : Decidable (WfDesc d) := by unfold WfDesc; infer_instance

/-- The hooks as they are in /repo (the last buffer slot of every kind but the two tables = the struct's plain fields). -/
def desc : Kind → CopyDesc
  | .xz | .lzma | .lz4 => ⟨.memcpy, [.dup], [], [], false, true, .unwind⟩             -- malloc + memcpy: the fields
  | .gzip | .zstd => ⟨.memcpy, [.dup, .dup], [], [], false, true, .unwind⟩            -- codec state (deflateInit2/inflateInit from
                                                                                     -- `opt`, ZSTD_createCCtx; failure → free, NULL); fields
  | .file => ⟨.memcpy, [.dup, .dup], [], [], false, true, .unwind⟩                   -- slot 0 = the descriptor (`dup()`); readonly/size/name
  | .fragTable | .idTable => ⟨.init, [.trim], [], [], false, true, .unwind⟩          -- array_init_copy: capacity := used
  | .metaReader => ⟨.memcpy, [.dup], [], [.grab, .grab], false, true, .unwind⟩        -- start … offset, data[]; file, cmp
  | .dirReader => ⟨.memcpy, [.dup, .dup], [], [.deep, .deep], false, true, .unwind⟩   -- dcache nodes, super/flags; meta_inode, meta_dir
  | .dataReader => ⟨.memcpy, [.dup, .dup, .dup], [], [.deep, .grab, .grab], true, false, .unwind⟩
      -- data_block, frag_block, (tags, *_blk_size, block_size); frag_tbl, file, cmp
  | .xattrReader => ⟨.memcpy, [.dup, .dup], [], [.deep, .deep], true, true, .unwind⟩  -- id_block_starts, counters; kvrd, idrd
  | .xattrWriter => ⟨.memcpy, [.trim, .trim, .trim, .dup, .dup], [(.repoint, 3), (.repoint, 3), (.repoint, 4)], [], false, true, .unwind⟩
      -- key bucket array, value bucket array, pair array, block tree, the struct's own fields (reached through
      -- `kv_block_tree.key_context`); kv_block_first, kv_block_last, tree.key_context

/-- The hooks as they were before the `fix:` commits (D6, D7, D23 and the data reader's buffer size). -/
def descCurrent : Kind → CopyDesc
  | .fragTable | .idTable => ⟨.zeroed, [.trim], [], [], false, true, .unwind⟩
  | .dataReader => ⟨.memcpy, [.trim, .trim, .dup], [], [.deep, .grab, .grab], true, false, .unwind⟩
  | .xattrReader => ⟨.memcpy, [.dup, .dup], [], [.deep, .deep], true, true, .dropSlots⟩
  | .xattrWriter => ⟨.memcpy, [.trim, .trim, .trim, .dup, .dup], [(.stale, 3), (.repoint, 3), (.stale, 4)], [], false, true, .freeAliased [0, 1]⟩
  | k => desc k

/-! ### the copy hooks -/

def listGet {α : Type} (l : List (Option α)) (i : Nat) : Option α := (l[i]?).join

/-- prepend a finished slot to the result of the remaining slots -/
def consSlot (s : Option Nat) (r : Heap × List (Option Nat) × Bool) : Heap × List (Option Nat) × Bool :=
  (r.1, s :: r.2.1, r.2.2)

/-- duplicate the buffer slots; result: heap, new slots, `false` if an allocation failed (then the list is the
prefix finished so far) -/
def copyBufs (h : Heap) : List (Option Nat) → List BufAct → Heap × List (Option Nat) × Bool
  | [], _ => (h, [], true)
  | _ :: _, [] => (h, [], true)
  | none :: bs, _ :: as => consSlot none (copyBufs h bs as)
  | some b :: bs, a :: as =>
    if a = .alias then consSlot (some b) (copyBufs h bs as)
    else
      match h.bufs b with
      | none => (h.fail .useAfterFree, [], false)
      | some bf =>
        if a = .trim ∧ bf.used = 0 then
          -- `array_init(dst, size, 0)`: nothing is allocated, the copy's pointer is NULL
          consSlot none (copyBufs h bs as)
        else
          match allocBuf h (if a = .trim then ⟨bf.used, bf.used, bf.val⟩ else if a = .garble then ⟨bf.cap, bf.used, bf.val + 1⟩ else bf) with
          | (h1, none) => (h1, [], false)
          | (h1, some id) => consSlot (some id) (copyBufs h1 bs as)

def freeSlots (h : Heap) (l : List (Option Nat)) : Heap := l.foldl freeSlot h

/-- reference slots, in order; a `deep` slot whose sub-copy fails stops the hook.  `cp` is `sqfs_copy` one level down.
On failure the returned list is the prefix acquired so far. -/
def copyRefs (cp : Heap → Nat → Heap × Option Nat) : Heap → List (Option Nat) → List RefAct → Heap × List (Option Nat) × Bool
  | h, [], _ => (h, [], true)
  | h, _ :: _, [] => (h, [], true)
  | h, none :: rs, _ :: as => consSlot none (copyRefs cp h rs as)
  | h, some x :: rs, a :: as =>
    match a with
    | .alias => consSlot (some x) (copyRefs cp h rs as)
    | .grab => consSlot (some x) (copyRefs cp (grab h x) rs as)
    | .deep =>
      match cp h x with
      | (h1, none) => (h1, [], false)
      | (h1, some y) => consSlot (some y) (copyRefs cp h1 rs as)

/-- an internal pointer of the copy: left as it is (`stale`) or re-derived to point into the copy's buffer slot -/
def repointView (nb : List (Option Nat)) (p : Option Nat × ViewAct × Nat) : Option Nat :=
  match p.2.1 with
  | .stale => p.1
  | .repoint => match p.1 with | none => none | some _ => listGet nb p.2.2

def repointViews (views : List (Option Nat)) (dv : List (ViewAct × Nat)) (nb : List (Option Nat)) : List (Option Nat) :=
  (views.zip dv).map (repointView nb)

/-- the struct is filled in; `sqfs_copy` then sets `refcount = 1` -/
def finishCopy (d : CopyDesc) (h : Heap) (o : Obj) (nb nr : List (Option Nat)) : Heap × Option Nat :=
  let views := repointViews o.views d.views nb
  let (dst, cp) := match d.header with
    | .init => (true, true)
    | .memcpy => (o.destroy, o.copy)
    | .zeroed => (false, false)
  let c : Obj := { kind := o.kind, rc := 1, destroy := dst, copy := cp, bufs := nb, views := views, refs := nr }
  -- the struct was allocated (and counted) first; placing it in the heap needs no budget
  ({ h with objs := upd h.objs h.nobj (some c), nobj := h.nobj + 1 }, some h.nobj)

/-- failure path of a hook: `nr`/`nb` are the slots acquired so far (prefixes of the full lists).
The `sqfs_drop`s of the failure path get `h.nobj` as fuel, which exceeds every object id. -/
def failPath (d : CopyDesc) (h : Heap) (o : Obj) (nr nb : List (Option Nat)) : Heap :=
  -- what the hook has acquired: grabbed or deep-copied references, freshly allocated buffers
  let acquired := (nr.zip (o.refs.zip d.refs)).filterMap fun (x, (_, act)) => if act = .alias then none else x
  let freshB := (nb.zip o.bufs).filterMap fun (x, orig) => if x ≠ orig then x else none
  match d.onFail with
  | .unwind =>
    -- drop the deep copies made so far, give back the grabs, free the fresh buffers
    freshB.foldl freeBuf (acquired.foldl (drop h.nobj) h)
  | .freeAliased slots =>
    let h2 := freshB.foldl freeBuf (acquired.foldl (drop h.nobj) h)
    -- the slot whose duplication failed is `o.bufs[nb.length]`
    if nb.length ∈ slots then freeSlot h2 (listGet o.bufs nb.length) else h2
  | .dropSlots =>
    -- after `memcpy` the slots not yet replaced still hold the original's pointers; a failed sub-copy stored NULL
    let slots := nr ++ [none] ++ o.refs.drop (nr.length + 1)
    freshB.foldl freeBuf (slots.reverse.foldl (dropOpt h.nobj) h)

/-- `sqfs_copy`: `if (orig->copy != NULL) { copy = orig->copy(orig); if (copy) copy->refcount = 1; }` -/
def sqfsCopy (D : Kind → CopyDesc) : Nat → Heap → Nat → Heap × Option Nat
  | 0, h, _ => (h.fail .fuel, none)
  | n + 1, h, id =>
    match h.crash with
    | some _ => (h, none)
    | none =>
      match h.objs id with
      | none => (h.fail .useAfterFree, none)
      | some o =>
        if !o.copy then (h, none)
        else
          let d := D o.kind
          -- allocation of the struct itself comes first in every hook
          match takeAlloc h with
          | (h0, false) => (h0, none)
          | (h0, true) =>
            -- the order of the two groups follows the source (`refsFirst`)
            if d.refsFirst then
              match copyRefs (sqfsCopy D n) h0 o.refs d.refs with
              | (h1, nr, false) => (failPath d h1 o nr [], none)
              | (h1, nr, true) =>
                match copyBufs h1 o.bufs d.bufs with
                | (h2, nb, false) => (failPath d h2 o nr nb, none)
                | (h2, nb, true) => finishCopy d h2 o nb nr
            else
              match copyBufs h0 o.bufs d.bufs with
              | (h1, nb, false) => (failPath d h1 o [] nb, none)
              | (h1, nb, true) =>
                match copyRefs (sqfsCopy D n) h1 o.refs d.refs with
                | (h2, nr, false) => (failPath d h2 o nr nb, none)
                | (h2, nr, true) => finishCopy d h2 o nb nr

/-- `sqfs_drop` / `sqfs_copy` as the user calls them: the recursion budget is the number of object ids, which
bounds the depth of any object graph whose references go to smaller ids (`Sqfs.Proofs.ObjBal`) -/
def sqfsDrop (h : Heap) (x : Nat) : Heap := drop h.nobj h x
def sqfsCopyTop (D : Kind → CopyDesc) (h : Heap) (x : Nat) : Heap × Option Nat := sqfsCopy D h.nobj h x

/-! ### constructors (`sqfs_*_create`): header through `sqfs_object_init`, references grabbed -/

/-- kind of the object a `deep` reference slot of `k` points to -/
def subKind : Kind → Nat → Option Kind
  | .dataReader, 0 => some .fragTable
  | .dirReader, 0 | .dirReader, 1 => some .metaReader
  | .xattrReader, 0 | .xattrReader, 1 => some .metaReader
  | _, _ => none

/-- place a fully initialised object (`sqfs_object_init`: refcount 1, both hooks set) -/
def newObj (h : Heap) (k : Kind) (bufs views refs : List (Option Nat)) : Heap × Nat :=
  ({ h with objs := upd h.objs h.nobj (some ⟨k, 1, true, true, bufs, views, refs⟩), nobj := h.nobj + 1 }, h.nobj)

def newBuf (h : Heap) (b : Buf) : Heap × Nat :=
  ({ h with bufs := upd h.bufs h.nbuf (some b), nbuf := h.nbuf + 1 }, h.nbuf)

/-- the struct's plain fields as the constructor leaves them -/
def fieldsBuf : Buf := ⟨1, 1, 0⟩

/-- `sqfs_meta_reader_create(file, cmp, …)` -/
def newMetaReader (h : Heap) (file cmp : Nat) : Heap × Nat :=
  let (h, fb) := newBuf (grab (grab h file) cmp) fieldsBuf
  newObj h .metaReader [some fb] [] [some file, some cmp]

/-- the object as its constructor leaves it (no cached buffers yet); `file`/`cmp` are ignored by kinds without references -/
def construct (h : Heap) (k : Kind) (file cmp : Nat) : Heap × Nat :=
  match k with
  | .xz | .lzma | .lz4 => let (h, fb) := newBuf h fieldsBuf; newObj h k [some fb] [] []
  | .gzip | .zstd =>
    let (h, st) := newBuf h ⟨1, 1, 0⟩                          -- deflateInit2 / inflateInit / ZSTD_createCCtx
    let (h, fb) := newBuf h fieldsBuf
    newObj h k [some st, some fb] [] []
  | .file =>
    let (h, fd) := newBuf h ⟨1, 1, 0⟩
    let (h, fb) := newBuf h fieldsBuf
    newObj h k [some fd, some fb] [] []
  | .fragTable | .idTable => newObj h k [none] [] []
  | .metaReader => newMetaReader h file cmp
  | .dirReader =>
    let (h, mi) := newMetaReader h file cmp
    let (h, md) := newMetaReader h file cmp
    let (h, fb) := newBuf h fieldsBuf
    newObj h k [none, some fb] [] [some mi, some md]
  | .dataReader =>
    let (h, ft) := newObj h .fragTable [none] [] []
    let (h, fb) := newBuf (grab (grab h file) cmp) fieldsBuf
    newObj h k [none, none, some fb] [] [some ft, some file, some cmp]
  | .xattrReader =>
    let (h, fb) := newBuf h fieldsBuf
    newObj h k [none, some fb] [] [none, none]                -- `sqfs_xattr_reader_create`; `load` fills the slots
  | .xattrWriter =>
    let (h, pairs) := newBuf h ⟨8, 0, 0⟩                       -- array_init(&kv_pairs, 8, XATTR_INITIAL_PAIR_CAP)
    let (h, self) := newBuf h ⟨1, 1, 0⟩                        -- the struct's own fields as seen through key_context
    newObj h k [none, none, some pairs, none, some self] [none, none, some self] []

/-! ### operations that dereference an object's buffers (abstract) -/

/-- an operation on object `id` reads/writes its struct, all its buffer slots and its internal pointers -/
def touch (h : Heap) (id : Nat) : Heap :=
  match h.crash with
  | some _ => h
  | none =>
    match h.objs id with
    | none => h.fail .useAfterFree
    | some o =>
      if (o.bufs ++ o.views).all (fun s => match s with | none => true | some b => (h.bufs b).isSome) then h
      else h.fail .useAfterFree

/-- an operation that stores `v` through buffer slot / view `slot` (views are numbered after the buffer slots) -/
def writeSlot (h : Heap) (id slot v : Nat) : Heap :=
  match h.crash with
  | some _ => h
  | none =>
    match h.objs id with
    | none => h.fail .useAfterFree
    | some o =>
      match listGet (o.bufs ++ o.views) slot with
      | none => h
      | some b =>
        match h.bufs b with
        | none => h.fail .useAfterFree
        | some bf => { h with bufs := upd h.bufs b (some { bf with val := v }) }

/-- an operation that indexes buffer slot `slot` at `idx` (`idx <` the size the kind believes the buffer has) -/
def indexSlot (h : Heap) (id slot idx : Nat) : Heap :=
  match h.crash with
  | some _ => h
  | none =>
    match h.objs id with
    | none => h.fail .useAfterFree
    | some o =>
      match listGet (o.bufs ++ o.views) slot with
      | none => h
      | some b =>
        match h.bufs b with
        | none => h.fail .useAfterFree
        | some bf => if idx < bf.cap then h else h.fail .overflow

/-- what an owner sees through one slot: nothing through a NULL pointer or in a buffer whose used part is empty -/
def slotVal (h : Heap) : Option Nat → Option Nat
  | none => none
  | some b => (h.bufs b).bind fun bf => if bf.used = 0 then none else some bf.val

/-- what an object can observe of its own buffers: the contents of every slot and of every internal pointer -/
def view (h : Heap) (id : Nat) : Option (List (Option Nat)) :=
  (h.objs id).map fun o => (o.bufs ++ o.views).map (slotVal h)


/-! ### operations that reshape an object's own buffers, and histories that mix operations, grabs and releases

What an operation of a kind can do to memory, seen from the heap: store through an own pointer (`writeSlot`), replace
an own buffer by a fresh one (`reallocSlot`: `array_append` growing by `realloc`, `precache_data_block` = `free` +
`get_block`, a first block entering an empty cache), give an own buffer back (`releaseSlot`:
`sqfs_data_reader_load_fragment_table` dropping the cached fragment block, `array_cleanup`). Allocation failure inside an
operation is not modelled (the operation fails and leaves the object as it was). -/

/-- pointer fix-up after a buffer moved or went away -/
def rep (old : Nat) (new : Option Nat) (s : Option Nat) : Option Nat := if s = some old then new else s

/-- buffer slot `slot` of object `id` gets a fresh buffer `bf`; the buffer it held (if any) is freed after the move and the
internal pointers into it follow (`malloc`, copy, `free` — what `realloc` may do) -/
def reallocSlot (h : Heap) (id slot : Nat) (bf : Buf) : Heap :=
  match h.crash with
  | some _ => h
  | none =>
    match h.objs id with
    | none => h.fail .useAfterFree
    | some o =>
      if slot < o.bufs.length then
        let h1 : Heap := { h with bufs := upd h.bufs h.nbuf (some bf), nbuf := h.nbuf + 1 }
        match listGet o.bufs slot with
        | none => { h1 with objs := upd h1.objs id (some { o with bufs := o.bufs.set slot (some h.nbuf) }) }
        | some old =>
          freeBuf { h1 with objs := upd h1.objs id (some { o with bufs := o.bufs.map (rep old (some h.nbuf)),
                                                                  views := o.views.map (rep old (some h.nbuf)) }) } old
      else h

/-- buffer slot `slot` of object `id` is freed and set to NULL, together with the internal pointers into it -/
def releaseSlot (h : Heap) (id slot : Nat) : Heap :=
  match h.crash with
  | some _ => h
  | none =>
    match h.objs id with
    | none => h.fail .useAfterFree
    | some o =>
      match listGet o.bufs slot with
      | none => h
      | some old =>
        freeBuf { h with objs := upd h.objs id (some { o with bufs := o.bufs.map (rep old none), views := o.views.map (rep old none) }) } old

inductive SlotOp where
  | store (slot v : Nat)
  | realloc (slot : Nat) (bf : Buf)
  | release (slot : Nat)
  deriving DecidableEq, Repr

def applyOp (h : Heap) (x : Nat) : SlotOp → Heap
  | .store s v => writeSlot h x s v
  | .realloc s bf => reallocSlot h x s bf
  | .release s => releaseSlot h x s

/-- what the user of the library does with the objects it holds -/
inductive Ev where
  | op (x : Nat) (w : SlotOp)      -- an operation on object `x`
  | grab (x : Nat)                 -- `sqfs_grab(x)`
  | drop (x : Nat)                 -- `sqfs_drop(x)`
  deriving DecidableEq, Repr

def Ev.target : Ev → Nat
  | .op x _ => x | .grab x => x | .drop x => x

def Ev.apply (h : Heap) : Ev → Heap
  | .op x w => applyOp h x w
  | .grab x => Sqfs.Obj.grab h x
  | .drop x => sqfsDrop h x

/-- the references the user holds after the event -/
def Ev.user (U : Nat → Nat) : Ev → Nat → Nat
  | .op _ _ => U
  | .grab x => fun y => if y = x then U x + 1 else U y
  | .drop x => fun y => if y = x then U x - 1 else U y

/-- the user only touches objects it holds a reference to at that moment -/
def Admissible : (Nat → Nat) → List Ev → Prop
  | _, [] => True
  | U, e :: es => 1 ≤ U e.target ∧ Admissible (e.user U) es

def runEvs (h : Heap) (es : List Ev) : Heap := es.foldl Ev.apply h
def userAfter (U : Nat → Nat) (es : List Ev) : Nat → Nat := es.foldl Ev.user U

end Sqfs.Obj
