/-
C01 — from the post-processed tree to the inode and directory streams: `sqfs_serialize_fstree`,
`serialize_tree_node`, `write_dir_entries`, `tree_node_to_inode` (`lib/common/src/writer/serialize_fstree.c`) on top of
`fstree_post_process` (`Sqfs.FsTree.postProcess`, C11: link counts, inode numbers incl. `reorder_hard_links`, the order
`fs->inodes`), and the walk a reader makes from the root reference.

Metadata is modelled uncompressed (every flushed block costs `8192 + 2` bytes; that is what the unit harness uses, and
what `Sqfs.EncMeta.refOfPos` generalises): `rawRef p` is the reference `sqfs_meta_writer_get_position` reports at stream
position `p`, `rawPos` its inverse.

* `serializeNode` — one iteration of the loop of `sqfs_serialize_fstree` (:186-190) on explicit inputs (`NodeIn`: what the
  C code reads from the `tree_node_t` and, for a directory, from its children: name, `inode_num`, `inode_ref`, `mode` of
  the entry's target);
* `serializeTree` — the loop over `fs->inodes`, with the `inode_ref`s assigned on the way;
* `readTree` — `sqfs_dir_reader_get_root_inode`, then recursively `open_dir` / `read` / `get_inode`.
-/
import Sqfs.Model.EncDir
import Sqfs.Model.EncMeta
import Sqfs.Model.IdTable
import Sqfs.Model.FsTree
namespace Sqfs.Enc
open Sqfs.Consts
open Sqfs.DirWriter (DEnt addEntry AddResult dirEnd encodeRun createInode)

/-- reference of stream position `p` when no metadata block is ever compressed -/
def rawRef (p : Nat) : Nat := ((p / metaBlockSize * (metaBlockSize + 2)) <<< 16) ||| (p % metaBlockSize)

/-- where a seek to `ref` lands in the flat stream (`none`: not the start of a block / offset out of range) -/
def rawPos (ref : Nat) : Option Nat :=
  let b := ref >>> 16
  let o := ref % 65536
  if b % (metaBlockSize + 2) = 0 ∧ o < metaBlockSize then some (b / (metaBlockSize + 2) * metaBlockSize + o) else none

/-- what `serialize_tree_node` finds for the three classes of nodes -/
inductive NodeKind where
  /-- `write_dir_entries`: per child `(name, tgt->inode_num, tgt->inode_ref, tgt->mode)`, `tgt` = the hard link's target -/
  | dir (ents : List (Bytes × Nat × Nat × Nat))
  /-- `n->data.file.inode` as the block processor left it -/
  | reg (inode : Inode)
  /-- `tree_node_to_inode`: device number, symlink target -/
  | other (devno : Nat) (target : Bytes)
  deriving Repr

def NodeKind.isDir : NodeKind → Bool | .dir _ => true | _ => false
def NodeKind.isReg : NodeKind → Bool | .reg _ => true | _ => false

structure NodeIn where
  attr : NodeAttr
  uid : Nat
  gid : Nat
  /-- `node->parent->inode_num`, 0 for the root -/
  parentInum : Nat
  kind : NodeKind
  deriving Repr

/-- the writer between two nodes: inode stream (`wr->im`), directory stream (`wr->dm`), id table -/
structure TreeSt where
  inodes : Bytes := []
  dirs : Bytes := []
  ids : List Nat := []
  deriving Repr, DecidableEq

/-- `sqfs_dir_writer_add_entry` for every child, fail-stop (serialize_fstree.c:74-86) -/
def addAllEntries : List (Bytes × Nat × Nat × Nat) → Except Status (List DEnt)
  | [] => .ok []
  | (nm, n, r, m) :: rest =>
    match addEntry nm n r m with
    | .ok e => match addAllEntries rest with | .ok l => .ok (e :: l) | .error s => .error s
    | .unsupported => .error errUnsupported
    | .argInvalid => .error errArgInvalid

/-- the block cost of uncompressed metadata -/
def rawCost : Nat := metaBlockSize + 2

/-- the second half of `serialize_tree_node` (serialize_fstree.c:142-168), once `inode` exists -/
def serializeStep (st : TreeSt) (n : NodeIn) (i0 : Inode) (dirs : Bytes) : Except Status TreeSt :=
  let i1 := serializeInode n.kind.isDir n.kind.isReg n.attr i0                              -- :142-149
  match Sqfs.IdTable.step Sqfs.IdTable.limit st.ids n.uid with                               -- :151
  | none => .error errOverflow
  | some (ui, ids1) =>
    match Sqfs.IdTable.step Sqfs.IdTable.limit ids1 n.gid with                               -- :156
    | none => .error errOverflow
    | some (gi, ids2) =>
      .ok { inodes := st.inodes ++ encInode (setIds ui gi i1), dirs := dirs, ids := ids2 }   -- :161-164

/-- the directory inode `write_dir_entries` (serialize_fstree.c:60-108) builds for the accepted entries `des` when the
directory meta writer holds `dpos` bytes -/
def dirInodeOf (dpos : Nat) (n : NodeIn) (des : List DEnt) : Inode :=
  let blk := dpos / metaBlockSize * rawCost
  let off := dpos % metaBlockSize
  setDirNlink n.attr.linkCount
    (DirInode.toInode (createInode ((blk <<< 16) ||| off) (dirEnd rawCost blk off des) des.length 0 n.attr.xattrIdx n.parentInum))

/-- `serialize_tree_node` (serialize_fstree.c:110-168) -/
def serializeNode (st : TreeSt) (n : NodeIn) : Except Status TreeSt :=
  match n.kind with
  | .dir ents =>                                                                               -- write_dir_entries
    match addAllEntries ents with
    | .error _ => .error errInternal      -- :114-115, :136: `write_dir_entries` reports the cause, the caller sees NULL
    | .ok des =>
      serializeStep st n (dirInodeOf st.dirs.length n des)
        (st.dirs ++ encListing rawCost (st.dirs.length / metaBlockSize * rawCost) (st.dirs.length % metaBlockSize) des)
  | .reg inode => serializeStep st n inode st.dirs
  | .other devno target =>
    match treeNodeToInode n.attr.mode n.attr.linkCount devno target with
    | none => .error errInternal                                                               -- assert(0)
    | some i0 => serializeStep st n i0 st.dirs

/-! ### the whole tree -/

open Sqfs.FsTree (TNode Path) in
/-- what the serializer needs beyond the tree: per node the xattr index (`n->xattr_idx`, from the xattr writer) and
for regular files the inode the block processor produced -/
structure TreeExtra where
  xattrOf : Path → Nat
  fileInode : Path → Inode

open Sqfs.FsTree in
/-- the node behind a directory entry: a hard link stands for its resolved target -/
def entryTarget (dirPath : Path) (c : TNode) : Path :=
  if c.isHardLink then
    match c.attr.extra with
    | .link _ (some tgt) => tgt
    | _ => dirPath ++ [c.name]
  else dirPath ++ [c.name]

def lookupRef (refs : List (Sqfs.FsTree.Path × Nat)) (p : Sqfs.FsTree.Path) : Nat :=
  match refs.find? (fun e => e.1 == p) with
  | some e => e.2
  | none => 0                                                            -- calloc: `inode_ref` not assigned yet

open Sqfs.FsTree in
/-- the `NodeIn` of the node at `path` (inode number = position in `inodes` + 1) -/
def nodeIn (root : TNode) (inodes : List Path) (x : TreeExtra) (refs : List (Path × Nat)) (path : Path) (n : TNode) : NodeIn :=
  let inumOf (p : Path) : Nat := indexOf p inodes + 1
  let a : NodeAttr := ⟨n.attr.mode, n.attr.modTime, inumOf path, n.attr.linkCount, x.xattrOf path⟩
  let parentInum := match path with | [] => 0 | _ => inumOf path.dropLast
  let kind : NodeKind :=
    if n.isDir then
      .dir (n.children.map (fun c =>
        let tp := entryTarget path c
        let tmode := match lookup root tp with | some t => t.attr.mode | none => 0
        (c.name, inumOf tp, lookupRef refs tp, tmode)))
    else if isType n.attr.mode sIFREG then .reg (x.fileInode path)
    else .other n.attr.rdev (match n.attr.extra with | .str s => s | _ => [])
  ⟨a, n.attr.uid, n.attr.gid, parentInum, kind⟩

structure TreeOut where
  st : TreeSt
  refs : List (Sqfs.FsTree.Path × Nat)
  rootRef : Nat
  inodeCount : Nat
  deriving Repr

open Sqfs.FsTree in
/-- the loop of `sqfs_serialize_fstree` (:186-190) -/
def serializeGo (root : TNode) (inodes : List Path) (x : TreeExtra) : List Path → TreeSt → List (Path × Nat) →
    Except Status (TreeSt × List (Path × Nat))
  | [], st, refs => .ok (st, refs)
  | p :: rest, st, refs =>
    match lookup root p with
    | none => .error errInternal
    | some n =>
      match serializeNode st (nodeIn root inodes x refs p n) with
      | .error e => .error e
      | .ok st' => serializeGo root inodes x rest st' ((p, rawRef st.inodes.length) :: refs)   -- :158-159 n->inode_ref

open Sqfs.FsTree in
/-- `sqfs_serialize_fstree` after `fstree_post_process` -/
def serializeTree (r : Result) (x : TreeExtra) : Except Status TreeOut :=
  match serializeGo r.tree r.inodes x r.inodes {} [] with
  | .error e => .error e
  | .ok (st, refs) => .ok ⟨st, refs, lookupRef refs [], r.inodes.length⟩

/-! ### reading the tree back -/

/-- one node as a reader finds it: its name in the parent, the inode, the entries below it -/
inductive RNode where
  | mk (name : Bytes) (inode : Inode) (children : List RNode)
  deriving Repr

/-- `sqfs_dir_reader_get_inode(ref)` on the flat inode stream -/
def getInode (bs : Nat) (inodes : Bytes) (ref : Nat) : Except Status Inode :=
  match rawPos ref with
  | none => .error errOutOfBounds
  | some p => if p ≥ inodes.length then .error errOutOfBounds else
    match decInode bs (inodes.drop p) with
    | .ok (i, _) => .ok i
    | .error e => .error e

/-- position of a directory's listing in the flat directory stream -/
def dirPos (i : Inode) : Option Nat :=
  match i with
  | .dir _ sb _ _ off _ => rawPos ((sb <<< 16) ||| off)
  | .dirExt _ _ _ sb _ _ off _ _ => rawPos ((sb <<< 16) ||| off)
  | _ => none

/-- the entries of the directory inode `i` -/
def listDir (st : TreeSt) (i : Inode) : Except Status (List DirEntry) :=
  match dirPos i with
  | none => .error errOutOfBounds
  | some p =>
    match openDir i (st.dirs.drop p) with
    | none => .error errNotDir
    | some s => readListing s

/-- read the nodes behind a list of directory entries and, for directories, everything below them.  One unit of
fuel per node visited (the number of inodes + 1 suffices for a tree; a loop runs out of fuel: `SQFS_ERROR_LINK_LOOP`) -/
def readNodes (bs : Nat) (st : TreeSt) : Nat → List DirEntry → Except Status (List RNode)
  | _, [] => .ok []
  | 0, _ :: _ => .error errLinkLoop
  | f + 1, e :: rest =>
    match getInode bs st.inodes e.ref with
    | .error er => .error er
    | .ok i =>
      let below : Except Status (List RNode) :=
        if i.typeBits = sIFDIR then
          match listDir st i with
          | .error er => .error er
          | .ok ents => readNodes bs st f ents
        else .ok []
      match below with
      | .error er => .error er
      | .ok cs =>
        match readNodes bs st f rest with
        | .ok l => .ok (.mk e.name i cs :: l)
        | .error er => .error er

/-- the walk from the root reference -/
def readTree (bs : Nat) (out : TreeOut) (fuel : Nat) : Except Status RNode :=
  match readNodes bs out.st fuel [⟨[], 0, 0, out.rootRef⟩] with
  | .ok [n] => .ok n
  | .ok _ => .error errInternal
  | .error e => .error e

end Sqfs.Enc
