/-
C07 — model of `read_header` (`lib/tar/src/read_header.c`): the `for (;;)` loop over 512-byte records, the
implementation limits on extension records, `record_to_memory`, `decode_header`, the sparse-map sanity test.

As in `ParseTotal*.lean`, every read of a header field is a checked access into the 512-byte object `hdr`
(`.oob` = outside it) and the loop carries fuel (`.spin` = still running).  The input stream is the list of bytes it can
still deliver (`sqfs_istream_read` = `take`, short at the end; `sqfs_istream_skip` fails when the data ends early,
stream_api.c).  Every size handed to `record_to_memory` (which `malloc`s `size + 1` bytes) is recorded in `allocs`.

Failure classes (`fail c`) are named after the diagnostic the C code prints, which the harness reads off stderr:
   0 no diagnostic (old GNU sparse map empty; LIBARCHIVE.xattr base-64)   1 "unexpected end of input inside a tar header"
   2 "input is not a ustar tar archive"   3 "invalid tar header checksum"   4/5/6 "rejecting GNU symlink / GNU long path /
   PAX header with size …"   7 "sparse file map does not fit the size of the record"   8 "numeric overflow parsing tar
   header" (a field other than the checksum)   9 "Reading tar record: unexpected end-of-file"   11–14 the PAX classes 1–4
   of `readPaxHeader`   15 "Malformed GNU 1.0 style sparse file map"   16 "reading GNU sparse header: unexpected
   end-of-file"   17 "skipping tar padding"   18 "skipping padding" (global PAX header)

Not modelled: `devno` (the two fields are read — an overflow there is a failure — but `makedev` is not computed);
allocation failure; I/O errors of the stream.
-/
import Sqfs.Model.ParseTotalTar
namespace Sqfs.ParseTotal

/-- `strndup(buf + i, n)` / `strnlen`: the bytes before the first NUL, at most `n`, each read checked -/
def strnAt (buf : Bytes) : Nat → Nat → R Bytes
  | _, 0 => .ok []
  | i, n + 1 =>
    match buf[i]? with
    | none => .oob
    | some c =>
      if c.toNat = 0 then .ok []
      else match strnAt buf (i + 1) n with
        | .ok t => .ok (c :: t)
        | e => e

inductive TarVersion | v7 | posix | prePosix
  deriving DecidableEq, Repr

/-- `check_version`: `memcmp` of `magic` (257, 6 bytes) and `version` (263, 2 bytes); `none` = `ETV_UNKNOWN` -/
def checkVersion (hdr : Bytes) : Option TarVersion :=
  let magic := (hdr.drop 257).take 6
  let version := (hdr.drop 263).take 2
  if magic = [0, 0, 0, 0, 0, 0] ∧ version = [0, 0] then some .v7
  else if magic = [117, 115, 116, 97, 114, 0] ∧ version = [48, 48] then some .posix          -- "ustar\0" "00"
  else if magic = [117, 115, 116, 97, 114, 32] ∧ version = [32, 0] then some .prePosix       -- "ustar " " \0"
  else none

def byteSum (l : Bytes) : Nat := l.foldl (fun a b => a + b.toNat) 0

/-- `tar_compute_checksum`: all 512 bytes as unsigned values, the `chksum` field (148, 8 bytes) counted as blanks -/
def computeChecksum (hdr : Bytes) : Nat := (byteSum (hdr.take 148) + 8 * 32 + byteSum (hdr.drop 156)) % 4294967296

/-- `is_checksum_valid`; a `chksum` field that does not parse is an invalid checksum -/
def checksumValid (hdr : Bytes) : R Bool :=
  match readNumber hdr 148 8 with
  | .ok v => .ok (v = computeChecksum hdr)
  | .fail _ => .ok false
  | .oob => .oob
  | .spin => .spin

/-- what `read_header` hands back (`tar_header_decoded_t` without `devno`) -/
structure TarHdr where
  name : Bytes
  link : Option Bytes
  mode : Nat
  uid : Nat
  gid : Nat
  mtime : Int
  recordSize : Nat
  actualSize : Nat
  sparse : List SparseEnt
  xattr : List Xattr
  unknown : Bool
  hardLink : Bool
  deriving Repr

def hasFlag (flags bit : Nat) : Bool := flags &&& bit ≠ 0

def S_IFREG := 0o100000
def S_IFDIR := 0o040000
def S_IFLNK := 0o120000
def S_IFCHR := 0o020000
def S_IFBLK := 0o060000
def S_IFIFO := 0o010000

/-- a numeric header field: `read_number(hdr->f, sizeof(hdr->f), …)`, failure = class 8 -/
def field (hdr : Bytes) (off len : Nat) : R Nat :=
  match readNumber hdr off len with
  | .ok v => .ok v
  | .fail _ => .fail 8
  | .oob => .oob
  | .spin => .spin

def rbind {α β : Type} (r : R α) (f : α → R β) : R β :=
  match r with
  | .ok a => f a
  | .fail c => .fail c
  | .oob => .oob
  | .spin => .spin

/-- `decode_header(hdr, set_by_pax, out, version)`; `o` carries what the extension records have set so far -/
def decodeHeader (hdr : Bytes) (o : PaxOut) (v : TarVersion) : R TarHdr :=
  -- name: `prefix` + '/' + `name` for POSIX headers with a non-empty prefix, else `strndup(name, 100)`
  let nameR : R Bytes :=
    if hasFlag o.flags PAX_NAME then .ok (o.name.getD [])
    else match hdr[345]? with
      | none => .oob
      | some p0 =>
        if p0.toNat ≠ 0 ∧ v = .posix then
          rbind (strnAt hdr 0 100) fun n => rbind (strnAt hdr 345 155) fun p => .ok (p ++ [47] ++ n)
        else strnAt hdr 0 100
  rbind nameR fun name =>
  rbind (if hasFlag o.flags PAX_SIZE then .ok o.size else field hdr 124 12) fun size =>
  rbind (if hasFlag o.flags PAX_UID then .ok o.uid else field hdr 108 8) fun uid =>
  rbind (if hasFlag o.flags PAX_GID then .ok o.gid else field hdr 116 8) fun gid =>
  rbind (field hdr 329 8) fun _devmajor =>
  rbind (field hdr 337 8) fun _devminor =>
  rbind (if hasFlag o.flags PAX_MTIME then .ok o.mtime
         else rbind (field hdr 136 12) fun f => .ok (if f ≥ 9223372036854775808 then (f : Int) - 18446744073709551616 else (f : Int))) fun mtime =>
  rbind (field hdr 100 8) fun modeField =>
  match hdr[156]? with
  | none => .oob
  | some tf =>
    let t := tf.toNat
    let linkR : R (Option Bytes) :=
      if t = 49 ∨ t = 50 then
        (if hasFlag o.flags PAX_SLINK_TARGET then .ok o.link else rbind (strnAt hdr 157 100) fun l => .ok (some l))
      else .ok o.link
    rbind linkR fun link =>
    let perm := modeField % 4096
    let mk (mode : Nat) (unknown hard : Bool) : R TarHdr :=
      .ok { name := name, link := link, mode := mode, uid := uid, gid := gid, mtime := mtime, recordSize := size,
            actualSize := o.actual, sparse := o.sparse, xattr := o.xattr, unknown := unknown, hardLink := hard }
    if t = 0 ∨ t = 48 ∨ t = 83 then mk (perm ||| S_IFREG) false false
    else if t = 49 then mk perm false true
    else if t = 50 then mk (S_IFLNK ||| 0o777) false false
    else if t = 51 then mk (perm ||| S_IFCHR) false false
    else if t = 52 then mk (perm ||| S_IFBLK) false false
    else if t = 53 then mk (perm ||| S_IFDIR) false false
    else if t = 54 then mk (perm ||| S_IFIFO) false false
    else mk perm true false

/-- `record_to_memory(fp, size)`: the `size + 1` byte buffer (record and terminator) and the stream behind the padding -/
def recordToMem (stream : Bytes) (size : Nat) : R (Bytes × Bytes) :=
  if stream.length < size then .fail 9
  else
    let rest := stream.drop size
    let pad := if size % 512 = 0 then 0 else 512 - size % 512
    if rest.length < pad then .fail 17 else .ok (stream.take size ++ [0], rest.drop pad)

/-- the C string a `record_to_memory` buffer holds: the bytes before its first NUL.  The buffer ends with the NUL that
`record_to_memory` stores behind the record, so `strlen` / `strdup` on it stay inside by construction (this is the one
place where the model does not spell out the single accesses: a 64 KiB name would cost the list-based `cstr` seconds) -/
def cstrOf (buf : Bytes) : Bytes := buf.takeWhile (· ≠ 0)

/-- `is_sparse_map_sane`: Σ count ≤ record_size, evaluated without overflow -/
def sparseSane (recordSize : Nat) : List SparseEnt → Nat → Bool
  | [], _ => true
  | e :: t, total => if e.count > recordSize - total then false else sparseSane recordSize t (total + e.count)

inductive RHRes
  | ok (h : TarHdr) (rest : Bytes)
  | eof
  | fail (cls : Nat)
  | oob
  | spin
  deriving Repr

structure RHOut where
  res : RHRes
  /-- every `size` passed to `record_to_memory` (`malloc(size + 1)`), most recent first -/
  allocs : List Nat
  deriving Repr

def RHOut.ofR {α : Type} (al : List Nat) (r : R α) (k : α → RHOut) : RHOut :=
  match r with
  | .ok a => k a
  | .fail c => ⟨.fail c, al⟩
  | .oob => ⟨.oob, al⟩
  | .spin => ⟨.spin, al⟩

def paxClass (c : Nat) : Nat := if c = 0 then 0 else 10 + c

/-- the part of `read_header` behind the loop: `decode_header`, the GNU 1.0 map, the sanity test -/
def rhFinish (hdr s : Bytes) (o : PaxOut) (v : TarVersion) (al : List Nat) : RHOut :=
  RHOut.ofR al (decodeHeader hdr o v) fun h =>
  let fin : R (TarHdr × Bytes) :=
    if hasFlag o.flags PAX_SPARSE_GNU_1_X then
      match readGnuNewSparse s h.recordSize with
      | .ok (m, rs, rest) => .ok ({ h with sparse := m, recordSize := rs }, rest)
      | .fail _ => .fail 15
      | .oob => .oob
      | .spin => .spin
    else .ok (h, s)
  RHOut.ofR al fin fun (h, s) =>
  if h.sparse.isEmpty then ⟨.ok { h with actualSize := h.recordSize } s, al⟩
  else if !sparseSane h.recordSize h.sparse 0 then ⟨.fail 7, al⟩
  else ⟨.ok h s, al⟩

/--
The `for (;;)` loop of `read_header`.  `o` = `*out` and `set_by_pax` (`o.flags`) as the extension records seen so far
have left them, `prevZero` = `prev_was_zero`, `al` = the allocations so far.  One 512-byte record is consumed per
round, so `stream.length / 512 + 2` rounds always suffice (`read_header_total`).
-/
def rhLoop : Nat → Bytes → PaxOut → Bool → List Nat → RHOut
  | 0, _, _, _, al => ⟨.spin, al⟩
  | fuel + 1, s, o, prevZero, al =>
    if s.length < Sqfs.Consts.sizeofTarHeader then
      -- `ret < sizeof(hdr)`: trailing garbage shorter than a header is an error, nothing or zeros the end
      (if s.length > 0 ∧ !(s.all (· = 0)) then ⟨.fail 1, al⟩ else ⟨.eof, al⟩)
    else
      let hdr := s.take Sqfs.Consts.sizeofTarHeader
      let s := s.drop Sqfs.Consts.sizeofTarHeader
      if hdr.all (· = 0) then
        (if prevZero then ⟨.eof, al⟩ else rhLoop fuel s o true al)
      else match checkVersion hdr with
        | none => ⟨.fail 2, al⟩
        | some v =>
          RHOut.ofR al (checksumValid hdr) fun okc =>
          if !okc then ⟨.fail 3, al⟩
          else match hdr[156]? with
            | none => ⟨.oob, al⟩
            | some tf =>
              let t := tf.toNat
              if t = 75 then                                            -- 'K' TAR_TYPE_GNU_SLINK
                RHOut.ofR al (field hdr 124 12) fun sz =>
                if sz < 1 ∨ sz > Sqfs.Consts.tarMaxSymlinkLen then ⟨.fail 4, al⟩
                else RHOut.ofR (sz :: al) (recordToMem s sz) fun (buf, s') =>
                  rhLoop fuel s' { o with link := some (cstrOf buf), flags := o.flags ||| PAX_SLINK_TARGET } false (sz :: al)
              else if t = 76 then                                       -- 'L' TAR_TYPE_GNU_PATH
                RHOut.ofR al (field hdr 124 12) fun sz =>
                if sz < 1 ∨ sz > Sqfs.Consts.tarMaxPathLen then ⟨.fail 5, al⟩
                else RHOut.ofR (sz :: al) (recordToMem s sz) fun (buf, s') =>
                  rhLoop fuel s' { o with name := some (cstrOf buf), flags := o.flags ||| PAX_NAME } false (sz :: al)
              else if t = 103 then                                      -- 'g' TAR_TYPE_PAX_GLOBAL: skipped
                RHOut.ofR al (field hdr 124 12) fun sz =>
                let sz' := if sz % 512 ≠ 0 then (sz + (512 - sz % 512)) % U64 else sz
                if s.length < sz' then ⟨.fail 18, al⟩ else rhLoop fuel (s.drop sz') o false al
              else if t = 120 then                                      -- 'x' TAR_TYPE_PAX: `clear_header(out); set_by_pax = 0`
                RHOut.ofR al (field hdr 124 12) fun sz =>
                if sz < 1 ∨ sz > Sqfs.Consts.tarMaxPaxLen then ⟨.fail 6, al⟩
                else RHOut.ofR (sz :: al) (recordToMem s sz) fun (_, s') =>
                  match readPaxHeader (s.take sz) with
                  | .ok o' => rhLoop fuel s' o' false (sz :: al)
                  | .fail c => ⟨.fail (paxClass c), sz :: al⟩
                  | .oob => ⟨.oob, sz :: al⟩
                  | .spin => ⟨.spin, sz :: al⟩
              else if t = 83 then                                       -- 'S' TAR_TYPE_GNU_SPARSE
                match readGnuOldSparse hdr s with
                | .ok ([], _) => ⟨.fail 0, al⟩                          -- `out->sparse == NULL`
                | .ok (m, s') =>
                  RHOut.ofR al (field hdr 483 12) fun real =>
                  rhFinish hdr s' { o with sparse := m, actual := real } v al
                | .fail c => ⟨.fail (if c = 2 then 16 else 8), al⟩
                | .oob => ⟨.oob, al⟩
                | .spin => ⟨.spin, al⟩
              else rhFinish hdr s o v al

/-- `read_header(fp, out)` on a stream that can deliver `stream` -/
def readHeader (stream : Bytes) : RHOut :=
  rhLoop (stream.length / 512 + 2) stream {} false []

end Sqfs.ParseTotal
