/-
C07 — the line-reading loop of the three text-input readers of gensquashfs:

  * `bin/gensquashfs/src/fstree_from_file.c`  `fstree_from_file_stream`  (flags LTRIM | SKIP_EMPTY)
  * `bin/gensquashfs/src/filemap_xattr.c`     `xattr_open_map_file`      (flags LTRIM | RTRIM | SKIP_EMPTY)
  * `bin/gensquashfs/src/sort_by_file.c`      `fstree_sort_files`        (same)

All three have the shape

    size_t line_num = 1;
    for (;;) {
        ret = istream_get_line(fp, &line, &line_num, flags);
        if (ret < 0) fail;   if (ret > 0) break;
        … use (line, line_num) …
        ++line_num;
    }

`istream_get_line` itself (`lib/util/src/get_line.c`: the `for (;;)` loop that collects a line from as many
buffer windows as it takes) and the buffered file stream behind it (`lib/sqfs/src/io/istream.c`) are the models
of `Sqfs/Model/IoLoops.lean` (shared with C12); this file only adds the callers' loop and its specification.
-/
import Sqfs.Spec.IoLoops
namespace Sqfs.C07Lines
open Sqfs.IoLoops

/-- outcome of reading a whole text input: the error (if any), the lines handed to the caller with the line
number each was reported under, and the final value of `line_num` -/
structure Lines where
  err : Option Err
  lines : List (Bytes × Nat)
  lineNum : Nat
  deriving DecidableEq, Repr

/-- the callers' loop; `fuel` bounds the number of `istream_get_line` calls (`.fuel` = still running) -/
def readLines {σ : Type} (I : StreamI σ) (flags : Nat) : Nat → σ → Nat → OS → List (Bytes × Nat) → Lines
  | 0, _, ln, _, acc => ⟨some .fuel, acc.reverse, ln⟩
  | fuel + 1, s, ln, os, acc =>
    match getLineLoop I flags (I.bound s + 2) s [] ln os with
    | (.line l, s', ln', os') => readLines I flags fuel s' (ln' + 1) os' ((l, ln') :: acc)     -- `++line_num;`
    | (.eof, _, ln', _) => ⟨none, acc.reverse, ln'⟩
    | (.fail e, _, ln', _) => ⟨some e, acc.reverse, ln'⟩

/-- reading a file of content `data` through the buffered file stream with buffer size `B` under the OS script `os`
(`OS.full`: every `read` completes in full); one call more than there are bytes always suffices (`read_lines_chunking_independent`) -/
def readFileOS (B flags : Nat) (data : Bytes) (os : OS) : Lines :=
  readLines (fileStream B) flags (data.length + 2) (IStream.init data) 1 os []

def readFile (B flags : Nat) (data : Bytes) : Lines := readFileOS B flags data OS.full

/-- **Specification**: the lines of `rest` as the byte-at-a-time scanner `Spec.nextLine` finds them -/
def specLines (flags : Nat) : Nat → Bytes → Nat → List (Bytes × Nat) → Lines
  | 0, _, ln, acc => ⟨some .fuel, acc.reverse, ln⟩
  | fuel + 1, rest, ln, acc =>
    match Spec.nextLine flags rest ln with
    | (some l, rest', ln') => specLines flags fuel rest' (ln' + 1) ((l, ln') :: acc)
    | (none, _, ln') => ⟨none, acc.reverse, ln'⟩

def specFile (flags : Nat) (data : Bytes) : Lines := specLines flags (data.length + 2) data 1 []

end Sqfs.C07Lines
