/-
C17 — `fstree_sort_files` (bin/gensquashfs/src/sort_by_file.c) seen on the whole `fstree_t`, i.e. on the
`FsTree.Result` of `Sqfs/Model/FsTree.lean` (`tree` = the nodes with names, modes, owners, link counts, targets;
`inodes` = `fs->inodes`, which fixes every inode number; `files` = the `fs->files` list).

The C function reads `fs->files` and, per node of that list, the path (`fstree_get_path` + `canonicalize_name`), and it
writes exactly: `node->data.file.priority`, `node->data.file.flags`, `FLAG_FILE_ALREADY_MATCHED` in `node->flags`, the
`next_by_type` links and `fs->files`.  Nothing else of the tree is assigned to.  The model therefore returns the
`Result` with a new `files` list and, beside it, the per-file attributes (`Sort.FileEnt`, in the new list order); the
paths handed to the matcher are `joinPath` of the file's component list.  That the real function writes nothing else is
checked on every run (harness op `sortx`: a dump of every field of every node and of `fs->inodes` before and after the
call).
-/
import Sqfs.Model.Sort
import Sqfs.Model.FsTree
namespace Sqfs.C17SortTree
open Sqfs.Sort
open Sqfs.FsTree hiding FileEnt sortFileList sortFiles

/-- the `fstree_t` after `fstree_sort_files` -/
structure Sorted where
  fs : Result
  /-- per node of `fs.files`, in list order: matching path, `data.file.priority`, `data.file.flags`, ALREADY_MATCHED -/
  attrs : List FileEnt
  deriving Repr

def fstreeSortFiles (terminate : Bool) (mt : Matcher) (rawLines : List (List UInt8)) (R : Result) :
    Except (Err × Nat) Sorted :=
  match decodeLines terminate 0 rawLines with
  | .error e => .error e
  | .ok ls =>
    let marked := applyLines mt ls (resetFiles (R.files.map (fun p => ({ path := joinPath p } : FileEnt))))
    let sorted := sortBy (fun x : Path × FileEnt => x.2.priority) (R.files.zip marked)     -- `sort_file_list`
    .ok ⟨{ R with files := sorted.map (·.1) }, sorted.map (·.2)⟩

end Sqfs.C17SortTree
