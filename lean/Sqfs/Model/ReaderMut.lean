/-
Mutated variants of the C05 reader models — the **self-test of the input generators** of `tools/checks/c05.py`.

Every function here is a copy of the function of the same name (without the `M`) in `Sqfs/Model/ReaderBounds.lean` /
`Sqfs/Model/ReaderTables.lean` in which each numbered comparison ("site" `k`) can be moved by one:

* mutant `2k+1` ("dn"): the comparison already answers `true` one step earlier  (`a > b` becomes `a ≥ b`, `a ≥ b` becomes `a + 1 ≥ b`),
* mutant `2k+2` ("up"): it answers `true` one step later                       (`a > b` becomes `a > b + 1`, `a ≥ b` becomes `a > b`).

With any other mutant number (in particular `copyId`) the copy computes exactly what the original computes; the
driver (`sqfsmodel c05 sens`) checks that on every generated line (a copy that went stale is reported).  A generated
line *kills* a mutant when the mutated model answers differently (status or first out-of-bounds access).  The check
requires a minimum number of kills per mutant: an input generator that no longer reaches the two values around a
modelled comparison — which is how the seeded off-by-one in `read_inode_dir_ext` slipped through unnoticed — makes the
check fail instead of making it blind.

Nothing here is part of a proof obligation: the theorems are about the originals.
-/
import Sqfs.Model.ReaderBounds
import Sqfs.Model.ReaderTables
import Sqfs.Model.ReaderSizes
namespace Sqfs.ReaderMut
open Sqfs Sqfs.ReaderBounds Sqfs.ReaderTables Sqfs.ReaderSizes

/-- a mutant number that matches no site: the copies then compute what the originals compute -/
def copyId : Nat := 1000000

/-- names of the sites, index = site number (mutants `2k+1` = `name:dn`, `2k+2` = `name:up`) -/
def siteNames : Array String := #[
  /- 0 -/ "seek.start", "seek.limit", "seek.cached-offset", "seek.size", "seek.end", "seek.offset",
  /- 6 -/ "read.guard", "read.diff",
  /- 8 -/ "getblk.size", "getfrag.covered", "getfrag.fits",
  /- 11 -/ "stream.disksz", "stream.fragoff", "stream.fragfits", "stream.bufused",
  /- 15 -/ "dread.eof", "dread.clip", "dread.skip", "dread.diff", "dread.fragstart", "dread.fragfits",
  /- 21 -/ "inode.dirext.need", "inode.dirext.grow", "inode.file.bufsize",
  /- 24 -/ "unpack.offset", "unpack.hdr", "unpack.name",
  /- 27 -/ "idx.index", "fragidx.index", "xdesc.index",
  /- 30 -/ "super.bsmin", "super.bsmax", "super.logmin", "super.logmax", "super.compmin", "super.compmax",
  /- 36 -/ "idtable.start", "fragtable.start", "fragtable.lower", "fragtable.upper",
  /- 40 -/ "xload.start", "xload.loc",
  /- 42 -/ "xval.start", "xval.off",
  /- 44 -/ "dirlist.hdr", "dirlist.ent", "dirlist.count", "dirlist.consume",
  /- 48 -/ "dirent.alloc", "slink.alloc",
  -- width sites (see `wM`): a size / count product or sum computed in a narrower type than the C text says
  /- 50 -/ "xload.idbytes", "xdesc.pos", "idtable.bytes", "fragtable.bytes", "readtable.size", "readtable.blocks",
  /- 56 -/ "inode.file.count", "inode.file.bytes", "inode.dirext.needsum", "unpack.namesum", "xval.allocsum"]

/-- first width site: sites from here on have one mutant each (`2k+1`, named `<site>:w<bits>`) -/
def widthBase : Nat := 50

/-- the narrower type a width site is computed in: 16 bits for `id_count * sizeof(sqfs_u32)` (a `sqfs_u16` count: the
product fits 32 bits for every count), 32 bits everywhere else -/
def widthBits (k : Nat) : Nat := if k == 52 then 16 else 32

/-- the mutants of a site -/
def siteMutants (k : Nat) : List Nat := if k ≥ widthBase then [2 * k + 1] else [2 * k + 1, 2 * k + 2]

def mutName (mu : Nat) : String :=
  if mu == 0 then "none" else
  let k := (mu - 1) / 2
  if k ≥ widthBase then siteNames.getD k "?" ++ ":w" ++ toString (widthBits k) else
  siteNames.getD k "?" ++ (if mu % 2 == 1 then ":dn" else ":up")

/-- the sites whose mutants can change the answer of a driver operation -/
def opSites (op : String) : List Nat :=
  match op with
  | "seek" => [0, 1, 2, 3, 4, 5]
  | "read" => [0, 1, 3, 4, 5, 6, 7]
  | "getblk" => [8]
  | "getfrag" => [8, 9, 10]
  | "stream" => [8, 11, 12, 13, 14]
  | "dread" => [8, 15, 16, 17, 18, 19, 20]
  | "inode" => [21, 22, 23, 49, 56, 57, 58]
  | "unpack" => [24, 25, 26, 59]
  | "idx" => [27]
  | "dentry" => [27]
  | "fragidx" => [28]
  | "xdesc" => [29, 51]
  | "super" => [30, 31, 32, 33, 34, 35]
  | "idtable" => [36, 52]
  | "fragtable" => [37, 38, 39, 53]
  | "xload" => [40, 41, 50]
  | "xval" => [42, 43, 60]
  -- `allocs`: the sizes the previous operation handed to malloc / calloc / realloc
  | "allocs" => [50, 52, 53, 54, 55, 56, 57]
  | "dirlist" => [44, 45, 46, 47]
  | "dirent" => [48]
  | _ => []

/-! ### movable comparisons (operands as ℕ: the values the C operands have after their own wrap-around) -/

def gtM (mu k : Nat) (a b : Nat) : Bool :=
  if mu == 2 * k + 1 then a + 1 > b else if mu == 2 * k + 2 then a > b + 1 else a > b
def geM (mu k : Nat) (a b : Nat) : Bool :=
  if mu == 2 * k + 1 then a + 1 ≥ b else if mu == 2 * k + 2 then a > b else a ≥ b
def ltM (mu k : Nat) (a b : Nat) : Bool := gtM mu k b a
def leM (mu k : Nat) (a b : Nat) : Bool := geM mu k b a
/-- an additive constant of an allocation / length: `dn` = one less, `up` = one more -/
def addM (mu k : Nat) (c : Nat) : Nat :=
  if mu == 2 * k + 1 then c - 1 else if mu == 2 * k + 2 then c + 1 else c

/-- a width site: the value as it comes out when the expression is evaluated in `widthBits k` bits -/
def wM (mu k : Nat) (v : UInt64) : UInt64 :=
  if mu == 2 * k + 1 then (v.toNat % 2 ^ widthBits k).toUInt64 else v

/-! ## `meta_reader.c` -/

def seekM (mu : Nat) (fixed : Bool) (c : MetaCfg) (m : MetaSt) (blockStart offset : UInt64) : Res :=
  if ltM mu 0 blockStart.toNat c.start.toNat || geM mu 1 blockStart.toNat c.limit.toNat then ⟨m, .error .oob, []⟩
  else if blockStart == m.blockOffset then
    if geM mu 2 offset.toNat m.dataUsed.toNat then ⟨m, .error .oob, []⟩
    else ⟨{ m with offset := offset }, .ok (), []⟩
  else
    let m0 : MetaSt := if fixed then MetaSt.cleared else m
    let l := c.src blockStart
    if l.hdrIo then ⟨m0, .error .io, []⟩
    else
      let compressed := (l.header &&& 0x8000) == 0
      let size : UInt32 := (l.header &&& 0x7FFF).toUInt32
      if gtM mu 3 size.toNat metaCap then ⟨m0, .error .corrupted, []⟩
      else if gtM mu 4 (blockStart + 2 + size.toUInt64).toNat c.limit.toNat then ⟨m0, .error .oob, []⟩
      else
        let a1 := [Access.mk .metaData 0 size.toNat metaCap]
        if l.dataIo then ⟨m0, .error .io, a1⟩
        else
          let after (dataUsed : UInt64) (acc : List Access) : Res :=
            if geM mu 5 offset.toNat dataUsed.toNat then ⟨if fixed then m0 else { m with dataUsed := dataUsed }, .error .oob, acc⟩
            else ⟨⟨dataUsed, offset, blockStart, blockStart + size.toUInt64 + 2⟩, .ok (), acc⟩
          if compressed then
            match l.dec with
            | none => ⟨m0, .error .compressor, a1⟩
            | some ret =>
              after ret.toUInt64 (a1 ++ [Access.mk .metaScratch 0 ret.toNat metaCap,
                                         Access.mk .metaData 0 ret.toNat metaCap])
          else after size.toUInt64 a1

def refillM (mu : Nat) (fixed : Bool) (c : MetaCfg) (m : MetaSt) : Res × UInt64 :=
  let diff := m.dataUsed - m.offset
  if diff == 0 then
    let s := seekM mu fixed c m m.nextBlock 0
    (s, s.st.dataUsed)
  else (⟨m, .ok (), []⟩, diff)

def readLoopM (mu : Nat) (fixed : Bool) (c : MetaCfg) (total : Nat) : Nat → MetaSt → (size : UInt64) → (done : Nat) →
    List Access → Res
  | 0, m, _, _, acc => ⟨m, .error .fuel, acc⟩
  | fuel + 1, m, size, done, acc =>
    if size == 0 then ⟨m, .ok (), acc⟩
    else if fixed && gtM mu 6 m.offset.toNat m.dataUsed.toNat then ⟨m, .error .oob, acc⟩
    else
      let p := refillM mu fixed c m
      match p.1.r with
      | .error e => ⟨p.1.st, .error e, acc ++ p.1.acc⟩
      | .ok () =>
        let m1 := p.1.st
        let diff := if gtM mu 7 p.2.toNat size.toNat then size else p.2
        let acc := acc ++ p.1.acc ++ [Access.mk .metaData m1.offset.toNat diff.toNat metaCap,
                                      Access.mk .dst done diff.toNat total]
        readLoopM mu fixed c total fuel { m1 with offset := m1.offset + diff } (size - diff) (done + diff.toNat) acc

def mreadM (mu : Nat) (fixed : Bool) (c : MetaCfg) (m : MetaSt) (size : UInt64) : Res :=
  readLoopM mu fixed c size.toNat (size.toNat + 1) m size 0 []

/-! ## `data_reader.c` -/

def getBlockM (mu : Nat) (bs : UInt32) (out : Buf) (w maxSize : UInt32) (l : BlkLoad) : Except Err UInt64 × List Access :=
  if onDiskSize w == 0 then (.ok maxSize.toUInt64, [])
  else if gtM mu 8 (onDiskSize w).toNat maxSize.toNat then (.error .overflow, [])
  else if isCompressed w then
    let a1 := [Access.mk .drScratch 0 (onDiskSize w).toNat bs.toNat]
    if l.io then (.error .io, a1)
    else match l.dec with
      | none => (.error .compressor, a1)
      | some ret =>
        if ret == 0 then (.error .overflow, a1)
        else (.ok ret.toUInt64, a1 ++ [Access.mk out 0 ret.toNat maxSize.toNat])
  else
    let a1 := [Access.mk out 0 (onDiskSize w).toNat maxSize.toNat]
    if l.io then (.error .io, a1) else (.ok (onDiskSize w).toUInt64, a1)

def getFragmentM (mu : Nat) (fixed : Bool) (bs : UInt32) (filesz blockCount : UInt64) (fragOff : UInt32)
    (precache : Except Err Unit) : Except Err (List Access) :=
  if blockCount > 0xFFFFFFFFFFFFFFFF / bs.toUInt64 then .error .overflow
  else if geM mu 9 (blockCount * bs.toUInt64).toNat filesz.toNat then .ok []
  else
    let fragSz : UInt32 := (filesz % bs.toUInt64).toUInt32
    match precache with
    | .error e => .error e
    | .ok () =>
      let tooBig := if fixed then gtM mu 10 (fragOff.toUInt64 + fragSz.toUInt64).toNat bs.toNat
                    else gtM mu 10 (fragOff + fragSz).toNat bs.toNat
      if tooBig then .error .oob
      else .ok [Access.mk .fragOut 0 fragSz.toNat fragSz.toNat,
                Access.mk .fragBlock fragOff.toNat fragSz.toNat bs.toNat]

def streamFillM (mu : Nat) (fixed : Bool) (bs : UInt32) (s : StreamSt) (w : UInt32) (l : BlkLoad)
    (fragPre : Except Err UInt64) (fragOff : UInt32) : StreamSt × StreamOut × List Access :=
  if s.bufOff < s.bufUsed then
    (s, .data (s.bufUsed - s.bufOff), [Access.mk .streamBuf s.bufOff.toNat (s.bufUsed - s.bufOff).toNat bs.toNat])
  else if s.filesz == 0 then ({ s with bufUsed := 0, bufOff := 0, filesz := 0, dead := true }, .eof, [])
  else
    let bufUsed : UInt64 := if ltM mu 14 s.filesz.toNat bs.toNat then s.filesz else bs.toUInt64
    let fail (e : Err) (acc : List Access) : StreamSt × StreamOut × List Access :=
      ({ s with bufUsed := 0, bufOff := 0, filesz := 0, dead := true }, .err e, acc)
    let done (s' : StreamSt) (acc : List Access) : StreamSt × StreamOut × List Access :=
      ({ s' with bufOff := 0, bufUsed := bufUsed, filesz := s.filesz - bufUsed }, .data bufUsed, acc)
    if s.blkIdx < s.blkCount then
      let s' := { s with blkIdx := s.blkIdx + 1 }
      let a0 := [Access.mk .inoData (s.blkIdx.toNat * 4) 4 (s.blkCount.toNat * 4)]
      let disksz := onDiskSize w
      if disksz == 0 then
        done s' (a0 ++ [Access.mk .streamBuf 0 bufUsed.toNat bs.toNat])
      else if fixed && gtM mu 11 disksz.toNat bs.toNat then fail .overflow a0
      else if isCompressed w then
        let a1 := a0 ++ [Access.mk .drScratch 0 disksz.toNat bs.toNat]
        if l.io then fail .io a1
        else match l.dec with
          | none => fail .compressor a1
          | some ret =>
            if ret == 0 then fail .overflow a1
            else
              done s' (a1 ++ [Access.mk .streamBuf 0 ret.toNat bufUsed.toNat] ++
                (if ret.toUInt64 < bufUsed then [Access.mk .streamBuf ret.toNat (bufUsed - ret.toUInt64).toNat bs.toNat] else []))
      else
        let a1 := a0 ++ [Access.mk .streamBuf 0 disksz.toNat bs.toNat]
        if l.io then fail .io a1
        else
          done s' (a1 ++
            (if disksz.toUInt64 < bufUsed then [Access.mk .streamBuf disksz.toNat (bufUsed - disksz.toUInt64).toNat bs.toNat] else []))
    else
      match fragPre with
      | .error e => fail e []
      | .ok fragBlkSize =>
        if ltM mu 12 fragBlkSize.toNat fragOff.toNat || ltM mu 13 (fragBlkSize - fragOff.toUInt64).toNat bufUsed.toNat then fail .corrupted []
        else done s [Access.mk .fragBlock fragOff.toNat bufUsed.toNat fragBlkSize.toNat,
                     Access.mk .streamBuf 0 bufUsed.toNat bs.toNat]

def dataReadSkipM (mu : Nat) (bs : UInt64) : (remaining : Nat) → (i : Nat) → (offset : UInt64) → Nat × UInt64
  | 0, i, offset => (i, offset)
  | rem + 1, i, offset => if gtM mu 17 offset.toNat bs.toNat then dataReadSkipM mu bs rem (i + 1) (offset - bs) else (i, offset)

def dataReadBlocksM (mu : Nat) (bs : UInt32) (words : Nat → UInt32) (blkOk : Nat → Bool) (blockCount cap : Nat) :
    (remaining : Nat) → (i : Nat) → (offset : UInt64) → (size total : UInt32) → List Access →
    Except Err (UInt64 × UInt32 × UInt32) × List Access
  | 0, _, offset, size, total, acc => (.ok (offset, size, total), acc)
  | rem + 1, i, offset, size, total, acc =>
    if size == 0 then (.ok (offset, size, total), acc)
    else
      let diff0 : UInt32 := (bs.toUInt64 - offset).toUInt32
      let diff := if ltM mu 18 size.toNat diff0.toNat then size else diff0
      let acc := acc ++ [Access.mk .inoData (i * 4) 4 (blockCount * 4)]
      if onDiskSize (words i) == 0 then
        dataReadBlocksM mu bs words blkOk blockCount cap rem (i + 1) 0 (size - diff) (total + diff)
          (acc ++ [Access.mk .dst total.toNat diff.toNat cap])
      else if !blkOk i then (.error .io, acc)
      else
        dataReadBlocksM mu bs words blkOk blockCount cap rem (i + 1) 0 (size - diff) (total + diff)
          (acc ++ [Access.mk .dataBlock offset.toNat diff.toNat bs.toNat, Access.mk .dst total.toNat diff.toNat cap])

def dataReadM (mu : Nat) (bs : UInt32) (words : Nat → UInt32) (blkOk : Nat → Bool) (blockCount : Nat) (filesz offset : UInt64)
    (size0 : UInt32) (fragOff : UInt32) (fragPre : Except Err UInt64) : Except Err UInt32 × List Access :=
  let size : UInt32 := if size0 ≥ 0x7FFFFFFF then 0x7FFFFFFE else size0
  if geM mu 15 offset.toNat filesz.toNat then (.ok 0, [])
  else
    let size : UInt32 := if ltM mu 16 (filesz - offset).toNat size.toNat then (filesz - offset).toUInt32 else size
    if size == 0 then (.ok 0, [])
    else
      let (i, offset) := dataReadSkipM mu bs.toUInt64 blockCount 0 offset
      match dataReadBlocksM mu bs words blkOk blockCount size0.toNat (blockCount - i) i offset size 0 [] with
      | (.error e, acc) => (.error e, acc)
      | (.ok (offset, size, total), acc) =>
        if size == 0 then (.ok total, acc)
        else match fragPre with
          | .error e => (.error e, acc)
          | .ok fragBlkSize =>
            if geM mu 19 (fragOff.toUInt64 + offset).toNat fragBlkSize.toNat then (.error .oob, acc)
            else if ltM mu 20 (fragBlkSize - (fragOff.toUInt64 + offset)).toNat size.toNat then (.error .oob, acc)
            else
              (.ok (total + size), acc ++ [Access.mk .fragBlock (fragOff.toNat + offset.toNat) size.toNat fragBlkSize.toNat,
                                          Access.mk .dst total.toNat size.toNat size0.toNat])

/-! ## `read_inode.c`, `readdir.c`, `inode.c` -/

/-- `read_inode_file(_ext)`: site 23 moves the size handed to `alloc_flex` by one block word -/
def readInodeFileM (mu : Nat) (fileSize blockSize : UInt64) (fragIdx fragOff : UInt32) : Except Err (List Access) :=
  -- site 56: `count` kept in 32 bits; site 57: `count * sizeof(sqfs_u32)` (length of the read) in 32 bits
  let count := wM mu 56 (getBlockCount fileSize blockSize fragIdx fragOff)
  match allocFlex szInodeGeneric.toUInt64 4 (addM mu 23 count.toNat).toUInt64 with
  | none => .error .overflow
  | some alloc =>
    let cap := alloc.toNat - szInodeGeneric
    .ok [Access.mk .inodeExtra 0 (wM mu 57 (count * 4)).toNat cap]

/-- `read_inode_slink`: site 49 moves the `+ 1` of the allocation -/
def readInodeSlinkM (mu : Nat) (targetSize : UInt32) : Except Err (List Access) :=
  match addOv targetSize.toUInt64 (addM mu 49 1).toUInt64 with
  | none => .error .overflow
  | some s1 => match addOv szInodeGeneric.toUInt64 s1 with
    | none => .error .overflow
    | some size =>
      -- the payload of a symlink inode is used as a C string: the terminator is byte `target_size` of the payload
      .ok [Access.mk .inodeExtra 0 targetSize.toNat (size.toNat - szInodeGeneric),
           Access.mk .inodeExtra targetSize.toNat 1 (size.toNat - szInodeGeneric)]

def growLoopM (mu : Nat) (need indexUsed : UInt64) : Nat → UInt64 → Option UInt64
  | 0, _ => none
  | fuel + 1, newSz =>
    if gtM mu 22 need.toNat (newSz - indexUsed).toNat then
      match mulOv newSz 2 with
      | none => none
      | some n => growLoopM mu need indexUsed fuel n
    else some newSz

def dirExtLoopM (mu : Nat) : List UInt32 → (indexMax indexUsed : UInt64) → List Access → Except Err (UInt64 × UInt64 × List Access)
  | [], indexMax, indexUsed, acc => .ok (indexMax, indexUsed, acc)
  | sz :: rest, indexMax, indexUsed, acc =>
    -- site 58: the sum in 32 bits
    let need : UInt64 := wM mu 58 (szDirIndex.toUInt64 + sz.toUInt64 + (addM mu 21 1).toUInt64)
    match growLoopM mu need indexUsed 65 indexMax with
    | none => .error .overflow
    | some newSz =>
      let indexMax := if newSz > indexMax then newSz else indexMax
      let a1 := Access.mk .inodeExtra indexUsed.toNat szDirIndex indexMax.toNat
      let indexUsed := indexUsed + szDirIndex.toUInt64
      let n : UInt32 := sz + 1
      let a2 := Access.mk .inodeExtra indexUsed.toNat n.toNat indexMax.toNat
      dirExtLoopM mu rest indexMax (indexUsed + n.toUInt64) (acc ++ [a1, a2])

def readInodeDirExtM (mu : Nat) (dirSize : UInt32) (entSizes : List UInt32) : Except Err (UInt64 × UInt64 × List Access) :=
  if dirSize == 0 then .ok (0, 0, []) else dirExtLoopM mu entSizes 128 0 []

/-- `sqfs_meta_reader_read_dir_ent`: site 48 moves the `+ 2` of the allocation; the name is used as a C string, the
terminator is byte `size + 1` -/
def readDirEntM (mu : Nat) (size : UInt16) : List Access :=
  let cap := szDirNode + size.toNat + addM mu 48 2 - szDirNode
  [Access.mk .dirEntName 0 (size.toNat + 1) cap, Access.mk .dirEntName (size.toNat + 1) 1 cap]

def unpackIdxM (mu : Nat) (fixed : Bool) (used : UInt32) (szAt : UInt64 → UInt32) :
    Nat → (offset index : UInt64) → List Access → Except Err Unit × List Access
  | 0, _, _, acc => (.error .fuel, acc)
  | fuel + 1, offset, index, acc =>
    if geM mu 24 offset.toNat used.toNat then (.error .oob, acc)
    else if fixed && ltM mu 25 (used.toUInt64 - offset).toNat szDirIndex then (.error .oob, acc)
    else
      let acc := acc ++ [Access.mk .idxSrc offset.toNat szDirIndex used.toNat]
      let sz := szAt offset
      if index == 0 then
        if fixed && gtM mu 26 (wM mu 59 (sz.toUInt64 + 1)).toNat (used.toUInt64 - offset - szDirIndex.toUInt64).toNat then (.error .oob, acc)
        else
          let n2 : UInt64 := if fixed then sz.toUInt64 + 2 else (sz + 2).toUInt64
          let n1 : UInt64 := if fixed then sz.toUInt64 + 1 else (sz + 1).toUInt64
          match allocFlex szDirIndex.toUInt64 1 n2 with
          | none => (.error .alloc, acc)
          | some alloc =>
            (.ok (), acc ++ [Access.mk .idxOut 0 szDirIndex alloc.toNat,
                             Access.mk .idxOut szDirIndex n1.toNat alloc.toNat,
                             Access.mk .idxSrc (offset.toNat + szDirIndex) n1.toNat used.toNat])
      else
        unpackIdxM mu fixed used szAt fuel (offset + szDirIndex.toUInt64 + sz.toUInt64 + 1) (index - 1) acc

/-! ## tables -/

def indexToIdM (mu : Nat) (used : UInt64) (index : UInt16) : Except Err (List Access) :=
  if geM mu 27 index.toNat used.toNat then .error .oob
  else .ok [Access.mk .idTable (index.toNat * 4) 4 (used.toNat * 4)]

def fragLookupM (mu : Nat) (used : UInt64) (index : UInt32) : Except Err (List Access) :=
  if geM mu 28 index.toNat used.toNat then .error .oob
  else .ok [Access.mk .fragTable (index.toNat * Consts.sizeofFragment) Consts.sizeofFragment (used.toNat * Consts.sizeofFragment)]

def dirEntryFromInodeM (mu : Nat) (used : UInt64) (uidIdx gidIdx : UInt16) (name : List UInt8) (len : UInt64) :
    Except Err Unit × List Access :=
  match indexToIdM mu used uidIdx with
  | .error _ => (.error .corrupted, [])
  | .ok a1 =>
    match indexToIdM mu used gidIdx with
    | .error _ => (.error .corrupted, a1)
    | .ok a2 =>
      let n := entryNameLen name len
      let examined := entryNameExamined name len
      let a3 := a1 ++ a2 ++ [Access.mk .nameIn 0 examined (name.length + 1)]
      match allocFlex Consts.sizeofDirEntry.toUInt64 1 (n.toUInt64 + 1) with
      | none => (.error .alloc, a3)
      | some alloc =>
        (.ok (), a3 ++ [Access.mk .nameIn 0 n (name.length + 1),
                        Access.mk .dirEntryOut Consts.sizeofDirEntry n alloc.toNat])

def superReadM (mu : Nat) (io : Bool) (s : Super) : Except Err Unit × List Access :=
  let a := [Access.mk .superBuf 0 Consts.sizeofSuper Consts.sizeofSuper]
  if io then (.error .io, a)
  else if s.magic != Consts.magic.toUInt32 then (.error .superMagic, a)
  else if s.vMajor != Consts.versionMajor.toUInt16 || s.vMinor != Consts.versionMinor.toUInt16 then (.error .superVersion, a)
  else if (s.blockSize - 1) &&& s.blockSize != 0 then (.error .superBlockSize, a)
  else if ltM mu 30 s.blockSize.toNat Consts.minBlockSize then (.error .superBlockSize, a)
  else if gtM mu 31 s.blockSize.toNat Consts.maxBlockSize then (.error .superBlockSize, a)
  else if ltM mu 32 s.blockLog.toNat 12 || gtM mu 33 s.blockLog.toNat 20 then (.error .corrupted, a)
  else if s.blockSize.toUInt64 != shiftLoop s.blockLog.toNat 1 then (.error .corrupted, a)
  else if ltM mu 34 s.compId.toNat Consts.compMin || gtM mu 35 s.compId.toNat Consts.compMax then (.error .unsupported, a)
  else if s.idCount == 0 then (.error .corrupted, a)
  else (.ok (), a)

def idTableReqM (mu : Nat) (s : Super) : Except Err TableReq :=
  if s.idCount == 0 || geM mu 36 s.idTableStart.toNat s.bytesUsed.toNat then .error .corrupted
  else
    let upper := s.idTableStart
    let lower := s.dirTableStart
    let lower := if s.fragTableStart > lower && s.fragTableStart < upper then s.fragTableStart else lower
    let lower := if s.exportTableStart > lower && s.exportTableStart < upper then s.exportTableStart else lower
    .ok ⟨wM mu 52 (s.idCount.toUInt64 * 4), s.idTableStart, lower, upper⟩

def fragTableReqM (mu : Nat) (s : Super) : Except Err (Option TableReq) :=
  if s.flags &&& Consts.flagNoFragments.toUInt16 != 0 then .ok none
  else if s.fragTableStart == 0xFFFFFFFFFFFFFFFF then .ok none
  else if s.fragCount == 0 then .ok none
  else if geM mu 37 s.fragTableStart.toNat s.bytesUsed.toNat then .error .oob
  else if ltM mu 38 s.fragTableStart.toNat s.dirTableStart.toNat then .error .corrupted
  else if geM mu 39 s.fragTableStart.toNat s.idTableStart.toNat then .error .corrupted
  else
    let upper := if s.exportTableStart < s.idTableStart then s.exportTableStart else s.idTableStart
    match mulOv s.fragCount.toUInt64 Consts.sizeofFragment.toUInt64 with
    | none => .error .overflow
    | some size => .ok (some ⟨wM mu 53 size, s.fragTableStart, s.dirTableStart, upper⟩)

/-- what `sqfs_read_table` hands to the allocator, in order: `malloc(table_size)`, `alloc_array(sizeof(sqfs_u64),
block_count)` (read_table.c:30-40).  Sites 54 / 55: the size / the block count taken from a 32 bit copy of `table_size`. -/
def readTableAllocsM (mu : Nat) (tableSize : UInt64) : List UInt64 :=
  [wM mu 54 tableSize, 8 * tableBlockCount (wM mu 55 tableSize)]

/-! ## `xattr_reader.c` -/

/-- site 50: `num_ids * sizeof(sqfs_xattr_id_t)` in 32 bits -/
def xattrIdBlocksM (mu : Nat) (numIds : UInt64) : UInt64 :=
  let bytes := wM mu 50 (numIds * szXattrId.toUInt64)
  if bytes % metaCap.toUInt64 != 0 then bytes / metaCap.toUInt64 + 1 else bytes / metaCap.toUInt64

/-- the loop xattr_reader.c:143-150: number of locations looked at, and whether the last one was refused.  (The original
collects one access per location, `acc ++ [_]`: quadratic, hopeless for the 2^19 … 2^23 locations of the hostile counts;
location `i < n` is inside the `n * 8` bytes, so one access over everything looked at says the same.) -/
def xattrCheckStartsM (mu : Nat) (bytesUsed : UInt64) (starts : Nat → UInt64) : Nat → Nat → Nat × Bool
  | 0, i => (i, false)
  | rem + 1, i =>
    if gtM mu 41 (starts i).toNat bytesUsed.toNat then (i + 1, true)
    else xattrCheckStartsM mu bytesUsed starts rem (i + 1)

def xattrLoadM (mu : Nat) (s : Super) (x : XattrSt) (io1 : Bool) (tblStart : UInt64) (ids : UInt32) (io2 : Nat → Bool)
    (starts : Nat → UInt64) : XRes :=
  if s.flags &&& Consts.flagNoXattrs.toUInt16 != 0 then ⟨x, .ok (), []⟩
  else if s.xattrIdTableStart == 0xFFFFFFFFFFFFFFFF then ⟨x, .ok (), []⟩
  else if geM mu 40 s.xattrIdTableStart.toNat s.bytesUsed.toNat then ⟨x, .error .oob, []⟩
  else
    let x := { x with loaded := false }
    let a1 := [Access.mk .xattrIdTbl 0 szXattrIdTable szXattrIdTable]
    if io1 then ⟨x, .error .io, a1⟩
    else
      let numIds := ids.toUInt64
      let n := xattrIdBlocksM mu numIds
      let x := { x with xattrStart := tblStart, numIds := numIds, numIdBlocks := n }
      match mulOv 8 n with
      | none => ⟨x, .error .overflow, a1⟩
      | some cap =>
        let a2 := a1 ++ [Access.mk .idBlockStarts 0 (8 * n).toNat cap.toNat]
        -- `io2 k`: reading `k` bytes of locations fails (the length depends on the mutated block count)
        if io2 (8 * n).toNat then ⟨x, .error .io, a2⟩
        else
          let (looked, bad) := xattrCheckStartsM mu s.bytesUsed starts n.toNat 0
          let acc := a2 ++ [Access.mk .idBlockStarts 0 (looked * 8) (n.toNat * 8)]
          if bad then ⟨x, .error .oob, acc⟩
          else
            ⟨{ x with blockStarts := starts, loaded := true, idrd := MetaSt.init, kvrd := MetaSt.init,
                      xattrEnd := s.bytesUsed }, .ok (), acc⟩

def xattrGetDescM (mu : Nat) (c : MetaCfg) (x : XattrSt) (idx : UInt32) : XRes :=
  let a0 := [Access.mk .xattrDesc 0 szXattrId szXattrId]
  if idx == 0xFFFFFFFF then ⟨x, .ok (), a0⟩
  else if !x.loaded then ⟨x, if idx == 0 then .ok () else .error .oob, a0⟩
  else if geM mu 29 idx.toNat x.numIds.toNat then ⟨x, .error .oob, a0⟩
  else
    -- site 51: `idx * sizeof(*desc)` in 32 bits
    let pos := wM mu 51 (idx.toUInt64 * szXattrId.toUInt64)
    let offset := pos % metaCap.toUInt64
    let block := pos / metaCap.toUInt64
    let a1 := a0 ++ [Access.mk .idBlockStarts (block.toNat * 8) 8 (x.numIdBlocks.toNat * 8)]
    let r := (ofRes (seek c x.idrd (x.blockStarts block.toNat) offset)).bind fun _ m =>
      readInto c m .xattrDesc 0 szXattrId.toUInt64 szXattrId.toUInt64
    ⟨{ x with idrd := r.st }, r.r, a1 ++ r.acc⟩

def readValueHdrM (mu : Nat) (c : MetaCfg) (xs xe : UInt64) (a : KvAns) (m : MetaSt) : RV (UInt64 × UInt64) :=
  (readInto c m .xattrValHdr 0 szXattrValue.toUInt64 szXattrValue.toUInt64).bind fun _ m =>
    if isOol a.ktype then
      (readInto c m .xattrRef 0 8 8).bind fun _ m =>
        let newStart := xs + (a.ref >>> 16)
        let newOffset := a.ref &&& 0xFFFF
        if geM mu 42 newStart.toNat xe.toNat || geM mu 43 newOffset.toNat metaCap then ⟨m, .error .oob, []⟩
        else
          let saved := getPosition m
          (ofRes (seek c m newStart newOffset)).bind fun _ m =>
            (readInto c m .xattrValHdr 0 szXattrValue.toUInt64 szXattrValue.toUInt64).bind fun _ m =>
              ⟨m, .ok saved, []⟩
    else ⟨m, .ok (0, 0), []⟩

def kvReadValueM (mu : Nat) (c : MetaCfg) (xs xe : UInt64) (a : KvAns) (m : MetaSt) : RV Unit :=
  (readValueHdrM mu c xs xe a m).bind fun saved m =>
    -- site 60: `sizeof(*out) + 1 + value.size` in 32 bits
    match (addOv (szXattrValue.toUInt64 + 1) a.vsize.toUInt64).map (wM mu 60) with
    | none => ⟨m, .error .overflow, []⟩
    | some size =>
      let acc := [Access.mk .xattrValOut 0 szXattrValue size.toNat]
      let r := (readInto c m .xattrValOut szXattrValue.toUInt64 a.vsize.toUInt64 size).bind fun _ m =>
        restorePos c a saved m
      ⟨r.st, r.r, acc ++ r.acc⟩

/-! ## `readdir.c` -/

def readdirStepM (mu : Nat) (s : RdState) (hdrCount : UInt32) (nameSize : UInt16) : Option RdState :=
  let s1? : Option RdState :=
    if s.entries == 0 then
      if leM mu 44 s.size.toNat szDirHeader then none
      else some ⟨s.size - szDirHeader.toUInt64, hdrCount.toUInt64 + 1⟩
    else some s
  match s1? with
  | none => none
  | some s1 =>
    if leM mu 45 s1.size.toNat szDirNode then none
    else
      let size := s1.size - szDirNode.toUInt64
      let count : UInt64 := nameSize.toUInt64 + 1
      some ⟨if geM mu 47 count.toNat size.toNat then 0 else size - count, s1.entries - 1⟩

end Sqfs.ReaderMut
