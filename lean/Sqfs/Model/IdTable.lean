/-
Model of `lib/sqfs/src/id_table.c`: `sqfs_id_table_id_to_index` and the `id_count` field written by
`sqfs_id_table_write` (`super->id_count = tbl->ids.used`, a `sqfs_u16`).

`limit` is the number of ids at which `id_to_index` starts to answer `SQFS_ERROR_OVERFLOW`.  The main
model uses the **repaired** value 0xFFFF (fixes/C03-id-table-limit.patch); the unrepaired code has
0x10000, kept in `Sqfs/Witness/C03.lean`.
-/
namespace Sqfs.IdTable

/-- repaired limit: the u16 `id_count` can announce at most 65535 ids -/
def limit : Nat := 0xFFFF

/-- `sqfs_id_table_id_to_index`: `none` = SQFS_ERROR_OVERFLOW, `some (index, table')` otherwise -/
def step (lim : Nat) (tbl : List Nat) (id : Nat) : Option (Nat × List Nat) :=
  let i := tbl.idxOf id
  let n := tbl.length
  if i < n then some (i, tbl)                                          -- the linear search, id_table.c:71-76
  else if n = lim then none                                            -- :78 (`used >= 0xFFFF`; `=` and `≥` coincide:
                                                                       --      `step_spec` keeps `length ≤ lim` from the empty table on)
  else some (n, tbl ++ [id])                                           -- :81-82

/-- a sequence of calls (two per inode in `serialize_tree_node`), fail-stop; returns table and indices -/
def addAll (lim : Nat) : List Nat → List Nat → Option (List Nat × List Nat)
  | tbl, [] => some (tbl, [])
  | tbl, id :: rest =>
    match step lim tbl id with
    | none => none
    | some (i, t) => (addAll lim t rest).map (fun r => (r.1, i :: r.2))

/-- `super->id_count = tbl->ids.used` (u16) -/
def superIdCount (tbl : List Nat) : Nat := tbl.length % 65536

/-- `*out = i` (u16) -/
def storedIndex (i : Nat) : Nat := i % 65536

end Sqfs.IdTable
