/-
C02 — the worker function and **per-worker compressor state**.

`Model/BlockProc.lean` stores a submitted item *already worked* (`processBlock P b`): the work the pool does is taken to be
a function of the item alone, `Params.codec.cmp : Bytes → Option Bytes`.  In the C code the function is
`worker->cmp->do_block(worker->cmp, …)` on a compressor *object*: `sqfs_block_processor_create_ex` gives every worker
thread its own `sqfs_copy` of the configured compressor, the object lives as long as the processor and may carry state
from one call into the next (gzip.c: a `z_stream` that is `deflateReset`, not re-created; zstd.c: a `ZSTD_CCtx`).  Which
worker compresses which block is decided by the operating system.  So the purity of `do_block` —

    ∀ state σ reachable by earlier calls, ∀ block x:   result (do_block σ x) = result (do_block σ₀ x)        (σ₀ = a fresh copy)

— is a **hypothesis** of the determinism theorems (part of the trusted base: the compressors are third-party
libraries), checked for the real compressors by harness/h_c02_comp.c on every run.  This file makes it explicit:

* `StatefulCodec σ`: a compressor object with private state;
* `processBlockS`: `process_block` run by a worker whose compressor is in state `s`;
* `workItems`: the items a pool of workers with private states produces for a list of submitted items under an
  assignment of items to workers (any assignment — it is the schedule's choice; a worker takes its items in ticket order,
  `threadpool.c: get_next_work_item`);
* `obsIndependent`: the monitor evaluated on what the real compressors did (`sqfsmodel c02 hi`).

Proofs: `Sqfs/Proofs/C02Worker.lean`; theorems `Sqfs.C02.stateful_pool_is_pure`, `…schedule_independent_stateful`,
`…stateful_worker_schedule_dependent`.
-/
import Sqfs.Model.BlockProc
namespace Sqfs.BlockProc
open Sqfs.Consts
open Sqfs.BlockWriter (hasFlag)

/-- `sqfs_compressor_t` as a worker uses it: `init` is the state of a fresh `sqfs_copy` of the configured compressor,
`doBlock s x` = (state after the call, result: `none` = returned 0, `some z` = `z` replaces the data) -/
structure StatefulCodec (σ : Type) where
  init : σ
  doBlock : σ → Bytes → σ × Option Bytes
  unc : Bytes → Option Bytes

/-- **history independence of `do_block`**: whatever the object compressed before, the result for `x` is the result of a
fresh copy.  (Nothing is said about the state itself: a compressor may cache whatever it likes.) -/
def StatefulCodec.HistoryIndependent {σ : Type} (c : StatefulCodec σ) : Prop :=
  ∀ (s : σ) (x : Bytes), (c.doBlock s x).2 = (c.doBlock c.init x).2

/-- the pure codec a history-independent compressor is: a fresh copy applied to the block -/
def StatefulCodec.pure {σ : Type} (c : StatefulCodec σ) : Codec :=
  ⟨fun x => (c.doBlock c.init x).2, c.unc⟩

/-- the codec a worker whose compressor is in state `s` applies to its next block -/
def StatefulCodec.at {σ : Type} (c : StatefulCodec σ) (s : σ) : Codec :=
  ⟨fun x => (c.doBlock s x).2, c.unc⟩

/-- does `process_block` reach `worker->cmp->do_block` for this block (block_processor.c:15-38)? -/
def callsCodec (b : Blk) : Bool :=
  !(b.data.length == 0) && !(!hasFlag b.flags (blkIgnoreSparse ||| blkFragmentBlock) && allZero b.data) &&
  !hasFlag b.flags (blkIsFragment ||| blkDontCompress)

/-- `process_block` on a worker whose compressor is in state `s`: the worker's new state and the worked block -/
def processBlockS {σ : Type} (P : Params) (c : StatefulCodec σ) (s : σ) (b : Blk) : σ × Blk :=
  (if callsCodec b then (c.doBlock s b.data).1 else s, processBlock { P with codec := c.at s } b)

/-- the worked items a pool of stateful workers hands back for the submitted `items` (first ticket `id`), when item
`t` is compressed by worker `asg t`; `st w` = current state of worker `w`'s compressor -/
def workItems {σ : Type} (P : Params) (c : StatefulCodec σ) (asg : Nat → Nat) : (Nat → σ) → Nat → List Blk → List Blk
  | _, _, [] => []
  | st, id, b :: bs =>
    let r := processBlockS P c (st (asg id)) b
    r.2 :: workItems P c asg (fun w => if w = asg id then r.1 else st w) (id + 1) bs

/-! ### monitor: what harness/h_c02_comp.c observed -/

/-- one block: the result of the assigned worker copy (with its history), of a freshly created compressor, of a fresh
copy of the configured compressor (each: return value and a hash of the output), and whether the uncompressor restored
the block from the first -/
structure CompObs where
  hist : Int × Nat
  fresh : Int × Nat
  copy : Int × Nat
  roundTrip : Bool
deriving DecidableEq, Repr

/-- the first block (position) on which the observed compressor was *not* history independent or a copy differed from
the original -/
def obsIndependent (obs : List CompObs) : Option Nat :=
  obs.findIdx? (fun o => !(o.hist == o.fresh && o.copy == o.fresh))

/-- the first block on which a call failed or the codec contract of the theorems (`CodecOk`: the compressed block is
shorter and uncompresses to the input) was broken -/
def obsContract (obs : List CompObs) : Option Nat :=
  obs.findIdx? (fun o => !(decide (0 ≤ o.hist.1) && o.roundTrip))

end Sqfs.BlockProc
