/-
Model of the two caches of `lib/sqfs/src/data_reader.c` (C10): `get_block`, `precache_data_block`
(cache keyed by the block's *location only* — D21), `precache_fragment_block` (keyed by fragment index),
`sqfs_data_reader_read` and `sqfs_data_reader_get_fragment` on top of them, plus the *cacheless* reference
(`…Spec`) that calls `get_block` afresh for every access and does not look at the reader object at all.

File and codec are the abstract ones of `Sqfs.Model.MetaReader`.  The fragment table is a list of
`(start_offset, size word)` (what `sqfs_frag_table_lookup` returns).  Byte counts and locations are `Nat`
(`sqfs_u64`/`sqfs_u32` quantities that the harness keeps far below their wrap-around points; the wrap-around
behaviour of `frag_off + frag_sz` etc. belongs to C05, not to the cache).

`keyOnWord = false` is the code as it is in /repo; `keyOnWord = true` models the repair of D21
(`fixes/C10-data-reader-cache-key.patch`: a cached data block is reused only for the same location *and* the
same size word).
-/
import Sqfs.Model.MetaReader
namespace Sqfs.DataReader
open Sqfs.Consts Sqfs.MetaReader

/-- `SQFS_ON_DISK_BLOCK_SIZE(w) = w & ((1 << 24) - 1)` -/
def onDisk (w : Nat) : Nat := w % 16777216
/-- `SQFS_IS_BLOCK_COMPRESSED(w) = (w & (1 << 24)) == 0` -/
def isCompressed (w : Nat) : Bool := (w / 16777216) % 2 == 0
/-- `SQFS_IS_SPARSE_BLOCK(w)` -/
def isSparse (w : Nat) : Bool := onDisk w == 0

def zeros (n : Nat) : Bytes := List.replicate n 0

/-- `get_block(data, off, size word, max_size, &out_sz, &out)`: on success the zero-initialised buffer of
`max_size` bytes with the block at its front, and `out_sz`; on failure the status (`*out = NULL`). -/
def getBlock (f : File) (unc : Codec) (off w maxSize : Nat) : Except Status (Bytes × Nat) :=
  if isSparse w then .ok (zeros maxSize, maxSize)
  else
    let n := onDisk w
    if n > maxSize then .error errOverflow
    else if isCompressed w then
      match f.readAt off n with                            -- into data->scratch
      | .error e => .error e
      | .ok raw =>
        match unc raw maxSize with
        | .error e => .error e
        | .ok out => if out.length = 0 then .error errOverflow      -- ret <= 0
                     else .ok (overwrite (zeros maxSize) out, out.length)
    else
      match f.readAt off n with
      | .error e => .error e
      | .ok raw => .ok (overwrite (zeros maxSize) raw, n)

/-- the reader object: the two caches (`none` = pointer is `NULL`), the fragment table, `block_size` -/
structure DR where
  blockSize : Nat
  tbl : List (Nat × Nat)
  dataBlock : Option (Bytes × Nat)        -- (data_block, data_blk_size)
  currentBlock : Nat
  currentWord : Nat                       -- only used by the repaired code
  fragBlock : Option (Bytes × Nat)        -- (frag_block, frag_blk_size)
  currentFrag : Nat
deriving DecidableEq, Repr

/-- `sqfs_data_reader_create` + `sqfs_data_reader_load_fragment_table` (which resets the fragment cache) -/
def fresh (blockSize : Nat) (tbl : List (Nat × Nat)) : DR :=
  { blockSize := blockSize, tbl := tbl, dataBlock := none, currentBlock := 0, currentWord := 0,
    fragBlock := none, currentFrag := tbl.length }

/-- `precache_data_block(data, location, size word)` -/
def precacheData (keyOnWord : Bool) (f : File) (unc : Codec) (d : DR) (loc w : Nat) : Status × DR :=
  if d.dataBlock.isSome ∧ d.currentBlock = loc ∧ (keyOnWord = false ∨ d.currentWord = w) then (0, d)
  else
    match getBlock f unc loc w d.blockSize with              -- free(old); current_block = location; get_block(..)
    | .error e => (e, { d with dataBlock := none, currentBlock := loc, currentWord := w })
    | .ok r => (0, { d with dataBlock := some r, currentBlock := loc, currentWord := w })

/-- `precache_fragment_block(data, idx)` -/
def precacheFrag (f : File) (unc : Codec) (d : DR) (idx : Nat) : Status × DR :=
  if d.fragBlock.isSome ∧ idx = d.currentFrag then (0, d)
  else
    match d.tbl[idx]? with
    | none => (errOutOfBounds, d)                            -- sqfs_frag_table_lookup failed: nothing touched
    | some ent =>
      match getBlock f unc ent.1 ent.2 d.blockSize with
      | .error e => (e, { d with fragBlock := none, currentFrag := idx })
      | .ok r => (0, { d with fragBlock := some r, currentFrag := idx })

/-- a regular-file inode as the data reader sees it -/
structure Inode where
  fileSize : Nat
  blocksStart : Nat
  fragIdx : Nat
  fragOff : Nat
  blocks : List Nat                       -- inode->extra[0 .. block_count)
deriving DecidableEq, Repr

/-- `for (i = 0; offset > block_size && i < block_count; ++i) { off += on_disk(extra[i]); offset -= block_size; }` -/
def skipBlocks (bs : Nat) : List Nat → Nat → Nat → List Nat × Nat × Nat
  | [], off, offset => ([], off, offset)
  | w :: rest, off, offset =>
    if offset > bs then skipBlocks bs rest (off + onDisk w) (offset - bs) else (w :: rest, off, offset)

/-- result of the block-copy loop: failed, or ran to its end with `size` bytes still wanted -/
inductive CopyR where
  | fail (e : Status) (d : DR)
  | cont (d : DR) (offset size : Nat) (acc : Bytes)

/-- `while (i < block_count && size > 0) { … }` of `sqfs_data_reader_read`; the blocks still to visit are the
list argument, `off` their on-disk location, `offset` the offset into the first of them -/
def copyBlocks (kw : Bool) (f : File) (unc : Codec) : DR → List Nat → Nat → Nat → Nat → Bytes → CopyR
  | d, [], _, offset, size, acc => .cont d offset size acc
  | d, w :: rest, off, offset, size, acc =>
    if size = 0 then .cont d offset size acc else
    let diff := if size < d.blockSize - offset then size else d.blockSize - offset
    if isSparse w then copyBlocks kw f unc d rest off 0 (size - diff) (acc ++ zeros diff)
    else
      let r := precacheData kw f unc d off w
      if r.1 ≠ 0 then .fail r.1 r.2
      else
        let buf := match r.2.dataBlock with | some b => b.1 | none => []
        copyBlocks kw f unc r.2 rest (off + onDisk w) 0 (size - diff) (acc ++ (buf.drop offset).take diff)

/-- `sqfs_data_reader_read(data, inode, offset, buffer, size)`: negative status or the bytes delivered
(the return value is their number) -/
def read (kw : Bool) (f : File) (unc : Codec) (d : DR) (ino : Inode) (offset size : Nat) : (Status × Bytes) × DR :=
  let size := if size ≥ 2147483647 then 2147483646 else size
  if offset ≥ ino.fileSize then ((0, []), d)
  else
    let size := if ino.fileSize - offset < size then ino.fileSize - offset else size
    if size = 0 then ((0, []), d)
    else
      let s := skipBlocks d.blockSize ino.blocks ino.blocksStart offset
      match copyBlocks kw f unc d s.1 s.2.1 s.2.2 size [] with
      | .fail e d' => ((e, []), d')
      | .cont d' offset size acc =>
        if size = 0 then ((0, acc), d')
        else
          let r := precacheFrag f unc d' ino.fragIdx
          if r.1 ≠ 0 then ((r.1, []), r.2)
          else
            match r.2.fragBlock with
            | none => ((errInternal, []), r.2)             -- unreachable: success leaves a block cached
            | some fb =>
              if ino.fragOff + offset ≥ fb.2 then ((errOutOfBounds, []), r.2)
              else if fb.2 - (ino.fragOff + offset) < size then ((errOutOfBounds, []), r.2)
              else ((0, acc ++ (fb.1.drop (ino.fragOff + offset)).take size), r.2)

/-! ### the cacheless reference: every access decodes the block afresh; no reader object -/

def copyBlocksSpec (f : File) (unc : Codec) (bs : Nat) : List Nat → Nat → Nat → Nat → Bytes → Except Status (Nat × Nat × Bytes)
  | [], _, offset, size, acc => .ok (offset, size, acc)
  | w :: rest, off, offset, size, acc =>
    if size = 0 then .ok (offset, size, acc) else
    let diff := if size < bs - offset then size else bs - offset
    if isSparse w then copyBlocksSpec f unc bs rest off 0 (size - diff) (acc ++ zeros diff)
    else
      match getBlock f unc off w bs with
      | .error e => .error e
      | .ok b => copyBlocksSpec f unc bs rest (off + onDisk w) 0 (size - diff) (acc ++ (b.1.drop offset).take diff)

def readSpec (f : File) (unc : Codec) (bs : Nat) (tbl : List (Nat × Nat)) (ino : Inode) (offset size : Nat) : Status × Bytes :=
  let size := if size ≥ 2147483647 then 2147483646 else size
  if offset ≥ ino.fileSize then (0, [])
  else
    let size := if ino.fileSize - offset < size then ino.fileSize - offset else size
    if size = 0 then (0, [])
    else
      let s := skipBlocks bs ino.blocks ino.blocksStart offset
      match copyBlocksSpec f unc bs s.1 s.2.1 s.2.2 size [] with
      | .error e => (e, [])
      | .ok (offset, size, acc) =>
        if size = 0 then (0, acc)
        else
          match tbl[ino.fragIdx]? with
          | none => (errOutOfBounds, [])
          | some ent =>
            match getBlock f unc ent.1 ent.2 bs with
            | .error e => (e, [])
            | .ok fb =>
              if ino.fragOff + offset ≥ fb.2 then (errOutOfBounds, [])
              else if fb.2 - (ino.fragOff + offset) < size then (errOutOfBounds, [])
              else (0, acc ++ (fb.1.drop (ino.fragOff + offset)).take size)

/-- the `(location, size word)` pairs `read` may hand to `precache_data_block` for this inode -/
def accesses : List Nat → Nat → List (Nat × Nat)
  | [], _ => []
  | w :: rest, off => if isSparse w then accesses rest off else (off, w) :: accesses rest (off + onDisk w)

inductive Op where
  | read (ino : Inode) (offset size : Nat)
deriving DecidableEq, Repr

def step (kw : Bool) (f : File) (unc : Codec) (d : DR) : Op → DR
  | .read ino o n => (read kw f unc d ino o n).2

def run (kw : Bool) (f : File) (unc : Codec) (d : DR) (h : List Op) : DR := h.foldl (step kw f unc) d

end Sqfs.DataReader
