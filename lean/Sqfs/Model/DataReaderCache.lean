/-
Model of `lib/sqfs/src/data_reader.c` (C10): `get_block`, the two caches (`precache_data_block`, keyed by the
block's location *and* size word; `precache_fragment_block`, keyed by fragment index, reset by
`sqfs_data_reader_load_fragment_table`), and the public entry points on top of them:
`sqfs_data_reader_read`, `sqfs_data_reader_get_block`, `sqfs_data_reader_get_fragment`, the stream
(`sqfs_data_reader_create_stream`, `dr_stream_get_buffered_data`, `dr_stream_advance_buffer`) and
`sqfs_data_reader_load_fragment_table`; plus the *cacheless* references (`…Spec`) that decode every block afresh
and do not look at the reader object at all.

File and codec are the abstract ones of `Sqfs.Model.MetaReader`.  The fragment table is a list of
`(start_offset, size word)` (what `sqfs_frag_table_lookup` returns; `Sqfs.C10P.fragTableRead` models how it is
loaded).  Locations are `Nat` (a `sqfs_u64` start plus 24-bit on-disk sizes; their wrap-around at 2^64 is not
modelled), `filesz -= block_size` of `get_block` and `frag_off + offset` of `read` wrap as in C.

`keyOnWord = true` is the code as it is in /repo (since 36fa767 a cached data block is reused only for the same
location *and* the same size word); `keyOnWord = false` is the code before that commit (D21), kept for the
witness model.  `sfix = false` is the stream code as it is in /repo (a failing fragment lookup returns without
resetting the stream: D33); `sfix = true` the code with `fixes/C10-stream-frag-fail.patch`.
-/
import Sqfs.Model.MetaReader
namespace Sqfs.DataReader
open Sqfs.Consts Sqfs.MetaReader

/-- `SQFS_ON_DISK_BLOCK_SIZE(w) = w & ((1 << 24) - 1)` -/
def onDisk (w : Nat) : Nat := w % 16777216
/-- `SQFS_IS_BLOCK_COMPRESSED(w) = (w & (1 << 24)) == 0` -/
def isCompressed (w : Nat) : Bool := (w / 16777216) % 2 == 0
/-- `SQFS_IS_SPARSE_BLOCK(w)` -/
def isSparse (w : Nat) : Bool := onDisk w == 0

def zeros (n : Nat) : Bytes := List.replicate n 0

/-- `get_block(data, off, size word, max_size, &out_sz, &out)`: on success the zero-initialised buffer of
`max_size` bytes with the block at its front, and `out_sz`; on failure the status (`*out = NULL`). -/
def getBlock (f : File) (unc : Codec) (off w maxSize : Nat) : Except Status (Bytes × Nat) :=
  if isSparse w then .ok (zeros maxSize, maxSize)
  else
    let n := onDisk w
    if n > maxSize then .error errOverflow
    else if isCompressed w then
      match f.readAt off n with                            -- into data->scratch
      | .error e => .error e
      | .ok raw =>
        match unc raw maxSize with
        | .error e => .error e
        | .ok out => if out.length = 0 then .error errOverflow      -- ret <= 0
                     else .ok (overwrite (zeros maxSize) out, out.length)
    else
      match f.readAt off n with
      | .error e => .error e
      | .ok raw => .ok (overwrite (zeros maxSize) raw, n)

/-- the reader object: the two caches (`none` = pointer is `NULL`), the fragment table, `block_size` -/
structure DR where
  blockSize : Nat
  tbl : List (Nat × Nat)
  dataBlock : Option (Bytes × Nat)        -- (data_block, data_blk_size)
  currentBlock : Nat
  currentWord : Nat                       -- only used by the repaired code
  fragBlock : Option (Bytes × Nat)        -- (frag_block, frag_blk_size)
  currentFrag : Nat
deriving DecidableEq, Repr

/-- `sqfs_data_reader_create` + `sqfs_data_reader_load_fragment_table` (which resets the fragment cache) -/
def fresh (blockSize : Nat) (tbl : List (Nat × Nat)) : DR :=
  { blockSize := blockSize, tbl := tbl, dataBlock := none, currentBlock := 0, currentWord := 0,
    fragBlock := none, currentFrag := tbl.length }

/-- `precache_data_block(data, location, size word)` -/
def precacheData (keyOnWord : Bool) (f : File) (unc : Codec) (d : DR) (loc w : Nat) : Status × DR :=
  if d.dataBlock.isSome ∧ d.currentBlock = loc ∧ (keyOnWord = false ∨ d.currentWord = w) then (0, d)
  else
    match getBlock f unc loc w d.blockSize with              -- free(old); current_block = location; get_block(..)
    | .error e => (e, { d with dataBlock := none, currentBlock := loc, currentWord := w })
    | .ok r => (0, { d with dataBlock := some r, currentBlock := loc, currentWord := w })

/-- `precache_fragment_block(data, idx)` -/
def precacheFrag (f : File) (unc : Codec) (d : DR) (idx : Nat) : Status × DR :=
  if d.fragBlock.isSome ∧ idx = d.currentFrag then (0, d)
  else
    match d.tbl[idx]? with
    | none => (errOutOfBounds, d)                            -- sqfs_frag_table_lookup failed: nothing touched
    | some ent =>
      match getBlock f unc ent.1 ent.2 d.blockSize with
      | .error e => (e, { d with fragBlock := none, currentFrag := idx })
      | .ok r => (0, { d with fragBlock := some r, currentFrag := idx })

/-- a regular-file inode as the data reader sees it -/
structure Inode where
  fileSize : Nat
  blocksStart : Nat
  fragIdx : Nat
  fragOff : Nat
  blocks : List Nat                       -- inode->extra[0 .. block_count)
deriving DecidableEq, Repr

/-- `for (i = 0; offset > block_size && i < block_count; ++i) { off += on_disk(extra[i]); offset -= block_size; }` -/
def skipBlocks (bs : Nat) : List Nat → Nat → Nat → List Nat × Nat × Nat
  | [], off, offset => ([], off, offset)
  | w :: rest, off, offset =>
    if offset > bs then skipBlocks bs rest (off + onDisk w) (offset - bs) else (w :: rest, off, offset)

/-- result of the block-copy loop: failed, or ran to its end with `size` bytes still wanted -/
inductive CopyR where
  | fail (e : Status) (d : DR)
  | cont (d : DR) (offset size : Nat) (acc : Bytes)

/-- `while (i < block_count && size > 0) { … }` of `sqfs_data_reader_read`; the blocks still to visit are the
list argument, `off` their on-disk location, `offset` the offset into the first of them -/
def copyBlocks (kw : Bool) (f : File) (unc : Codec) : DR → List Nat → Nat → Nat → Nat → Bytes → CopyR
  | d, [], _, offset, size, acc => .cont d offset size acc
  | d, w :: rest, off, offset, size, acc =>
    if size = 0 then .cont d offset size acc else
    let diff := if size < d.blockSize - offset then size else d.blockSize - offset
    if isSparse w then copyBlocks kw f unc d rest off 0 (size - diff) (acc ++ zeros diff)
    else
      let r := precacheData kw f unc d off w
      if r.1 ≠ 0 then .fail r.1 r.2
      else
        let buf := match r.2.dataBlock with | some b => b.1 | none => []
        copyBlocks kw f unc r.2 rest (off + onDisk w) 0 (size - diff) (acc ++ (buf.drop offset).take diff)

/-- `sqfs_data_reader_read(data, inode, offset, buffer, size)`: negative status or the bytes delivered
(the return value is their number) -/
def read (kw : Bool) (f : File) (unc : Codec) (d : DR) (ino : Inode) (offset size : Nat) : (Status × Bytes) × DR :=
  let size := if size ≥ 2147483647 then 2147483646 else size
  if offset ≥ ino.fileSize then ((0, []), d)
  else
    let size := if ino.fileSize - offset < size then ino.fileSize - offset else size
    if size = 0 then ((0, []), d)
    else
      let s := skipBlocks d.blockSize ino.blocks ino.blocksStart offset
      match copyBlocks kw f unc d s.1 s.2.1 s.2.2 size [] with
      | .fail e d' => ((e, []), d')
      | .cont d' offset size acc =>
        if size = 0 then ((0, acc), d')
        else
          let r := precacheFrag f unc d' ino.fragIdx
          if r.1 ≠ 0 then ((r.1, []), r.2)
          else
            match r.2.fragBlock with
            | none => ((errInternal, []), r.2)             -- unreachable: success leaves a block cached
            | some fb =>
              let fo := wrap64 (ino.fragOff + offset)       -- (frag_off + offset): sqfs_u32 + sqfs_u64
              if fo ≥ fb.2 then ((errOutOfBounds, []), r.2)
              else if fb.2 - fo < size then ((errOutOfBounds, []), r.2)
              else ((0, acc ++ (fb.1.drop fo).take size), r.2)

/-! ### the cacheless reference: every access decodes the block afresh; no reader object -/

def copyBlocksSpec (f : File) (unc : Codec) (bs : Nat) : List Nat → Nat → Nat → Nat → Bytes → Except Status (Nat × Nat × Bytes)
  | [], _, offset, size, acc => .ok (offset, size, acc)
  | w :: rest, off, offset, size, acc =>
    if size = 0 then .ok (offset, size, acc) else
    let diff := if size < bs - offset then size else bs - offset
    if isSparse w then copyBlocksSpec f unc bs rest off 0 (size - diff) (acc ++ zeros diff)
    else
      match getBlock f unc off w bs with
      | .error e => .error e
      | .ok b => copyBlocksSpec f unc bs rest (off + onDisk w) 0 (size - diff) (acc ++ (b.1.drop offset).take diff)

def readSpec (f : File) (unc : Codec) (bs : Nat) (tbl : List (Nat × Nat)) (ino : Inode) (offset size : Nat) : Status × Bytes :=
  let size := if size ≥ 2147483647 then 2147483646 else size
  if offset ≥ ino.fileSize then (0, [])
  else
    let size := if ino.fileSize - offset < size then ino.fileSize - offset else size
    if size = 0 then (0, [])
    else
      let s := skipBlocks bs ino.blocks ino.blocksStart offset
      match copyBlocksSpec f unc bs s.1 s.2.1 s.2.2 size [] with
      | .error e => (e, [])
      | .ok (offset, size, acc) =>
        if size = 0 then (0, acc)
        else
          match tbl[ino.fragIdx]? with
          | none => (errOutOfBounds, [])
          | some ent =>
            match getBlock f unc ent.1 ent.2 bs with
            | .error e => (e, [])
            | .ok fb =>
              let fo := wrap64 (ino.fragOff + offset)
              if fo ≥ fb.2 then (errOutOfBounds, [])
              else if fb.2 - fo < size then (errOutOfBounds, [])
              else (0, acc ++ (fb.1.drop fo).take size)

/-- the `(location, size word)` pairs `read` may hand to `precache_data_block` for this inode -/
def accesses : List Nat → Nat → List (Nat × Nat)
  | [], _ => []
  | w :: rest, off => if isSparse w then accesses rest off else (off, w) :: accesses rest (off + onDisk w)

/-! ### `sqfs_data_reader_get_block`, `sqfs_data_reader_get_fragment`, `sqfs_data_reader_load_fragment_table` -/

/-- `for (i = 0; i < index; ++i) { off += on_disk(extra[i]); filesz -= block_size; }` (`filesz` wraps) -/
def blockLoc (bs : Nat) : List Nat → Nat → Nat → Nat → Nat × Nat
  | _, 0, off, filesz => (off, filesz)
  | [], _ + 1, off, filesz => (off, filesz)
  | w :: rest, i + 1, off, filesz => blockLoc bs rest i (off + onDisk w) (subWrap filesz bs)

/-- `sqfs_data_reader_get_block(data, inode, index, &size, &out)`: the `size` bytes handed out.  Does not touch
the caches. -/
def getBlockApi (f : File) (unc : Codec) (bs : Nat) (ino : Inode) (index : Nat) : Except Status Bytes :=
  match ino.blocks[index]? with
  | none => .error errOutOfBounds                             -- index >= block count
  | some w =>
    let l := blockLoc bs ino.blocks index ino.blocksStart ino.fileSize
    let unpacked := if l.2 < bs then l.2 else bs
    match getBlock f unc l.1 w unpacked with
    | .error e => .error e
    | .ok b => .ok (b.1.take b.2)

/-- `sqfs_data_reader_get_fragment(data, inode, &size, &out)` -/
def getFragment (f : File) (unc : Codec) (d : DR) (ino : Inode) : Except Status Bytes × DR :=
  if ino.blocks.length > (U64 - 1) / d.blockSize then (.error errOverflow, d)
  else if ino.blocks.length * d.blockSize ≥ ino.fileSize then (.ok [], d)
  else
    let fragSz := ino.fileSize % d.blockSize
    let r := precacheFrag f unc d ino.fragIdx
    if r.1 ≠ 0 then (.error r.1, r.2)
    else if ino.fragOff + fragSz > d.blockSize then (.error errOutOfBounds, r.2)
    else
      match r.2.fragBlock with
      | none => (.error errInternal, r.2)                      -- unreachable
      | some fb => (.ok ((fb.1.drop ino.fragOff).take fragSz), r.2)

/-- cacheless reference of `get_fragment` -/
def getFragmentSpec (f : File) (unc : Codec) (bs : Nat) (tbl : List (Nat × Nat)) (ino : Inode) : Except Status Bytes :=
  if ino.blocks.length > (U64 - 1) / bs then .error errOverflow
  else if ino.blocks.length * bs ≥ ino.fileSize then .ok []
  else
    match tbl[ino.fragIdx]? with
    | none => .error errOutOfBounds
    | some ent =>
      match getBlock f unc ent.1 ent.2 bs with
      | .error e => .error e
      | .ok fb =>
        if ino.fragOff + ino.fileSize % bs > bs then .error errOutOfBounds
        else .ok ((fb.1.drop ino.fragOff).take (ino.fileSize % bs))

/-- `sqfs_data_reader_load_fragment_table` with the table it reads from the image (`tbl`; the reading itself is
`Sqfs.C10P.fragTableRead`): the cached fragment block is dropped.  A failed load leaves an empty table and
`current_frag_index = 0`. -/
def reload (d : DR) (tbl : Except Status (List (Nat × Nat))) : DR :=
  match tbl with
  | .ok t => { d with tbl := t, fragBlock := none, currentFrag := t.length }
  | .error _ => { d with tbl := [], fragBlock := none, currentFrag := 0 }

/-! ### the stream (`sqfs_data_reader_create_stream`) -/

/-- `data_reader_istream_t`: `mem` is the `block_size` byte buffer (`none` = never written since `malloc`),
`blocks` the block words not yet consumed (`blocks + blk_idx`) -/
structure Stream where
  blocks : List Nat
  filesz : Nat
  diskOffset : Nat
  fragIdx : Nat
  fragOff : Nat
  mem : List (Option UInt8)
  bufUsed : Nat
  bufOff : Nat
deriving DecidableEq, Repr

/-- `sqfs_data_reader_create_stream` -/
def streamOpen (bs : Nat) (ino : Inode) : Stream :=
  { blocks := ino.blocks, filesz := ino.fileSize, diskOffset := ino.blocksStart, fragIdx := ino.fragIdx,
    fragOff := ino.fragOff, mem := List.replicate bs none, bufUsed := 0, bufOff := 0 }

inductive StreamR where
  /-- return value 0 with `*out`/`*size` -/
  | data (d : List (Option UInt8))
  /-- return value 1 -/
  | eof
  | err (e : Status)
deriving DecidableEq, Repr

def writeMem (mem : List (Option UInt8)) (new : Bytes) : List (Option UInt8) := new.map some ++ mem.drop new.length

/-- the `fail:` label: buffer freed, stream at its end -/
def Stream.failed (s : Stream) : Stream := { s with mem := [], bufUsed := 0, bufOff := 0, filesz := 0 }

/-- outcome of the part of `dr_stream_get_buffered_data` that fills the buffer -/
inductive Fill where
  /-- buffer filled: new buffer memory, new stream fields -/
  | ok (mem : List (Option UInt8)) (s : Stream)
  /-- `goto fail` -/
  | fail (e : Status)
  /-- the `return ret;` after a failed `precache_fragment_block` (D33: should be `goto fail`) -/
  | early (e : Status)

/-- the middle of `dr_stream_get_buffered_data`: the next block (`blk_idx < blk_count`) or the fragment tail into
the buffer; `used` = `buf_used` -/
def streamFill (f : File) (unc : Codec) (d : DR) (s : Stream) (used : Nat) : Fill × DR :=
  match s.blocks with
  | w :: rest =>
    let n := onDisk w
    let fin (mem : List (Option UInt8)) : Fill × DR :=
      (.ok mem { s with blocks := rest, mem := mem, diskOffset := s.diskOffset + n, filesz := s.filesz - used }, d)
    if n = 0 then fin (writeMem s.mem (zeros used))
    else if n > d.blockSize then (.fail errOverflow, d)
    else if isCompressed w then
      match f.readAt s.diskOffset n with
      | .error e => (.fail e, d)
      | .ok raw =>
        match unc raw used with
        | .error e => (.fail e, d)
        | .ok out =>
          if out.length = 0 then (.fail errOverflow, d)
          else fin (writeMem s.mem (out ++ zeros (used - out.length)))
    else
      match f.readAt s.diskOffset n with
      | .error e => (.fail e, d)
      | .ok raw => fin (writeMem s.mem (raw ++ zeros (used - n)))
  | [] =>
    let r := precacheFrag f unc d s.fragIdx
    if r.1 ≠ 0 then (.early r.1, r.2)
    else
      match r.2.fragBlock with
      | none => (.fail errInternal, r.2)                          -- unreachable
      | some fb =>
        if fb.2 < s.fragOff ∨ fb.2 - s.fragOff < used then (.fail errCorrupted, r.2)
        else
          let mem := writeMem s.mem ((fb.1.drop s.fragOff).take used)
          (.ok mem { s with mem := mem, filesz := s.filesz - used }, r.2)

/-- `dr_stream_get_buffered_data` -/
def streamGet (sfix : Bool) (f : File) (unc : Codec) (d : DR) (s : Stream) : StreamR × Stream × DR :=
  if s.bufOff < s.bufUsed then (.data ((s.mem.take s.bufUsed).drop s.bufOff), s, d)
  else if s.filesz = 0 then (.eof, s.failed, d)
  else
    let used := if s.filesz < d.blockSize then s.filesz else d.blockSize
    let s := { s with bufOff := 0, bufUsed := used }
    match streamFill f unc d s used with
    | (.ok mem s', d') => (.data (mem.take used), s', d')
    | (.fail e, d') => (.err e, s.failed, d')
    | (.early e, d') => (.err e, (if sfix then s.failed else s), d')

/-- `dr_stream_advance_buffer` -/
def streamAdvance (s : Stream) (count : Nat) : Stream :=
  let diff := s.bufUsed - s.bufOff
  { s with bufOff := s.bufOff + (if diff < count then diff else count) }

/-- cacheless reference of `streamGet`: the fragment block is decoded afresh -/
def streamGetSpec (sfix : Bool) (f : File) (unc : Codec) (bs : Nat) (tbl : List (Nat × Nat)) (s : Stream) : StreamR × Stream :=
  let d0 : DR := { blockSize := bs, tbl := tbl, dataBlock := none, currentBlock := 0, currentWord := 0, fragBlock := none,
                   currentFrag := tbl.length }
  let r := streamGet sfix f unc d0 s
  (r.1, r.2.1)

/-! ### histories

`Op`/`step`/`run` are the histories of positional reads only (also used, read-only, by C19's `Sqfs.C19R`);
`OpX`/`stepX`/`runX` the histories over every entry point that touches the caches (`runX_embed` relates them). -/

inductive Op where
  | read (ino : Inode) (offset size : Nat)
deriving DecidableEq, Repr

def step (kw : Bool) (f : File) (unc : Codec) (d : DR) : Op → DR
  | .read ino o n => (read kw f unc d ino o n).2

def run (kw : Bool) (f : File) (unc : Codec) (d : DR) (h : List Op) : DR := h.foldl (step kw f unc) d

inductive OpX where
  | read (ino : Inode) (offset size : Nat)
  | frag (ino : Inode)
  /-- one `get_buffered_data` + `advance_buffer(count)` on a stream (the stream object is the caller's) -/
  | sget (s : Stream) (count : Nat)
  /-- `sqfs_data_reader_load_fragment_table` finding table `tbl` in the image -/
  | reload (tbl : Except Status (List (Nat × Nat)))

def stepX (kw sfix : Bool) (f : File) (unc : Codec) (d : DR) : OpX → DR
  | .read ino o n => (read kw f unc d ino o n).2
  | .frag ino => (getFragment f unc d ino).2
  | .sget s _ => (streamGet sfix f unc d s).2.2
  | .reload t => reload d t

def runX (kw sfix : Bool) (f : File) (unc : Codec) (d : DR) (h : List OpX) : DR := h.foldl (stepX kw sfix f unc) d

/-- a read-only history as an extended one -/
def Op.toX : Op → OpX
  | .read ino o n => .read ino o n

end Sqfs.DataReader
