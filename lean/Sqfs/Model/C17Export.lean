/-
C17 — the export table as `lib/sqfs/src/dir_writer.c` really builds and writes it (`--exportable`):

  dir_writer.c  `sqfs_dir_writer_create`  (SQFS_DIR_WRITER_CREATE_EXPORT_TABLE)   → `init`
  array.c       `array_set_capacity`      (doubling from `count`, 128 when empty)  → `growCount`, `setCapacity`
  dir_writer.c  `add_export_table_entry`  (grow, 0xFF fill of the gap, store)      → `addEntry`
  dir_writer.c  `sqfs_dir_writer_write_export_table` (root entry, `size * used` bytes to `sqfs_write_table`)
                                                                                   → `tableBytes`, `writeExport`
  write_table.c `sqfs_write_table`        (8 KiB metadata blocks + location list)  → `MetaWriter.writeTable` (shared
                                                                                     model, imported unchanged)

The array is modelled with its **capacity**: `cells.length` is `array->count`, and a cell is `none` while its bytes
are indeterminate (fresh from `realloc`, never written).  A store or `memset` beyond `count` cells is the heap
overflow of the C code and is the explicit result `.outOfBounds`; writing an indeterminate cell to the image is
`.uninit`.  `Sqfs/Proofs/C17Export.lean` proves that neither ever happens and that the cells below `used` are exactly
the ideal table `Sqfs.Pack.exportTable` of `Sqfs/Spec/PackSpec.lean`.

Not modelled: `SZ_MUL_OV` / `realloc` failure (`SQFS_ERROR_ALLOC`; `inum` is a `sqfs_u32`, so `count ≤ 2^33` and the
products cannot overflow a 64 bit `size_t`), the `export_tbl.data == NULL` early return (no `-e`: no table at all).
-/
import Sqfs.Spec.PackSpec
import Sqfs.Model.MetaWriter
import Sqfs.Model.Numbering
namespace Sqfs.C17Export
open Sqfs.Pack (noRef)

abbrev Bytes := List UInt8

inductive Err where
  | argInvalid     -- SQFS_ERROR_ARG_INVALID: `inum < 1`
  | outOfBounds    -- store / memset / read past `count` cells (undefined behaviour in C)
  | uninit         -- an indeterminate cell would be written to the image
  deriving DecidableEq, Repr

def Err.name : Err → String
  | .argInvalid => "arg-invalid" | .outOfBounds => "out-of-bounds" | .uninit => "uninit"

/-- `array_t` with `size = sizeof(sqfs_u64)`: `count = cells.length`, `used` -/
structure Arr where
  cells : List (Option UInt64)
  used : Nat
  deriving DecidableEq, Repr

/-- the literal capacity in `sqfs_dir_writer_create` (dir_writer.c: `array_init(&writer->export_tbl, sizeof(sqfs_u64), 512)`) -/
def initCount : Nat := 512

/-- `array_init` + `memset(data, 0xFF, size * count)`; `used = 0` -/
def init : Arr := ⟨List.replicate initCount (some noRef), 0⟩

/-- the `while (new_count < capacity)` doubling loop of `array_set_capacity`; fuel ≥ `capacity` suffices -/
def growCount : Nat → Nat → Nat → Nat
  | 0, n, _ => n
  | f + 1, n, cap => if n < cap then growCount f (n * 2) cap else n

/-- `array_set_capacity(array, capacity)`: nothing when `capacity <= count`; else `count` is doubled (128 when it
was 0) until it reaches `capacity` and the block is `realloc`ed — the new cells are indeterminate -/
def setCapacity (a : Arr) (capacity : Nat) : Arr :=
  if capacity ≤ a.cells.length then a
  else
    let c0 := if a.cells.length = 0 then 128 else a.cells.length * 2
    let c := growCount capacity c0 capacity
    { a with cells := a.cells ++ List.replicate (c - a.cells.length) none }

/-- `memset(ptr + frm, 0xFF, (to - frm) * sizeof(*ptr))` -/
def fillFF (cells : List (Option UInt64)) (frm to : Nat) : Except Err (List (Option UInt64)) :=
  if to ≤ cells.length then .ok (cells.take frm ++ List.replicate (to - frm) (some noRef) ++ cells.drop to)
  else .error .outOfBounds

/-- `add_export_table_entry(writer, inum, iref)` on a writer that has a table -/
def addEntry (a : Arr) (inum : Nat) (iref : UInt64) : Except Err Arr :=
  if inum < 1 then .error .argInvalid
  else
    let a1 := setCapacity a inum                                   -- `array_set_capacity(&writer->export_tbl, inum)`
    let filled : Except Err Arr :=
      if inum - 1 ≥ a1.used then                                   -- `(inum - 1) >= writer->export_tbl.used`
        match fillFF a1.cells a1.used inum with
        | .ok cs => .ok ⟨cs, inum⟩                                  -- `used = inum`
        | .error e => .error e
      else .ok a1
    match filled with
    | .error e => .error e
    | .ok a2 =>
      if inum - 1 < a2.cells.length then .ok { a2 with cells := a2.cells.set (inum - 1) (some iref) }   -- `ptr[inum - 1] = iref`
      else .error .outOfBounds

/-- the calls made while the directories are written, in order; stops at the first error (reporting its index) -/
def addAll (a : Arr) : List (Nat × UInt64) → Except Err Arr
  | [] => .ok a
  | (n, r) :: t =>
    match addEntry a n r with
    | .ok a' => addAll a' t
    | .error e => .error e

/-- little endian `sqfs_u64` (the table is written from memory; the tools run on little endian hosts) -/
def le64 (v : UInt64) : Bytes := (List.range 8).map (fun i => UInt8.ofNat (v.toNat / 256 ^ i % 256))

def collect : List (Option UInt64) → Except Err Bytes
  | [] => .ok []
  | none :: _ => .error .uninit
  | some v :: t =>
    match collect t with
    | .ok b => .ok (le64 v ++ b)
    | .error e => .error e

/-- the `size * used` bytes handed to `sqfs_write_table` -/
def tableBytes (a : Arr) : Except Err Bytes :=
  if a.used ≤ a.cells.length then collect (a.cells.take a.used) else .error .outOfBounds

/-- `sqfs_dir_writer_write_export_table` (with a table): the root's entry is added last, then the table goes through
`sqfs_write_table`.  Result: the metadata blocks and their locations relative to the first block. -/
def writeExport (cmp : MetaWriter.Codec) (a : Arr) (rootNum : Nat) (rootRef : UInt64) :
    Except Err (List MetaWriter.Block × List Nat) :=
  match addEntry a rootNum rootRef with
  | .error e => .error e
  | .ok a' =>
    match tableBytes a' with
    | .error e => .error e
    | .ok b => .ok (MetaWriter.writeTable cmp b)

/-- whole run: `entries` = the `sqfs_dir_writer_add_entry` calls in order, then the root -/
def exportRun (cmp : MetaWriter.Codec) (entries : List (Nat × UInt64)) (rootNum : Nat) (rootRef : UInt64) :
    Except Err (List MetaWriter.Block × List Nat) :=
  match addAll init entries with
  | .error e => .error e
  | .ok a => writeExport cmp a rootNum rootRef

/-! ### the bytes that land in the file (for the correspondence driver) -/

def le16 (v : Nat) : Bytes := [UInt8.ofNat (v % 256), UInt8.ofNat (v / 256 % 256)]

/-- a metadata block as written: 16 bit header, then the stored bytes -/
def blockBytes (b : MetaWriter.Block) : Bytes := le16 b.header ++ b.stored

/-- the file contents `sqfs_write_table` appends at offset `off`: all blocks, then the location list
(absolute offsets, `htole64`); and `*start` = offset of the location list -/
def tableFile (off : Nat) (w : List MetaWriter.Block × List Nat) : Bytes × Nat :=
  let blocks := w.1.flatMap blockBytes
  (blocks ++ w.2.flatMap (fun l => le64 (UInt64.ofNat (off + l))), off + blocks.length)

/-! ### which `sqfs_dir_writer_add_entry` calls a numbered tree causes

`sqfs_serialize_fstree` walks `fs->inodes` in number order and, for a directory, calls `sqfs_dir_writer_add_entry`
once per child with the child's inode number (for a hard-link entry: the number of its target).  On the numbered
trees of `Sqfs/Model/Numbering.lean` (`alloc_inode_num_dfs`): the numbers passed for the children of all directories
of a subtree.  The order of the calls does not matter for the table (`export_table_ok` is order independent), hard-link
entries only repeat numbers, so the theorems quantify over every call list that *covers* these numbers. -/
open Sqfs.Numbering in
def topNum : NTree → List Nat
  | .file n => [n]
  | .hlink _ => []
  | .dir n _ => [n]

open Sqfs.Numbering in
mutual
/-- numbers added as directory entries below the node `t` (not `t`'s own entry in its parent) -/
def entriesT : NTree → List Nat
  | .file _ => []
  | .hlink _ => []
  | .dir _ cs => entriesL cs
/-- the entries for the nodes of a child list, and everything below them -/
def entriesL : List NTree → List Nat
  | [] => []
  | t :: r => topNum t ++ entriesT t ++ entriesL r
end

end Sqfs.C17Export
