/-
C07 — index-explicit models of the text-input tokenisers that pack files, sort files and xattr
map files go through:

  * `lib/util/src/split_line.c`            `split_line` (in place: read cursor `src`, write cursor `dst`)
  * `bin/gensquashfs/src/sort_by_file.c`   `decode_filename` (in place unquoting)
  * `bin/gensquashfs/src/filemap_xattr.c`  `decode` (text form with `\\`, `\"`, octal escapes)

As in `ParseTotal.lean` every access is checked (`.oob`) and every loop carries fuel (`.spin`).
The buffer a C string lives in is `s ++ [0]`: the bytes and the terminator.  (C16 models
`split_line` at the value level for its round-trip theorem; here the point is the cursors.)
-/
import Sqfs.Model.ParseTotalTar
namespace Sqfs.ParseTotal

/-- `is_sep(sep, c)`: `strchr(sep, c) != NULL && c != '\0'` -/
def isSep (sep : Bytes) (c : UInt8) : Bool := c.toNat ≠ 0 && sep.contains c

/-- state of `split_line`: the buffer, `src`, `dst`, `len` (bytes left), the `args` offsets (most recent first) -/
structure SL where
  buf : Bytes
  src : Nat
  dst : Nat
  len : Nat
  args : List Nat
  deriving Repr

/-- `while (len > 0 && is_sep(sep, *src)) { ++src; --len; }` -/
def slSkip (sep : Bytes) : Nat → SL → R SL
  | 0, _ => .spin
  | fuel + 1, s =>
    if s.len = 0 then .ok s
    else match s.buf[s.src]? with
      | none => .oob
      | some c => if isSep sep c then slSkip sep fuel { s with src := s.src + 1, len := s.len - 1 } else .ok s

/-- the quoted-token loop; fail 2 = SPLIT_LINE_ESCAPE -/
def slQuoted : Nat → SL → R SL
  | 0, _ => .spin
  | fuel + 1, s =>
    if s.len = 0 then .ok s
    else match s.buf[s.src]? with
      | none => .oob
      | some c =>
        if c.toNat = 0 ∨ c.toNat = 34 then .ok s
        else if c.toNat = 92 then
          if s.len < 2 then .fail 2
          else match s.buf[s.src + 1]? with
            | none => .oob
            | some e =>
              if e.toNat ≠ 34 ∧ e.toNat ≠ 92 then .fail 2
              else match wr s.buf s.dst e with
                | none => .oob
                | some b => slQuoted fuel { s with buf := b, src := s.src + 2, dst := s.dst + 1, len := s.len - 2 }
        else match wr s.buf s.dst c with
          | none => .oob
          | some b => slQuoted fuel { s with buf := b, src := s.src + 1, dst := s.dst + 1, len := s.len - 1 }

/-- the bare-token loop -/
def slBare (sep : Bytes) : Nat → SL → R SL
  | 0, _ => .spin
  | fuel + 1, s =>
    if s.len = 0 then .ok s
    else match s.buf[s.src]? with
      | none => .oob
      | some c =>
        if isSep sep c ∨ c.toNat = 0 then .ok s
        else match wr s.buf s.dst c with
          | none => .oob
          | some b => slBare sep fuel { s with buf := b, src := s.src + 1, dst := s.dst + 1, len := s.len - 1 }

/-- `if (len == 0 || *src != '"') goto fail_quote; ++src; --len;` — fail 3 = SPLIT_LINE_UNMATCHED_QUOTE -/
def slCloseQuote (q : SL) : R SL :=
  if q.len = 0 then .fail 3
  else match q.buf[q.src]? with
    | none => .oob
    | some e => if e.toNat ≠ 34 then .fail 3 else .ok { q with src := q.src + 1, len := q.len - 1 }

/-- one token, quoted or bare; `c` = `*src` -/
def slToken (sep : Bytes) (s : SL) (c : UInt8) : R SL :=
  if c.toNat = 34 then
    match slQuoted (s.len + 1) { s with src := s.src + 1, len := s.len - 1 } with
    | .ok q => slCloseQuote q
    | .fail c => .fail c
    | .oob => .oob
    | .spin => .spin
  else slBare sep (s.len + 1) s

/-- after a token: skip separators, `*(dst++) = '\0'`, continue with the rest of the loop (`k`) -/
def slTail (sep : Bytes) (k : SL → R SL) (t : SL) : R SL :=
  match slSkip sep (t.len + 1) t with
  | .ok u =>
    (match wr u.buf u.dst 0 with
     | none => .oob
     | some b => k { u with buf := b, dst := u.dst + 1 })
  | .fail c => .fail c
  | .oob => .oob
  | .spin => .spin

/-- outer `while (len > 0 && *src != '\0')` -/
def slOuter (sep : Bytes) : Nat → SL → R SL
  | 0, _ => .spin
  | fuel + 1, s =>
    if s.len = 0 then .ok s
    else match s.buf[s.src]? with
      | none => .oob
      | some c =>
        if c.toNat = 0 then .ok s
        else match slToken sep { s with args := s.dst :: s.args } c with
          | .ok t => slTail sep (slOuter sep fuel) t
          | .fail c => .fail c
          | .oob => .oob
          | .spin => .spin

/--
`split_line(line, len, sep, &out)` on the object `buf` (`line = buf`), which must be at least
`len + 1` bytes long: the final terminator may be stored at index `len`.
-/
def splitLine (buf : Bytes) (len : Nat) (sep : Bytes) : R SL :=
  match slSkip sep (len + 1) { buf := buf, src := 0, dst := 0, len := len, args := [] } with
  | .ok s => slOuter sep (len + 1) s
  | e => e

/-- the tokens a caller sees: the C strings at the recorded offsets -/
def slTokens (s : SL) : R (List Bytes) :=
  s.args.reverse.foldr (fun off acc =>
    match acc, cstr s.buf (s.buf.length + 1) off with
    | .ok l, .ok t => .ok (t :: l)
    | .ok _, .oob => .oob
    | .ok _, .spin => .spin
    | .ok _, .fail c => .fail c
    | e, _ => e) (.ok [])

/-! ## `decode_filename` of the sort file reader (quoted form only; the result then goes to `canonicalize_name`) -/

/-- `for (;;)` of `decode_filename`: fail 1 = unmatched quote, 2 = unknown escape, 3 = characters after the closing quote -/
def dfLoop : Nat → Bytes → Nat → Nat → R Bytes
  | 0, _, _, _ => .spin
  | fuel + 1, buf, src, dst =>
    match buf[src]? with
    | none => .oob
    | some c =>
      if c.toNat = 0 then .fail 1
      else if c.toNat = 34 then
        match buf[src + 1]? with
        | none => .oob
        | some e =>
          if e.toNat ≠ 0 then .fail 3                                 -- `if (*src != '\0') return -1;`
          else match wr buf dst 0 with                                -- `*dst = '\0';` (since fix 3c63401)
            | none => .oob
            | some b => .ok b
      else if c.toNat = 92 then
        match buf[src + 1]? with
        | none => .oob
        | some e =>
          if e.toNat = 92 ∨ e.toNat = 34 then
            match wr buf dst e with
            | none => .oob
            | some b => dfLoop fuel b (src + 2) (dst + 1)
          else .fail 2
      else match wr buf dst c with
        | none => .oob
        | some b => dfLoop fuel b (src + 1) (dst + 1)

/-- `decode_filename(buffer)` up to (not including) `canonicalize_name`; `buf = s ++ [0]`.
(1.2.0 did not terminate the rewritten name, so the tail of the original line stayed behind it;
repaired in /repo by 3c63401, which this model follows.) -/
def decodeFilename (buf : Bytes) : R Bytes :=
  match buf[0]? with
  | none => .oob
  | some c => if c.toNat = 34 then dfLoop (buf.length + 1) buf 1 0 else .ok buf

/-! ## `decode` of the xattr map file reader, text form -/

/-- `while (v < end)` of `decode`; `v`, `end` are indices into `buf = value ++ [0]`; output accumulated in reverse -/
def xdLoop (buf : Bytes) (endIdx : Nat) : Nat → Nat → Bytes → R Bytes
  | 0, _, _ => .spin
  | fuel + 1, v, acc =>
    if v ≥ endIdx then .ok acc.reverse
    else match buf[v]? with
      | none => .oob
      | some c =>
        if c.toNat = 92 then
          match buf[v + 1]? with
          | none => .oob
          | some e =>
            if e.toNat = 92 ∨ e.toNat = 34 then xdLoop buf endIdx fuel (v + 2) (e :: acc)
            else if isOct e then
              -- up to three octal digits, `*d++ = c` keeps the low 8 bits
              match buf[v + 2]? with
              | none => .oob
              | some e2 =>
                if isOct e2 then
                  match buf[v + 3]? with
                  | none => .oob
                  | some e3 =>
                    if isOct e3 then
                      xdLoop buf endIdx fuel (v + 4) (UInt8.ofNat ((((e.toNat - 48) * 8 + (e2.toNat - 48)) * 8 + (e3.toNat - 48)) % 256) :: acc)
                    else xdLoop buf endIdx fuel (v + 3) (UInt8.ofNat (((e.toNat - 48) * 8 + (e2.toNat - 48)) % 256) :: acc)
                else xdLoop buf endIdx fuel (v + 2) (UInt8.ofNat (e.toNat - 48) :: acc)
            else xdLoop buf endIdx fuel (v + 1) (c :: acc)
        else xdLoop buf endIdx fuel (v + 1) (c :: acc)

/--
`decode(filename, line_num, value, &size)` with `size = strlen(value)`; `buf = value ++ [0]`.
Returns the decoded bytes (`*size` = their number).  fail 1 = "bad input encoding".
The output buffer has `size + 1` bytes (`calloc(1, *size + 1)`), hence the capacity check.
-/
def xattrDecode (buf : Bytes) : R Bytes :=
  let size := buf.length - 1
  if size = 0 then .ok []
  else match buf[0]?, buf[1]? with
    | some c0, some c1 =>
      if c0.toNat = 48 ∧ (c1.toNat = 120 ∨ c1.toNat = 88) then
        let n := (size - 2) / 2
        hexDecode buf 2 (n * 2) n []
      else if c0.toNat = 48 ∧ (c1.toNat = 115 ∨ c1.toNat = 83) then
        base64Decode buf 2 (size - 2) ((size - 2) / 4 * 3)
      else
        -- `if (end > v + 1 && *v == '"' && *(end - 1) == '"') { v++; end--; }`
        match buf[size - 1]? with
        | none => .oob
        | some last =>
          let quoted := size > 1 ∧ c0.toNat = 34 ∧ last.toNat = 34
          match xdLoop buf (if quoted then size - 1 else size) (size + 2) (if quoted then 1 else 0) [] with
          | .ok out => if out.length > size then .oob else .ok out     -- `d` never passes `decoded + size`
          | e => e
    | _, _ => .oob

end Sqfs.ParseTotal
