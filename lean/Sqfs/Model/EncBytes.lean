/-
C01 (packing fidelity) — byte-level helpers shared by the `Enc*` models.

* little-endian fields: `Sqfs.Writer.le n v` (`htoleNN` of a value already truncated to its C type by `%`) and
  `Sqfs.Writer.leVal` (`leNNtoh`);
* a C struct written with one `sqfs_meta_writer_append(&s, sizeof(s))` is `encFields [(width, value), …]`, a struct
  read with one `sqfs_meta_reader_read(&s, sizeof(s))` followed by the `SWABnn` block is `decFields [width, …]`;
* `take? n` is `sqfs_meta_reader_read(m, buf, n)` on the *uncompressed* metadata stream (the flat view of a run of
  metadata blocks; `Sqfs.EncMeta` relates it to blocks, headers and `(block, offset)` references): the next `n`
  bytes, or `SQFS_ERROR_OUT_OF_BOUNDS` when the run ends first (the seek to the next block leaves the window).

Statuses are the positive `SQFS_ERROR_*` numbers of `Sqfs.Consts` (as in `Sqfs.MetaReader`).
-/
import Sqfs.Model.Writer
namespace Sqfs.Enc
open Sqfs.Consts
open Sqfs.Writer (le leVal)

abbrev Bytes := List UInt8
abbrev Status := Nat

/-- `0xFFFFFFFF`: "no xattr index", "no fragment" -/
abbrev NONE32 : Nat := 0xFFFFFFFF
/-- `0xFFFFFFFFFFFFFFFF`: "no table", "value not written yet" -/
abbrev NONE64 : Nat := 0xFFFFFFFFFFFFFFFF

/-- a struct as the writer appends it: the fields in declaration order, `(width in bytes, value)` -/
def encFields : List (Nat × Nat) → Bytes
  | [] => []
  | (w, v) :: r => le w v ++ encFields r

/-- the `SWABnn` block after reading a struct: the fields in declaration order -/
def decFields : List Nat → Bytes → List Nat
  | [], _ => []
  | w :: ws, bs => leVal (bs.take w) :: decFields ws (bs.drop w)

/-- `sqfs_meta_reader_read(m, buf, n)` on the flat stream -/
def take? (n : Nat) (bs : Bytes) : Except Status (Bytes × Bytes) :=
  if n ≤ bs.length then .ok (bs.take n, bs.drop n) else .error errOutOfBounds

/-- read one struct of the given field widths -/
def readFields (ws : List Nat) (bs : Bytes) : Except Status (List Nat × Bytes) :=
  match take? ws.sum bs with
  | .error e => .error e
  | .ok (h, r) => .ok (decFields ws h, r)

/-- `count` little-endian words of `w` bytes each (block size words, `sqfs_u64` location lists, id tables) -/
def encWords (w : Nat) : List Nat → Bytes
  | [] => []
  | v :: r => le w v ++ encWords w r

def decWords (w : Nat) : Nat → Bytes → List Nat
  | 0, _ => []
  | n + 1, bs => leVal (bs.take w) :: decWords w n (bs.drop w)

end Sqfs.Enc
