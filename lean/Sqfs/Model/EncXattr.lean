/-
C01 — extended attributes.

* recording: `sqfs_xattr_writer_begin/add_kv/end` (`lib/sqfs/src/xattr/xattr_writer_record.c`) with the two string
  tables (`lib/util/src/str_table.c`: index = order of first insertion, reference counts), the pair array and the
  list of distinct key/value blocks (`kv_block_tree` is only the lookup structure for "is there an equal block");
* flushing: `write_kv_pairs`, `write_block_pairs`, `write_key`, `write_value`, `write_value_ool`, `should_store_ool`,
  `write_id_table`, `alloc_location_table` (`xattr_writer_flush.c`);
* reading: `sqfs_xattr_reader_get_desc`, `seek_kv`, `read_key_hdr`, `read_value_hdr`, `sqfs_xattr_reader_read`,
  `read_all` (`xattr_reader.c`).

The key/value stream is modelled flat (`Sqfs.EncMeta` relates flat positions and `(block, offset)` references);
`refOf p` is the packed reference the kv meta writer reports at flat position `p`, `posOf ref` what a seek to that
reference reaches.
-/
import Sqfs.Model.EncMeta
namespace Sqfs.Enc
open Sqfs.Consts

/-! ### keys -/

def prefixUser : Bytes := [0x75, 0x73, 0x65, 0x72, 0x2e]                                   -- "user."
def prefixTrusted : Bytes := [0x74, 0x72, 0x75, 0x73, 0x74, 0x65, 0x64, 0x2e]              -- "trusted."
def prefixSecurity : Bytes := [0x73, 0x65, 0x63, 0x75, 0x72, 0x69, 0x74, 0x79, 0x2e]       -- "security."

/-- `xattr_types[]` (xattr.c:17-24) -/
def xattrTypes : List (Bytes × Nat) := [(prefixUser, xattrUser), (prefixTrusted, xattrTrusted), (prefixSecurity, xattrSecurity)]

/-- `sqfs_get_xattr_prefix_id` (xattr.c:26-40): the prefix must be followed by at least one byte -/
def prefixId (key : Bytes) : Option Nat :=
  (xattrTypes.find? (fun t => t.1.isPrefixOf key && key.length > t.1.length)).map (·.2)

/-- `sqfs_get_xattr_prefix` (xattr.c:42-52) -/
def prefixOf (id : Nat) : Option Bytes := (xattrTypes.find? (fun t => t.2 == id)).map (·.1)

/-- `strchr(key, '.') + 1` (xattr_writer_flush.c:45-47): what follows the first dot -/
def afterDot : Bytes → Bytes
  | [] => []
  | c :: r => if c = 0x2e then r else afterDot r

/-! ### recording -/

/-- `sqfs_xattr_writer_t`: `keys`/`values` = the two `str_table_t` (string, and for values the reference count),
`pairs` = `kv_pairs` as (key index, value index), `blocks` = the `kv_block_desc_t` list (`start`, `count`) in
creation order (`num_blocks` = its length) -/
structure XWriter where
  keys : List Bytes := []
  values : List (Bytes × Nat) := []
  pairs : List (Nat × Nat) := []
  kvStart : Nat := 0
  blocks : List (Nat × Nat) := []
  deriving Repr, DecidableEq

/-- `str_table_get_index` on the key table -/
def internKey (keys : List Bytes) (k : Bytes) : Nat × List Bytes :=
  let i := keys.idxOf k
  if i < keys.length then (i, keys) else (keys.length, keys ++ [k])

/-- `str_table_get_index` + `str_table_add_ref` on the value table -/
def internValue (values : List (Bytes × Nat)) (v : Bytes) : Nat × List (Bytes × Nat) :=
  let i := (values.map (·.1)).idxOf v
  if i < values.length then (i, values.modify i (fun e => (e.1, e.2 + 1)))
  else (values.length, values ++ [(v, 1)])

/-- `str_table_del_ref` -/
def delRef (values : List (Bytes × Nat)) (i : Nat) : List (Bytes × Nat) :=
  values.modify i (fun e => (e.1, e.2 - 1))

/-- the `for (i = kv_start; …)` loop of `add_kv` (xattr_writer_record.c:82-94) over the pairs of the current set:
`some (pairs', replacedValue?)` when the key (or the very pair) is already there -/
def replacePair (kp : Nat × Nat) : List (Nat × Nat) → Option (List (Nat × Nat) × Option Nat)
  | [] => none
  | e :: r =>
    if e = kp then some (e :: r, none)                                     -- :85
    else if e.1 = kp.1 then some (kp :: r, some e.2)                       -- :87-92
    else (replacePair kp r).map (fun x => (e :: x.1, x.2))

/-- `sqfs_xattr_writer_add_kv` (xattr_writer_record.c:50-97) -/
def addKv (w : XWriter) (key value : Bytes) : Except Status XWriter :=
  match prefixId key with
  | none => .error errUnsupported                                          -- :59
  | some _ =>
    let (ki, keys) := internKey w.keys key                                 -- :62
    let (vi, values) := internValue w.values value                         -- :70-76 (base32 text = injective image)
    let cur := w.pairs.drop w.kvStart
    match replacePair (ki, vi) cur with
    | some (cur', old) =>
      let values := match old with | some o => delRef values o | none => values
      .ok { w with keys := keys, values := values, pairs := w.pairs.take w.kvStart ++ cur' }
    | none => .ok { w with keys := keys, values := values, pairs := w.pairs ++ [(ki, vi)] }   -- :96

/-- `compare_u64` on `MK_PAIR(key, value)` -/
def pairLe (a b : Nat × Nat) : Bool := a.1 < b.1 || (a.1 == b.1 && a.2 ≤ b.2)

def insertPair (p : Nat × Nat) : List (Nat × Nat) → List (Nat × Nat)
  | [] => [p]
  | e :: r => if pairLe p e then p :: e :: r else e :: insertPair p r

/-- `array_sort_range(…, compare_u64)`; the pairs of one set are distinct, so every sorting algorithm agrees -/
def sortPairs : List (Nat × Nat) → List (Nat × Nat)
  | [] => []
  | e :: r => insertPair e (sortPairs r)

def blockPairs (pairs : List (Nat × Nat)) (b : Nat × Nat) : List (Nat × Nat) := (pairs.drop b.1).take b.2

/-- `sqfs_xattr_writer_begin` (xattr_writer_record.c:40-48) -/
def beginSet (w : XWriter) : XWriter := { w with kvStart := w.pairs.length }

/-- `sqfs_xattr_writer_end` (xattr_writer_record.c:105-151): the writer afterwards and `*out` -/
def endSet (w : XWriter) : XWriter × Nat :=
  let count := w.pairs.length - w.kvStart
  if count = 0 then (w, NONE32)                                            -- :116-119
  else
    let sorted := sortPairs (w.pairs.drop w.kvStart)                       -- :121
    let pairs := w.pairs.take w.kvStart ++ sorted
    let j := (w.blocks.map (blockPairs pairs)).idxOf sorted                -- :123 rbtree_lookup (block_compare)
    if j < w.blocks.length then ({ w with pairs := w.pairs.take w.kvStart }, j)      -- :125-127
    else ({ w with pairs := pairs, blocks := w.blocks ++ [(w.kvStart, count)] }, w.blocks.length)   -- :128-146

/-- begin, every `add_kv`, end; stops at the first error like `apply_xattrs` in the tools -/
def addAllKv : XWriter → List (Bytes × Bytes) → Except Status XWriter
  | w, [] => .ok w
  | w, kv :: rest =>
    match addKv w kv.1 kv.2 with
    | .ok w => addAllKv w rest
    | .error e => .error e

def recordSet (w : XWriter) (kvs : List (Bytes × Bytes)) : Except Status (XWriter × Nat) :=
  match addAllKv (beginSet w) kvs with
  | .ok w => .ok (endSet w)
  | .error e => .error e

def recordAll (w : XWriter) : List (List (Bytes × Bytes)) → Except Status (XWriter × List Nat)
  | [] => .ok (w, [])
  | s :: rest =>
    match recordSet w s with
    | .ok (w, i) =>
      match recordAll w rest with
      | .ok (w, is) => .ok (w, i :: is)
      | .error e => .error e
    | .error e => .error e

/-! ### flushing -/

/-- `write_key` (xattr_writer_flush.c:33-65) -/
def encKey (key : Bytes) (ool : Bool) : Bytes :=
  let t := (prefixId key).getD 0
  let k := afterDot key
  encFields [(2, if ool then t ||| xattrFlagOol else t), (2, k.length)] ++ k

/-- `write_value` (:67-100) -/
def encValue (v : Bytes) : Bytes := encFields [(4, v.length)] ++ v

/-- `write_value_ool` (:102-122) -/
def encValueOol (ref : Nat) : Bytes := encFields [(4, 8), (8, ref)]

/-- `should_store_ool` (:124-140): referenced at least twice and longer than a reference -/
def shouldStoreOol (v : Bytes) (refcount : Nat) : Bool := refcount ≥ 2 && v.length > 8

/-- state of `write_kv_pairs`: the flat stream so far and `ool_locations[]` -/
structure KvSt where
  out : Bytes := []
  ool : List Nat := []
  deriving Repr, DecidableEq

/-- one iteration of the loop of `write_block_pairs` (:150-186) -/
def writePair (refOf : Nat → Nat) (w : XWriter) (st : KvSt) (p : Nat × Nat) : KvSt :=
  let key := w.keys.getD p.1 []
  let val := w.values.getD p.2 ([], 0)
  if st.ool.getD p.2 NONE64 = NONE64 then                                  -- :158
    let k := encKey key false
    let ref := refOf (st.out.length + k.length)                            -- get_position inside write_value
    let ool := if shouldStoreOol val.1 val.2 then st.ool.set p.2 ref else st.ool   -- :171-173
    { out := st.out ++ k ++ encValue val.1, ool := ool }
  else
    { st with out := st.out ++ encKey key true ++ encValueOol (st.ool.getD p.2 NONE64) }   -- :175-184

/-- one `kv_block_desc_t`: `start_ref`, pair count, `size_bytes` -/
structure XDesc where
  ref : Nat
  count : Nat
  size : Nat
  deriving Repr, DecidableEq

/-- the `for (blk = kv_block_first; …)` loop of `write_kv_pairs` (:209-221) -/
def writeBlocks (refOf : Nat → Nat) (w : XWriter) : KvSt → List (Nat × Nat) → KvSt × List XDesc
  | st, [] => (st, [])
  | st, b :: rest =>
    let st' := (blockPairs w.pairs b).foldl (writePair refOf w) st
    let r := writeBlocks refOf w st' rest
    (r.1, ⟨refOf st.out.length, b.2, st'.out.length - st.out.length⟩ :: r.2)

/-- `write_kv_pairs` (:190-225): the flat key/value stream and the descriptors -/
def flushKv (refOf : Nat → Nat) (w : XWriter) : Bytes × List XDesc :=
  let r := writeBlocks refOf w { out := [], ool := List.replicate w.values.length NONE64 } w.blocks
  (r.1.out, r.2)

/-- `sqfs_xattr_id_t` as `write_id_table` appends it (:240-247) -/
def encDesc (d : XDesc) : Bytes := encFields [(8, d.ref), (4, d.count), (4, d.size)]

def encDescs (l : List XDesc) : Bytes := (l.map encDesc).flatten

/-- `alloc_location_table` (:283-303): number of `sqfs_u64` slots -/
def locCount (numBlocks : Nat) : Nat :=
  (numBlocks * sizeofXattrId) / metaBlockSize + (if (numBlocks * sizeofXattrId) % metaBlockSize ≠ 0 then 1 else 0)

/-- the stores into `locations[]` done by `write_id_table` (:227-259), as `(index, value)` in program order.
`blockAfter k` = the meta writer's `block_offset` after the `k`-th descriptor was appended.  `cap = none`: the code as
it is in /repo — `if (block != locations[i - 1]) locations[i++] = block`; `cap = some count`: the repaired code
(`fixes/C01-xattr-id-table-locations.patch`), which stores only while `i < count`. -/
def locStoresGo (cap : Option Nat) (blockAfter : Nat → Nat) : (fuel k i last : Nat) → List (Nat × Nat)
  | 0, _, _, _ => []
  | f + 1, k, i, last =>
    let block := blockAfter (k + 1)
    if block != last && (match cap with | some c => decide (i < c) | none => true) then
      (i, block) :: locStoresGo cap blockAfter f (k + 1) (i + 1) block
    else locStoresGo cap blockAfter f (k + 1) i last

def locStores (cap : Option Nat) (blockAfter : Nat → Nat) (numBlocks : Nat) : List (Nat × Nat) :=
  (0, 0) :: locStoresGo cap blockAfter numBlocks 0 1 0                     -- :237 locations[i++] = 0

/-- the array after the stores (slots never written keep `alloc_array`'s zero); a store beyond the array is a heap
overflow in C and is dropped here — `Sqfs.C01.xattr_loc_index_lt_count` shows the repaired code makes none -/
def applyStores (n : Nat) (stores : List (Nat × Nat)) : List Nat :=
  stores.foldl (fun a s => a.set s.1 s.2) (List.replicate n 0)

/-! ### reading -/

/-- `write_id_table` + `sqfs_xattr_writer_flush` (xattr_writer_flush.c:227-259, 305-346) on top of `flushKv`: the
descriptors go through a meta writer (`run cmp`), `block_offset` is sampled after every append (`blockAfters`), the
stores into `locations[]` are replayed into the array (`applyStores`; repaired guard `i < count`) -/
def blockAfters (cmp : Sqfs.MetaWriter.Codec) : Sqfs.MetaWriter.St → List Bytes → List Nat
  | _, [] => []
  | st, c :: cs => (Sqfs.MetaWriter.append cmp st c).blockOffset :: blockAfters cmp (Sqfs.MetaWriter.append cmp st c) cs

structure XFlush where
  /-- flat key/value stream -/
  kv : Bytes
  descs : List XDesc
  /-- the metadata blocks of the id table -/
  idBlocks : List Sqfs.MetaWriter.Block
  /-- `locations[]` relative to `id_start` (before `+ id_start`, :339) -/
  locs : List Nat

def xattrFlush (cmp : Sqfs.MetaWriter.Codec) (refOf : Nat → Nat) (w : XWriter) : XFlush :=
  let (kv, descs) := flushKv refOf w
  let chunks := descs.map encDesc
  let after := blockAfters cmp {} chunks
  let count := locCount descs.length
  { kv := kv, descs := descs, idBlocks := (Sqfs.MetaWriter.run cmp chunks).out,
    locs := applyStores count (locStores (some count) (fun k => after.getD (k - 1) 0) descs.length) }

/-- a loaded `sqfs_xattr_reader_t`: `kv` = the key/value stream (flat; `posOf` = where a seek to a packed reference
lands, `none`: the seek fails), `idDisk` = the metadata blocks of the id table as they are on disk from `id_start` on,
`locs` = `id_block_starts[]` (relative to `id_start`), `unc` = the reader's `do_block`, `numIds` = `xattr_ids` of the
table header -/
structure XReader where
  kv : Bytes
  idDisk : Bytes
  locs : List Nat
  unc : Unc
  numIds : Nat
  posOf : Nat → Option Nat

/-- `sqfs_xattr_reader_get_desc` (xattr_reader.c:404-441) for `idx ≠ 0xFFFFFFFF` on a loaded reader: the descriptor is
fetched through `id_block_starts[idx * 16 / 8192]` at offset `idx * 16 % 8192` -/
def getDesc (r : XReader) (idx : Nat) : Except Status XDesc :=
  if idx ≥ r.numIds then .error errOutOfBounds                             -- :419
  else
    match r.locs[idx * sizeofXattrId / metaBlockSize]? with                 -- :423 (in range: num_id_blocks = ceil)
    | none => .error errOutOfBounds
    | some start =>
      match metaReadAt r.unc r.idDisk start (idx * sizeofXattrId % metaBlockSize) sizeofXattrId with   -- :425-430
      | .error e => .error e
      | .ok raw =>
        match readFields [8, 4, 4] raw with                                -- :432-435
        | .ok ([x, c, s], _) => .ok ⟨x, c, s⟩
        | .ok _ => .error errInternal
        | .error e => .error e

/-- the reader `sqfs_xattr_reader_load` builds from what `xattrFlush` wrote -/
def XFlush.reader (f : XFlush) (unc : Unc) (posOf : Nat → Option Nat) : XReader :=
  { kv := f.kv, idDisk := encBlocks f.idBlocks, locs := f.locs, unc := unc, numIds := f.descs.length, posOf := posOf }

/-- `sqfs_xattr_reader_read` (xattr_reader.c:303-388): one key/value pair with the key/value reader standing at the
head of `cur`; result: the full key (prefix included), the value, and the stream behind the pair.  An out-of-line value
is fetched by a seek into `r.kv` and a seek back (:244, :362). -/
def readPair (r : XReader) (cur : Bytes) : Except Status ((Bytes × Bytes) × Bytes) :=
  match readFields [2, 2] cur with                                         -- read_key_hdr :196-214
  | .ok ([typ, ksz], c1) =>
    match prefixOf (typ % (xattrPrefixMask + 1)) with                      -- type & SQFS_XATTR_PREFIX_MASK
    | none => .error errUnsupported
    | some pfx =>
      match take? ksz c1 with                                              -- :333
      | .ok (k, c2) =>
        match readFields [4] c2 with                                       -- read_value_hdr :224
        | .ok ([vsz], c3) =>
          if (typ / xattrFlagOol) % 2 = 1 then                             -- key->type & SQFS_XATTR_FLAG_OOL
            match readFields [8] c3 with                                   -- :229
            | .ok ([ref], c4) =>
              if ref % 65536 ≥ metaBlockSize then .error errOutOfBounds    -- :237-240
              else
                match r.posOf ref with                                     -- :244 seek
                | none => .error errOutOfBounds
                | some p =>
                  match readFields [4] (r.kv.drop p) with                  -- :248
                  | .ok ([osz], c5) =>
                    match take? osz c5 with                                -- :357
                    | .ok (v, _) => .ok ((pfx ++ k, v), c4)                -- :362 seek back
                    | .error e => .error e
                  | .ok _ => .error errInternal
                  | .error e => .error e
            | .ok _ => .error errInternal
            | .error e => .error e
          else
            match take? vsz c3 with
            | .ok (v, c4) => .ok ((pfx ++ k, v), c4)
            | .error e => .error e
        | .ok _ => .error errInternal
        | .error e => .error e
      | .error e => .error e
  | .ok _ => .error errInternal
  | .error e => .error e

def readPairs (r : XReader) : Nat → Bytes → Except Status (List (Bytes × Bytes))
  | 0, _ => .ok []
  | n + 1, cur =>
    match readPair r cur with
    | .ok (kv, cur') =>
      match readPairs r n cur' with
      | .ok l => .ok (kv :: l)
      | .error e => .error e
    | .error e => .error e

/-- `sqfs_xattr_reader_read_all` (xattr_reader.c:443-485) -/
def readSet (r : XReader) (idx : Nat) : Except Status (List (Bytes × Bytes)) :=
  if idx = NONE32 then .ok []
  else
    match getDesc r idx with
    | .error e => .error e
    | .ok d =>
      match r.posOf d.ref with                                             -- seek_kv
      | none => .error errOutOfBounds
      | some p => readPairs r d.count (r.kv.drop p)

/-- what index `j` must read back as: the pairs of block `j` with the interned strings put back -/
def XWriter.setOf (w : XWriter) (j : Nat) : List (Bytes × Bytes) :=
  (blockPairs w.pairs (w.blocks.getD j (0, 0))).map (fun p => (w.keys.getD p.1 [], (w.values.getD p.2 ([], 0)).1))

end Sqfs.Enc
