import Sqfs.Model.RbTree
/-!
`lib/util/src/rbtree.c` as /repo's **default configuration** builds it (`NO_CUSTOM_ALLOC` *not* defined, `configure.ac`:
`enable_custom_alloc=yes`): nodes do not come from `calloc` but from a pool allocator (`lib/util/src/mempool.c`), one
`mem_pool_t` per tree (`rbtree_t.pool`), and `rbtree_cleanup` does not free node by node but unmaps the whole pool
(`mem_pool_destroy`: `munmap` of every block of the pool).  Which pool a node was taken from therefore decides *when its
memory disappears*: a copy whose nodes came from the original's pool dies with the original.

Model on top of `Sqfs.Rb.Store` (node memory):
* `PStore` = node memory + `owner` (address → the pool it was allocated from) + `nextPool` (the id the next
  `mem_pool_create` returns) + `live` (the pools that exist: what is in this list at the end is leaked);
* `PStore.alloc ps pool cell` — `mem_pool_allocate(pool)` followed by the stores that fill the node (fresh address, zeroed
  by the pool allocator: `memset(ptr, 0, obj_size)`, as `calloc` does in the other configuration);
* `PStore.createPool` — `mem_pool_create(obj_size)`; `PStore.destroyPool ps pool` — `mem_pool_destroy(pool)`: every node that
  was allocated from `pool` is unmapped (`cells i = none`: dereferencing it is the crash the model reports as `none`);
* `copyNodeP c pool` — `copy_node(nt, t, n)` with `pool = nt->pool` (rbtree.c:128 `out = mem_pool_allocate(nt->pool)`),
  clause for clause `Sqfs.Rb.copyNode`;
* `rbCopyP` — `rbtree_copy`: `memcpy` of the struct, `out->pool = mem_pool_create(...)` (rbtree.c:211-216), then
  `copy_node(out, tree, tree->root)`; `rbCleanupP` — `rbtree_cleanup` = `mem_pool_destroy(tree->pool)`;
* `mknodeP` / `writeTreeP` — nodes made by `rbtree_insert` → `mknode` (rbtree.c:99 `mem_pool_allocate(t->pool)`).

Allocation failure (`mem_pool_create` → NULL, `mmap` failing inside `mem_pool_allocate`) is not modelled here: the harness
injects both and the driver answers with the error code (see `Sqfs/Witness/C19.lean` for the leak of the fresh pool on that
path).
-/
namespace Sqfs.Rb

/-- node memory with pool ownership -/
structure PStore where
  st : Store
  owner : Nat → Nat
  nextPool : Nat
  live : List Nat        -- the pools that exist (`mem_pool_create`d and not yet `mem_pool_destroy`ed)

def PStore.empty : PStore := ⟨Store.empty, fun _ => 0, 0, []⟩

/-- `mem_pool_create`: a fresh pool id -/
def PStore.createPool (ps : PStore) : PStore × Nat :=
  ({ ps with nextPool := ps.nextPool + 1, live := ps.nextPool :: ps.live }, ps.nextPool)

/-- `mem_pool_allocate(pool)` + the stores that fill the node: a fresh address that belongs to `pool` -/
def PStore.alloc (ps : PStore) (pool : Nat) (c : Cell) : PStore × Nat :=
  (⟨(ps.st.alloc c).1, fun i => if i = ps.st.next then pool else ps.owner i, ps.nextPool, ps.live⟩, ps.st.next)

/-- `mem_pool_destroy(pool)`: every block of the pool is unmapped — all nodes allocated from it are gone -/
def PStore.destroyPool (ps : PStore) (pool : Nat) : PStore :=
  { ps with st := ⟨fun i => if ps.owner i = pool then none else ps.st.cells i, ps.st.next⟩, live := ps.live.filter (· ≠ pool) }

def PStore.mod (ps : PStore) (a : Nat) (f : Cell → Cell) : PStore := { ps with st := modCell ps.st a f }

def copyChildP (rec : PStore → Nat → Option (PStore × Nat)) (ps : PStore) : Option Nat → Option (PStore × Option Nat)
  | none => some (ps, none)
  | some a => match rec ps a with
    | some (ps', x) => some (ps', some x)
    | none => none

/-- `copy_node(nt, t, n)` in the pool configuration; `pool` = `nt->pool`, the pool every node of the copy is taken from
(rbtree.c:128).  Same clauses as `copyNode`. -/
def copyNodeP (c : Cfg) (pool : Nat) : Nat → PStore → Nat → Option (PStore × Nat)
  | 0, _, _ => none
  | fuel + 1, ps, a =>
    match ps.st.cells a with
    | none => none
    | some n =>
      let (ps, out) := ps.alloc pool ⟨none, none, n.off, n.red, copyData c n.data⟩
      match copyChildP (copyNodeP c pool fuel) ps n.left with
      | none => none
      | some (ps, l') =>
        let ps := ps.mod out fun x => { x with left := l' }
        match copyChildP (copyNodeP c pool fuel) ps n.right with
        | none => none
        | some (ps, r') =>
          let ps := ps.mod out fun x => { x with right := r' }
          some (ps, out)

/-- `rbtree_copy` in the pool configuration: the copy gets a pool of its own (`out->pool = mem_pool_create(...)`), every node
of the copy is allocated from it.  Result: store, root of the copy, pool of the copy. -/
def rbCopyP (c : Cfg) (fuel : Nat) (ps : PStore) (root : Option Nat) : Option (PStore × Option Nat × Nat) :=
  match copyChildP (copyNodeP c ps.createPool.2 fuel) ps.createPool.1 root with
  | none => none
  | some (ps', root') => some (ps', root', ps.createPool.2)

/-- `rbtree_cleanup` in the pool configuration: `mem_pool_destroy(tree->pool)` -/
def rbCleanupP (ps : PStore) (pool : Nat) : PStore := ps.destroyPool pool

/-- a tree value written into nodes taken from `pool` (what a sequence of `rbtree_insert`s → `mknode` leaves: every node of
a tree comes from the tree's own pool, rbtree.c:99) -/
def writeTreeP (ps : PStore) (pool : Nat) : Tree → PStore × Option Nat
  | .nil => (ps, none)
  | .node l r o red d =>
    let (ps, a) := ps.alloc pool ⟨none, none, o, red, d⟩
    let (ps, l') := writeTreeP ps pool l
    let (ps, r') := writeTreeP ps pool r
    (ps.mod a fun x => { x with left := l', right := r' }, some a)

/-- every node reachable from `p` was allocated from `pool` -/
inductive Owned (cells : Nat → Option Cell) (owner : Nat → Nat) (pool : Nat) : Option Nat → Prop
  | nil : Owned cells owner pool none
  | node {a : Nat} {c : Cell} : cells a = some c → owner a = pool →
      Owned cells owner pool c.left → Owned cells owner pool c.right → Owned cells owner pool (some a)

/-- `Owned` as a test (driver: evaluated on the model's copy, compared with what the harness sees of the real one) -/
def ownedB (cells : Nat → Option Cell) (owner : Nat → Nat) (pool : Nat) : Nat → Option Nat → Bool
  | _, none => true
  | 0, some _ => false
  | fuel + 1, some a =>
    match cells a with
    | none => false
    | some c => owner a == pool && ownedB cells owner pool fuel c.left && ownedB cells owner pool fuel c.right

end Sqfs.Rb
