/-
Where the time stamps of an image come from (C02, environment clause).

  lib/util/src/source_date_epoch.c   `get_source_date_epoch`     → `sourceDateEpoch`
  lib/common/src/fstree_cli.c        `parse_fstree_defaults`     → `defaultMtime` (`mtime=` of `--defaults`, else SOURCE_DATE_EPOCH)
  lib/common/src/writer/init.c       `sqfs_super_init(…, sqfs->fs.defaults.mtime, …)` → `superMtime`
  lib/fstree/src/fstree.c            `clamp_timestamp`, `mknode`  → `clamp`, `inodeMtime`
  lib/common/src/dir_tree_iterator.c `apply_changes` (`--keep-time`), bin/tar2sqfs/src/process_tarball.c (`--no-keep-time`)

`ProcessEnv` lists what a process could consult; the functions below read `sourceDateEpoch` only, because that is
the only thing the code reads (no call of `time`, `localtime`, `setlocale`, `getcwd` reaches the writer — checked on
every run by the tool-level correspondence with a faked clock, other TZ/LC_ALL/umask/cwd, see tools/checks/c02.py).
-/
namespace Sqfs.BuildEnv

abbrev Bytes := List UInt8

def u32Max : Nat := 4294967295

/-- the digit loop of `get_source_date_epoch`; `none` = "not a number" or "does not fit" (both return 0) -/
def sdeDigits : Bytes → Nat → Option Nat
  | [], tval => some tval
  | c :: rest, tval =>
    if 48 ≤ c.toNat ∧ c.toNat ≤ 57 then
      let x := c.toNat - 48
      if tval > (u32Max - x) / 10 then none else sdeDigits rest (tval * 10 + x)
    else none

/-- `get_source_date_epoch()`; the argument is `getenv("SOURCE_DATE_EPOCH")` -/
def sourceDateEpoch : Option Bytes → Nat
  | none => 0
  | some [] => 0
  | some s => (sdeDigits s 0).getD 0

/-- everything of the process environment a packer could in principle look at -/
structure ProcessEnv where
  sourceDateEpoch : Option Bytes     -- `SOURCE_DATE_EPOCH`
  clock : Nat                        -- `time(NULL)`
  tz : Bytes                         -- `TZ`
  locale : Bytes                     -- `LC_ALL` / `LANG`
  umask : Nat
  cwd : Bytes

structure Options where
  /-- `--defaults mtime=<value>` (already range checked by `parse_fstree_defaults`) -/
  defaultsMtime : Option Nat := none
  /-- gensquashfs `--keep-time` with `--pack-dir`; tar2sqfs without `--no-keep-time` -/
  keepTime : Bool := false

/-- `fstree_defaults_t::mtime` -/
def defaultMtime (env : ProcessEnv) (o : Options) : Nat :=
  match o.defaultsMtime with
  | some v => v
  | none => sourceDateEpoch env.sourceDateEpoch

/-- `super.modification_time` -/
def superMtime (env : ProcessEnv) (o : Options) : Nat := defaultMtime env o

/-- `clamp_timestamp` -/
def clamp (ts : Int) : Nat := if ts < 0 then 0 else if ts > 4294967295 then 4294967295 else ts.toNat

/-- `mod_time` of a node whose input (directory entry / tar header) carries `input` -/
def inodeMtime (env : ProcessEnv) (o : Options) (input : Int) : Nat :=
  clamp (if o.keepTime then input else (defaultMtime env o : Int))

/-- all time stamps of an image: the super block's and one per node, in node order -/
def imageTimes (env : ProcessEnv) (o : Options) (inputs : List Int) : Nat × List Nat :=
  (superMtime env o, inputs.map (inodeMtime env o))

end Sqfs.BuildEnv
