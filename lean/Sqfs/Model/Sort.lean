/-
Model of `bin/gensquashfs/src/sort_by_file.c` (sort-file processing of gensquashfs), together with the
library helpers it calls: `parse_int` (`lib/util/src/parse_int.c`), `split_line` with separator ","
(`lib/util/src/split_line.c`), `ltrim`/`rtrim`/`trim` (`lib/util/src/get_line.c`).

A C string is the list of its bytes before the NUL (sort-file lines are NUL-free; the harness never feeds a
NUL).  `fnmatch(3)` is **not** modelled: it is the parameter `mt : Matcher` (the correspondence harness answers
the model's queries with libc's `fnmatch`, so that glob semantics stay outside the model).

One Lean function per C function / loop; the loop state is an explicit argument.  In-place rewriting
(`decode_filename`, `split_line`) is modelled as "read the original, emit the output", which is faithful
because the write cursor never overtakes the read cursor (see the comments at each function).

`decodeFilename` has a parameter `terminate`:
 * `terminate = true`  — the **current** code (`*dst = '\0'` after the closing quote, /repo 3c63401), the main model;
 * `terminate = false` — the code before that fix: the quoted branch never wrote the terminating NUL, so the C
   string used afterwards was the unescaped name followed by the *stale tail* of the original buffer (`"b"` read as
   `bb"`).  Kept for `Sqfs/Witness/C17.lean` (finding D26) and so that a regression is recognised.
-/
import Sqfs.Model.Path
import Sqfs.Generated.Consts
namespace Sqfs.Sort
open Sqfs.Path (Bytes canonicalize)

/-! ## ctype / trimming -/

/-- `isspace` in the C locale: space, \t \n \v \f \r -/
def isSpace (c : UInt8) : Bool := c == 32 || (9 ≤ c && c ≤ 13)
/-- `isdigit` -/
def isDigit (c : UInt8) : Bool := 48 ≤ c && c ≤ 57

abbrev QUOTE : UInt8 := 34      -- '"'
abbrev BSL : UInt8 := 92        -- '\\'
abbrev COMMA : UInt8 := 44      -- ','
abbrev LBR : UInt8 := 91        -- '['
abbrev RBR : UInt8 := 93        -- ']'
abbrev HASH : UInt8 := 35       -- '#'
abbrev MINUS : UInt8 := 45      -- '-'

def ltrim (s : Bytes) : Bytes := s.dropWhile isSpace
def rtrim (s : Bytes) : Bytes := (s.reverse.dropWhile isSpace).reverse
def trim (s : Bytes) : Bytes := rtrim (ltrim s)

/-! ## `parse_int` (base 10, `vmin = vmax = 0`, `diff ≠ NULL`) -/

inductive Err where
  | number        -- "Line must start with numeric sort priority."           (SQFS_ERROR_CORRUPTED)
  | overflow      -- "Numeric overflow in sort priority."
  | filename      -- "Expacted `<space> <filename>` after sort priority."
  | bracket       -- "Missing `]`."
  | flaglist      -- "Malformed flag list."                                    (split_line failed)
  | afterflags    -- "Expected `<space> <filename>` after flag list."
  | unknownflag   -- "Unknown flag `%s`."
  | unmatched     -- "Unmatched '\"' in filename."
  | escape        -- "Unknown escape sequence `\\%c` in filename."
  | trailing      -- "Unexpected characters after quoted filename."   (a diagnostic since /repo 777e59f; was a silent -1)
  | canon         -- "Malformed filename."                                     (canonicalize_name refused)
  deriving DecidableEq, Repr

def Err.name : Err → String
  | .number => "number" | .overflow => "overflow" | .filename => "filename" | .bracket => "bracket"
  | .flaglist => "flaglist" | .afterflags => "afterflags" | .unknownflag => "unknownflag"
  | .unmatched => "unmatched" | .escape => "escape" | .trailing => "trailing" | .canon => "canon"

def u64max : Nat := 0xFFFFFFFFFFFFFFFF

/-- the `while (len > 0 && isdigit(*in))` loop of `parse()`; `out` is the accumulator (a `sqfs_u64` that never
wraps because of the two guards).  Returns the value and the unconsumed rest (`in + *diff`). -/
def parseDigits : Nat → Bytes → Except Err (Nat × Bytes)
  | out, [] => .ok (out, [])
  | out, c :: t =>
    if isDigit c then
      let x := c.toNat - 48
      if out ≥ u64max / 10 then .error .overflow            -- `(*out) >= (0xFF..FF / base)`
      else if out * 10 > u64max - x then .error .overflow   -- `(*out) > (0xFF..FF - x)` after `*= base`
      else parseDigits (out * 10 + x) t
    else .ok (out, c :: t)

/-- `parse_int(line, strlen(line), &i, 0, 0, &priority)`: value and `line + i`.  `.number` = SQFS_ERROR_CORRUPTED,
`.overflow` = any other error. -/
def parseInt (s : Bytes) : Except Err (Int × Bytes) :=
  let neg := s.head? == some MINUS
  let s' := if neg then s.drop 1 else s
  match s' with
  | [] => .error .number                                     -- `len == 0`
  | c :: _ =>
    if !isDigit c then .error .number
    else match parseDigits 0 s' with
      | .error e => .error e
      | .ok (v, rest) =>
        if v ≥ 0x7FFFFFFFFFFFFFFF then .error .overflow      -- `temp >= 0x7FFFFFFFFFFFFFFFULL`
        else .ok (if neg then -(v : Int) else (v : Int), rest)

/-- `decode_priority`: the priority and the line with priority and following blanks removed. -/
def decodePriority (line : Bytes) : Except Err (Int × Bytes) :=
  match parseInt line with
  | .error e => .error e
  | .ok (p, rest) =>
    match rest with
    | [] => .error .filename                                 -- `!isspace(line[i])` on the NUL
    | c :: _ =>
      if !isSpace c then .error .filename
      else
        let rest' := rest.dropWhile isSpace
        if rest' = [] then .error .filename else .ok (p, rest')

/-! ## `split_line(line, len, ",", &sep)` -/

def isSep (c : UInt8) : Bool := c == COMMA

/-- body of a quoted argument (after the opening quote): the unescaped argument and the rest after the closing
quote.  `.flaglist` covers both SPLIT_LINE_ESCAPE and SPLIT_LINE_UNMATCHED_QUOTE (same message in the caller). -/
def takeQuoted : Bytes → Except Err (Bytes × Bytes)
  | [] => .error .flaglist                                   -- `len == 0` → fail_quote
  | c :: t =>
    if c = QUOTE then .ok ([], t)
    else if c = BSL then
      match t with
      | [] => .error .flaglist                               -- `len < 2` → fail_esc
      | d :: t' =>
        if d = QUOTE ∨ d = BSL then
          match takeQuoted t' with
          | .ok (a, r) => .ok (d :: a, r)
          | .error e => .error e
        else .error .flaglist
    else
      match takeQuoted t with
      | .ok (a, r) => .ok (c :: a, r)
      | .error e => .error e

/-- the outer `while (len > 0 && *src != '\0')` loop; `fuel` ≥ length of the input + 1. -/
def splitArgs : Nat → Bytes → Except Err (List Bytes)
  | 0, _ => .ok []
  | _ + 1, [] => .ok []
  | n + 1, c :: t =>
    if c = QUOTE then
      match takeQuoted t with
      | .error e => .error e
      | .ok (a, r) =>
        match splitArgs n (r.dropWhile isSep) with
        | .ok as => .ok (a :: as)
        | .error e => .error e
    else
      let a := (c :: t).takeWhile (fun b => !isSep b)
      let r := (c :: t).dropWhile (fun b => !isSep b)
      match splitArgs n (r.dropWhile isSep) with
      | .ok as => .ok (a :: as)
      | .error e => .error e

def splitLine (s : Bytes) : Except Err (List Bytes) :=
  splitArgs (s.length + 1) (s.dropWhile isSep)

/-! ## `decode_flags` -/

/-- the per-line packing directives (`do_glob`, `path_glob`, `flags`) -/
structure Directives where
  doGlob : Bool := false
  pathGlob : Bool := false
  flags : Nat := 0            -- SQFS_BLK_* bits
  deriving DecidableEq, Repr

def strBytes (s : String) : Bytes := s.toUTF8.toList

/-! the six flag names of `decode_flags` as byte lists (`String.toUTF8` does not reduce in the kernel, so the names are
spelled out; the driver also evaluates `flagNamesOk` below, and every name goes through the real `decode_flags` on every
run of the check) -/
def nmGlobNoPath : Bytes := [103, 108, 111, 98, 95, 110, 111, 95, 112, 97, 116, 104]                         -- "glob_no_path"
def nmGlob : Bytes := [103, 108, 111, 98]                                                                   -- "glob"
def nmDontFragment : Bytes := [100, 111, 110, 116, 95, 102, 114, 97, 103, 109, 101, 110, 116]               -- "dont_fragment"
def nmDontCompress : Bytes := [100, 111, 110, 116, 95, 99, 111, 109, 112, 114, 101, 115, 115]               -- "dont_compress"
def nmDontDeduplicate : Bytes := [100, 111, 110, 116, 95, 100, 101, 100, 117, 112, 108, 105, 99, 97, 116, 101]  -- "dont_deduplicate"
def nmNosparse : Bytes := [110, 111, 115, 112, 97, 114, 115, 101]                                           -- "nosparse"

/-- the spelled-out names are the strings of the source (evaluated natively by the driver op `flagnames`) -/
def flagNamesOk : Bool :=
  nmGlobNoPath == strBytes "glob_no_path" && nmGlob == strBytes "glob" && nmDontFragment == strBytes "dont_fragment" &&
  nmDontCompress == strBytes "dont_compress" && nmDontDeduplicate == strBytes "dont_deduplicate" && nmNosparse == strBytes "nosparse"

/-- the `for (i = 0; i < sep->count; ++i)` loop: exact flag names of the source -/
def applyFlagNames : Directives → List Bytes → Except Err Directives
  | d, [] => .ok d
  | d, a :: as =>
    let a := trim a
    if a = nmGlobNoPath then applyFlagNames { d with doGlob := true, pathGlob := false } as
    else if a = nmGlob then applyFlagNames { d with doGlob := true, pathGlob := true } as
    else if a = nmDontFragment then applyFlagNames { d with flags := d.flags ||| Consts.blkDontFragment } as
    else if a = nmDontCompress then applyFlagNames { d with flags := d.flags ||| Consts.blkDontCompress } as
    else if a = nmDontDeduplicate then applyFlagNames { d with flags := d.flags ||| Consts.blkDontDeduplicate } as
    else if a = nmNosparse then applyFlagNames { d with flags := d.flags ||| Consts.blkIgnoreSparse } as
    else .error .unknownflag

/-- `decode_flags`: directives and the line with the flag list and following blanks removed.
`split_line` writes at most up to and including the position of `]` (every argument consumes at least as many
source bytes as it emits, the terminating NUL of the last argument may land on the `]`), and `]` is not read
again, so "read original, emit output" is faithful. -/
def decodeFlags (line : Bytes) : Except Err (Directives × Bytes) :=
  match line with
  | [] => .ok ({}, line)
  | c :: t =>
    if c ≠ LBR then .ok ({}, line)
    else
      let inner := t.takeWhile (· ≠ RBR)                    -- `end = strchr(line, ']')`
      let fromEnd := t.dropWhile (· ≠ RBR)
      match fromEnd with
      | [] => .error .bracket
      | _ :: after =>                                        -- `++end`
        match splitLine inner with
        | .error e => .error e
        | .ok args =>
          match after with
          | [] => .error .afterflags
          | s :: _ =>
            if !isSpace s then .error .afterflags
            else match applyFlagNames {} args with
              | .error e => .error e
              | .ok d => .ok (d, after.dropWhile isSpace)

/-! ## `decode_filename` -/

/-- the `for (;;)` loop of the quoted branch: unescaped name and what follows the closing quote -/
def unquote : Bytes → Except Err (Bytes × Bytes)
  | [] => .error .unmatched
  | c :: t =>
    if c = QUOTE then .ok ([], t)
    else if c = BSL then
      match t with
      | [] => .error .escape                                 -- `src[1] == '\0'` → default
      | d :: t' =>
        if d = BSL ∨ d = QUOTE then
          match unquote t' with
          | .ok (a, r) => .ok (d :: a, r)
          | .error e => .error e
        else .error .escape
    else
      match unquote t with
      | .ok (a, r) => .ok (c :: a, r)
      | .error e => .error e

/-- `decode_filename`.  The write cursor `dst` starts one byte behind `src`, and every step advances `src` at
least as far as `dst`.  With `terminate = false` (before /repo 3c63401) the buffer keeps its stale tail. -/
def decodeFilename (terminate : Bool) (buf : Bytes) : Except Err Bytes :=
  let raw : Except Err Bytes :=
    match buf with
    | [] => .ok buf
    | c :: t =>
      if c = QUOTE then
        match unquote t with
        | .error e => .error e
        | .ok (name, rest) =>
          if rest ≠ [] then .error .trailing
          else if terminate then .ok name
          else .ok (name ++ buf.drop name.length)
      else .ok buf
  match raw with
  | .error e => .error e
  | .ok name =>
    match canonicalize name with
    | none => .error .canon
    | some r => .ok r

/-- how a name is written between quotes (the inverse of the quoted branch of `decode_filename`): a backslash
before every quote and every backslash -/
def escapeName : Bytes → Bytes
  | [] => []
  | c :: t => if c = QUOTE ∨ c = BSL then BSL :: c :: escapeName t else c :: escapeName t

/-! ## one sort-file line -/

structure SortLine where
  priority : Int
  dir : Directives
  pattern : Bytes
  deriving DecidableEq, Repr

/-- what `fstree_sort_files` does with one raw line of the stream before the matching loop:
`none` = skipped (empty after trimming, or a `#` comment). -/
def decodeLine (terminate : Bool) (raw : Bytes) : Except Err (Option SortLine) :=
  let line := rtrim (ltrim raw)                               -- ISTREAM_LINE_LTRIM | RTRIM
  match line with
  | [] => .ok none                                            -- ISTREAM_LINE_SKIP_EMPTY
  | c :: _ =>
    if c = HASH then .ok none
    else match decodePriority line with
      | .error e => .error e
      | .ok (p, l1) =>
        match decodeFlags l1 with
        | .error e => .error e
        | .ok (d, l2) =>
          match decodeFilename terminate l2 with
          | .error e => .error e
          | .ok name => .ok (some { priority := p, dir := d, pattern := name })

/-! ## matching: first match wins -/

/-- a regular file of `fs->files` as far as sorting is concerned -/
structure FileEnt where
  path : Bytes               -- `fstree_get_path` + `canonicalize_name`
  priority : Int := 0
  flags : Nat := 0
  matched : Bool := false    -- FLAG_FILE_ALREADY_MATCHED
  deriving DecidableEq, Repr

/-- `fnmatch(pattern, path, pathGlob ? FNM_PATHNAME : 0) == 0` -/
abbrev Matcher := (pathGlob : Bool) → (pattern : Bytes) → (path : Bytes) → Bool

/-- does this line select this path? (`fnmatch` resp. `strcmp`) -/
def lineMatches (mt : Matcher) (l : SortLine) (path : Bytes) : Bool :=
  if l.dir.doGlob then mt l.dir.pathGlob l.pattern path else path == l.pattern

def mark (l : SortLine) (f : FileEnt) : FileEnt :=
  { f with flags := l.dir.flags, priority := l.priority, matched := true }

/-- the `for (node = fs->files; …)` loop for one line.  A non-glob line stops at its first hit (`break`). -/
def applyLine (mt : Matcher) (l : SortLine) : List FileEnt → List FileEnt
  | [] => []
  | f :: fs =>
    if f.matched then f :: applyLine mt l fs                   -- `continue`
    else if lineMatches mt l f.path then
      if l.dir.doGlob then mark l f :: applyLine mt l fs
      else mark l f :: fs                                      -- `if (!do_glob) break;`
    else f :: applyLine mt l fs

def applyLines (mt : Matcher) (ls : List SortLine) (fs : List FileEnt) : List FileEnt :=
  ls.foldl (fun acc l => applyLine mt l acc) fs

/-- the reset loop at the top of `fstree_sort_files` -/
def resetFiles (fs : List FileEnt) : List FileEnt :=
  fs.map (fun f => { f with priority := 0, flags := 0, matched := false })

/-! ## `sort_file_list`: selection sort that always extracts the *first* node of least priority -/

/-- the inner `while (it != NULL)` loop.  `pre` = the nodes before `low` (what `low_prev` delimits),
`low` = current candidate, `mid` = nodes after `low` already visited, last argument = `it` onwards.
Returns (nodes before low, low, nodes after low). -/
def scanLow (prio : α → Int) : List α → α → List α → List α → List α × α × List α
  | pre, low, mid, [] => (pre, low, mid)
  | pre, low, mid, y :: ys =>
    if prio y < prio low then scanLow prio (pre ++ low :: mid) y [] ys     -- `low = it; low_prev = prev;`
    else scanLow prio pre low (mid ++ [y]) ys

/-- the outer `while (fs->files != NULL)` loop; `out` is the list built via `out_last`. -/
def sortLoop (prio : α → Int) : Nat → List α → List α → List α
  | 0, _, out => out
  | _ + 1, [], out => out
  | n + 1, x :: xs, out =>
    let r := scanLow prio [] x [] xs
    sortLoop prio n (r.1 ++ r.2.2) (out ++ [r.2.1])

def sortBy (prio : α → Int) (l : List α) : List α := sortLoop prio l.length l []

def sortFileList (fs : List FileEnt) : List FileEnt := sortBy (·.priority) fs

/-! ## `fstree_sort_files` -/

/-- decode all lines (stops at the first malformed line, reporting its 0-based index among the raw lines) -/
def decodeLines (terminate : Bool) : Nat → List Bytes → Except (Err × Nat) (List SortLine)
  | _, [] => .ok []
  | i, raw :: rest =>
    match decodeLine terminate raw with
    | .error e => .error (e, i)
    | .ok none => decodeLines terminate (i + 1) rest
    | .ok (some l) =>
      match decodeLines terminate (i + 1) rest with
      | .ok ls => .ok (l :: ls)
      | .error e => .error e

/-- `fstree_sort_files(fs, sortfile)`: `rawLines` = the stream split at '\n' (a trailing '\r' already removed).
The C function interleaves decoding and matching line by line and returns -1 at the first malformed line; on
that path the tool exits with failure and no image, so only the success result is observable: it equals
marking with all decoded lines and sorting. -/
def sortFiles (terminate : Bool) (mt : Matcher) (rawLines : List Bytes) (paths : List Bytes) :
    Except (Err × Nat) (List FileEnt) :=
  match decodeLines terminate 0 rawLines with
  | .error e => .error e
  | .ok ls => .ok (sortFileList (applyLines mt ls (resetFiles (paths.map (fun p => { path := p })))))

end Sqfs.Sort
