/-
Model of the fragment side of the block processor:
`process_completed_fragment` (lib/sqfs/src/block_processor/backend.c), `chunk_info_equals` and
`load_frag_block` (block_processor.c), the `fblk_in_flight` copies (`enqueue_block` in frontend.c,
`process_completed_block` in backend.c) and `sqfs_block_processor_finish`.

Shared by C08 (fragment deduplication never changes data) and, extended with the data-block path and the
I/O ordering, by C02 / C17 (`BlockProc`, `specPack`).

What is modelled, and how
* The checksum `h : Bytes → UInt32` (`xxh32`, computed by the worker in `process_block`) and the codec are
  **parameters**.  `Codec.cmp x = none` means "declined" (`do_block` returned 0: not smaller), `Codec.unc y =
  none` means the uncompressor failed or the output did not fit.
* A fragment block's bytes live in exactly one of three places — the open block `proc->frag_block`, a copy in
  `proc->fblk_in_flight` (from `enqueue_block` until `process_completed_block` writes the block), or the
  output file (re-read and uncompressed by `load_frag_block`, through the one-entry cache
  `proc->cached_frag_blk`).  `FragBlock.place` records which; `data` is the uncompressed content (for a written
  block a ghost field: what was written is `stored`).  *When* a block moves from in flight to written is
  decided by the pool and the I/O queue (C02); here it is an event of the script, so every theorem holds for
  every timing.
* `proc->frag_ht` is modelled as a list searched front to back; `hash_table.c` probes in an order that can
  differ from insertion order after a rehash.  `Sqfs.C08.frag_lookup_unique` shows that at most one entry can
  match, so the order is immaterial.
* `byteCompare = false` is the documented configuration "file or uncmp is NULL: size and hash alone";
  `lib/common/src/writer/init.c` passes both, so the tools run with `byteCompare = true`.
* A fragment block is never taken for a hole (`process_block` skips the sparse test for
  `SQFS_BLK_FRAGMENT_BLOCK` since /repo 47f7b3d; before that an all-zero block was lost — D24).
* The lookup key of a table entry is (size, checksum, `DONT_COMPRESS` of the fragment) since /repo fcd11e4: a
  `dont_compress` tail end never shares a slot with a compressible twin.
-/
import Sqfs.Generated.Consts
namespace Sqfs.FragDedup
open Sqfs.Consts

abbrev Bytes := List UInt8

def hasFlag (flags c : Nat) : Bool := flags &&& c != 0

structure Codec where
  cmp : Bytes → Option Bytes
  unc : Bytes → Option Bytes

/-- the contract assumed of a codec (trusted base): what it compressed, it uncompresses -/
def Codec.RoundTrip (c : Codec) : Prop := ∀ x y, c.cmp x = some y → c.unc y = some x

inductive Err where
  | corrupted      -- SQFS_ERROR_CORRUPTED from `chunk_info_equals` (chunk outside its block / size mismatch)
  | outOfBounds    -- `sqfs_frag_table_lookup` of an unknown index
  | compressor     -- `uncmp->do_block` failed or returned 0 (`SQFS_ERROR_OVERFLOW`)
  | badEvent       -- the script is not a possible behaviour of the pool (e.g. writing a block that is not in flight)
deriving DecidableEq, Repr

inductive Place where
  | opened                                         -- `proc->frag_block`
  | inFlight                                       -- copy in `proc->fblk_in_flight`
  | written (stored : Bytes) (compressed : Bool)   -- on disk; fragment-table entry (start, size | raw-bit)
deriving DecidableEq, Repr

structure FragBlock where
  data  : Bytes          -- uncompressed content (index = position in `State.blocks`)
  place : Place
  flags : Nat            -- `frag_block->flags`: FRAGMENT_BLOCK | (∪ members' DONT_COMPRESS)
deriving Repr

/-- `chunk_info_t` -/
structure Chunk where
  index  : Nat
  offset : Nat
  size   : Nat
  hash   : UInt32
  flags  : Nat           -- `frag->flags & SQFS_BLK_DONT_COMPRESS`
deriving DecidableEq, Repr

structure State where
  blocks : List FragBlock := []       -- fragment table order
  table  : List Chunk := []           -- `proc->frag_ht`
  cache  : Option (Nat × Bytes) := none   -- `proc->cached_frag_blk` (index, uncompressed data)
deriving Repr

def allZero (d : Bytes) : Bool := d.all (· == 0)

def slice (f : Bytes) (off n : Nat) : Bytes := (f.drop off).take n

/-- index of the open block, if any: it is always the last block (`proc->frag_block`) -/
def openIndex (st : State) : Option Nat :=
  match st.blocks.getLast? with
  | some b => if b.place = .opened then some (st.blocks.length - 1) else none
  | none => none

/-- `load_frag_block`: returns the uncompressed block and the new cache. -/
def loadFragBlock (codec : Codec) (st : State) (idx : Nat) : Except Err (Bytes × Option (Nat × Bytes)) :=
  match st.cache with
  | some (ci, cd) => if ci = idx then .ok (cd, st.cache) else load
  | none => load
where
  load : Except Err (Bytes × Option (Nat × Bytes)) :=
    match st.blocks[idx]? with
    | none => .error .outOfBounds
    | some b =>
      match b.place with
      | .written stored true =>
        match codec.unc stored with
        | some x => if x.isEmpty then .error .compressor else .ok (x, some (idx, x))   -- `ret <= 0`
        | none => .error .compressor
      | .written stored false => .ok (stored, some (idx, stored))
      -- not reachable from `chunkEquals`: in-flight and open blocks are found before the table is consulted
      | _ => .error .badEvent

/-- the block `it` that `chunk_info_equals` compares against: the in-flight copy, else the open block, else the
block re-read from disk (through the cache) -/
def fragBytesFor (codec : Codec) (st : State) (idx : Nat) : Except Err (Bytes × Option (Nat × Bytes)) :=
  match st.blocks[idx]? with
  | some ⟨data, .inFlight, _⟩ => .ok (data, st.cache)
  | some ⟨data, .opened, _⟩ => .ok (data, st.cache)
  | _ => loadFragBlock codec st idx

/-- `chunk_info_equals(proc, key, cmp)` with `proc->current_frag = d`: does table entry `c` hold the bytes `d`?
Returns the answer and the new cache. (`key->size`, `key->hash`, `key->flags` are `d.length`, `hd`, `kf`.) -/
def chunkEquals (codec : Codec) (byteCompare : Bool) (st : State) (d : Bytes) (hd : UInt32) (kf : Nat) (c : Chunk) :
    Except Err (Bool × Option (Nat × Bytes)) :=
  if c.size != d.length || c.hash != hd || c.flags != kf then .ok (false, st.cache)
  else if !byteCompare then .ok (true, st.cache)
  else
    match fragBytesFor codec st c.index with
    | .error e => .error e
    | .ok (blk, cache') =>
      if c.offset ≥ blk.length || blk.length - c.offset < c.size then .error .corrupted
      else .ok (slice blk c.offset c.size == d, cache')

/-- `hash_table_search_pre_hashed`: first entry for which the equality callback answers yes. -/
def search (codec : Codec) (byteCompare : Bool) (st : State) (d : Bytes) (hd : UInt32) (kf : Nat) :
    List Chunk → Except Err (Option Chunk × State)
  | [] => .ok (none, st)
  | c :: rest =>
    match chunkEquals codec byteCompare st d hd kf c with
    | .error e => .error e
    | .ok (true, cache') => .ok (some c, { st with cache := cache' })
    | .ok (false, cache') => search codec byteCompare { st with cache := cache' } d hd kf rest

/-- `hash_table_insert_pre_hashed(ht, hash, chunk, chunk)`: replaces the first entry the callback calls equal,
else adds the new one.  `done` = entries already passed. -/
def insert (codec : Codec) (byteCompare : Bool) (st : State) (d : Bytes) (hd : UInt32) (new : Chunk)
    (done : List Chunk) : List Chunk → Except Err State
  | [] => .ok { st with table := done ++ [new] }
  | c :: rest =>
    match chunkEquals codec byteCompare st d hd new.flags c with
    | .error e => .error e
    | .ok (true, cache') => .ok { st with table := done ++ new :: rest, cache := cache' }
    | .ok (false, cache') => insert codec byteCompare { st with cache := cache' } d hd new (done ++ [c]) rest

inductive Res where
  | sparse                          -- tail end all zero: no fragment reference, inode made extended
  | loc (index offset : Nat)        -- `sqfs_inode_set_frag_location`
deriving DecidableEq, Repr

/-- close the open block: `enqueue_block(proc, proc->frag_block)`; with `byteCompare` a copy goes to
`fblk_in_flight`. -/
def closeOpen (st : State) : State :=
  match openIndex st with
  | none => st
  | some i => { st with blocks := (st.blocks.modify i (fun b => { b with place := .inFlight })) }

/-- lines 178–190 of backend.c: when the fragment does not fit, hand the open block to the pool -/
def overflow (maxBlock : Nat) (st : State) (d : Bytes) : State :=
  match openIndex st with
  | some i =>
    match st.blocks[i]? with
    | some b => if b.data.length + d.length > maxBlock then closeOpen st else st
    | none => st
  | none => st

/-- lines 192–217: the fragment becomes the new open block (next fragment-table index, offset 0) or is appended to
the open one; result `(index, offset, state)` -/
def place (st : State) (d : Bytes) (flags : Nat) : Nat × Nat × State :=
  match openIndex st with
  | none =>
    (st.blocks.length, 0,
      { st with blocks := st.blocks ++ [⟨d, .opened, blkFragmentBlock ||| (flags &&& blkDontCompress)⟩] })
  | some i =>
    (i, ((st.blocks[i]?).map (·.data.length)).getD 0,
      { st with blocks := (st.blocks.modify i
          (fun b => { b with data := b.data ++ d, flags := b.flags ||| (flags &&& blkDontCompress) })) })

/-- the checksum the worker stored in `frag->checksum` -/
def fragHash (h : Bytes → UInt32) (d : Bytes) (flags : Nat) : UInt32 :=
  if hasFlag flags blkDontHash then 0 else h d

/-- lines 151–176: the lookup, skipped under `DONT_DEDUPLICATE` -/
def findShared (codec : Codec) (byteCompare : Bool) (st : State) (d : Bytes) (hd : UInt32) (flags : Nat) :
    Except Err (Option Chunk × State) :=
  if hasFlag flags blkDontDeduplicate then .ok (none, st)
  else search codec byteCompare st d hd (flags &&& blkDontCompress) st.table

/-- the part of `process_completed_fragment` after an unsuccessful lookup: store the fragment and record it -/
def storeFragment (codec : Codec) (byteCompare : Bool) (maxBlock : Nat) (st : State) (d : Bytes) (hd : UInt32)
    (flags : Nat) : Except Err (Res × State) :=
  let r := place (overflow maxBlock st d) d flags
  match insert codec byteCompare r.2.2 d hd ⟨r.1, r.2.1, d.length, hd, flags &&& blkDontCompress⟩ [] r.2.2.table with
  | .error e => .error e
  | .ok st4 => .ok (.loc r.1 r.2.1, st4)

/-- `process_completed_fragment(proc, frag)` for a fragment with bytes `d` and user flags `flags`
(`maxBlock = proc->max_block_size`, `h` = the checksum function the worker applied). -/
def processFragment (codec : Codec) (h : Bytes → UInt32) (byteCompare : Bool) (maxBlock : Nat)
    (st : State) (d : Bytes) (flags : Nat) : Except Err (Res × State) :=
  -- `process_block`: IS_SPARSE unless IGNORE_SPARSE
  if !hasFlag flags blkIgnoreSparse && allZero d then .ok (.sparse, st)
  else
    match findShared codec byteCompare st d (fragHash h d flags) flags with
    | .error e => .error e
    | .ok (some c, st1) => .ok (.loc c.index c.offset, st1)
    | .ok (none, st1) => storeFragment codec byteCompare maxBlock st1 d (fragHash h d flags) flags

/-- `process_completed_block` of fragment block `idx` (after the worker ran `process_block` on it): the
in-flight copy is dropped and the block is on disk — compressed when the codec accepted and
`DONT_COMPRESS` is not set (a fragment block is never sparse). -/
def blockWritten (codec : Codec) (st : State) (idx : Nat) : Except Err State :=
  match st.blocks[idx]? with
  | some ⟨data, .inFlight, fl⟩ =>
    let place : Place :=
      if hasFlag fl blkDontCompress then .written data false
      else match codec.cmp data with
        | some c => .written c true
        | none => .written data false
    .ok { st with blocks := (st.blocks.modify idx (fun b => { b with place := place })) }
  | _ => .error .badEvent

inductive Ev where
  | frag (data : Bytes) (flags : Nat)
  | written (idx : Nat)
  | finish
deriving Repr

def step (codec : Codec) (h : Bytes → UInt32) (byteCompare : Bool) (maxBlock : Nat) (st : State) :
    Ev → Except Err (Option Res × State)
  | .frag d fl =>
    match processFragment codec h byteCompare maxBlock st d fl with
    | .error e => .error e
    | .ok (r, st') => .ok (some r, st')
  | .written idx =>
    match blockWritten codec st idx with
    | .error e => .error e
    | .ok st' => .ok (none, st')
  | .finish => .ok (none, closeOpen st)

def run (codec : Codec) (h : Bytes → UInt32) (byteCompare : Bool) (maxBlock : Nat) (st : State) :
    List Ev → Except Err (List (Option Res) × State)
  | [] => .ok ([], st)
  | e :: es =>
    match step codec h byteCompare maxBlock st e with
    | .error x => .error x
    | .ok (r, st') =>
      match run codec h byteCompare maxBlock st' es with
      | .error x => .error x
      | .ok (rs, st'') => .ok (r :: rs, st'')

/-- what a reader of the finished image obtains for fragment block `idx` (`precache_fragment_block`), or, for
a block not yet on disk, the bytes that will be written -/
def readBlock (codec : Codec) (st : State) (idx : Nat) : Option Bytes :=
  match st.blocks[idx]? with
  | none => none
  | some b =>
    match b.place with
    | .written stored true => codec.unc stored
    | .written stored false => some stored
    | _ => some b.data

end Sqfs.FragDedup
