/-
Model of `sqfs_writer_finish` (`lib/common/src/writer/finish.c`) + `sqfs_serialize_fstree`'s table starts
(`serialize_fstree.c:194,212`), `sqfs_write_table`'s start (`write_table.c:71`), `sqfs_xattr_writer_flush`'s starts
(`xattr_writer_flush.c:318-336`) and `padd_sqfs`: only the *layout arithmetic* — every start is the file size at
that moment.  Inputs are the byte counts each step appends (stored sizes incl. the 2-byte headers).
-/
namespace Sqfs.Finish

def NOTBL : Nat := 0xFFFFFFFFFFFFFFFF

/-- a lookup table: bytes of its metadata blocks and number of blocks (= entries of the location list) -/
structure Tbl where
  blockBytes : Nat
  blocks : Nat
  deriving Repr

structure XTbl where
  kvBytes : Nat            -- key/value metadata blocks
  idBytes : Nat            -- xattr id table metadata blocks
  idBlocks : Nat
  deriving Repr

structure Input where
  dataEnd : Nat            -- file size when `sqfs_serialize_fstree` starts (superblock + options + data area)
  inodeBytes : Nat
  dirBytes : Nat
  frag : Option Tbl        -- none: no fragments → 0xFFFF…
  exportTbl : Option Tbl   -- none: not exportable
  id : Tbl
  xattr : Option XTbl      -- none: no xattrs recorded / --no-xattr
  devblk : Nat
  deriving Repr

structure Layout where
  inodeTable : Nat
  dirTable : Nat
  fragTable : Nat
  exportTable : Nat
  idTable : Nat
  xattrTable : Nat
  bytesUsed : Nat
  fileSize : Nat
  deriving Repr, DecidableEq

/-- `sqfs_write_table`: blocks first, `*start` = file size after them, then the location list -/
def writeTbl (size : Nat) (t : Tbl) : Nat × Nat := (size + t.blockBytes, size + t.blockBytes + 8 * t.blocks)

/-- `padd_sqfs` -/
def padSize (size blocksize : Nat) : Nat :=
  if size % blocksize = 0 then 0 else blocksize - size % blocksize

def finish (i : Input) : Layout :=
  let inodeTable := i.dataEnd
  let dirTable := inodeTable + i.inodeBytes
  let s := dirTable + i.dirBytes
  let (fragTable, s) := match i.frag with
    | none => (NOTBL, s)
    | some t => writeTbl s t
  let (exportTable, s) := match i.exportTbl with
    | none => (NOTBL, s)
    | some t => writeTbl s t
  let (idTable, s) := writeTbl s i.id
  let (xattrTable, s) := match i.xattr with
    | none => (NOTBL, s)
    | some x => (s + x.kvBytes + x.idBytes, s + x.kvBytes + x.idBytes + 16 + 8 * x.idBlocks)
  { inodeTable, dirTable, fragTable, exportTable, idTable, xattrTable, bytesUsed := s, fileSize := s + padSize s i.devblk }

end Sqfs.Finish
