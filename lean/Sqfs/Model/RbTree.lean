import Sqfs.Generated.Consts
/-!
Model of `lib/util/src/rbtree.c` — the generic container under the directory reader's inode-number → reference cache
(`dir_reader.c`: 4 byte key padded to 8, 8 byte value) and the xattr writer's block tree (40 byte key, no value) — for
C19's `rbtree_copy_equiv` and run against the real functions by `sqfsmodel c19 unit` / `copystate`.

* `Cfg`, `init` — `rbtree_init`: `key_size`, `key_size_padded` (rounded up to `sizeof(void *)`), `value_size`;
* `Tree`, `mknode`, `rotateLeft/Right`, `flipColors`, `balance`, `subtreeInsert`, `insert`, `Tree.lookup` — the node
  layout (`value_offset`, colour bit, `data[] = key | padding | value`) and `rbtree_insert` / `rbtree_lookup` on trees as
  values (what the operations compute);
* `Cell`, `Store`, `copyNode`, `rbCopy`, `lookupSt` — `copy_node` / `rbtree_copy` / `rbtree_lookup` over an explicit node
  store (address → node memory), so that *which memory* the copy consists of is part of the model: `copy_node` allocates
  a fresh node (`calloc`), copies `sizeof(*n) + key_size_padded + value_size` bytes, clears the child pointers and
  recurses.  `Shape` relates a pointer in a store to the tree value it represents.

Allocation failure inside `rbtree_copy` is not modelled here (the object-heap model `Sqfs.Model.Obj` has it for the hooks
that call it; the unit harness injects it and the driver answers with the error code).
-/
namespace Sqfs.Rb
open Sqfs.Consts

/-- `sizeof(void *)`, `sizeof(rbtree_node_t)` (the node header in front of `data[]`) of the tree under verification -/
def ptrSize : Nat := c19PtrSize
def nodeHdr : Nat := c19RbNodeHdr

/-- the size fields of `rbtree_t` -/
structure Cfg where
  keySize : Nat
  keyPad : Nat        -- `key_size_padded`
  valueSize : Nat
  deriving Repr, DecidableEq

/-- `key_size_padded` as `rbtree_init` computes it: `diff = keysize % sizeof(void *); if (diff != 0) padded += sizeof(void *) - diff` -/
def padOf (ks : Nat) : Nat :=
  let diff := ks % ptrSize
  if diff ≠ 0 then ks + (ptrSize - diff) else ks

/-- `rbtree_init`: `none` = `SQFS_ERROR_OVERFLOW` (`SZ_ADD_OV` on `size_t`, padded key size must fit the 32 bit
`value_offset`, the node size must fit `size_t`) -/
def init (ks vs : Nat) : Option Cfg :=
  let pad := padOf ks
  if pad ≥ 2 ^ 64 then none
  else if pad > 0xFFFFFFFF then none
  else if nodeHdr + pad ≥ 2 ^ 64 then none
  else if nodeHdr + pad + vs ≥ 2 ^ 64 then none
  else some ⟨ks, pad, vs⟩

/-- exactly `n` bytes of `l` (a `memcpy` of `n` bytes from a buffer that holds `l`; short sources are zero-extended,
the harness never passes one) -/
def fit (n : Nat) (l : List UInt8) : List UInt8 := (l ++ List.replicate n 0).take n

/-! ### trees as values -/

/-- a node: children, `value_offset`, `is_red`, `data[]` (all `key_size_padded + value_size` bytes) -/
inductive Tree where
  | nil
  | node (l r : Tree) (off : Nat) (red : Bool) (data : List UInt8)
  deriving Repr, DecidableEq

def Tree.depth : Tree → Nat
  | .nil => 0
  | .node l r _ _ _ => max l.depth r.depth + 1

def Tree.size : Tree → Nat
  | .nil => 0
  | .node l r _ _ _ => l.size + r.size + 1

/-- `IS_RED(n)`: `(n) && (n)->is_red` -/
def isRed : Tree → Bool
  | .nil => false
  | .node _ _ _ red _ => red

/-- `mknode`: `calloc`, `value_offset = key_size_padded`, red, key bytes at 0, value bytes at `key_size_padded` -/
def mknode (c : Cfg) (key value : List UInt8) : Tree :=
  .node .nil .nil c.keyPad true (fit c.keyPad (fit c.keySize key) ++ fit c.valueSize value)

/-- `flip_colors` (only called with both children present) -/
def flipOne : Tree → Tree
  | .nil => .nil
  | .node l r o red d => .node l r o (!red) d

def flipColors : Tree → Tree
  | .nil => .nil
  | .node l r o red d => .node (flipOne l) (flipOne r) o (!red) d

/-- `rotate_right`: `x = n->left; n->left = x->right; x->right = n; x->is_red = n->is_red; n->is_red = 1` -/
def rotateRight : Tree → Tree
  | .node (.node xl xr xo _ xd) r o red d => .node xl (.node xr r o true d) xo red xd
  | t => t      -- `n->left == NULL`: never called so (guarded by `IS_RED(n->left)`)

/-- `rotate_left` -/
def rotateLeft : Tree → Tree
  | .node l (.node xl xr xo _ xd) o red d => .node (.node l xl o true d) xr xo red xd
  | t => t

def leftOf : Tree → Tree
  | .nil => .nil
  | .node l _ _ _ _ => l

def rightOf : Tree → Tree
  | .nil => .nil
  | .node _ r _ _ _ => r

/-- `subtree_balance`: the three `if`s in source order -/
def bal1 (n : Tree) : Tree := if isRed (rightOf n) && !isRed (leftOf n) then rotateLeft n else n
def bal2 (n : Tree) : Tree := if isRed (leftOf n) && isRed (leftOf (leftOf n)) then rotateRight n else n
def bal3 (n : Tree) : Tree := if isRed (leftOf n) && isRed (rightOf n) then flipColors n else n
def balance (n : Tree) : Tree := bal3 (bal2 (bal1 n))

def dataOf : Tree → List UInt8
  | .nil => []
  | .node _ _ _ _ d => d

/-- `subtree_insert`: `key_compare(ctx, new->data, root->data) < 0` goes left, everything else right -/
def subtreeInsert (lt : List UInt8 → List UInt8 → Bool) (new : Tree) : Tree → Tree
  | .nil => new
  | .node l r o red d =>
    if lt (dataOf new) d then balance (.node (subtreeInsert lt new l) r o red d)
    else balance (.node l (subtreeInsert lt new r) o red d)

def blacken : Tree → Tree
  | .nil => .nil
  | .node l r o _ d => .node l r o false d

/-- `rbtree_insert` (allocation succeeds) -/
def insert (c : Cfg) (lt : List UInt8 → List UInt8 → Bool) (t : Tree) (key value : List UInt8) : Tree :=
  blacken (subtreeInsert lt (mknode c key value) t)

/-- the tree after `rbtree_insert` of every pair, in order, into an empty tree (`rbtree_init`) -/
def build (c : Cfg) (lt : List UInt8 → List UInt8 → Bool) (kvs : List (List UInt8 × List UInt8)) : Tree :=
  kvs.foldl (fun t kv => insert c lt t kv.1 kv.2) .nil

/-- `rbtree_lookup`: `cmp key node->data`: `0` found, `< 0` left, `> 0` right; answer = (`value_offset`, `data[]`) of the node -/
def Tree.lookup (cmp : List UInt8 → List UInt8 → Ordering) (key : List UInt8) : Tree → Option (Nat × List UInt8)
  | .nil => none
  | .node l r o _ d =>
    match cmp key d with
    | .eq => some (o, d)
    | .lt => l.lookup cmp key
    | .gt => r.lookup cmp key

/-- `rbtree_node_value(n)` read as `value_size` bytes: `n->data + n->value_offset` -/
def valueOf (c : Cfg) (n : Nat × List UInt8) : List UInt8 := (n.2.drop n.1).take c.valueSize

/-- `rbtree_node_key(n)` read as `key_size` bytes -/
def keyOf (c : Cfg) (n : Nat × List UInt8) : List UInt8 := n.2.take c.keySize

/-- every node was made by `mknode` of this configuration: `value_offset = key_size_padded`, `data[]` has
`key_size_padded + value_size` bytes -/
def WfTree (c : Cfg) : Tree → Prop
  | .nil => True
  | .node l r o _ d => o = c.keyPad ∧ d.length = c.keyPad + c.valueSize ∧ WfTree c l ∧ WfTree c r

/-- `WfTree` as a test (run on every tree dumped from a real object) -/
def wfTreeB (c : Cfg) : Tree → Bool
  | .nil => true
  | .node l r o _ d => o == c.keyPad && d.length == c.keyPad + c.valueSize && wfTreeB c l && wfTreeB c r

/-! ### `copy_node` over a node store -/

/-- the memory of one `rbtree_node_t` -/
structure Cell where
  left : Option Nat
  right : Option Nat
  off : Nat
  red : Bool
  data : List UInt8
  deriving Repr, DecidableEq

/-- node memory: address → node; `next` = the address the next `calloc` returns -/
structure Store where
  cells : Nat → Option Cell
  next : Nat

def Store.empty : Store := ⟨fun _ => none, 0⟩

def setCell (cells : Nat → Option Cell) (a : Nat) (c : Cell) : Nat → Option Cell := fun i => if i = a then some c else cells i

/-- `calloc(1, sizeof(*out) + key_size_padded + value_size)` followed by the stores that fill it -/
def Store.alloc (st : Store) (c : Cell) : Store × Nat := (⟨setCell st.cells st.next c, st.next + 1⟩, st.next)

/-- the number of bytes `copy_node` passes to `memcpy`: `sizeof(*n) + t->key_size_padded + t->value_size` -/
def copyLen (c : Cfg) : Nat := nodeHdr + c.keyPad + c.valueSize

/-- `data[]` of the fresh node after `memcpy(out, n, copyLen)`: the first `copyLen - sizeof(*n)` bytes of the source's
`data[]`, the rest of the `calloc`ed node (`key_size_padded + value_size` bytes of `data[]`) stays zero -/
def copyData (c : Cfg) (d : List UInt8) : List UInt8 :=
  let n := copyLen c - nodeHdr
  (d.take n ++ List.replicate (c.keyPad + c.valueSize) 0).take (c.keyPad + c.valueSize)

/-- `out->left = copy_node(...)` / `out->right = …`: a child pointer that is NULL stays NULL -/
def copyChild (rec : Store → Nat → Option (Store × Nat)) (st : Store) : Option Nat → Option (Store × Option Nat)
  | none => some (st, none)
  | some a => match rec st a with
    | some (st', x) => some (st', some x)
    | none => none

def modCell (st : Store) (a : Nat) (f : Cell → Cell) : Store :=
  match st.cells a with
  | some c => ⟨setCell st.cells a (f c), st.next⟩
  | none => st

/-- `copy_node(nt, t, n)`; fuel = bound on the recursion depth; `none` = a pointer that leads nowhere (crash) or fuel
exhausted.  The header (`value_offset`, colour) is inside the copied bytes whenever `copyLen ≥ sizeof(*n)`. -/
def copyNode (c : Cfg) : Nat → Store → Nat → Option (Store × Nat)
  | 0, _, _ => none
  | fuel + 1, st, a =>
    match st.cells a with
    | none => none
    | some n =>
      let (st, out) := st.alloc ⟨none, none, n.off, n.red, copyData c n.data⟩
      match copyChild (copyNode c fuel) st n.left with
      | none => none
      | some (st, l') =>
        let st := modCell st out fun x => { x with left := l' }
        match copyChild (copyNode c fuel) st n.right with
        | none => none
        | some (st, r') =>
          let st := modCell st out fun x => { x with right := r' }
          some (st, out)

/-- `rbtree_copy` (the node part; the struct itself is `memcpy`d, `root` replaced) -/
def rbCopy (c : Cfg) (fuel : Nat) (st : Store) (root : Option Nat) : Option (Store × Option Nat) :=
  copyChild (copyNode c fuel) st root

/-- `rbtree_lookup` over the store -/
def lookupSt (cmp : List UInt8 → List UInt8 → Ordering) (cells : Nat → Option Cell) : Nat → Option Nat → List UInt8 → Option (Nat × List UInt8)
  | 0, _, _ => none
  | _ + 1, none, _ => none
  | fuel + 1, some a, key =>
    match cells a with
    | none => none
    | some n =>
      match cmp key n.data with
      | .eq => some (n.off, n.data)
      | .lt => lookupSt cmp cells fuel n.left key
      | .gt => lookupSt cmp cells fuel n.right key

/-- pointer `p` of the store represents tree `t`, and every node of it lives at an address in `[lo, hi)` -/
inductive Shape (cells : Nat → Option Cell) (lo hi : Nat) : Option Nat → Tree → Prop
  | nil : Shape cells lo hi none .nil
  | node {a : Nat} {c : Cell} {l r : Tree} : lo ≤ a → a < hi → cells a = some c →
      Shape cells lo hi c.left l → Shape cells lo hi c.right r → Shape cells lo hi (some a) (.node l r c.off c.red c.data)

/-- read a tree value back from the store (driver: serialisation); fuel as in `copyNode` -/
def readTree (cells : Nat → Option Cell) : Nat → Option Nat → Option Tree
  | _, none => some .nil
  | 0, some _ => none
  | fuel + 1, some a =>
    match cells a with
    | none => none
    | some n =>
      match readTree cells fuel n.left, readTree cells fuel n.right with
      | some l, some r => some (.node l r n.off n.red n.data)
      | _, _ => none

/-- write a tree value into fresh cells (driver: a dumped real tree becomes a store) -/
def writeTree (st : Store) : Tree → Store × Option Nat
  | .nil => (st, none)
  | .node l r o red d =>
    let (st, a) := st.alloc ⟨none, none, o, red, d⟩
    let (st, l') := writeTree st l
    let (st, r') := writeTree st r
    (modCell st a fun x => { x with left := l', right := r' }, some a)

/-! ### the directory reader's cache (`dir_reader.c`): `rbtree_init(&rd->dcache, sizeof(sqfs_u32), sizeof(sqfs_u64), dcache_key_compare)` -/

def leBytes : Nat → Nat → List UInt8
  | 0, _ => []
  | n + 1, v => UInt8.ofNat (v % 256) :: leBytes n (v / 256)

def leVal : List UInt8 → Nat
  | [] => 0
  | b :: r => b.toNat + 256 * leVal r

/-- `dcache_key_compare`: the two keys read as `sqfs_u32` (little-endian host) -/
def dcCmp (a b : List UInt8) : Ordering := compare (leVal (a.take 4)) (leVal (b.take 4))

/-- `sqfs_dir_reader_resolve_inum` on a reader created with `SQFS_DIR_READER_DOT_ENTRIES`: `none` = `SQFS_ERROR_NO_ENTRY`,
else `*((sqfs_u64 *)rbtree_node_value(node))` -/
def dcResolve (c : Cfg) (cells : Nat → Option Cell) (fuel : Nat) (root : Option Nat) (inum : Nat) : Option Nat :=
  (lookupSt dcCmp cells fuel root (leBytes 4 inum)).map fun n => leVal (valueOf c n)

/-- `memcmp` over `key_size` bytes: the comparison function of the unit harness -/
def lexCmp : List UInt8 → List UInt8 → Ordering
  | [], [] => .eq
  | [], _ :: _ => .lt
  | _ :: _, [] => .gt
  | a :: as, b :: bs => if a < b then .lt else if b < a then .gt else lexCmp as bs

def memCmp (c : Cfg) (a b : List UInt8) : Ordering := lexCmp (fit c.keySize a) (fit c.keySize b)

end Sqfs.Rb
