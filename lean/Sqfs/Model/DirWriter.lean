/-
Model of `lib/sqfs/src/dir_writer.c`: `sqfs_dir_writer_add_entry`, `get_conseq_entry_count`, `add_header`,
`sqfs_dir_writer_end`, `sqfs_dir_writer_create_inode`.

Entries are kept as a list (the C code keeps a singly linked list in insertion order).  The meta writer the
listing is appended to is the model of `meta_writer.c` itself (`Sqfs.MetaWriter.St`, any codec): `sqfs_dir_writer_end`
reads its position (`block_offset`, `offset`) before every header and appends header, entry records and names
piece by piece exactly as the C code does, so the block offsets recorded for the directory index are those of a
real, compressing meta writer.  Also here: `add_export_table_entry` / the table `sqfs_dir_writer_write_export_table`
hands to `sqfs_write_table`.

`add_entry` models the **repaired** behaviour (fixes/C03-dir-name-limit.patch: names longer than 256 bytes are
refused); `Sqfs/Witness/C03.lean` keeps the behaviour of the unrepaired code.
-/
import Sqfs.Generated.Consts
import Sqfs.Model.MetaWriter
namespace Sqfs.DirWriter
open Sqfs.Consts
open Sqfs.MetaWriter (Codec St append)

abbrev Bytes := List UInt8

/-- `sqfs_dir_entry_t` of dir_writer.c (the writer's private list node) -/
structure DEnt where
  inodeRef : Nat          -- sqfs_u64
  inodeNum : Nat          -- sqfs_u32
  typ : Nat               -- sqfs_u16, a basic inode type
  name : Bytes
  deriving Repr, DecidableEq

/-- `(sqfs_s32)(a - b)` for `sqfs_u32 a, b` (dir_writer.c:237) -/
def sdiff32 (a b : Nat) : Int :=
  let d := (a + 4294967296 - b % 4294967296) % 4294967296
  if d < 2147483648 then (d : Int) else (d : Int) - 4294967296

def entSize (e : DEnt) : Nat := sizeofDirNode + e.name.length

/--
The `for` loop of `get_conseq_entry_count` (dir_writer.c:233-251) with `head` fixed:
`hblk = head->inode_ref >> 16`, `hnum = head->inode_num`; `size`/`count` are the loop variables.
-/
def conseqGo (hblk hnum : Nat) : (size count : Nat) → List DEnt → Nat
  | _, count, [] => count
  | size, count, it :: rest =>
    if it.inodeRef >>> 16 ≠ hblk then count                          -- :234
    else if sdiff32 it.inodeNum hnum > 32767 ∨ sdiff32 it.inodeNum hnum < -32767 then count   -- :239
    else if count > 0 ∧ size + entSize it > metaBlockSize then count   -- :242-245
    else if count + 1 = maxDirEnt then count + 1                       -- :247-250
    else conseqGo hblk hnum (size + entSize it) (count + 1) rest

/-- `get_conseq_entry_count(offset, head)` -/
def conseqCount (offset : Nat) : List DEnt → Nat
  | [] => 0
  | head :: rest =>
    conseqGo (head.inodeRef >>> 16) head.inodeNum ((offset + sizeofDirHeader) % metaBlockSize) 0 (head :: rest)

/-! ### byte encoding (`htole16/32`, the fields are truncated to their C types first) -/

def le16 (v : Nat) : Bytes := [UInt8.ofNat (v % 256), UInt8.ofNat (v / 256 % 256)]
def le32 (v : Nat) : Bytes := le16 (v % 65536) ++ le16 (v / 65536 % 65536)

/-- one emitted run: the header fields and the entries it covers -/
structure Run where
  ents : List DEnt                 -- the `count` entries following the header
  startBlock : Nat                 -- hdr.start_block  = (u32)(ref->inode_ref >> 16)
  inodeNumber : Nat                -- hdr.inode_number = ref->inode_num
  index : Nat                      -- idx->index = writer->dir_size when the header was added
  block : Nat                      -- idx->block = meta writer block_offset when the header was added
  deriving Repr

/-- `sqfs_dir_header_t` as filled in by `add_header` (dir_writer.c:263-265) -/
def headerBytes (count startBlock inodeNumber : Nat) : Bytes :=
  le32 ((count - 1) % 4294967296) ++ le32 startBlock ++ le32 inodeNumber

/-- `sqfs_dir_node_t` as filled in at dir_writer.c:311-317 (`inode_diff` is the low 16 bits of the u32 difference) -/
def nodeBytes (firstNum : Nat) (e : DEnt) : Bytes :=
  le16 (e.inodeRef % 65536) ++ le16 ((e.inodeNum + 4294967296 - firstNum % 4294967296) % 65536)
    ++ le16 (e.typ % 65536) ++ le16 ((e.name.length - 1) % 65536)

/-- `sqfs_dir_node_t` + name as appended at dir_writer.c:319-325 -/
def encodeEnt (firstNum : Nat) (e : DEnt) : Bytes :=
  le16 (e.inodeRef % 65536) ++ le16 ((e.inodeNum + 4294967296 - firstNum % 4294967296) % 65536)
    ++ le16 (e.typ % 65536) ++ le16 ((e.name.length - 1) % 65536) ++ e.name

def encodeRun (r : Run) : Bytes :=
  le32 ((r.ents.length - 1) % 4294967296) ++ le32 r.startBlock ++ le32 r.inodeNumber
    ++ (r.ents.map (encodeEnt r.inodeNumber)).flatten

/-- the separate `sqfs_meta_writer_append` calls one header + run makes: the header (:267), then per entry the
record (:319) and the name (:324) -/
def runChunks (r : Run) : List Bytes :=
  headerBytes r.ents.length r.startBlock r.inodeNumber
    :: (r.ents.map (fun e => [nodeBytes r.inodeNumber e, e.name])).flatten

def runBytes (ents : List DEnt) : Nat := sizeofDirHeader + (ents.map entSize).sum

/-- `sqfs_dir_writer_begin` (dir_writer.c:177-178): `dir_ref = (block << 16) | offset` -/
def dirRefOf (st : St) : Nat := (st.blockOffset <<< 16) ||| st.cur.length

/--
The outer loop of `sqfs_dir_writer_end` (dir_writer.c:300-332) on the meta writer state `st`; `dirSize` =
`writer->dir_size`.  Fuel = number of entries (+1): every iteration consumes at least one.
Returns the runs (header fields, covered entries, the index record `add_header` keeps) and the meta writer state.
-/
def dirEndGoM (cmp : Codec) : (fuel : Nat) → St → (dirSize : Nat) → List DEnt → List Run × St
  | 0, st, _, _ => ([], st)
  | _, st, _, [] => ([], st)
  | f + 1, st, dirSize, first :: rest =>
    let count := conseqCount st.cur.length (first :: rest)           -- :301-302 get_position, get_conseq_entry_count
    let run := (first :: rest).take count
    let r : Run := ⟨run, (first.inodeRef >>> 16) % 4294967296, first.inodeNum, dirSize, st.blockOffset⟩   -- :304 add_header
    let st' := (runChunks r).foldl (append cmp) st
    let next := dirEndGoM cmp f st' (dirSize + runBytes run) ((first :: rest).drop count)
    (r :: next.1, next.2)

def dirEndM (cmp : Codec) (st : St) (ents : List DEnt) : List Run × St :=
  dirEndGoM cmp (ents.length + 1) st 0 ents

/-! #### the first, coarser model of the same loop (kept for its users: C01 `EncDir`)

The meta writer is represented only by its position `(block_offset, offset)`; `blkCost` is what one flushed 8 KiB block
adds to `block_offset` (stored size + 2), i.e. a compressor under which every block has the same stored size — 8194 for
one that never shrinks.  `Sqfs.DirWriter.dirEnd_eq_dirEndM` shows that this is `dirEndM` for such a codec. -/

/-- position of the meta writer after appending `n` bytes (meta_writer.c: a full block is flushed at once) -/
def advance (blkCost blk off n : Nat) : Nat × Nat :=
  (blk + (off + n) / metaBlockSize * blkCost, (off + n) % metaBlockSize)

def dirEndGo (blkCost : Nat) : (fuel : Nat) → (blk off dirSize : Nat) → List DEnt → List Run
  | 0, _, _, _, _ => []
  | _, _, _, _, [] => []
  | f + 1, blk, off, dirSize, first :: rest =>
    let count := conseqCount off (first :: rest)
    let run := (first :: rest).take count
    let (blk', off') := advance blkCost blk off (runBytes run)
    ⟨run, (first.inodeRef >>> 16) % 4294967296, first.inodeNum, dirSize, blk⟩
      :: dirEndGo blkCost f blk' off' (dirSize + runBytes run) ((first :: rest).drop count)

def dirEnd (blkCost blk off : Nat) (ents : List DEnt) : List Run :=
  dirEndGo blkCost (ents.length + 1) blk off 0 ents

def dirSizeOf (runs : List Run) : Nat := (runs.map (fun r => runBytes r.ents)).sum

/-! ### export table (`add_export_table_entry`, `sqfs_dir_writer_write_export_table`) -/

/-- the 0xFF fill of unused export table slots -/
def exportUnset : Nat := 0xFFFFFFFFFFFFFFFF

/-- `add_export_table_entry` (dir_writer.c:100-127) on a writer created with CREATE_EXPORT_TABLE, for `inum ≥ 1`
(`add_entry` has refused 0 before it gets here): grow to `inum` slots filled with 0xFF…, then `ptr[inum - 1] = iref` -/
def addExport (tbl : List Nat) (inum iref : Nat) : List Nat :=
  let tbl := if inum - 1 ≥ tbl.length then tbl ++ List.replicate (inum - tbl.length) exportUnset else tbl   -- :118-123
  tbl.set (inum - 1) iref                                                                                  -- :125

/-- every accepted `add_entry` of a run of directories, then the root (`write_export_table`, :451) -/
def exportTable (adds : List (Nat × Nat)) (rootNum rootRef : Nat) : List Nat :=
  addExport (adds.foldl (fun t a => addExport t a.1 a.2) []) rootNum rootRef

/-! ### `sqfs_dir_writer_add_entry` -/

inductive AddResult where
  | ok (e : DEnt)
  | unsupported          -- SQFS_ERROR_UNSUPPORTED: mode is none of the seven file types
  | argInvalid           -- SQFS_ERROR_ARG_INVALID
  deriving Repr, DecidableEq

/-- `get_type` (dir_writer.c:59-74): S_IFMT bits → basic inode type -/
def getType (mode : Nat) : Option Nat :=
  match mode &&& 0o170000 with
  | 0o140000 => some inodeSocket
  | 0o010000 => some inodeFifo
  | 0o120000 => some inodeSlink
  | 0o060000 => some inodeBdev
  | 0o020000 => some inodeCdev
  | 0o040000 => some inodeDir
  | 0o100000 => some inodeFile
  | _ => none

/-- longest name a directory entry can carry (`size` is stored off by one, the kernel accepts at most 255) -/
def maxNameLen : Nat := 256

/-- repaired `add_entry`: empty names, inode number 0 and names longer than 256 bytes are refused -/
def addEntry (name : Bytes) (inodeNum inodeRef mode : Nat) : AddResult :=
  match getType mode with
  | none => .unsupported
  | some t =>
    if name = [] ∨ inodeNum < 1 then .argInvalid
    else if name.length > maxNameLen then .argInvalid
    else .ok ⟨inodeRef, inodeNum, t, name⟩

/-! ### `sqfs_dir_writer_create_inode` -/

structure DirInode where
  ext : Bool
  nlink : Nat
  size : Nat
  startBlock : Nat
  offset : Nat
  parent : Nat
  xattr : Nat
  index : List (Nat × Nat × Bytes)      -- (index, start_block, name) per header, only for ext
  deriving Repr

def dirIndexThreshold : Nat := 256

/-- most index entries an extended directory inode can announce (`inodex_count` is a `sqfs_u16`) -/
def maxIndex : Nat := 0xFFFF

/-- dir_writer.c:363-438. `dirRef` = position recorded by `sqfs_dir_writer_begin`.  `cap` = number of index
entries after which the loop at :415 stops: `maxIndex` in the repaired code (fixes/C03-dir-index-count.patch),
unbounded (`none`) in the unrepaired code, where the u16 counter then wraps. -/
def createInodeCap (cap : Option Nat) (dirRef : Nat) (runs : List Run) (entCount hlinks xattr parent : Nat) : DirInode :=
  let startBlock := dirRef >>> 16
  let dirSize := dirSizeOf runs
  let ext := (xattr ≠ 0xFFFFFFFF ∨ startBlock > 0xFFFFFFFF ∨ dirSize > 0xFFFF - 3) ∨ entCount ≥ dirIndexThreshold
  if ext then
    { ext := true, nlink := (entCount + hlinks + 2) % 4294967296, size := (dirSize + 3) % 4294967296,
      startBlock := startBlock % 4294967296, offset := dirRef % 65536, parent := parent, xattr := xattr,
      index := ((match cap with | some c => runs.take c | none => runs)).map
        (fun (r : Run) => (r.index % 4294967296, r.block % 4294967296, match r.ents with | e :: _ => e.name | [] => [])) }
  else
    { ext := false, nlink := (entCount + hlinks + 2) % 4294967296, size := (dirSize + 3) % 65536,
      startBlock := startBlock % 4294967296, offset := dirRef % 65536, parent := parent, xattr := 0xFFFFFFFF,
      index := [] }

/-- repaired `sqfs_dir_writer_create_inode` -/
def createInode (dirRef : Nat) (runs : List Run) (entCount hlinks xattr parent : Nat) : DirInode :=
  createInodeCap (some maxIndex) dirRef runs entCount hlinks xattr parent

/-- the `inodex_count` field as stored (u16) -/
def DirInode.indexCount (i : DirInode) : Nat := i.index.length % 65536

end Sqfs.DirWriter
