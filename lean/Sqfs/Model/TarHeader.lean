/-
Model of the tar header **writer**, `lib/tar/src/write_header.c` (+ `padd_file.c`):
`write_header`, `write_ext_header`, `num_digits`, `prefix_digit_len`, `write_schily_xattr`,
`write_hard_link`, `write_tar_header`.

A C string argument is the list of its bytes before the NUL.  The output stream is the list of bytes
appended to it.  One Lean function per C function.
-/
import Sqfs.Model.TarNumber
import Sqfs.Generated.Consts
namespace Sqfs.Tar

/-! ### small helpers -/

def zeros (n : Nat) : Bytes := List.replicate n 0

/-- a fixed-size field holding `b` (at most `n` bytes of it), NUL padded -/
def field (n : Nat) (b : Bytes) : Bytes := b.take n ++ zeros (n - (b.take n).length)

/-- decimal digits, most significant first, with fuel (`fuel ≥ n` is always enough) -/
def decDigitsF : Nat → Nat → Bytes
  | 0, n => [UInt8.ofNat (48 + n % 10)]
  | f + 1, n => if n ≥ 10 then decDigitsF f (n / 10) ++ [UInt8.ofNat (48 + n % 10)] else [UInt8.ofNat (48 + n % 10)]

/-- `sprintf("%lu" / "%zu" / "%u")` -/
def decStr (n : Nat) : Bytes := decDigitsF n n

/-- `num_digits` with fuel -/
def numDigitsF : Nat → Nat → Nat
  | 0, _ => 1
  | f + 1, n => if n ≥ 10 then numDigitsF f (n / 10) + 1 else 1

/-- `num_digits` -/
def numDigits (n : Nat) : Nat := numDigitsF n n

/--
The `do … while (old_ndigit != ndigit)` loop of `prefix_digit_len`; `fuel` bounds the number of
iterations (theorem `prefix_digit_len_correct`: three iterations always suffice, so fuel 4 is exact).
-/
def prefixDigitLoop (len : Nat) : Nat → Nat → Nat
  | 0, ndigit => ndigit
  | f + 1, ndigit =>
    let nd := numDigits (len + ndigit)
    if ndigit ≠ nd then prefixDigitLoop len f nd else nd

def prefixDigitLen (len : Nat) : Nat := prefixDigitLoop len 4 0

/-- mode bits -/
abbrev S_IFMT : Nat := 0o170000
abbrev S_IFSOCK : Nat := 0o140000
abbrev S_IFLNK : Nat := 0o120000
abbrev S_IFREG : Nat := 0o100000
abbrev S_IFBLK : Nat := 0o060000
abbrev S_IFDIR : Nat := 0o040000
abbrev S_IFCHR : Nat := 0o020000
abbrev S_IFIFO : Nat := 0o010000

def fmt (mode : Nat) : Nat := mode / 4096 * 4096        -- `mode & S_IFMT` for a 16-bit mode
def perm (mode : Nat) : Nat := mode % 4096              -- `mode & ~S_IFMT` / `mode & 07777`

/-- the `sqfs_dir_entry_t` fields the writer looks at (`rdev` split by `major()`/`minor()`) -/
structure WEntry where
  name : Bytes
  mode : Nat            -- 16 bit
  uid : Nat             -- u64
  gid : Nat             -- u64
  size : Nat            -- u64
  mtime : Int           -- s64
  devMajor : Nat
  devMinor : Nat
  hardLink : Bool       -- `flags & SQFS_DIR_ENTRY_FLAG_HARD_LINK`
  deriving Repr, DecidableEq

/-- `padd_file`: zero bytes up to the next multiple of 512 -/
def padding (size : Nat) : Nat := if size % 512 = 0 then 0 else 512 - size % 512

/-- "ustar " / " \0" (`TAR_MAGIC_OLD`, `TAR_VERSION_OLD`; the `memcpy` of `sizeof(hdr.version)` = 2 bytes copies the NUL) -/
def magicOld : Bytes := [117, 115, 116, 97, 114, 32]
def versionOld : Bytes := [32, 0]

/-- the 512 header bytes before `update_checksum` -/
def rawHeader (name : Bytes) (mode uid gid size : Nat) (mtime : Int) (typeflag : UInt8) (linkname : Bytes)
    (maj min : Nat) : Bytes :=
  name                                   -- 100
  ++ writeNumber mode 8 ++ writeNumber uid 8 ++ writeNumber gid 8
  ++ writeNumber size 12 ++ writeNumberSigned mtime 12
  ++ zeros 8                             -- chksum, filled in by `update_checksum`
  ++ [typeflag] ++ linkname              -- 1 + 100
  ++ magicOld ++ versionOld
  ++ field 32 (decStr uid) ++ field 32 (decStr gid)
  ++ writeNumber maj 8 ++ writeNumber min 8
  ++ zeros 167                           -- the `tail` union stays zero

/-- `write_header` -/
def writeHeaderRec (e : WEntry) (name : Bytes) (slink : Option Bytes) (typeflag : UInt8) : Bytes :=
  let isDev := fmt e.mode = S_IFCHR ∨ fmt e.mode = S_IFBLK
  -- `int maj = major(ent->rdev)`, then passed as `sqfs_u64`: values ≥ 2^31 are sign-extended
  let sext (x : Nat) : Nat := if x ≥ 2147483648 then x % 4294967296 + (U64 - 4294967296) else x
  let maj := if isDev then sext e.devMajor else 0
  let min := if isDev then sext e.devMinor else 0
  let size := if fmt e.mode = S_IFREG then e.size else 0
  let linkname := match slink with
    | some t => field 100 (t.take e.size)             -- `memcpy(hdr.linkname, slink_target, ent->size)`
    | none => zeros 100
  updateChecksum (rawHeader (field 100 (name.take 99))    -- `strncpy(hdr.name, name, sizeof(hdr.name) - 1)`
    (perm e.mode) e.uid e.gid size e.mtime typeflag linkname maj min)

/-- `write_ext_header`: a header for a pseudo file carrying `payload`, the payload, padding -/
def writeExtHeader (orig : WEntry) (payload : Bytes) (typeflag : UInt8) (name : Bytes) : Bytes :=
  let ent := { orig with mode := S_IFREG + 0o644, size := payload.length }
  writeHeaderRec ent name none typeflag ++ payload ++ zeros (padding payload.length)

def schilyPrefix : Bytes := ascii "SCHILY.xattr."

/--
Key of a `SCHILY.xattr.` record as the **repaired** writer emits it (`fixes/C04-xattr-key-escape.patch`): a PAX keyword ends
at the first '=', so GNU tar (`xattr_encode_keyword`) writes '%' as "%25" and '=' as "%3D" — and so does the repaired
`write_schily_xattr`.  The unrepaired code copies the key verbatim (`id`).
-/
def xattrEncodeKey : Bytes → Bytes
  | [] => []
  | c :: t =>
    if c = 37 then 37 :: 50 :: 53 :: xattrEncodeKey t            -- '%' → "%25"
    else if c = 61 then 37 :: 51 :: 68 :: xattrEncodeKey t       -- '=' → "%3D"
    else c :: xattrEncodeKey t

/-- one `"%zu %s%s=" value "\n"` record of `write_schily_xattr`, the key bytes as given -/
def schilyRecordRaw (key value : Bytes) : Bytes :=
  let len := schilyPrefix.length + key.length + value.length + 3
  decStr (len + prefixDigitLen len) ++ [32] ++ schilyPrefix ++ key ++ [61] ++ value ++ [10]

/-- … with the key escaped (repaired writer) -/
def schilyRecord (key value : Bytes) : Bytes := schilyRecordRaw (xattrEncodeKey key) value

/-- `write_schily_xattr`; `kenc` = what happens to a key (`xattrEncodeKey` repaired, `id` unrepaired) -/
def writeSchilyXattrK (kenc : Bytes → Bytes) (orig : WEntry) (name : Bytes) (xattrs : List (Bytes × Bytes)) : Bytes :=
  let payload := (xattrs.map fun kv => schilyRecordRaw (kenc kv.1) kv.2).flatten
  writeExtHeader orig payload 120 name                         -- 'x'

def writeSchilyXattr := writeSchilyXattrK xattrEncodeKey

/-- `write_hard_link` -/
def writeHardLink (e : WEntry) (target : Bytes) (counter : Nat) : Bytes :=
  let c := decStr counter
  let (pre1, linkname) :=
    if target.length ≥ 100 then
      (writeExtHeader e target 75 (ascii "gnu/target" ++ c), ascii "hardlink_" ++ c)     -- 'K'
    else ([], target)
  let (pre2, name) :=
    if e.name.length ≥ 100 then
      (writeExtHeader e e.name 76 (ascii "gnu/name" ++ c), ascii "gnu/data" ++ c)        -- 'L'
    else ([], e.name)
  pre1 ++ pre2 ++ updateChecksum (rawHeader (field 100 name) (perm e.mode) e.uid e.gid 0 e.mtime 49
    (field 100 linkname) 0 0)                                                              -- '1'

/-- the `switch (ent->mode & S_IFMT)` of `write_tar_header`; `none` = `SQFS_ERROR_UNSUPPORTED` (sockets) -/
def entryType (mode : Nat) : Option UInt8 :=
  if fmt mode = S_IFCHR then some 51 else if fmt mode = S_IFBLK then some 52
  else if fmt mode = S_IFLNK then some 50 else if fmt mode = S_IFREG then some 48
  else if fmt mode = S_IFDIR then some 53 else if fmt mode = S_IFIFO then some 54 else none

/-- the extension records `write_tar_header` emits for a non-hard-link entry (PAX xattr record, GNU 'K', GNU 'L')
    and the name / link target left for the main header -/
def extRecordsK (kenc : Bytes → Bytes) (e : WEntry) (target : Option Bytes) (xattrs : List (Bytes × Bytes)) (counter : Nat) :
    Bytes × Bytes × Option Bytes :=
  let c := decStr counter
  let px := if xattrs.isEmpty then [] else writeSchilyXattrK kenc e (ascii "pax/xattr" ++ c) xattrs
  let isLnk := fmt e.mode = S_IFLNK
  let slink := if isLnk then target else none
  let (pk, slink) :=
    if isLnk ∧ e.size ≥ 100 then
      (writeExtHeader e ((slink.getD []).take e.size) 75 (ascii "gnu/target" ++ c), none)
    else ([], slink)
  let (pl, name) :=
    if e.name.length ≥ 100 then (writeExtHeader e e.name 76 (ascii "gnu/name" ++ c), ascii "gnu/data" ++ c)
    else ([], e.name)
  (px ++ pk ++ pl, name, slink)

def extRecords := extRecordsK xattrEncodeKey

/--
`write_tar_header`, **repaired** order (`fixes/C04-socket-skip-before-ext-records.patch`): the type is decided
before anything is appended, so an unsupported entry (`none`) leaves the stream untouched.
-/
def writeTarHeaderK (kenc : Bytes → Bytes) (e : WEntry) (target : Option Bytes) (xattrs : List (Bytes × Bytes)) (counter : Nat) :
    Option Bytes :=
  if e.hardLink then some (writeHardLink e (target.getD []) counter)
  else
    match entryType e.mode with
    | none => none
    | some t =>
      let (pre, name, slink) := extRecordsK kenc e target xattrs counter
      some (pre ++ writeHeaderRec e name slink t)

/-- `write_tar_header`, repaired (socket refused before anything is written; xattr keys escaped) -/
def writeTarHeader := writeTarHeaderK xattrEncodeKey

/-- `write_tar_header` with the xattr keys copied verbatim (the code before `fixes/C04-xattr-key-escape.patch`) -/
def writeTarHeaderRawKeys := writeTarHeaderK id

/--
`write_tar_header` of the unrepaired code: the extension records are appended first and the unsupported
type is noticed afterwards.  Result: bytes appended, and whether the call succeeded.
-/
def writeTarHeaderCur (e : WEntry) (target : Option Bytes) (xattrs : List (Bytes × Bytes)) (counter : Nat) :
    Bytes × Bool :=
  if e.hardLink then (writeHardLink e (target.getD []) counter, true)
  else
    let (pre, name, slink) := extRecordsK id e target xattrs counter
    match entryType e.mode with
    | none => (pre, false)
    | some t => (pre ++ writeHeaderRec e name slink t, true)

end Sqfs.Tar
