/-
C02 — the block processor on a pool whose **workers carry compressor state**.

`Model/BlockProc.lean` stores a submitted item already worked with *the* codec of the run (`poolSubmit`: `processBlock P b`):
it assumes that `do_block` is a function of the block.  In the C code every worker thread owns a `sqfs_copy` of the
compressor object, the object lives as long as the processor, and which worker takes which block is the scheduler's choice
(`Model/C02Worker.lean`).  This file is the same main-thread state machine over such a pool:

* `poolSubmitK κ`: the item with ticket `t` is worked with the codec `κ t` — "the compressor copy that takes ticket `t`, in
  the state it is in at that moment".  `κ` is a parameter of the run: it stands for the assignment of tickets to workers,
  the initial states of the copies and everything each copy compressed before (for a `StatefulCodec` and an assignment `asg`
  the family is `fun t => c.at (state of worker asg t when it takes ticket t)`; `ticketStates` computes these states for a
  given item list, `workItems_eq_ticketStates` shows that this is what `workItems` of `Model/C02Worker.lean` does).
* every function of `Model/BlockProc.lean` that reaches `poolSubmit` — `enqueueBlock`, `makeRoom`, `storeFrag`,
  `processCompletedFragment`, `handleDequeued`, `dequeueGo`, `dequeueBlock`, `getNewBlockGo`, `getNewBlock`,
  `addSentinelBlock`, `appendGo`, `append`, `endFile`, `syncGo`, `syncDrain`, `sync`, `finish`, `packFile`, `packFiles`, `runProc`, `run` —
  is repeated **verbatim** with `poolSubmit` replaced (suffix `K`); everything else (`poolDequeue`, `poolStatus`, the fragment
  table, the block writer, `P.codec.unc` for reading fragment blocks back) is the original.

That the copy is faithful is a theorem, not a promise: for a constant family the `K` machine *is* the original one, for every
parameter set (`Sqfs.BlockProc.runK_const`, `Proofs/BlockProcWorkers.lean`).  Theorems: `Sqfs.C02.schedule_independent_stateful`
(history independent `do_block` ⇒ every family gives the reference's result), `Sqfs.C02.stateful_worker_schedule_dependent`
(otherwise two assignments give two images).
-/
import Sqfs.Model.C02Worker
namespace Sqfs.BlockProc
open Sqfs.Consts
open Sqfs.BlockWriter (hasFlag)

/-- `submit` on a pool of workers with private compressors: ticket `t = p.table.length` is worked with `κ t` -/
def poolSubmitK (κ : Nat → Codec) (P : Params) (p : PoolSt) (b : Blk) : PoolSt × Int :=
  let op := Pool.Op.submit p.table.length
  (p.record op (p.table ++ [processBlock { P with codec := κ p.table.length } b]),
    match P.ans p op with
    | .submit rc => rc
    | _ => -1)

def enqueueBlockK (κ : Nat → Codec) (P : Params) (s : Proc) (b : Blk) : Except Err Proc :=
  if (poolSubmitK κ P s.pool b).2 ≠ 0 then
    .error (if (poolStatus P (poolSubmitK κ P s.pool b).1).2 = 0 then .alloc else .pool (poolStatus P (poolSubmitK κ P s.pool b).1).2)
  else
    .ok { s with fblkInFlight := if hasFlag b.flags blkFragmentBlock && P.byteCompare
                                 then (b.index, b.data) :: s.fblkInFlight else s.fblkInFlight,
                 pool := (poolSubmitK κ P s.pool b).1 }

def makeRoomK (κ : Nat → Codec) (P : Params) (s : Proc) (len : Nat) : Except Err Proc :=
  match s.fragBlock with
  | some fb =>
    if fb.data.length + len > P.B then
      enqueueBlockK κ P { s with fragBlock := none, ioSeqNum := s.ioSeqNum + 1 } { fb with seq := s.ioSeqNum }
    else .ok s
  | none => .ok s

def storeFragK (κ : Nat → Codec) (P : Params) (s : Proc) (frag : Blk) : Except Err Proc :=
  match makeRoomK κ P s frag.data.length with
  | .error e => .error e
  | .ok s2 =>
    let r := placeFrag s2 frag
    match insert P r.1 frag.data ⟨r.2.1, r.2.2, frag.data.length, frag.chk, frag.flags &&& blkDontCompress⟩ [] r.1.fragHt with
    | .error e => .error e
    | .ok s4 =>
      let s5 : Proc := { s4 with w := modInode s4.w frag.inode (fun i => { i with fragIdx := r.2.1, fragOff := r.2.2 }) }
      .ok (match s2.fragBlock with
           | none => s5
           | some _ => releaseOldBlock s5)

def processCompletedFragmentK (κ : Nat → Codec) (P : Params) (s : Proc) (frag : Blk) : Except Err Proc :=
  if hasFlag frag.flags blkIsSparse then
    .ok (releaseOldBlock { s with w := modInode s.w frag.inode (fun i =>
      let i1 := ({ i with extended := true } : Inode).setBlockSize frag.index 0
      { i1 with sparse := i1.sparse + frag.data.length }) })
  else
    match lookupFrag P s frag with
    | .error e => .error e
    | .ok (some c, s1) =>
      .ok (releaseOldBlock { s1 with w := modInode s1.w frag.inode (fun i => { i with fragIdx := c.index, fragOff := c.offset }) })
    | .ok (none, s1) => storeFragK κ P s1 frag

def handleDequeuedK (κ : Nat → Codec) (P : Params) (s : Proc) (blk : Blk) : Except Err Proc :=
  if hasFlag blk.flags blkIsFragment then processCompletedFragmentK κ P s blk
  else if numberedAtDequeue blk then
    .ok { s with ioSeqNum := s.ioSeqNum + 1, ioQueue := storeIo { blk with seq := s.ioSeqNum } s.ioQueue }
  else .ok { s with ioQueue := storeIo blk s.ioQueue }

def dequeueGoK (κ : Nat → Codec) (P : Params) (backlogOld : Nat) : Nat → Proc → Except Err Proc
  | 0, _ => .error .fuel
  | fuel + 1, s =>
    match release s with
    | .error e => .error e
    | .ok s1 =>
      if s1.backlog < backlogOld then .ok s1
      else if !mustWait s1 then .ok s1
      else
        let r := poolDequeue P s1.pool
        match r.2 with
        | none =>
          let st := poolStatus P r.1
          .error (if st.2 ≠ 0 then .pool st.2 else .internal)
        | some blk =>
          match handleDequeuedK κ P { s1 with pool := r.1 } blk with
          | .error e => .error e
          | .ok s2 => if s2.backlog ≥ backlogOld then dequeueGoK κ P backlogOld fuel s2 else .ok s2

def dequeueBlockK (κ : Nat → Codec) (P : Params) (s : Proc) : Except Err Proc := dequeueGoK κ P s.backlog (2 * s.backlog + 1) s

def getNewBlockGoK (κ : Nat → Codec) (P : Params) : Nat → Proc → Except Err Proc
  | 0, _ => .error .fuel
  | fuel + 1, s =>
    if s.backlog ≥ s.maxBacklog then
      match dequeueBlockK κ P s with
      | .error e => .error e
      | .ok s' => getNewBlockGoK κ P fuel s'
    else .ok { s with backlog := s.backlog + 1 }

def getNewBlockK (κ : Nat → Codec) (P : Params) (s : Proc) : Except Err Proc := getNewBlockGoK κ P (s.backlog + 1) s

def addSentinelBlockK (κ : Nat → Codec) (P : Params) (s : Proc) : Except Err Proc :=
  match getNewBlockK κ P s with
  | .error e => .error e
  | .ok s1 => enqueueBlockK κ P s1 { inode := s1.inode, flags := s1.blkFlags ||| blkLastBlock }

def appendGoK (κ : Nat → Codec) (P : Params) : Nat → Proc → Bytes → Except Err Proc
  | 0, _, _ => .error .fuel
  | fuel + 1, s, data =>
    if data.length = 0 then
      match s.blkCurrent with
      | none => .error .nullDeref
      | some cur =>
        if cur.data.length = P.B then enqueueBlockK κ P { s with blkCurrent := none } cur
        else .ok s
    else
      match s.blkCurrent with
      | none =>
        match getNewBlockK κ P s with
        | .error e => .error e
        | .ok s1 =>
          appendGoK κ P fuel
            { s1 with blkCurrent := some { flags := s1.blkFlags, inode := s1.inode, index := s1.blkIndex },
                      blkIndex := s1.blkIndex + 1, blkFlags := clearFlag s1.blkFlags blkFirstBlock } data
      | some cur =>
        let diff := P.B - cur.data.length
        if diff = 0 then
          match enqueueBlockK κ P { s with blkCurrent := none } cur with
          | .error e => .error e
          | .ok s1 => appendGoK κ P fuel s1 data
        else
          let n := min diff data.length
          appendGoK κ P fuel { s with blkCurrent := some { cur with data := cur.data ++ data.take n } } (data.drop n)

def appendK (κ : Nat → Codec) (P : Params) (s : Proc) (data : Bytes) : Except Err Proc :=
  if !s.beginCalled then .error .sequence
  else
    appendGoK κ P (3 * data.length + 3)
      { s with w := modInode s.w s.inode (fun i => { i with size := i.size + data.length }) } data

def endFileK (κ : Nat → Codec) (P : Params) (s : Proc) : Except Err Proc :=
  if !s.beginCalled then .error .sequence
  else
    match (match s.blkCurrent with
           | none =>
             if !hasFlag s.blkFlags blkFirstBlock then addSentinelBlockK κ P s else .ok s
           | some cur =>
             if hasFlag s.blkFlags blkDontFragment then
               enqueueBlockK κ P { s with blkCurrent := none } { cur with flags := cur.flags ||| blkLastBlock }
             else
               match (if !hasFlag cur.flags blkFirstBlock then addSentinelBlockK κ P s else .ok s) with
               | .error e => .error e
               | .ok s1 => enqueueBlockK κ P { s1 with blkCurrent := none } { cur with flags := cur.flags ||| blkIsFragment }) with
    | .error e => .error e
    | .ok s2 => .ok { s2 with beginCalled := false, inode := none, blkFlags := 0 }

def syncGoK (κ : Nat → Codec) (P : Params) : Nat → Proc → Except Err Proc
  | 0, _ => .error .fuel
  | fuel + 1, s =>
    if s.backlog = 0 then .ok s
    else if !mustWait s then .ok s
    else
      match dequeueBlockK κ P s with
      | .error e => .error e
      | .ok s' => syncGoK κ P fuel s'

def syncDrainK (κ : Nat → Codec) (P : Params) (s : Proc) : Except Err Proc := syncGoK κ P (s.backlog + 1) s

def syncK (κ : Nat → Codec) (P : Params) (s : Proc) : Except Err Proc :=
  match syncDrainK κ P s with
  | .error e => .error e
  | .ok s1 =>
    if (poolStatus P s1.pool).2 ≠ 0 then .error (.pool (poolStatus P s1.pool).2)
    else .ok { s1 with pool := (poolStatus P s1.pool).1 }

def finishK (κ : Nat → Codec) (P : Params) (s : Proc) : Except Err Proc :=
  match syncK κ P s with
  | .error e => .error e
  | .ok s1 =>
    match s1.fragBlock with
    | none => .ok s1
    | some fb =>
      match enqueueBlockK κ P { s1 with fragBlock := none, ioSeqNum := s1.ioSeqNum + 1 } { fb with seq := s1.ioSeqNum } with
      | .error e => .error e
      | .ok s2 => syncK κ P s2

def packFileK (κ : Nat → Codec) (P : Params) (s : Proc) (f : InFile) (sy : Bool := false) : Except Err Proc :=
  match beginFile s f.flags with
  | .error e => .error e
  | .ok s1 =>
    match (if f.data.length = 0 then .ok s1 else appendK κ P s1 f.data) with
    | .error e => .error e
    | .ok s2 =>
      match (if sy then syncK κ P s2 else .ok s2) with
      | .error e => .error e
      | .ok s3 => endFileK κ P s3

def packFilesK (κ : Nat → Codec) (P : Params) (s : Proc) (files : List InFile) (sy : Bool := false) : Except Err Proc :=
  match files with
  | [] => .ok s
  | f :: fs =>
    match packFileK κ P s f sy with
    | .error e => .error e
    | .ok s' => packFilesK κ P s' fs sy

def runProcK (κ : Nat → Codec) (P : Params) (mb : Nat) (files : List InFile) (sy : Bool := false) : Except Err Proc :=
  match packFilesK κ P (create P mb) files sy with
  | .error e => .error e
  | .ok s => finishK κ P s

def runK (κ : Nat → Codec) (P : Params) (mb : Nat) (files : List InFile) (sy : Bool := false) : Except Err Output :=
  match runProcK κ P mb files sy with
  | .error e => .error e
  | .ok s => .ok s.w.output

/-! ### a `StatefulCodec` on such a pool -/

/-- **the run on a pool of workers that carry compressor state**: ticket `t` is worked by a copy of the compressor `c` that is
in state `κ t`; `P.codec` is not used for compressing (its uncompressor is set to `c.unc`, the pool's answers `P.ans`, the
block size, the checksum stay) -/
def runS {σ : Type} (P : Params) (c : StatefulCodec σ) (κ : Nat → σ) (mb : Nat) (files : List InFile) (sy : Bool := false) :
    Except Err Output :=
  runK (fun t => c.at (κ t)) { P with codec := c.pure } mb files sy

/-- the state the assigned worker's compressor is in when it takes each of the `items` (first ticket `id`), when item `t`
goes to worker `asg t`, workers take their items in ticket order, and `st w` is the current state of worker `w` — the state
component of `workItems` -/
def ticketStates {σ : Type} (c : StatefulCodec σ) (asg : Nat → Nat) : (Nat → σ) → Nat → List Blk → List σ
  | _, _, [] => []
  | st, id, b :: bs =>
    st (asg id) ::
      ticketStates c asg (fun w => if w = asg id then (if callsCodec b then (c.doBlock (st (asg id)) b.data).1 else st (asg id)) else st w)
        (id + 1) bs

end Sqfs.BlockProc
