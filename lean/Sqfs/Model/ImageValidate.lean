/-
`validate : Description → Array Violation` — the C03 invariant list, in the words of `doc/format.adoc`
(quoted in the comments) plus the layout facts other readers (the Linux kernel) rely on.  Executable;
`sqfsmodel c03 validate` prints one `viol <code> <detail>` line per violation and a `summary` line.

Violation codes (stable; the check plugin and known-finding keys use them):
  desc-*            the description itself is unusable (helper failure, truncated file)
  super-*           superblock fields vs specification / actual layout
  layout-*          table order, gaps between tables, bytes_used, padding
  meta-*            a metadata block breaks the 8 KiB / compressed-smaller / only-last-short rules
  table-*           a lookup table does not have the block count / size its entry count requires
  inode-*           inode table: scan, numbering 1..N, id/xattr/fragment references, modes
  data-*, frag-*    data and fragment blocks: size rules, location inside the data area, partial overlaps
  dir-*             listings: sorting, 256 entries, names, index entries
  entry-*, parent, nlink-*, export-*   cross references
  xattr-*           key/value area
-/
import Sqfs.Model.ImageParse
namespace Sqfs.Image

structure Violation where
  code : String
  detail : String
  deriving Inhabited

structure Stats where
  inodes : Nat := 0
  dirs : Nat := 0
  files : Nat := 0
  headers : Nat := 0
  entries : Nat := 0
  metaBlocks : Nat := 0
  dataBlocks : Nat := 0
  dataChecked : Nat := 0          -- compressed data/fragment blocks whose unpacked length was available
  dataUnverified : Nat := 0       -- compressed data/fragment blocks without a `d` answer in the description
  xattrSets : Nat := 0
  deriving Inhabited

abbrev V := Array Violation

def vio (vs : V) (code detail : String) : V := vs.push ⟨code, detail⟩

def isPow2 (n : Nat) : Bool := n != 0 && (n &&& (n - 1)) == 0

def ceilDiv (a b : Nat) : Nat := (a + b - 1) / b

def bytesLt (a b : ByteArray) : Bool := a.toList < b.toList

/-! ### metadata block rules ("Packing Metadata") -/

/-- every block: readable, stored ≤ 8 KiB ("the on-disk size of a metadata block never exceeds 8KiB"),
unpacks into ≤ 8 KiB ("uncompress the data into an 8KiB buffer that MUST NOT overflow"), and is flagged compressed
only when the stored form is smaller ("if the compressed size would exceed 8KiB [the input size], the uncompressed
block is stored instead"). -/
def checkMetaBlock (vs : V) (b : MetaBlk) : V := Id.run do
  let mut vs := vs
  let w := s!"{b.name} block at {b.off}"
  if b.status != "ok" then return vio vs "meta-unreadable" s!"{w}: {b.status} (stored {b.stored})"
  if b.stored > META then vs := vio vs "meta-stored-gt-8k" s!"{w}: stored size {b.stored}"
  if b.data.size > META then vs := vio vs "meta-unpacked-gt-8k" s!"{w}: unpacks to {b.data.size} bytes"
  if b.data.size = 0 then vs := vio vs "meta-empty" s!"{w}: empty metadata block"
  if b.compressed && b.stored ≥ b.data.size then
    vs := vio vs "meta-not-smaller" s!"{w}: stored compressed in {b.stored} bytes but unpacks to only {b.data.size}"
  return vs

/-- a run of blocks: gap-free from `start`, only the last one short; returns the end offset -/
def checkRun (vs : V) (what : String) (start : Nat) (blks : Array MetaBlk) : V × Nat := Id.run do
  let mut vs := vs
  let mut cur := start
  let n := blks.size
  for h : i in [0:n] do
    let b := blks[i]
    if b.off != cur then
      vs := vio vs "meta-gap" s!"{what}: block {i} is at {b.off}, previous block ended at {cur}"
    if i + 1 < n && b.status == "ok" && b.data.size != META then
      vs := vio vs "meta-short-not-last" s!"{what}: block {i} at {b.off} unpacks to {b.data.size} bytes but is not the last of its run"
    cur := b.off + 2 + b.stored
  return (vs, cur)

/-! ### lookup tables ("Storing Lookup Tables") -/

def checkTable (d : Description) (vs : V) (name : String) (listOff count entrySize cursor : Nat) (pre : Nat := 0) : V × Nat := Id.run do
  let mut vs := vs
  let want := ceilDiv (count * entrySize) META
  match d.locs? name with
  | none => return (vio vs "table-missing" s!"{name}: no location list found at {listOff}", cursor)
  | some ll =>
    if ll.locs.size != want then
      vs := vio vs "table-block-count" s!"{name}: {count} entries of {entrySize} bytes need {want} blocks, location list has {ll.locs.size}"
    let m : Std.HashMap Nat MetaBlk := (d.blocksOf name).foldl (fun m b => m.insert b.off b) {}
    let blks := ll.locs.filterMap (fun l => m[l]?)
    if blks.size != ll.locs.size then
      vs := vio vs "table-block-missing" s!"{name}: a location does not name a readable metadata block"
    let (vs', e) := checkRun vs s!"{name} table" cursor blks
    vs := vs'
    let total := blks.foldl (· + ·.data.size) 0
    if total != count * entrySize then
      vs := vio vs "table-size" s!"{name}: blocks hold {total} bytes, {count} entries need {count * entrySize}"
    -- `pre`: bytes of a fixed header between the last block and the location list (xattr id table: 16)
    if listOff != e + pre then
      vs := vio vs "layout-gap" s!"{name}: location list at {listOff}, last table block ended at {e} (+{pre} header bytes)"
    return (vs, listOff + 8 * ll.locs.size)

/-! ### data and fragment blocks ("Data and Fragment Blocks") -/

abbrev DMap := Std.HashMap (Nat × Nat) DataBlk

/-- one stored block of `stored` bytes at `off` (size word `w`), whose input was at most `maxIn` bytes
(exactly `maxIn` when `exact`) -/
def checkDataBlock (dm : DMap) (vs : V) (st : Stats) (what : String) (off w maxIn : Nat) (exact : Bool)
    (lo hi : Nat) (code : String) : V × Stats × Option Nat := Id.run do
  let mut vs := vs
  let mut st := { st with dataBlocks := st.dataBlocks + 1 }
  let stored := blkStored w
  if w ≥ 0x2000000 then vs := vio vs s!"{code}-size-word" s!"{what}: size word {w} has bits above bit 24 set"
  if stored > maxIn then
    vs := vio vs s!"{code}-larger-than-input" s!"{what}: {stored} bytes stored for at most {maxIn} bytes of input"
  if off < lo || off + stored > hi then
    vs := vio vs s!"{code}-outside-data-area" s!"{what}: [{off},{off + stored}) is outside the data area [{lo},{hi})"
  if blkUncompressed w then
    if exact && stored != maxIn then
      vs := vio vs s!"{code}-length" s!"{what}: stored uncompressed with {stored} bytes, expected {maxIn}"
    return (vs, st, some stored)
  match dm[(off, stored)]? with
  | none => return (vs, { st with dataUnverified := st.dataUnverified + 1 }, none)
  | some b =>
    st := { st with dataChecked := st.dataChecked + 1 }
    if b.status != "ok" then
      return (vio vs s!"{code}-unreadable" s!"{what}: {b.status}", st, none)
    -- "the size of a block after compression never exceeds the input block size"; flagged compressed only if smaller
    if stored ≥ b.ulen then
      vs := vio vs s!"{code}-not-smaller" s!"{what}: stored compressed in {stored} bytes but unpacks to only {b.ulen}"
    if b.ulen > maxIn then
      vs := vio vs s!"{code}-unpacks-too-large" s!"{what}: unpacks to {b.ulen} bytes, at most {maxIn} allowed"
    if exact && b.ulen != maxIn then
      vs := vio vs s!"{code}-length" s!"{what}: unpacks to {b.ulen} bytes, expected {maxIn}"
    return (vs, st, some b.ulen)

/-! ### directory listings ("Directory Table", "Directory Index") -/

def checkListing (P : Parsed) (vs : V) (n : Node) : V := Id.run do
  let mut vs := vs
  let p := showBytes n.path
  let mut prev : Option ByteArray := none
  for h in n.listing do
    -- "A header must be followed by AT MOST 256 entries."
    if h.count > 256 then vs := vio vs "dir-header-count" s!"{p}: header at listing offset {h.rel} announces {h.count} entries"
    if (P.inodes.index[h.start]?).isNone then
      vs := vio vs "dir-header-block" s!"{p}: header at listing offset {h.rel} names inode block {h.start}, no metadata block starts there"
    for e in h.ents do
      let nm := showBytes e.name
      -- "the kernel implementation currently imposes an arbitrary limit of 255 on the name size field"
      if e.name.size > 256 then vs := vio vs "dir-name-too-long" s!"{p}: entry name of {e.name.size} bytes ({(nm.take 40).toString}...)"
      if e.name.toList.any (fun c => c == 47 || c == 0) then vs := vio vs "dir-name-bytes" s!"{p}: entry name \"{nm}\" contains '/' or NUL"
      if e.name.toList == [46] || e.name.toList == [46, 46] then vs := vio vs "dir-name-dots" s!"{p}: entry named \"{nm}\""
      let refIno := (h.ino : Int) + e.delta
      if refIno < 1 || refIno > (P.sb.inodeCount : Int) then
        vs := vio vs "dir-entry-ino-range" s!"{p}/{nm}: inode number {refIno} outside 1..{P.sb.inodeCount}"
      if e.typ < 1 || e.typ > 7 then vs := vio vs "dir-entry-type" s!"{p}/{nm}: entry type {e.typ} is not a basic type"
      -- "The entry list itself is sorted ASCIIbetically by entry name"
      match prev with
      | some q => if !(bytesLt q e.name) then vs := vio vs "dir-not-sorted" s!"{p}: \"{showBytes q}\" is followed by \"{nm}\""
      | none => pure ()
      prev := some e.name
  -- index entries point at headers
  match n.inode.data with
  | .dirExt _ _ _ _ cnt _ _ idx =>
    if cnt != idx.size then vs := vio vs "dir-index-count" s!"{p}: index count {cnt}, decoded {idx.size}"
    let mut last : Option Nat := none
    for ie in idx do
      match n.listing.find? (·.rel == ie.index) with
      | none => vs := vio vs "dir-index-target" s!"{p}: index entry with offset {ie.index} does not point at a directory header"
      | some h =>
        match P.dirs.locate h.pos with
        | some (loc, _) =>
          if loc != ie.start then vs := vio vs "dir-index-block" s!"{p}: index entry for header at {ie.index} names block {ie.start}, header is in block {loc}"
        | none => vs := vio vs "dir-index-block" s!"{p}: header position {h.pos} not in any block"
        match h.ents[0]? with
        | some e => if e.name.toList != ie.name.toList then
            vs := vio vs "dir-index-name" s!"{p}: index entry for header at {ie.index} is named \"{showBytes ie.name}\", first entry is \"{showBytes e.name}\""
        | none => pure ()
      match last with
      | some l => if l ≥ ie.index then vs := vio vs "dir-index-order" s!"{p}: index offsets not increasing ({l} then {ie.index})"
      | none => pure ()
      last := some ie.index
  | _ => pure ()
  return vs

/-! ### the validator -/

def validate (d : Description) (devblk : Nat := 4096) : V × Stats := Id.run do
  let mut vs : V := #[]
  let mut st : Stats := {}
  for l in d.bad do vs := vio vs "desc-bad-line" l
  let sb ← match Super.decode d.super with
    | .error e => return (vio vs "super-short" e, st)
    | .ok s => pure s
  -- "The Superblock"
  if sb.magic != 0x73717368 then vs := vio vs "super-magic" s!"magic is {sb.magic}"
  if sb.vMajor != 4 || sb.vMinor != 0 then vs := vio vs "super-version" s!"version {sb.vMajor}.{sb.vMinor}"
  if !(isPow2 sb.blockSize) || sb.blockSize < 4096 || sb.blockSize > 1048576 then
    vs := vio vs "super-block-size" s!"block size {sb.blockSize} is not a power of two between 4096 and 1048576"
  if 2 ^ (min sb.blockLog 64) != sb.blockSize then
    vs := vio vs "super-block-log" s!"block log {sb.blockLog} does not agree with block size {sb.blockSize}"
  if sb.compressor < 1 || sb.compressor > 6 then vs := vio vs "super-compressor" s!"compressor id {sb.compressor}"
  if sb.flags &&& 0x0004 != 0 then vs := vio vs "super-flags" s!"flag 0x0004 (unused, should always be unset) is set"
  if sb.flags ≥ 0x1000 then vs := vio vs "super-flags" s!"unknown flag bits in {sb.flags}"
  let hasCopt := sb.hasFlag 0x0400
  if sb.compressor == 5 && !hasCopt then vs := vio vs "super-copt" "LZ4: the compressor options always have to be present"
  if sb.compressor == 2 && hasCopt then vs := vio vs "super-copt" "LZMA does not support compressor options"
  if sb.inodeCount = 0 then vs := vio vs "super-inode-count" "inode count is 0 (there is always a root directory)"
  if sb.idCount = 0 then vs := vio vs "super-id-count" "id count is 0 (every inode references an id)"
  -- flags vs tables present
  if sb.hasFlag 0x0080 != (sb.exportTable != NOTBL) then
    vs := vio vs "super-flag-export" s!"flag 'NFS export table exists' is {sb.hasFlag 0x0080}, export table start is {sb.exportTable}"
  if sb.hasFlag 0x0200 != (sb.xattrTable == NOTBL) then
    vs := vio vs "super-flag-xattr" s!"flag 'There are no Xattrs' is {sb.hasFlag 0x0200}, xattr table start is {sb.xattrTable}"
  if sb.hasFlag 0x0010 != (sb.fragTable == NOTBL) then
    vs := vio vs "super-flag-fragments" s!"flag 'Fragments are not used' is {sb.hasFlag 0x0010}, fragment table start is {sb.fragTable}"
  if sb.fragTable == NOTBL && sb.fragCount != 0 then
    vs := vio vs "super-frag-count" s!"no fragment table but fragment count {sb.fragCount}"
  if sb.fragTable != NOTBL && sb.fragCount == 0 then
    vs := vio vs "super-frag-count" "fragment table present but fragment count 0"
  if sb.idTable == NOTBL || sb.inodeTable == NOTBL || sb.dirTable == NOTBL then
    return (vio vs "super-table-missing" "id, inode and directory table are not optional", st)
  -- every metadata block on its own
  for b in d.blocks do
    vs := checkMetaBlock vs b
    st := { st with metaBlocks := st.metaBlocks + 1 }
  -- "Compression Options": "a single metadata block, which is always uncompressed"
  let mut dataStart := 96
  if hasCopt then
    match (d.blocksOf "copt")[0]? with
    | none => vs := vio vs "super-copt" "compressor options flag set but no metadata block follows the superblock"
    | some b =>
      if b.compressed then vs := vio vs "super-copt" "the compressor options block is stored compressed"
      dataStart := 96 + 2 + b.stored
  -- table order and gaps: inode table, directory table, fragment table, export table, id table, xattr table
  if sb.inodeTable < dataStart then vs := vio vs "layout-order" s!"inode table at {sb.inodeTable} starts before the data area at {dataStart}"
  if sb.dirTable < sb.inodeTable then vs := vio vs "layout-order" s!"directory table at {sb.dirTable} before inode table at {sb.inodeTable}"
  let iblks := d.blocksOf "inode"
  let (vs1, iend) := checkRun vs "inode table" sb.inodeTable iblks
  vs := vs1
  if iend != sb.dirTable then vs := vio vs "layout-gap" s!"inode table blocks end at {iend}, directory table starts at {sb.dirTable}"
  if iblks.size = 0 then vs := vio vs "inode-table-empty" "the inode table has no metadata block"
  let (vs2, dend) := checkRun vs "directory table" sb.dirTable (d.blocksOf "dir")
  vs := vs2
  let mut cursor := dend
  let inOrder (vs : V) (name : String) (start cursor : Nat) : V :=
    if start < cursor then vio vs "layout-order" s!"{name} table at {start} lies before the end of the preceding table at {cursor}" else vs
  if sb.fragTable != NOTBL then
    vs := inOrder vs "fragment" sb.fragTable cursor
    let (v, c) := checkTable d vs "frag" sb.fragTable sb.fragCount 16 cursor
    vs := v; cursor := c
  if sb.exportTable != NOTBL then
    vs := inOrder vs "export" sb.exportTable cursor
    let (v, c) := checkTable d vs "export" sb.exportTable sb.inodeCount 8 cursor
    vs := v; cursor := c
  vs := inOrder vs "id" sb.idTable cursor
  let (v, c) := checkTable d vs "id" sb.idTable sb.idCount 4 cursor
  vs := v; cursor := c
  let P ← match parseTables d with
    | .error e => return (vio vs "desc-parse" e, st)
    | .ok P => pure P
  if sb.xattrTable != NOTBL then
    vs := inOrder vs "xattr" sb.xattrTable cursor
    match d.xhdr with
    | none => vs := vio vs "xattr-header" "xattr id table header not readable"
    | some (_, h) =>
      if (u32 h 12).toOption != some 0 then vs := vio vs "xattr-header-unused" "unused field of the xattr id table header is not 0"
      if P.xattrKvStart != cursor then
        vs := vio vs "layout-gap" s!"xattr key/value blocks start at {P.xattrKvStart}, preceding table ended at {cursor}"
      let (v, kvend) := checkRun vs "xattr key/value area" P.xattrKvStart (d.blocksOf "xattrkv")
      vs := v
      let (v, c) := checkTable d vs "xattr" (sb.xattrTable + 16) P.xattrCount 16 kvend 16
      vs := v
      -- the 16 byte header sits between the last id block and the location list
      cursor := c
      if P.xattrCount = 0 then vs := vio vs "xattr-empty" "xattr table present with 0 entries"
  for (t, e) in P.tableErrors do vs := vio vs s!"table-{t}" e
  -- "bytes used": the number of bytes used by the archive = end of the last table
  if sb.bytesUsed != cursor then vs := vio vs "layout-bytes-used" s!"bytes_used is {sb.bytesUsed}, the last table ends at {cursor}"
  if sb.bytesUsed > d.size then vs := vio vs "layout-truncated" s!"bytes_used {sb.bytesUsed} exceeds the file size {d.size}"
  -- "SquashFS archives must be padded to a multiple of the underlying device block size"
  if devblk != 0 && d.size % devblk != 0 then vs := vio vs "layout-padding" s!"file size {d.size} is not a multiple of {devblk}"
  -- informational flags must not lie
  let anyCompressed (name : String) : Bool := (d.blocksOf name).any (·.compressed)
  if sb.hasFlag 0x0001 && anyCompressed "inode" then vs := vio vs "super-flag-uncompressed" "flag 'Inodes are stored uncompressed' set but an inode block is compressed"
  if sb.hasFlag 0x0800 && anyCompressed "id" then vs := vio vs "super-flag-uncompressed" "flag 'The ID table is uncompressed' set but an id block is compressed"
  if sb.hasFlag 0x0100 && (anyCompressed "xattr" || anyCompressed "xattrkv") then
    vs := vio vs "super-flag-uncompressed" "flag 'Xattrs are stored uncompressed' set but an xattr block is compressed"
  -- id table: "A list of unique UID/GIDs"
  let mut seenIds : Std.HashSet Nat := {}
  for i in P.ids do
    if seenIds.contains i then vs := vio vs "id-duplicate" s!"id {i} occurs twice in the id table"
    seenIds := seenIds.insert i
  -- fragment table
  let dm : DMap := d.dblks.foldl (fun m b => m.insert (b.off, b.stored) b) {}
  let bs := sb.blockSize
  let mut fragLen : Array (Option Nat) := #[]
  let mut fi := 0
  for f in P.frags do
    if f.unused != 0 then vs := vio vs "frag-unused" s!"fragment {fi}: unused field is {f.unused}"
    if blkStored f.size = 0 then vs := vio vs "frag-empty" s!"fragment {fi}: on-disk size 0"
    let (v, s, ul) := checkDataBlock dm vs st s!"fragment block {fi}" f.start f.size bs false dataStart sb.inodeTable "frag"
    vs := v; st := s
    if sb.hasFlag 0x0008 && !blkUncompressed f.size then
      vs := vio vs "super-flag-uncompressed" s!"flag 'Fragments are stored uncompressed' set but fragment block {fi} is compressed"
    fragLen := fragLen.push ul
    fi := fi + 1
  -- every stored block extent (offset, stored size, owner) for the overlap check below
  let mut extents : Array (Nat × Nat × String) := #[]
  fi := 0
  for f in P.frags do
    if blkStored f.size != 0 then extents := extents.push (f.start, blkStored f.size, s!"fragment block {fi}")
    fi := fi + 1
  -- inode table: linear scan
  let (inodes, serr) := scanInodes P.inodes.data bs (P.inodes.data.size + 1) 0 #[]
  match serr with
  | some e => vs := vio vs "inode-scan" s!"after {inodes.size} inodes: {e}"
  | none => pure ()
  st := { st with inodes := inodes.size }
  if inodes.size != sb.inodeCount then
    vs := vio vs "inode-count" s!"superblock announces {sb.inodeCount} inodes, the inode table holds {inodes.size}"
  -- "Unique node number. Must be at least 1 and at most the inode count from the super block."
  let mut seenIno : Std.HashSet Nat := {}
  let mut byPos : Std.HashMap Nat Inode := {}
  for i in inodes do
    byPos := byPos.insert i.pos i
    let w := s!"inode {i.ino} ({typeName i.typ})"
    if i.ino < 1 || i.ino > sb.inodeCount then vs := vio vs "inode-number-range" s!"{w}: number outside 1..{sb.inodeCount}"
    if seenIno.contains i.ino then vs := vio vs "inode-number-duplicate" s!"{w}: number used twice"
    seenIno := seenIno.insert i.ino
    if i.mode > 0o7777 then vs := vio vs "inode-mode" s!"{w}: mode field {i.mode} stores more than permission bits"
    if i.uidIdx ≥ sb.idCount then vs := vio vs "inode-uid-index" s!"{w}: uid index {i.uidIdx} ≥ id count {sb.idCount}"
    if i.gidIdx ≥ sb.idCount then vs := vio vs "inode-gid-index" s!"{w}: gid index {i.gidIdx} ≥ id count {sb.idCount}"
    if i.xattr != NOIDX && (sb.xattrTable == NOTBL || i.xattr ≥ P.xattrCount) then
      vs := vio vs "inode-xattr-index" s!"{w}: xattr index {i.xattr}, table has {P.xattrCount} entries"
    if i.nlink = 0 then vs := vio vs "nlink-zero" s!"{w}: link count 0"
    -- file data
    let fileInfo : Option (Nat × Nat × Nat × Nat × Array Nat × Nat) := match i.data with
      | .file s fi fo sz bl => some (s, fi, fo, sz, bl, 0)
      | .fileExt s sz sp _ fi fo _ bl => some (s, fi, fo, sz, bl, sp)
      | _ => none
    match fileInfo with
    | none => pure ()
    | some (start, fidx, foff, size, blocks, sparse) =>
      st := { st with files := st.files + 1 }
      if sparse > size then vs := vio vs "inode-sparse" s!"{w}: sparse count {sparse} exceeds file size {size}"
      let nblk := blocks.size
      let tail := if bs = 0 then 0 else size % bs
      let mut loc := start
      for h : k in [0:nblk] do
        let bw := blocks[k]
        let last := k + 1 = nblk && fidx == NOIDX && tail != 0
        if blkStored bw = 0 then
          -- "if a block has an on-disk size of 0 this translates to an entire block filled with 0 bytes"
          if bw != 0 then vs := vio vs "data-size-word" s!"{w} block {k}: size 0 with flag bits ({bw})"
        else
          let (v, s, _) := checkDataBlock dm vs st s!"{w} block {k}" loc bw (if last then tail else bs) last dataStart sb.inodeTable "data"
          vs := v; st := s
          extents := extents.push (loc, blkStored bw, s!"{w} block {k}")
          if sb.hasFlag 0x0002 && !blkUncompressed bw then
            vs := vio vs "super-flag-uncompressed" s!"flag 'Data blocks are stored uncompressed' set but {w} block {k} is compressed"
        loc := loc + blkStored bw
      if fidx != NOIDX then
        if sb.fragTable == NOTBL || fidx ≥ sb.fragCount then
          vs := vio vs "inode-fragment-index" s!"{w}: fragment index {fidx}, table has {sb.fragCount} entries"
        else
          match fragLen[fidx]? with
          | some (some ul) =>
            if foff + tail > ul then vs := vio vs "inode-fragment-range" s!"{w}: tail [{foff},{foff + tail}) outside fragment block {fidx} of {ul} bytes"
          | _ => pure ()
          if foff + tail > bs then vs := vio vs "inode-fragment-range" s!"{w}: tail [{foff},{foff + tail}) exceeds the block size"
  -- "The on-disk locations of file blocks MAY overlap" only as whole shared blocks (deduplication): two extents that
  -- intersect without being the same (offset, size) mean a block list that runs into somebody else's data
  let sorted := extents.qsort (fun a b => a.1 < b.1 || (a.1 == b.1 && a.2.1 < b.2.1))
  let mut cur : Option (Nat × Nat × String) := none
  let mut noverlap := 0
  for e in sorted do
    match cur with
    | none => cur := some e
    | some c =>
      if e.1 == c.1 && e.2.1 == c.2.1 then pure ()
      else if e.1 < c.1 + c.2.1 then
        noverlap := noverlap + 1
        if noverlap ≤ 8 then
          vs := vio vs "data-overlap" s!"{e.2.2} at [{e.1},{e.1 + e.2.1}) overlaps {c.2.2} at [{c.1},{c.1 + c.2.1}) without being the same block"
        if e.1 + e.2.1 > c.1 + c.2.1 then cur := some e
      else cur := some e
  if inodes.size == sb.inodeCount then
    for k in [1:sb.inodeCount + 1] do
      if !seenIno.contains k then
        vs := vio vs "inode-number-missing" s!"no inode has number {k}"
  -- xattr sets
  for h : k in [0:P.xattrIds.size] do
    st := { st with xattrSets := st.xattrSets + 1 }
    match P.xattrsOf k with
    | .error e => vs := vio vs "xattr-set" e
    | .ok ps => if ps.size = 0 then vs := vio vs "xattr-set" s!"xattr set {k} has no pairs"
  -- the tree
  let w := P.tree
  for (c, e) in w.problems do vs := vio vs c e
  match w.nodes[0]? with
  | none => vs := vio vs "root" "the root inode reference does not resolve"
  | some r => if !r.inode.isDir then vs := vio vs "root" s!"the root inode has type {r.inode.typ}"
  let mut refs : Std.HashMap Nat Nat := {}
  for n in w.nodes do
    refs := refs.insert n.inode.pos (refs.getD n.inode.pos 0 + 1)
    if !byPos.contains n.inode.pos then
      vs := vio vs "inode-misaligned" s!"{showBytes n.path}: inode at stream position {n.inode.pos} is not on an inode boundary of the table scan"
  let mut donePos : Std.HashSet Nat := {}
  for n in w.nodes do
    if n.inode.isDir then
      st := { st with dirs := st.dirs + 1, headers := st.headers + n.listing.size,
                      entries := st.entries + n.listing.foldl (· + ·.count) 0 }
      vs := checkListing P vs n
      let ents := n.listing.foldl (· + ·.count) 0
      -- "a directory with N entries has at least N + 2 link count"
      if n.inode.nlink < ents + 2 then
        vs := vio vs "nlink-dir" s!"{showBytes n.path}: link count {n.inode.nlink} with {ents} entries"
    else if !donePos.contains n.inode.pos then
      donePos := donePos.insert n.inode.pos
      let r := refs.getD n.inode.pos 0
      if n.inode.nlink != r then
        vs := vio vs "nlink" s!"{showBytes n.path}: link count {n.inode.nlink}, {r} directory entries refer to the inode"
  for i in inodes do
    if !refs.contains i.pos then vs := vio vs "inode-unreachable" s!"inode {i.ino} ({typeName i.typ}) is not reachable from the root"
  -- "Export Table": index inode_number - 1 → inode reference
  match P.exports with
  | none => pure ()
  | some ex =>
    for i in inodes do
      match ex[i.ino - 1]?, P.inodes.locate i.pos with
      | some r, some (loc, off) =>
        if r != (loc <<< 16) + off then vs := vio vs "export-ref" s!"export table entry for inode {i.ino} is {r}, the inode is at ({loc},{off})"
      | _, _ => vs := vio vs "export-ref" s!"no export table entry for inode {i.ino}"
  return (vs, st)

/-- requests for `unz -b`: every compressed (or, with `all`, every) data and fragment block -/
def blockRequests (d : Description) (all : Bool) : Array String :=
  match parseTables d with
  | .error _ => #[]
  | .ok P => Id.run do
    let bs := P.sb.blockSize
    let mut out : Array String := #[]
    let mut seen : Std.HashSet (Nat × Nat) := {}
    for f in P.frags do
      if (all || !blkUncompressed f.size) && blkStored f.size != 0 && !seen.contains (f.start, blkStored f.size) then
        seen := seen.insert (f.start, blkStored f.size)
        out := out.push s!"blk {f.start} {blkStored f.size} {if blkUncompressed f.size then "u" else "c"} {bs}"
    let (inodes, _) := scanInodes P.inodes.data bs (P.inodes.data.size + 1) 0 #[]
    for i in inodes do
      let info : Option (Nat × Array Nat) := match i.data with
        | .file s _ _ _ bl => some (s, bl)
        | .fileExt s _ _ _ _ _ _ bl => some (s, bl)
        | _ => none
      match info with
      | none => pure ()
      | some (start, blocks) =>
        let mut loc := start
        for bw in blocks do
          let sz := blkStored bw
          if (all || !blkUncompressed bw) && sz != 0 && !seen.contains (loc, sz) then
            seen := seen.insert (loc, sz)
            out := out.push s!"blk {loc} {sz} {if blkUncompressed bw then "u" else "c"} {bs}"
          loc := loc + sz
    return out

def validateReport (d : Description) (devblk : Nat := 4096) : Array String :=
  let (vs, st) := validate d devblk
  (vs.map (fun v => s!"viol {v.code} {v.detail}")).push
    s!"summary violations={vs.size} inodes={st.inodes} dirs={st.dirs} files={st.files} headers={st.headers} entries={st.entries} meta_blocks={st.metaBlocks} data_blocks={st.dataBlocks} data_checked={st.dataChecked} data_unverified={st.dataUnverified} xattr_sets={st.xattrSets}"

end Sqfs.Image
