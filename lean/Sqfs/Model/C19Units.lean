import Sqfs.Model.ObjKinds
import Sqfs.Model.RbTree
/-!
The generic containers that the copy hooks duplicate, as units (C19; run against the real functions by
`sqfsmodel c19 unit`):

* `array_t` with an arbitrary element size (`lib/util/src/array.c`, `include/util/array.h`): `Arr (List UInt8)` of
  `Sqfs.Model.ObjKinds` with `array_append`, `array_get`, `array_set`, `array_init_copy`;
* `str_table_t` (`lib/util/src/str_table.c`): index → (string, use count); the hash table inside it is *not* modelled
  (it only accelerates "is this string known"), `str_table_copy` duplicates every bucket with index, use count and
  bytes and re-points the cloned hash table at the duplicates.
-/
namespace Sqfs.C19U
open Sqfs.Obj.Kinds Sqfs.Consts Sqfs.Rb

/-! ### `array_t` -/

abbrev ByteArr := Arr (List UInt8)

inductive ArrOp where
  | app (x : List UInt8)            -- `array_append`
  | get (i : Nat)                   -- `array_get`
  | set (i : Nat) (x : List UInt8)  -- `array_set`
  | used
  deriving Repr, DecidableEq

/-- answer = (return value, bytes read; `none` = NULL) -/
def arrStep (sz : Nat) (a : ByteArr) : ArrOp → ByteArr × (Int × Option (List UInt8))
  | .app x => (a.append (fit sz x), (0, none))
  | .get i => (a, (0, a.data[i]?))
  | .set i x =>
    match a.set i (fit sz x) with
    | some a' => (a', (0, none))
    | none => (a, (c19ErrOutOfBounds, none))
  | .used => (a, (Int.ofNat a.data.length, none))

def arrRun (sz : Nat) (a : ByteArr) : List ArrOp → List (Int × Option (List UInt8))
  | [] => []
  | op :: ops => let (a', r) := arrStep sz a op; r :: arrRun sz a' ops

/-! ### `str_table_t` -/

structure Bucket where
  str : List UInt8
  refs : Nat
  deriving Repr, DecidableEq

/-- `bucket_ptrs` in index order; `next_index` = length -/
abbrev StrTable := List Bucket

inductive StrOp where
  | index (s : List UInt8)   -- `str_table_get_index`
  | str (i : Nat)            -- `str_table_get_string`
  | ref (i : Nat)            -- `str_table_add_ref`
  | unref (i : Nat)          -- `str_table_del_ref`
  | count (i : Nat)          -- `str_table_get_ref_count`
  deriving Repr, DecidableEq

def modBucket (t : StrTable) (i : Nat) (f : Bucket → Bucket) : StrTable :=
  match t[i]? with
  | some b => t.set i (f b)
  | none => t

/-- answer = (number, string; `none` = NULL / no string) -/
def strStep (t : StrTable) : StrOp → StrTable × (Nat × Option (List UInt8))
  | .index s =>
    match t.findIdx? (fun b => b.str = s) with
    | some i => (t, (i, none))
    | none => (t ++ [⟨s, 0⟩], (t.length, none))
  | .str i => (t, (0, (t[i]?).map (·.str)))
  | .ref i => (modBucket t i fun b => { b with refs := if b.refs < 2 ^ 64 - 1 then b.refs + 1 else b.refs }, (0, none))
  | .unref i => (modBucket t i fun b => { b with refs := b.refs - 1 }, (0, none))
  | .count i => (t, (((t[i]?).map (·.refs)).getD 0, none))

def strRun (t : StrTable) : List StrOp → List (Nat × Option (List UInt8))
  | [] => []
  | op :: ops => let (t', r) := strStep t op; r :: strRun t' ops

/-- `str_table_copy` (state part): every bucket with its index, use count and bytes -/
def strCopy (t : StrTable) : StrTable := t.map fun b => ⟨b.str, b.refs⟩

end Sqfs.C19U
