/-
`C09PoolFine` — the `Pool` model (Model/Pool.lean) at lock/unlock granularity.

The base model treats the code a thread runs between two blocking points as one step.  Here every such step
that passes through the mutex is split into the three segments the fine mode of harness/shim_sched.h stops at:

  (a) the lock is granted (`pthread_mutex_lock` returns / `pthread_cond_wait` re-acquires) — phase `locked`;
  (b) the critical section, up to `pthread_mutex_unlock` (phase `unlocked`) or to `pthread_cond_wait`
      (atomic release-and-wait: back to a blocking point);
  (c) the lock-free tail from the unlock to the thread's next blocking point.

While a thread is in phase `locked` no other thread can be granted the mutex, but lock-free segments of other
threads (tails, callback bodies, the lock-free prefix of an API call, `pthread_join`) interleave freely.  The
state is *lazy*: a tail's effects (main thread: `recycle`, `item_count`, the return value; worker: callback
entry or thread exit) happen when the tail runs, not when the critical section ends.

`Sqfs.C09.fine_refines_coarse` (Props/C09.lean) shows that every execution of this model is, up to stuttering, an
execution of the base model under the abstraction `fabs` that completes the pending tails — i.e. the base model's
granularity is sound for the code as modelled here.
-/
import Sqfs.Model.Pool
namespace Sqfs.Pool

/-- the blocking points of `worker_proc` from which the mutex is acquired -/
inductive WLk where
  | start
  | waitQ (sig : Bool)
  | finishing (it : Item) (rc : Int)
deriving DecidableEq, Repr

def WLk.pc : WLk → WPc
  | .start => .start
  | .waitQ sig => .waitQ sig
  | .finishing it rc => .finishing it rc

/-- the blocking points of the API functions from which the mutex is acquired -/
inductive MLk where
  | submit (d : Nat)
  | deq
  | deqWait (sig : Bool)
  | status
  | destroy
deriving DecidableEq, Repr

def MLk.pc : MLk → MPc
  | .submit d => .submitLock d
  | .deq => .deqLock
  | .deqWait sig => .deqWait sig
  | .status => .statusLock
  | .destroy => .destroyLock

/-- phase of a worker thread -/
inductive FW where
  /-- at the blocking point `pc` of the base model -/
  | at (pc : WPc)
  /-- holds the mutex, acquired from the blocking point `l.pc` -/
  | locked (l : WLk)
  /-- `pthread_mutex_unlock` in `worker_proc` done with `item = it`; next: callback entry / thread exit -/
  | unlocked (it : Option Item)
deriving DecidableEq, Repr, Inhabited

/-- what the main thread still has to do after its unlock -/
inductive MTail where
  /-- `submit`: `if (status != 0) { recycle the item }; return status;` -/
  | submit (st : Int)
  /-- `dequeue`: `if (out == NULL) return NULL;` … recycle, `item_count -= 1`, `return ptr` -/
  | deq (out : Option Item)
  /-- `get_status`: `return status;` -/
  | status (st : Int)
  /-- `destroy`: go on to the `pthread_join` loop -/
  | destroy
deriving DecidableEq, Repr

/-- phase of the main thread -/
inductive FM where
  | at (pc : MPc)
  /-- holds the mutex, acquired from the blocking point `l.pc` -/
  | locked (l : MLk)
  | unlocked (t : MTail)
deriving DecidableEq, Repr, Inhabited

structure FState where
  queue : List Item
  done : List Item
  safeDone : List Item
  recycle : Nat
  nextTicket : Nat
  nextDeq : Nat
  itemCount : Nat
  status : Int
  fw : List FW
  fm : FM
  submitted : List Nat
  started : List (Nat × Item)
  returned : List Nat
  rets : List Ret
  calls : List Op
deriving Repr, DecidableEq

def finit (n : Nat) : FState :=
  { queue := [], done := [], safeDone := [], recycle := 0, nextTicket := 0, nextDeq := 0, itemCount := 0,
    status := 0, fw := List.replicate n (.at .start), fm := .at .idle,
    submitted := [], started := [], returned := [], rets := [], calls := [] }

def FW.isLocked : FW → Bool
  | .locked _ => true
  | _ => false

def FM.isLocked : FM → Bool
  | .locked _ => true
  | _ => false

/-- nobody holds the mutex -/
def mutexFree (fs : FState) : Bool := !fs.fm.isLocked && fs.fw.all (fun w => !w.isLocked)

/-- `pthread_cond_broadcast(&queue_cond)` on one worker: only a thread blocked in `pthread_cond_wait` is affected -/
def wakeFW : FW → FW
  | .at (.waitQ _) => .at (.waitQ true)
  | w => w

/-- `pthread_cond_broadcast(&done_cond)` -/
def wakeFM : FM → FM
  | .at (.deqWait _) => .at (.deqWait true)
  | m => m

/-- `get_next_work_item` and the unlock, for worker `i` holding the mutex -/
def fgetNextWork (fs : FState) (i : Nat) : FState :=
  if fs.status ≠ 0 then { fs with fw := fs.fw.set i (.unlocked none) }
  else match fs.queue with
    | [] => { fs with fw := fs.fw.set i (.at (.waitQ false)) }          -- pthread_cond_wait releases the mutex
    | it :: q => { fs with queue := q, fw := fs.fw.set i (.unlocked (some it)) }

def fstepWorker (cfg : Cfg) (fs : FState) (i : Nat) (spur : Bool) : Option FState :=
  match fs.fw[i]? with
  | none => none
  -- (a) lock granted
  | some (.at .start) =>
      if !spur && mutexFree fs then some { fs with fw := fs.fw.set i (.locked .start) } else none
  | some (.at (.waitQ sig)) =>
      if sig != spur && mutexFree fs then some { fs with fw := fs.fw.set i (.locked (.waitQ sig)) } else none
  | some (.at (.finishing it rc)) =>
      if !spur && mutexFree fs then some { fs with fw := fs.fw.set i (.locked (.finishing it rc)) } else none
  -- the callback body (lock-free)
  | some (.at (.working it)) =>
      if spur then none else
      some { fs with fw := fs.fw.set i (.at (.finishing it (cfg.rcOf it.data))), started := fs.started ++ [(i, it)] }
  | some (.at .exited) => none
  -- (b) critical section
  | some (.locked (.finishing it rc)) =>
      if spur then none else
      some (fgetNextWork
        { fs with done := insertDone it fs.done,
                  status := if rc ≠ 0 ∧ fs.status = 0 then rc else fs.status,
                  fm := wakeFM fs.fm } i)
  | some (.locked _) => if spur then none else some (fgetNextWork fs i)
  -- (c) tail: `if (item == NULL) break;` … return / enter the callback
  | some (.unlocked none) => if spur then none else some { fs with fw := fs.fw.set i (.at .exited) }
  | some (.unlocked (some it)) => if spur then none else some { fs with fw := fs.fw.set i (.at (.working it)) }

/-- critical section of `submit` -/
def fsubmitCrit (fs : FState) (d : Nat) : FState :=
  let st := fs.status
  let fs1 : FState :=
    if st = 0 then
      { fs with queue := fs.queue ++ [⟨fs.nextTicket, d⟩], nextTicket := fs.nextTicket + 1,
                itemCount := fs.itemCount + 1, submitted := fs.submitted ++ [d] }
    else fs
  let x := drain fs1.done fs1.nextDeq
  { fs1 with done := x.2.1, safeDone := fs1.safeDone ++ x.1, nextDeq := x.2.2,
             fw := fs1.fw.map wakeFW, fm := .unlocked (.submit st) }

/-- `try_dequeue_done` found nothing: leave with NULL after a failure (dbf866f), else `pthread_cond_wait` -/
def fdeqGiveUp (cfg : Cfg) (fs : FState) : FState :=
  if cfg.repaired && decide (fs.status ≠ 0) then { fs with fm := .unlocked (.deq none) }
  else { fs with fm := .at (.deqWait false) }

/-- critical section of `dequeue` (one pass of its loop) -/
def fdeqCrit (cfg : Cfg) (fs : FState) : FState :=
  match fs.done with
  | [] => fdeqGiveUp cfg fs
  | it :: r =>
      if it.ticket = fs.nextDeq then
        { fs with done := r, nextDeq := fs.nextDeq + 1, fm := .unlocked (.deq (some it)) }
      else fdeqGiveUp cfg fs

/-- the main thread's lock-free tail -/
def fmainTail (fs : FState) : MTail → FState
  | .submit st =>
      { fs with recycle := if st = 0 then fs.recycle else fs.recycle + 1, fm := .at .idle,
                rets := fs.rets ++ [.submit st] }
  | .deq (some it) =>
      { fs with recycle := fs.recycle + 1, itemCount := fs.itemCount - 1, returned := fs.returned ++ [it.data],
                fm := .at .idle, rets := fs.rets ++ [.deq (some it.data)] }
  | .deq none => { fs with fm := .at .idle, rets := fs.rets ++ [.deq none] }
  | .status st => { fs with fm := .at .idle, rets := fs.rets ++ [.status st] }
  | .destroy =>
      { fs with fm := if fs.fw.length = 0 then .at .finished else .at (.join 0),
                rets := if fs.fw.length = 0 then fs.rets ++ [.destroyed] else fs.rets }

def fstepMain (cfg : Cfg) (fs : FState) (c : MChoice) : Option FState :=
  match fs.fm, c with
  -- lock-free prefix of an API call
  | .at .idle, .call (.submit d) =>
      some { fs with recycle := fs.recycle - 1, fm := .at (.submitLock d), calls := fs.calls ++ [.submit d] }
  | .at .idle, .call .dequeue =>
      if fs.itemCount = 0 then some { fs with rets := fs.rets ++ [.deq none], calls := fs.calls ++ [.dequeue] }
      else match fs.safeDone with
        | it :: r =>
            some { fs with safeDone := r, calls := fs.calls ++ [.dequeue], recycle := fs.recycle + 1,
                           itemCount := fs.itemCount - 1, returned := fs.returned ++ [it.data],
                           rets := fs.rets ++ [.deq (some it.data)] }
        | [] => some { fs with fm := .at .deqLock, calls := fs.calls ++ [.dequeue] }
  | .at .idle, .call .getStatus => some { fs with fm := .at .statusLock, calls := fs.calls ++ [.getStatus] }
  | .at .idle, .call .destroy => some { fs with fm := .at .destroyLock, calls := fs.calls ++ [.destroy] }
  -- (a) lock granted
  | .at (.submitLock d), .cont false => if mutexFree fs then some { fs with fm := .locked (.submit d) } else none
  | .at .deqLock, .cont false => if mutexFree fs then some { fs with fm := .locked .deq } else none
  | .at (.deqWait sig), .cont spur =>
      if sig != spur && mutexFree fs then some { fs with fm := .locked (.deqWait sig) } else none
  | .at .statusLock, .cont false => if mutexFree fs then some { fs with fm := .locked .status } else none
  | .at .destroyLock, .cont false => if mutexFree fs then some { fs with fm := .locked .destroy } else none
  -- (b) critical sections
  | .locked (.submit d), .cont false => some (fsubmitCrit fs d)
  | .locked .deq, .cont false => some (fdeqCrit cfg fs)
  | .locked (.deqWait _), .cont false => some (fdeqCrit cfg fs)
  | .locked .status, .cont false => some { fs with fm := .unlocked (.status fs.status) }
  | .locked .destroy, .cont false =>
      some { fs with status := -1, fw := fs.fw.map wakeFW, fm := .unlocked .destroy }
  -- (c) tails
  | .unlocked t, .cont false => some (fmainTail fs t)
  -- pthread_join (lock-free; enabled once the target thread has returned)
  | .at (.join i), .cont false =>
      if fs.fw[i]? = some (.at .exited) then
        if i + 1 < fs.fw.length then some { fs with fm := .at (.join (i + 1)) }
        else some { fs with fm := .at .finished, rets := fs.rets ++ [.destroyed] }
      else none
  | _, _ => none

def fstep (cfg : Cfg) (fs : FState) : Choice → Option FState
  | .main c => fstepMain cfg fs c
  | .worker i spur => fstepWorker cfg fs i spur

def frun (cfg : Cfg) (fs : FState) : List Choice → FState
  | [] => fs
  | c :: cs => match fstep cfg fs c with
      | some fs' => frun cfg fs' cs
      | none => frun cfg fs cs

inductive FReachable (cfg : Cfg) (n : Nat) : FState → Prop where
  | init : FReachable cfg n (finit n)
  | step {fs fs' : FState} (c : Choice) : FReachable cfg n fs → fstep cfg fs c = some fs' → FReachable cfg n fs'

/-! ### abstraction to the base model: complete the pending tails -/

def absW : FW → WPc
  | .at pc => pc
  | .locked l => l.pc
  | .unlocked (some it) => .working it
  | .unlocked none => .exited

def absM (n : Nat) : FM → MPc
  | .at pc => pc
  | .locked l => l.pc
  | .unlocked .destroy => if n = 0 then .finished else .join 0
  | .unlocked _ => .idle

/-- the base-model state without the main thread's pending tail -/
def fbase (fs : FState) : State :=
  { queue := fs.queue, done := fs.done, safeDone := fs.safeDone, recycle := fs.recycle, nextTicket := fs.nextTicket,
    nextDeq := fs.nextDeq, itemCount := fs.itemCount, status := fs.status, workers := fs.fw.map absW,
    main := absM fs.fw.length fs.fm, submitted := fs.submitted, started := fs.started, returned := fs.returned,
    rets := fs.rets, calls := fs.calls }

/-- an update of the fields only the main thread uses (`recycle`, `item_count`) and of the ghost history of values
handed back / returned — the shape of every tail of the main thread -/
def privUpd (f1 f2 : Nat → Nat) (l1 : List Nat) (l2 : List Ret) (s : State) : State :=
  { s with recycle := f1 s.recycle, itemCount := f2 s.itemCount, returned := s.returned ++ l1, rets := s.rets ++ l2 }

/-- effect of the main thread's pending tail -/
def applyTail (n : Nat) (m : FM) (s : State) : State :=
  match m with
  | .unlocked (.submit st) => privUpd (fun r => if st = 0 then r else r + 1) id [] [.submit st] s
  | .unlocked (.deq (some it)) => privUpd (· + 1) (· - 1) [it.data] [.deq (some it.data)] s
  | .unlocked (.deq none) => privUpd id id [] [.deq none] s
  | .unlocked (.status st) => privUpd id id [] [.status st] s
  | .unlocked .destroy => privUpd id id [] (if n = 0 then [.destroyed] else []) s
  | _ => s

def fabs (fs : FState) : State := applyTail fs.fw.length fs.fm (fbase fs)

end Sqfs.Pool
