/-
C02 — what `Model/BlockProc.lean` left outside, added on top of it without changing any of its functions:

1. **A failing compressor.**  `process_block` (block_processor.c:37-40) returns `do_block`'s negative value; the block is
   left exactly as it was before the call (checksum set, data and flags untouched) — as data, that is what a codec that
   declines the block produces (`failCodec`).  The error itself travels through the pool: the pool records the callback's
   return value as its *status* (threadpool_serial.c:114-117 inside `dequeue`; threadpool.c `store_completed`), hands the
   item back **all the same**, refuses later submissions (`submit` returns the status) and — threaded pool — answers NULL
   once the next ticket will never complete.  The block processor looks at the status in two places only:
   `enqueue_block` when `submit` failed (frontend.c:70-72) and `dequeue_block` when `dequeue` returned NULL
   (backend.c:319-321).  `Model/BlockProc.lean` already has both exits and takes the pool's answers as the parameter
   `Params.ans`; a failing serial pool is just another behaviour, `failSerialAns` (the C09 model `Pool.Serial` run with
   the callbacks' return values `workRc`).
   Consequence for the code **before /repo 69db961**: a failure that no later `submit` / NULL-`dequeue` observes is
   swallowed — `finish` returns 0 and the block is stored uncompressed; whether that happens depends on `max_backlog`
   (serial pool) and on the schedule (threaded pool).  Witness: `Sqfs/Witness/C02.lean` (`finishDrain`, `Variant` false).
   **Current** code (69db961 = fixes/C02-report-worker-failure.patch): `sqfs_block_processor_sync` ends with
   `return proc->pool->get_status(proc->pool)` — that is `sync` / `finish` of `Model/BlockProc.lean` itself.
2. **`sqfs_block_processor_submit_block`** (frontend.c:223-251): `submitBlock`.
3. **API scripts**: files, manual submissions and `sqfs_block_processor_sync` calls between them (`ApiOp`, `runOps`).

Simplifications: `fails` is a predicate on the bytes handed to `do_block` (the fake compressor of harness/h_c02.c fails on
blocks that start with 0xEE); a manually submitted block has no inode (`submit_block` leaves `blk->inode` NULL) and `user`
is not modelled.
-/
import Sqfs.Model.C02Worker
namespace Sqfs.BlockProc
open Sqfs.Consts
open Sqfs.BlockWriter (hasFlag)

/-! ### a compressor that fails on some blocks -/

/-- as data, a failed `do_block` is a declined block -/
def failCodec (c : Codec) (fails : Bytes → Bool) : Codec :=
  ⟨fun x => if fails x then none else c.cmp x, c.unc⟩

/-- the return value of the pool's callback (`process_block`) on the item whose worked form is `b`:
`rc` (negative) iff `do_block` was reached and failed -/
def workRc (fails : Bytes → Bool) (rc : Int) (b : Blk) : Int :=
  if !hasFlag b.flags blkIsCompressed && callsCodec b && fails b.data then rc else 0

def rcOfTable (fails : Bytes → Bool) (rc : Int) (table : List Blk) (id : Nat) : Int :=
  match table[id]? with
  | some b => workRc fails rc b
  | none => 0

/-- what `threadpool_serial.c` answers for `op` after the calls made so far, when the callback returns `workRc` -/
def failSerialAns (fails : Bytes → Bool) (rc : Int) (p : PoolSt) (op : Pool.Op) : Pool.Ret :=
  ((Pool.Serial.run (rcOfTable fails rc p.table) Pool.Serial.init (p.calls ++ [op])).rets.getLast?).getD .destroyed

/-- the status of that pool after the calls made so far -/
def failStatus (fails : Bytes → Bool) (rc : Int) (p : PoolSt) : Int :=
  (Pool.Serial.run (rcOfTable fails rc p.table) Pool.Serial.init p.calls).status

/-- the parameters of a run with a compressor that fails (`rc`) on the blocks `fails` marks, on the serial pool -/
def failParams (P : Params) (fails : Bytes → Bool) (rc : Int) : Params :=
  { P with codec := failCodec P.codec fails, ans := failSerialAns fails rc }

/-! ### the `sync` / `finish` of a tree without /repo 69db961

`Model/BlockProc.lean` models the code as it is: `sync` ends with `return proc->pool->get_status(proc->pool)`.  The functions
below are the code *before* that repair (`sync` = the drain alone).  They are kept for two reasons only: the witness of the
repaired defect (`Sqfs/Witness/C02.lean`) and so that the check can tell a tree that lacks the repair (seeded reverts) from one
that has it (`Variant`). -/

/-- `sqfs_block_processor_finish` before 69db961: on top of the drain alone -/
def finishDrain (P : Params) (s : Proc) : Except Err Proc :=
  match syncDrain P s with
  | .error e => .error e
  | .ok s1 =>
    match s1.fragBlock with
    | none => .ok s1
    | some fb =>
      match enqueueBlock P { s1 with fragBlock := none, ioSeqNum := s1.ioSeqNum + 1 } { fb with seq := s1.ioSeqNum } with
      | .error e => .error e
      | .ok s2 => syncDrain P s2

/-- which `sync` the tree under test has: `true` = the current code (/repo since 69db961, `sync` returns the pool status),
`false` = a tree without that repair -/
abbrev Variant := Bool

def syncV (v : Variant) (P : Params) (s : Proc) : Except Err Proc := if v then sync P s else syncDrain P s
def finishV (v : Variant) (P : Params) (s : Proc) : Except Err Proc := if v then finish P s else finishDrain P s

/-- the run of `Model/BlockProc.lean` (`runProc`) with the chosen `finish` -/
def runProcV (v : Variant) (P : Params) (mb : Nat) (files : List InFile) : Except Err Proc :=
  match packFiles P (create P mb) files with
  | .error e => .error e
  | .ok s => finishV v P s

def runV (v : Variant) (P : Params) (mb : Nat) (files : List InFile) : Except Err Output :=
  match runProcV v P mb files with
  | .error e => .error e
  | .ok s => .ok s.w.output

/-! ### manual submission, API scripts -/

/-- `sqfs_block_processor_submit_block(proc, user, flags, data, size)` -/
def submitBlock (P : Params) (s : Proc) (flags : Nat) (data : Bytes) : Except Err Proc :=
  if s.beginCalled then .error .sequence
  else if data.length > P.B then .error .overflow
  else if flags &&& blkFlagsAll != flags then .error .unsupported                  -- `flags & ~SQFS_BLK_FLAGS_ALL`
  else
    match getNewBlock P s with
    | .error e => .error e
    | .ok s1 => enqueueBlock P s1 { flags := flags ||| blkFlagManualSubmission, data := data }

/-- one call sequence of a library user between `create` and `finish` -/
inductive ApiOp where
  | file (f : InFile)                          -- begin_file, append (unless empty), end_file
  | submit (flags : Nat) (data : Bytes)        -- sqfs_block_processor_submit_block
  | sync                                       -- sqfs_block_processor_sync
deriving DecidableEq, Repr

def applyOp (v : Variant) (P : Params) (s : Proc) : ApiOp → Except Err Proc
  | .file f => packFile P s f
  | .submit fl d => submitBlock P s fl d
  | .sync => syncV v P s

def applyOps (v : Variant) (P : Params) : Proc → List ApiOp → Except Err Proc
  | s, [] => .ok s
  | s, op :: ops =>
    match applyOp v P s op with
    | .error e => .error e
    | .ok s' => applyOps v P s' ops

/-- create, the script, `finish` -/
def runOps (v : Variant) (P : Params) (mb : Nat) (ops : List ApiOp) : Except Err Output :=
  match applyOps v P (create P mb) ops with
  | .error e => .error e
  | .ok s =>
    match finishV v P s with
    | .error e => .error e
    | .ok s' => .ok s'.w.output

/-- the C value of an error -/
def Err.code : Err → Int
  | .sequence => -(errSequence : Int)
  | .unsupported => -(errUnsupported : Int)
  | .internal => -(errInternal : Int)
  | .pool rc => rc
  | .alloc => -(errAlloc : Int)
  | .corrupted => -(errCorrupted : Int)
  | .outOfBounds => -(errOutOfBounds : Int)
  | .overflow => -(errOverflow : Int)
  | .compressor => -(errCompressor : Int)
  | .writer .outOfBounds => -(errOutOfBounds : Int)
  | .writer .internal => 0            -- C: undefined behaviour (proved unreachable under the protocol)
  | .nullDeref => 0                   -- C: NULL dereference
  | .fuel => 0                        -- artefact of the model

end Sqfs.BlockProc
