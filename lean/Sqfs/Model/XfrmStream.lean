/-
Model of the transforming streams of lib/xfrm/src/istream.c and lib/xfrm/src/ostream.c, as far as C12 needs
them: both are written against the stream interfaces (`get_buffered_data`/`advance_buffer` of the wrapped
istream, `append`/`flush` of the wrapped ostream) and an abstract incremental codec, so whatever the OS does
reaches them only through the wrapped file stream.

The codec is a parameter: `proc state input outCap flushFull = (state', consumed, produced, result)`
(`process_data` with `*in_read`/`*out_written` read back as differences).  Nothing is assumed about it here;
its contract (progress, `consumed ≤ |input|`, `|produced| ≤ outCap`, transparency) is C15's subject.
The `for (;;)` loop of `precache` has no bound in C (a codec that neither consumes nor produces spins forever);
the model gives it explicit fuel `limit` and returns `Err.fuel` when it runs out.
-/
import Sqfs.Model.IoLoops
namespace Sqfs.IoLoops

/-- `XFRM_STREAM_RESULT` -/
inductive XRes where
  | ok
  | end_
  | bufferFull
  | error
  deriving DecidableEq, Repr

structure Codec (κ : Type) where
  proc : κ → Bytes → Nat → Bool → κ × Nat × Bytes × XRes

/-- `istream_xfrm_t`: the wrapped stream, the codec state, `buffer_offset`, `uncompressed[0 .. buffer_used)`. -/
structure XStream (σ κ : Type) where
  wrapped : σ
  k : κ
  off : Nat
  buf : Bytes

/-- The `for (;;)` loop of `precache` (xfrm/istream.c:46-78). `BX` = its `BUFSZ`. -/
def xPrecacheLoop {σ κ : Type} (I : StreamI σ) (C : Codec κ) (BX : Nat) :
    Nat → σ → κ → Bytes → OS → Err × σ × κ × Bytes × OS
  | 0, s, k, buf, os => (.fuel, s, k, buf, os)
  | fuel + 1, s, k, buf, os =>
    match I.get s BX os with
    | (.fail e, _, s', os') => (e, s', k, buf, os')                         -- ret < 0: return ret
    | (r, w, s', os') =>
      let full := decide (r = .eof)                                         -- ret > 0: mode = FLUSH_FULL
      match C.proc k w (BX - buf.length) full with
      | (k', _, _, .error) => (.compressor, s', k', buf, os')               -- return SQFS_ERROR_COMPRESSOR
      | (k', consumed, produced, res) =>
        let buf' := buf ++ produced                                         -- buffer_used = out_off
        let s'' := I.adv s' consumed                                        -- advance_buffer(wrapped, in_off)
        if res = .bufferFull ∨ buf'.length ≥ BX then (.ok, s'', k', buf', os')
        else if full then (.ok, s'', k', buf', os')
        else xPrecacheLoop I C BX fuel s'' k' buf' os'

/-- `xfrm_get_buffered_data` (xfrm/istream.c:83-101), with the compaction at the head of `precache`. -/
def xGet {σ κ : Type} (I : StreamI σ) (C : Codec κ) (BX limit : Nat) (x : XStream σ κ) (want : Nat) (os : OS) :
    GRet × Bytes × XStream σ κ × OS :=
  let want := if want > BX then BX else want
  if x.buf.length = 0 ∨ x.buf.length - x.off < want then
    match xPrecacheLoop I C BX limit x.wrapped x.k (x.buf.drop x.off) os with
    | (.ok, s', k', buf', os') =>
      (if buf'.length = 0 then .eof else .ok, buf', { wrapped := s', k := k', off := 0, buf := buf' }, os')
    | (e, s', k', buf', os') => (.fail e, [], { wrapped := s', k := k', off := 0, buf := buf' }, os')
  else
    let w := x.buf.drop x.off
    (if w.length = 0 then .eof else .ok, w, x, os)

/-- `xfrm_advance_buffer` (xfrm/istream.c:103-112); the asserts (`count ≤ used`, `offset ≤ used`) are the client's duty. -/
def xAdv {σ κ : Type} (x : XStream σ κ) (count : Nat) : XStream σ κ := { x with off := x.off + count }

def xfrmStream {σ κ : Type} (I : StreamI σ) (C : Codec κ) (BX limit : Nat) : StreamI (XStream σ κ) :=
  ⟨xGet I C BX limit, xAdv, fun _ => limit⟩

/-! ### ostream -/

/-- `ostream_xfrm_t` over a file ostream: codec state and `inbuf[0 .. inbuf_used)`. -/
structure XOStream (κ : Type) where
  o : OStream
  k : κ
  inbuf : Bytes

/-- The `while (finish || off_in < avail_in)` loop of `flush_inbuf` (xfrm/ostream.c:43-61); `rest` = `inbuf[off_in ..)`. -/
def xFlushLoop {κ : Type} (C : Codec κ) (BX : Nat) (finish : Bool) :
    Nat → OStream → κ → Bytes → OS → Err × OStream × κ × Bytes × OS
  | 0, o, k, rest, os => (.fuel, o, k, rest, os)
  | fuel + 1, o, k, rest, os =>
    if finish ∨ rest.length > 0 then
      match C.proc k rest BX finish with
      | (k', _, _, .error) => (.compressor, o, k', rest, os)
      | (k', consumed, produced, res) =>
        match fileAppend o (some produced) produced.length os with
        | (.ok, o', os') =>
          if res = .end_ then (.ok, o', k', rest.drop consumed, os')
          else xFlushLoop C BX finish fuel o' k' (rest.drop consumed) os'
        | (e, o', os') => (e, o', k', rest.drop consumed, os')
    else (.ok, o, k, rest, os)

/-- `flush_inbuf` (xfrm/ostream.c:33-71). -/
def xFlushInbuf {κ : Type} (C : Codec κ) (BX limit : Nat) (x : XOStream κ) (finish : Bool) (os : OS) :
    Err × XOStream κ × OS :=
  match xFlushLoop C BX finish limit x.o x.k x.inbuf os with
  | (.ok, o', k', rest, os') => (.ok, { o := o', k := k', inbuf := rest }, os')
  | (e, o', k', _, os') => (e, { o := o', k := k', inbuf := x.inbuf }, os')        -- error: inbuf_used untouched

/-- `xfrm_append` (xfrm/ostream.c:73-103); `data` already has its holes expanded to zeros. -/
def xAppendLoop {κ : Type} (C : Codec κ) (BX limit : Nat) : Nat → XOStream κ → Bytes → OS → Err × XOStream κ × OS
  | 0, x, _, os => (.fuel, x, os)
  | fuel + 1, x, data, os =>
    if data.length = 0 then (.ok, x, os) else
    if x.inbuf.length ≥ BX then
      match xFlushInbuf C BX limit x false os with
      | (.ok, x', os') =>
        let diff := if BX - x'.inbuf.length > data.length then data.length else BX - x'.inbuf.length
        xAppendLoop C BX limit fuel { x' with inbuf := x'.inbuf ++ data.take diff } (data.drop diff) os'
      | (e, x', os') => (e, x', os')
    else
      let diff := if BX - x.inbuf.length > data.length then data.length else BX - x.inbuf.length
      xAppendLoop C BX limit fuel { x with inbuf := x.inbuf ++ data.take diff } (data.drop diff) os

/-- `xfrm_flush` (xfrm/ostream.c:105-116). -/
def xFlush {κ : Type} (C : Codec κ) (BX limit : Nat) (x : XOStream κ) (os : OS) : Err × XOStream κ × OS :=
  if x.inbuf.length > 0 then
    match xFlushInbuf C BX limit x true os with
    | (.ok, x', os') =>
      match fileFlush x'.o os' with
      | (e, o', os'') => (e, { x' with o := o' }, os'')
    | (e, x', os') => (e, x', os')
  else
    match fileFlush x.o os with
    | (e, o', os') => (e, { x with o := o' }, os')

/-- one client call on the transforming ostream -/
def xStep {κ : Type} (C : Codec κ) (BX limit : Nat) (x : XOStream κ) (op : OOp) (os : OS) : Err × XOStream κ × OS :=
  match op with
  | .data d => xAppendLoop C BX limit (d.length + 1) x d os
  | .hole n => xAppendLoop C BX limit (n + 1) x (List.replicate n 0) os
  | .flush => xFlush C BX limit x os

/-- client of the transforming ostream: stops at the first failing call -/
def xRunOOps {κ : Type} (C : Codec κ) (BX limit : Nat) : Nat → XOStream κ → List OOp → OS → (Err × Nat) × XOStream κ × OS
  | idx, x, [], os => ((.ok, idx), x, os)
  | idx, x, op :: ops, os =>
    match xStep C BX limit x op os with
    | (.ok, x', os') => xRunOOps C BX limit (idx + 1) x' ops os'
    | (e, x', os') => ((e, idx), x', os')

/-! ### a small concrete codec for the correspondence harness (harness/h_c12.c implements the same one) -/

/-- Consumes at most 5 bytes per call (half of the input when more than 64 bytes are offered); every consumed byte `b` becomes `[b, b xor k]` where `k` counts the bytes
consumed so far (mod 256); stops early when the output space runs out (`bufferFull`); a 0xFF byte at the head of
the input is an error; reports `end_` when flushing and the input is used up. -/
def toyProc (k : Nat) (input : Bytes) (cap : Nat) (full : Bool) : Nat × Nat × Bytes × XRes :=
  if input.head? = some 255 then (k, 0, [], .error) else
  let m := if input.length > 64 then (input.length + 1) / 2 else if input.length > 5 then 5 else input.length
  let n := if cap / 2 < m then cap / 2 else m
  let rec go (i : Nat) (k : Nat) (l : Bytes) : Nat × Bytes :=
    match i, l with
    | 0, _ => (k, [])
    | _, [] => (k, [])
    | i + 1, b :: t =>
      let (k', out) := go i ((k + 1) % 256) t
      (k', b :: (b ^^^ UInt8.ofNat k) :: out)
  let (k', out) := go n k input
  (k', n, out, if n < m then .bufferFull else if full ∧ n = input.length then .end_ else .ok)

def toyCodec : Codec Nat := ⟨toyProc⟩

/-- A second codec for the harness (`pass_process` in harness/h_c12.c): passes the bytes through unchanged, at most 5
per call (half of the input when more than 64 bytes are offered), stops early when the output space runs out
(`bufferFull`), counts its calls in `k` (mod 256), reports `end_` when flushing and the input is used up.  It lets a
real tar archive be read through the transforming istream. -/
def passProc (k : Nat) (input : Bytes) (cap : Nat) (full : Bool) : Nat × Nat × Bytes × XRes :=
  let m := if input.length > 64 then (input.length + 1) / 2 else if input.length > 5 then 5 else input.length
  let n := if cap < m then cap else m
  ((k + 1) % 256, n, input.take n, if n < m then .bufferFull else if full ∧ n = input.length then .end_ else .ok)

def passCodec : Codec Nat := ⟨passProc⟩

/-- A third codec for the harness (`z_process` in harness/h_c12.c): a toy *de*compressor with a magic, framing and an
end mark, so that a stream can be damaged or truncated in a way the decompressor notices.  Format: the magic byte
0xC1, then blocks `[len] [len bytes]` with `1 ≤ len ≤ 254`, then the end mark `[0]`; what follows the end mark is
ignored.  State `k`: 0 = before the magic, 1 = a length byte is next, 2 = behind the end mark, `2 + r` = `r` bytes of
the current block are left.  One item per call (the magic, a length byte, at most 5 bytes — half of the input when more than 64 bytes are
offered — of block content or of trailing garbage).  Errors: a first byte other than the magic, the length byte 0xFF (damage), and the end of the
input (`full` with nothing offered) anywhere but behind the end mark (truncation). -/
def zProc (k : Nat) (input : Bytes) (cap : Nat) (full : Bool) : Nat × Nat × Bytes × XRes :=
  match input with
  | [] => (k, 0, [], if full ∧ k ≠ 2 then .error else .ok)
  | b :: _ =>
    if k = 0 then (if b = 0xC1 then (1, 1, [], .ok) else (0, 0, [], .error))
    else if k = 1 then
      (if b = 0 then (2, 1, [], .ok) else if b = 255 then (1, 0, [], .error) else (2 + b.toNat, 1, [], .ok))
    else if k = 2 then (2, (if input.length > 64 then (input.length + 1) / 2 else if input.length > 5 then 5 else input.length), [], .ok)
    else
      let r := k - 2
      let m0 := if input.length > 64 then (input.length + 1) / 2 else if input.length > 5 then 5 else input.length
      let m := if r < m0 then r else m0
      let n := if cap < m then cap else m
      ((if r - n = 0 then 1 else 2 + (r - n)), n, input.take n, if n < m then .bufferFull else .ok)

def zCodec : Codec Nat := ⟨zProc⟩

/-- A stateless codec for the non-vacuity examples of `Sqfs.Props.C12` (not used by the harness): passes at most 512
bytes per call, rejects input that starts with 0xFF. -/
def chunkCodec : Codec Unit :=
  ⟨fun _ inp cap _ => if inp.head? = some 255 then ((), 0, [], .error)
    else ((), min (min inp.length cap) 512, inp.take (min (min inp.length cap) 512), .ok)⟩

end Sqfs.IoLoops
