/-
C10 — the metadata decoders of libsquashfs as programs over metadata readers (`Sqfs.C10P.Prog`):

* `readInodeP`      `sqfs_meta_reader_read_inode`           lib/sqfs/src/read_inode.c
* `readdirP`        `sqfs_meta_reader_readdir` (one call)   lib/sqfs/src/readdir.c
* `DirRd.*`         `sqfs_dir_reader_get_inode/open_dir/read/resolve_path` (flags = 0)   lib/sqfs/src/dir_reader.c
* `XR.*`            `sqfs_xattr_reader_load/get_desc/seek_kv/read_key/read_value/read/read_all`   xattr/xattr_reader.c
* `readTable`       `sqfs_read_table` (runs on a reader it creates itself)   lib/sqfs/src/read_table.c
* `idTableRead`, `fragTableRead`, `idLookup`                 id_table.c, frag_table.c

Only what the functions *compute from the reader's answers* is modelled: the order and arguments of the
`seek/read/get_position` calls, every check that can make them return early, and the returned value.
Memory: an allocation of more than `allocLimit` bytes fails (`SQFS_ERROR_ALLOC`; the harness runs the real code
with exactly this limit, ASan's `max_allocation_size_mb`), smaller ones are assumed to succeed; the `size_t`
overflow checks in front of the allocations are modelled.  All multi-byte fields are little endian (`le*toh`).

Reader numbers: a dir reader owns `meta_inode` (0) and `meta_dir` (1); an xattr reader owns `idrd` (0) and
`kvrd` (1).
-/
import Sqfs.Model.C10Prog
namespace Sqfs.C10P
open Sqfs.MetaReader Sqfs.Consts

/-- the largest allocation the environment grants (`max_allocation_size_mb=128` of the harness); only sizes taken
from the image (block counts, link targets, directory index names, xattr values) can exceed it -/
def allocLimit : Nat := 134217728

/-! ### inodes (`read_inode.c`) -/

/-- `sqfs_inode_generic_t` as far as it is decoded from the image: the base fields (`mode` after `set_mode`),
the fields of the type specific struct in declaration order, the payload (`extra`, `payload_bytes_used` bytes) -/
structure InodeR where
  typ : Nat
  mode : Nat
  uid : Nat
  gid : Nat
  mtime : Nat
  inum : Nat
  fields : List Nat
  extra : Bytes
deriving DecidableEq, Repr

/-- `set_mode`: the `S_IF*` bits that belong to an inode type; `none` = `SQFS_ERROR_UNSUPPORTED` -/
def typeBits (t : Nat) : Option Nat :=
  if t = inodeSocket ∨ t = inodeExtSocket then some 0o140000
  else if t = inodeSlink ∨ t = inodeExtSlink then some 0o120000
  else if t = inodeFile ∨ t = inodeExtFile then some 0o100000
  else if t = inodeBdev ∨ t = inodeExtBdev then some 0o060000
  else if t = inodeDir ∨ t = inodeExtDir then some 0o040000
  else if t = inodeCdev ∨ t = inodeExtCdev then some 0o020000
  else if t = inodeFifo ∨ t = inodeExtFifo then some 0o010000
  else none

/-- `get_block_count` -/
def blockCount (size blockSize fragIdx fragOff : Nat) : Nat :=
  size / blockSize + (if size % blockSize ≠ 0 ∧ (fragIdx = 0xFFFFFFFF ∨ fragOff = 0xFFFFFFFF) then 1 else 0)

/-- decode consecutive little-endian fields of the given widths -/
def fieldsOf : List Nat → Bytes → Nat → List Nat
  | [], _, _ => []
  | w :: ws, bs, off => leAt bs off w :: fieldsOf ws bs (off + w)

/-- `new_sz = index_max; while (sizeof(ent) + ent.size + 1 > new_sz - index_used) new_sz *= 2;` -/
def growIndex (need used : Nat) : Nat → Nat → Nat
  | 0, sz => sz
  | fuel + 1, sz => if need > sz - used then growIndex need used fuel (sz * 2) else sz

/-- the index loop of `read_inode_dir_ext`: `count` times a 12-byte `sqfs_dir_index_t` and `size + 1` name bytes,
appended to the payload as they are (`acc`, `index_used = |acc|`); the payload buffer (`index_max` bytes) is
doubled by `realloc` until the record fits -/
def readIndexP (k : Nat) : Nat → Nat → Bytes → (Bytes → Prog α) → Prog α
  | 0, _, acc, cont => cont acc
  | n + 1, indexMax, acc, cont =>
    .read k sizeofDirIndex fun ent =>
    let newSz := growIndex (sizeofDirIndex + leAt ent 8 4 + 1) acc.length 64 indexMax
    if newSz > indexMax ∧ sizeofInodeGeneric + newSz > allocLimit then .fail errAlloc     -- realloc
    else
      .read k (leAt ent 8 4 + 1) fun name =>
      readIndexP k n (if newSz > indexMax then newSz else indexMax) (acc ++ ent ++ name) cont

/-- `sqfs_meta_reader_read_inode(ir = rd[k], super, block_start, offset, &result)`; of `super` only
`inode_table_start` and `block_size` are used -/
def readInodeP (k tblStart blockSize b o : Nat) : Prog InodeR :=
  .seek k (wrap64 (b + tblStart)) o <|
  .read k sizeofInode fun h =>
  let typ := leAt h 0 2
  match typeBits typ with
  | none => .fail errUnsupported
  | some bits =>
    let mk (fields : List Nat) (extra : Bytes) : InodeR :=
      { typ := typ, mode := leAt h 2 2 % 4096 + bits, uid := leAt h 4 2, gid := leAt h 6 2, mtime := leAt h 8 4,
        inum := leAt h 12 4, fields := fields, extra := extra }
    if typ = inodeFile then
      .read k sizeofInodeFile fun d =>
      let fl := fieldsOf [4, 4, 4, 4] d 0                       -- blocks_start, fragment_index, fragment_offset, file_size
      let count := blockCount (leAt d 12 4) blockSize (leAt d 4 4) (leAt d 8 4)
      if sizeofInodeGeneric + count * 4 > allocLimit then .fail errAlloc               -- alloc_flex
      else .read k (count * 4) fun ex => .ret (mk fl ex)
    else if typ = inodeSlink then
      .read k sizeofInodeSlink fun d =>                          -- nlink, target_size
      if sizeofInodeGeneric + leAt d 4 4 + 1 > allocLimit then .fail errAlloc           -- calloc
      else .read k (leAt d 4 4) fun tgt => .ret (mk (fieldsOf [4, 4] d 0) tgt)
    else if typ = inodeExtFile then
      .read k sizeofInodeFileExt fun d =>
      let fl := fieldsOf [8, 8, 8, 4, 4, 4, 4] d 0              -- blocks_start, file_size, sparse, nlink, fragment_idx, fragment_offset, xattr_idx
      let count := blockCount (leAt d 8 8) blockSize (leAt d 28 4) (leAt d 32 4)
      if count * 4 + sizeofInodeGeneric ≥ U64 then .fail errOverflow     -- alloc_flex: EOVERFLOW
      else if sizeofInodeGeneric + count * 4 > allocLimit then .fail errAlloc
      else .read k (count * 4) fun ex => .ret (mk fl ex)
    else if typ = inodeExtSlink then
      .read k sizeofInodeSlink fun d =>
      if sizeofInodeGeneric + leAt d 4 4 + 1 > allocLimit then .fail errAlloc
      else
        .read k (leAt d 4 4) fun tgt =>
        .read k 4 fun x => .ret (mk (fieldsOf [4, 4] d 0 ++ [leAt x 0 4]) tgt)
    else if typ = inodeExtDir then
      .read k sizeofInodeDirExt fun d =>
      let fl := fieldsOf [4, 4, 4, 4, 2, 2, 4] d 0              -- nlink, size, start_block, parent_inode, inodex_count, offset, xattr_idx
      if leAt d 4 4 = 0 then .ret (mk fl [])                    -- dir.size == 0: the index is not read
      else readIndexP k (leAt d 16 2) 128 [] fun ex => .ret (mk fl ex)
    else if typ = inodeDir then
      .read k sizeofInodeDir fun d => .ret (mk (fieldsOf [4, 4, 2, 2, 4] d 0) [])   -- start_block, nlink, size, offset, parent_inode
    else if typ = inodeBdev ∨ typ = inodeCdev then
      .read k sizeofInodeDev fun d => .ret (mk (fieldsOf [4, 4] d 0) [])
    else if typ = inodeFifo ∨ typ = inodeSocket then
      .read k sizeofInodeIpc fun d => .ret (mk (fieldsOf [4] d 0) [])
    else if typ = inodeExtBdev ∨ typ = inodeExtCdev then
      .read k sizeofInodeDevExt fun d => .ret (mk (fieldsOf [4, 4, 4] d 0) [])
    else                                                          -- SQFS_INODE_EXT_FIFO, SQFS_INODE_EXT_SOCKET
      .read k sizeofInodeIpcExt fun d => .ret (mk (fieldsOf [4, 4] d 0) [])

/-! ### directory listings (`readdir.c`) -/

/-- `sqfs_readdir_state_t` -/
structure Rd where
  inodeBlock : Nat
  block : Nat
  offset : Nat
  size : Nat
  entries : Nat
  inumBase : Nat
deriving DecidableEq, Repr

/-- `sqfs_dir_node_t` as read from the image (`inodeDiff` is the raw 16-bit value) -/
structure Entry where
  offset : Nat
  inodeDiff : Nat
  typ : Nat
  size : Nat
  name : Bytes
deriving DecidableEq, Repr

inductive RdRes where
  /-- return value 1 -/
  | eof
  /-- return value 0: the entry and `*iref` -/
  | ent (e : Entry) (iref : Nat)
deriving DecidableEq, Repr

/-- `out_eof:` -/
def Rd.atEof (it : Rd) : Rd := { it with size := 0, entries := 0 }

/-- second half of `sqfs_meta_reader_readdir`: one entry -/
def readdirEntP (k : Nat) (it : Rd) : Prog (RdRes × Rd) :=
  if it.size ≤ sizeofDirNode then .ret (.eof, it.atEof)
  else
    .seek k it.block it.offset <|
    .read k sizeofDirNode fun e =>                              -- sqfs_meta_reader_read_dir_ent
    .read k (leAt e 6 2 + 1) fun name =>
    .pos k fun p =>
    let size := it.size - sizeofDirNode
    let count := leAt e 6 2 + 1
    let it' : Rd := { it with block := p.1, offset := p.2, entries := it.entries - 1,
                              size := if count ≥ size then 0 else size - count }
    .ret (.ent { offset := leAt e 0 2, inodeDiff := leAt e 2 2, typ := leAt e 4 2, size := leAt e 6 2, name := name }
               (it.inodeBlock * 65536 + leAt e 0 2), it')

/-- `sqfs_meta_reader_readdir(m = rd[k], it, &ent, NULL, &iref)`: result and the updated cursor.  (When the call
fails the cursor is left half updated in C; like every caller in the library the model does not use it again.) -/
def readdirP (k : Nat) (it : Rd) : Prog (RdRes × Rd) :=
  if it.entries = 0 then
    if it.size ≤ sizeofDirHeader then .ret (.eof, it.atEof)
    else
      .seek k it.block it.offset <|
      .read k sizeofDirHeader fun h =>                          -- sqfs_meta_reader_read_dir_header
      if leAt h 0 4 > maxDirEnt - 1 then .fail errCorrupted
      else
        .pos k fun p =>
        readdirEntP k { it with block := p.1, offset := p.2, size := it.size - sizeofDirHeader,
                                entries := leAt h 0 4 + 1, inumBase := leAt h 8 4, inodeBlock := leAt h 4 4 }
  else readdirEntP k it

/-! ### the directory reader (`dir_reader.c`, created with `flags = 0`) -/

/-- the fields of the superblock copy a dir reader keeps and uses -/
structure DirRd where
  inodeStart : Nat
  dirStart : Nat
  rootRef : Nat
  blockSize : Nat
deriving DecidableEq, Repr

/-- the windows of `meta_inode` and `meta_dir` chosen by `sqfs_dir_reader_create` -/
def dirRdWindows (inodeStart dirStart idStart fragStart exportStart : Nat) : (Nat × Nat) × (Nat × Nat) :=
  let limit := idStart
  let limit := if fragStart < limit then fragStart else limit
  let limit := if exportStart < limit then exportStart else limit
  ((inodeStart, dirStart), (dirStart, limit))

/-- `sqfs_dir_reader_get_inode(rd, ref, &inode)` -/
def DirRd.getInodeP (d : DirRd) (ref : Nat) : Prog InodeR :=
  readInodeP 0 d.inodeStart d.blockSize (ref / 65536) (ref % 65536)

/-- `sqfs_readdir_state_init` + `sqfs_dir_reader_open_dir` (no dot entries): pure -/
def DirRd.openDir (d : DirRd) (ino : InodeR) : Except Status Rd :=
  if ino.typ = inodeDir then
    .ok { inodeBlock := 0, block := wrap64 (ino.fields.getD 0 0 + d.dirStart), offset := ino.fields.getD 3 0,
          size := ino.fields.getD 2 0, entries := 0, inumBase := 0 }
  else if ino.typ = inodeExtDir then
    .ok { inodeBlock := 0, block := wrap64 (ino.fields.getD 2 0 + d.dirStart), offset := ino.fields.getD 5 0,
          size := ino.fields.getD 1 0, entries := 0, inumBase := 0 }
  else .error errNotDir

/-- `sqfs_dir_reader_read` in state `DIR_STATE_ENTRIES` -/
def DirRd.readP (_d : DirRd) (it : Rd) : Prog (RdRes × Rd) := readdirP 1 it

/-- model-only status: the fuel of a listing / path loop ran out (cannot happen: each entry consumes at least
9 bytes of `it.size`, each component at least one byte of the path) -/
def loopFuelSt : Status := 1002

/-- a whole listing: `open_dir` result, then `read` until it returns non-zero.  Result: the entries with their
references, and the final return value (1 = end, else the negated error status) -/
def listGoP (d : DirRd) : Nat → Rd → List (Entry × Nat) → Prog (List (Entry × Nat))
  | 0, _, _ => .fail loopFuelSt
  | fuel + 1, it, acc =>
    (d.readP it).bind fun r =>
      match r.1 with
      | .eof => .ret acc
      | .ent e iref => listGoP d fuel r.2 (acc ++ [(e, iref)])

def DirRd.listP (d : DirRd) (ref : Nat) : Prog (List (Entry × Nat)) :=
  (d.getInodeP ref).bind fun ino =>
    match d.openDir ino with
    | .error e => .fail e
    | .ok it => listGoP d (it.size + 2) it []

/-- the name comparison of `sqfs_dir_reader_resolve_path`: `strncmp(name, path, len) == 0`, the name has no
embedded NUL, and the component ends after `len` bytes.  `path` is the rest of the (NUL-free) path string. -/
def nameMatches (name path : Bytes) : Bool :=
  let len := name.length
  !name.contains 0 && path.take len == name && (path.length == len || path[len]? == some 0x2f)

/-- the `for (;;)` loop of `resolve_path` over one directory: reference of the entry matching the head of `path` -/
def findEntP (d : DirRd) (path : Bytes) : Nat → Rd → Prog (Nat × Nat)
  | 0, _ => .fail loopFuelSt
  | fuel + 1, it =>
    (d.readP it).bind fun r =>
      match r.1 with
      | .eof => .fail errNoEntry
      | .ent e iref => if nameMatches e.name path then .ret (iref, e.size + 1) else findEntP d path fuel r.2

def dropSlashes : Bytes → Bytes
  | 0x2f :: r => dropSlashes r
  | p => p

/-- `sqfs_dir_reader_resolve_path(rd, path, NULL, &out)` -/
def resolveGoP (d : DirRd) : Nat → Bytes → Nat → Prog Nat
  | 0, _, _ => .fail loopFuelSt
  | fuel + 1, path, cur =>
    let path := dropSlashes path
    if path.isEmpty then .ret cur
    else
      (d.getInodeP cur).bind fun ino =>
        match d.openDir ino with
        | .error e => .fail e
        | .ok it => (findEntP d path (it.size + 2) it).bind fun r => resolveGoP d fuel (path.drop r.2) r.1

def DirRd.resolveP (d : DirRd) (path : Bytes) : Prog Nat := resolveGoP d (path.length + 1) path d.rootRef

/-- a directory listing as clients produce it: `open_dir` (pure), then `read` call after `read` call with the
per-call cursor, until the end or the first error -/
def listSession (d : DirRd) : Nat → Rd → List (Entry × Nat) → Session (RdRes × Rd) (Except Status (List (Entry × Nat)))
  | 0, _, _ => .done (.error loopFuelSt)
  | fuel + 1, it, acc =>
    .call (d.readP it) fun r =>
      match r with
      | .error e => .done (.error e)
      | .ok (.eof, _) => .done (.ok acc)
      | .ok (.ent e iref, it') => listSession d fuel it' (acc ++ [(e, iref)])

/-! ### the xattr reader (`xattr/xattr_reader.c`) -/

/-- `sqfs_xattr_reader_t` without its two meta readers; `loaded` = `kvrd != NULL` -/
structure XR where
  loaded : Bool
  xattrStart : Nat
  xattrEnd : Nat
  numIds : Nat
  idBlockStarts : List Nat
deriving DecidableEq, Repr

def XR.empty : XR := { loaded := false, xattrStart := 0, xattrEnd := 0, numIds := 0, idBlockStarts := [] }

def leWords : Nat → Bytes → List Nat
  | 0, _ => []
  | n + 1, bs => leAt bs 0 8 :: leWords n (bs.drop 8)

/-- `sqfs_xattr_reader_load` on a freshly created xattr reader: status, the object, and the window of the two meta
readers it creates (`none`: no readers).  `flags`, `xattrTblStart`, `idTableStart`, `bytesUsed` are superblock
fields. -/
def xrLoad (f : File) (noXattrs : Bool) (xattrTblStart idTableStart bytesUsed : Nat) : Status × XR × Option (Nat × Nat) :=
  if noXattrs then (0, XR.empty, none)
  else if xattrTblStart = NONE then (0, XR.empty, none)
  else if xattrTblStart ≥ bytesUsed then (errOutOfBounds, XR.empty, none)
  else
    match f.readAt xattrTblStart sizeofXattrIdTable with
    | .error e => (e, XR.empty, none)
    | .ok t =>
      let numIds := leAt t 8 4
      let nblk := numIds * sizeofXattrId / metaBlockSize + (if numIds * sizeofXattrId % metaBlockSize ≠ 0 then 1 else 0)
      let xr0 : XR := { XR.empty with xattrStart := leAt t 0 8, numIds := numIds }
      match f.readAt (wrap64 (xattrTblStart + sizeofXattrIdTable)) (8 * nblk) with
      | .error e => (e, xr0, none)
      | .ok raw =>
        let starts := leWords nblk raw
        if starts.any (fun s => s > bytesUsed) then (errOutOfBounds, xr0, none)
        else (0, { xr0 with loaded := true, xattrEnd := bytesUsed, idBlockStarts := starts }, some (idTableStart, bytesUsed))

/-- `sqfs_xattr_id_t` -/
structure XDesc where
  xattr : Nat
  count : Nat
  size : Nat
deriving DecidableEq, Repr

/-- `sqfs_xattr_reader_get_desc` -/
def XR.getDescP (x : XR) (idx : Nat) : Prog XDesc :=
  if idx = 0xFFFFFFFF then .ret ⟨0, 0, 0⟩
  else if !x.loaded then (if idx = 0 then .ret ⟨0, 0, 0⟩ else .fail errOutOfBounds)
  else if idx ≥ x.numIds then .fail errOutOfBounds
  else
    .seek 0 (x.idBlockStarts.getD (idx * sizeofXattrId / metaBlockSize) 0) (idx * sizeofXattrId % metaBlockSize) <|
    .read 0 sizeofXattrId fun d => .ret ⟨leAt d 0 8, leAt d 8 4, leAt d 12 4⟩

/-- `sqfs_xattr_reader_seek_kv` -/
def XR.seekKvP (x : XR) (desc : XDesc) (cont : Prog α) : Prog α :=
  if !x.loaded then .fail errOutOfBounds
  else .seek 1 (wrap64 (x.xattrStart + desc.xattr / 65536)) (desc.xattr % 65536) cont

def xattrPrefix (id : Nat) : Option Bytes :=
  if id = 0 then some "user.".toUTF8.toList
  else if id = 1 then some "trusted.".toUTF8.toList
  else if id = 2 then some "security.".toUTF8.toList
  else none

/-- `read_key_hdr` + the key bytes: `(type, size, prefix ++ key)`; common part of `sqfs_xattr_reader_read_key`
and `sqfs_xattr_reader_read` -/
def XR.readKeyP (_x : XR) (cont : Nat × Nat × Bytes → Prog α) : Prog α :=
  .read 1 sizeofXattrEntry fun h =>
  match xattrPrefix (leAt h 0 2 % 256) with
  | none => .fail errUnsupported
  | some pfx => .read 1 (leAt h 2 2) fun kb => cont (leAt h 0 2, leAt h 2 2, pfx ++ kb)

/-- `read_value_hdr` + the value bytes + the seek back: common part of `sqfs_xattr_reader_read_value` and
`sqfs_xattr_reader_read`.  For an out-of-line value: remember `get_position`, seek to the referenced value, read
it, seek back.  `allocBase`: what the caller allocates besides the value bytes (`calloc`/`realloc` between the
value header and the value). -/
def XR.readValueP (x : XR) (allocBase keyType : Nat) (cont : Bytes → Prog α) : Prog α :=
  .read 1 sizeofXattrValue fun v =>
  if keyType / xattrFlagOol % 2 = 1 then
    .read 1 8 fun r =>
    let ref := leAt r 0 8
    let newStart := wrap64 (x.xattrStart + ref / 65536)
    let newOff := ref % 65536
    if newStart ≥ x.xattrEnd ∨ newOff ≥ metaBlockSize then .fail errOutOfBounds
    else
      .pos 1 fun p =>
      .seek 1 newStart newOff <|
      .read 1 sizeofXattrValue fun v2 =>
      if allocBase + leAt v2 0 4 > allocLimit then .fail errAlloc
      else
        .read 1 (leAt v2 0 4) fun val =>
        .seek 1 p.1 p.2 <| cont val
  else if allocBase + leAt v 0 4 > allocLimit then .fail errAlloc
  else .read 1 (leAt v 0 4) fun val => cont val

/-- `sqfs_xattr_reader_read_key` (continues at the cursor of `kvrd`) -/
def XR.readKeyApiP (x : XR) : Prog (Nat × Nat × Bytes) := x.readKeyP fun r => .ret r
/-- `sqfs_xattr_reader_read_value` (continues at the cursor of `kvrd`) -/
def XR.readValueApiP (x : XR) (keyType : Nat) : Prog Bytes :=
  x.readValueP (sizeofXattrValue + 1) keyType fun v => .ret v

/-- the loop of `sqfs_xattr_reader_read_all`: `count` times `sqfs_xattr_reader_read` -/
def XR.readPairsP (x : XR) : Nat → List (Bytes × Bytes) → Prog (List (Bytes × Bytes))
  | 0, acc => .ret acc
  | n + 1, acc =>
    x.readKeyP fun k =>                                          -- total = sizeof(*kv) + plen + 1 + key.size, then + value.size + 1
    x.readValueP (sizeofXattrT + k.2.2.length + 2) k.1 fun v => XR.readPairsP x n (acc ++ [(k.2.2, v)])

/-- `sqfs_xattr_reader_read_all(xr, idx, &list)` -/
def XR.readAllP (x : XR) (idx : Nat) : Prog (List (Bytes × Bytes)) :=
  if idx = 0xFFFFFFFF then .ret []
  else (x.getDescP idx).bind fun d => x.seekKvP d (x.readPairsP d.count [])

/-! ### lookup tables (`read_table.c`, `id_table.c`, `frag_table.c`) -/

/-- the `while (table_size > 0)` loop of `sqfs_read_table` -/
def readTableGoP : Nat → List Nat → Nat → Bytes → Prog Bytes
  | 0, _, _, acc => .ret acc
  | _ + 1, [], _, acc => .ret acc                                       -- unreachable: one location per block
  | fuel + 1, start :: locs, size, acc =>
    if size = 0 then .ret acc
    else
      let diff := if metaBlockSize > size then size else metaBlockSize
      .seek 0 start 0 <| .read 0 diff fun bs => readTableGoP fuel locs (size - diff) (acc ++ bs)

/-- `sqfs_read_table(file, cmp, table_size, location, lower_limit, upper_limit, &out)`: reads the block locations
with `read_at`, then the blocks through a meta reader **created for this call** -/
def readTable (fix : Bool) (f : File) (unc : Codec) (size location lower upper : Nat) : Except Status Bytes :=
  let nblk := size / metaBlockSize + (if size % metaBlockSize ≠ 0 then 1 else 0)
  match f.readAt location (8 * nblk) with
  | .error e => .error e
  | .ok raw => (exec fix f unc (readTableGoP (nblk + 1) (leWords nblk raw) size []) (fun _ => fresh lower upper)).1

def leWords32 : Nat → Bytes → List Nat
  | 0, _ => []
  | n + 1, bs => leAt bs 0 4 :: leWords32 n (bs.drop 4)

/-- `sqfs_id_table_read`: the loaded ids -/
def idTableRead (fix : Bool) (f : File) (unc : Codec) (idCount idTableStart dirStart fragStart exportStart bytesUsed : Nat) :
    Except Status (List Nat) :=
  if idCount = 0 ∨ idTableStart ≥ bytesUsed then .error errCorrupted
  else
    let upper := idTableStart
    let lower := dirStart
    let lower := if fragStart > lower ∧ fragStart < upper then fragStart else lower
    let lower := if exportStart > lower ∧ exportStart < upper then exportStart else lower
    match readTable fix f unc (idCount * 4) idTableStart lower upper with
    | .error e => .error e
    | .ok raw => .ok (leWords32 idCount raw)

/-- `sqfs_id_table_index_to_id`: the table is immutable after loading -/
def idLookup (ids : List Nat) (idx : Nat) : Except Status Nat :=
  match ids[idx]? with
  | none => .error errOutOfBounds
  | some v => .ok v

def fragEntries : Nat → Bytes → List (Nat × Nat)
  | 0, _ => []
  | n + 1, bs => (leAt bs 0 8, leAt bs 8 4) :: fragEntries n (bs.drop sizeofFragment)

/-- `sqfs_frag_table_read`: the `(start_offset, size)` entries (`sqfs_frag_table_lookup` decodes them) -/
def fragTableRead (fix : Bool) (f : File) (unc : Codec) (noFragments : Bool)
    (fragCount fragStart dirStart idTableStart exportStart bytesUsed : Nat) : Except Status (List (Nat × Nat)) :=
  if noFragments then .ok []
  else if fragStart = NONE then .ok []
  else if fragCount = 0 then .ok []
  else if fragStart ≥ bytesUsed then .error errOutOfBounds
  else if fragStart < dirStart then .error errCorrupted
  else if fragStart ≥ idTableStart then .error errCorrupted
  else
    let upper := if exportStart < idTableStart then exportStart else idTableStart
    match readTable fix f unc (fragCount * sizeofFragment) fragStart dirStart upper with
    | .error e => .error e
    | .ok raw => .ok (fragEntries fragCount raw)

end Sqfs.C10P
