/-
C07 — index-explicit models of the tar extension-record parsers:

  * `lib/tar/src/pax_header.c`          `read_pax_header` (record framing, key/value split, handlers)
  * `lib/tar/src/read_sparse_map_new.c` `decode`, `read_gnu_new_sparse` (the 1024-byte window)
  * `lib/tar/src/read_sparse_map_old.c` `parse`, `read_gnu_old_sparse`
  * `lib/tar/src/read_header.c`         the size limits on extension records

Conventions as in `ParseTotal.lean`: every `*p` is a checked `buf[i]?`, every store a checked
`wr`; `.oob` marks an access outside the object, `.spin` a loop that has not ended.
-/
import Sqfs.Model.ParseTotal
import Sqfs.Generated.Consts
namespace Sqfs.ParseTotal

/-- checked store `buf[i] = c` -/
def wr (buf : Bytes) (i : Nat) (c : UInt8) : Option Bytes :=
  if i < buf.length then some (buf.set i c) else none

/-! ## `strtol(line, &ptr, 10)` (glibc, "C" locale) on a NUL-terminated buffer -/

def longMax : Int := 9223372036854775807
def longMin : Int := -9223372036854775808

/-- digits loop: accumulates the magnitude unboundedly (saturation is applied by the caller) -/
def strtolDigits (buf : Bytes) : Nat → Nat → Nat → R (Nat × Nat)
  | 0, _, _ => .spin
  | fuel + 1, i, acc =>
    match buf[i]? with
    | none => .oob
    | some c => if isDigit c then strtolDigits buf fuel (i + 1) (acc * 10 + (c.toNat - 48)) else .ok (acc, i)

def strtolSkip (buf : Bytes) : Nat → Nat → R Nat
  | 0, _ => .spin
  | fuel + 1, i =>
    match buf[i]? with
    | none => .oob
    | some c => if isSpace c then strtolSkip buf fuel (i + 1) else .ok i

/-- returns (value, end index); `end = start` when no digits were found -/
def strtol10 (buf : Bytes) (start : Nat) : R (Int × Nat) :=
  match strtolSkip buf (buf.length + 1) start with
  | .oob => .oob | .spin => .spin | .fail c => .fail c
  | .ok i =>
    match buf[i]? with
    | none => .oob
    | some s =>
      let neg := s.toNat = 45
      let j := if s.toNat = 45 ∨ s.toNat = 43 then i + 1 else i
      match buf[j]? with
      | none => .oob
      | some d0 =>
        if !isDigit d0 then .ok (0, start)
        else match strtolDigits buf (buf.length + 1) j 0 with
          | .oob => .oob | .spin => .spin | .fail c => .fail c
          | .ok (m, e) =>
            let v : Int := if neg then -(m : Int) else (m : Int)
            .ok (if v > longMax then longMax else if v < longMin then longMin else v, e)

/-! ## PAX records -/

/-- the C string starting at `i` (up to, not including, the first NUL) -/
def cstr (buf : Bytes) : Nat → Nat → R Bytes
  | 0, _ => .spin
  | fuel + 1, i =>
    match buf[i]? with
    | none => .oob
    | some c =>
      if c.toNat = 0 then .ok []
      else match cstr buf fuel (i + 1) with
        | .ok t => .ok (c :: t)
        | e => e

/-- `while (*ptr != '\0' && *ptr != '=') ++ptr;` -/
def scanKey (buf : Bytes) : Nat → Nat → R Nat
  | 0, _ => .spin
  | fuel + 1, i =>
    match buf[i]? with
    | none => .oob
    | some c => if c.toNat = 0 ∨ c.toNat = 61 then .ok i else scanKey buf fuel (i + 1)

/-- `while (ptr < end && isspace(*ptr)) ++ptr;` -/
def skipSpaceTo (buf : Bytes) (endIdx : Nat) : Nat → Nat → R Nat
  | 0, _ => .spin
  | fuel + 1, i =>
    if i ≥ endIdx then .ok i
    else match buf[i]? with
      | none => .oob
      | some c => if isSpace c then skipSpaceTo buf endIdx fuel (i + 1) else .ok i

/-- one framed record: where the key and the value start, and `valuelen` -/
structure PaxRec where
  key : Nat
  value : Nat
  valueLen : Nat
  deriving Repr, DecidableEq

/-- failure classes of `read_pax_header`, named after the diagnostic the C code prints (the harness reads the class off
stderr): 1 = "Found a malformed PAX header", 2 = "Numeric overflow in PAX header" (len beyond the record), 3 = "Malformed
decimal value in pax header", 4 = "malformed GNU pax sparse file record", 0 = no diagnostic (LIBARCHIVE.xattr base-64) -/
inductive FrameRes
  | frame (buf : Bytes) (r : PaxRec) (next : Nat)
  | fail (code : Nat)
  | oob
  | spin

/--
Body of `for (line = buffer; line < end; line += len)` up to the point where key and value are
split (pax_header.c lines 286–311).  `buf` has `endIdx + 1` bytes: the record and the NUL that
`record_to_memory` appends.
-/
def paxFrame (buf : Bytes) (endIdx line : Nat) : FrameRes :=
  match strtol10 buf line with
  | .oob => .oob | .spin => .spin | .fail c => .fail c
  | .ok (len, ptr) =>
    match buf[ptr]? with
    | none => .oob
    | some c =>
      if ptr = line ∨ !isSpace c ∨ len ≤ 0 then .fail 1            -- `ptr == line || !isspace(*ptr) || len <= 0`
      else if len > ((endIdx : Int) - (line : Int)) then .fail 2     -- `len > (end - line)`
      else
        let n := len.toNat
        match wr buf (line + n - 1) 0 with                           -- `line[len - 1] = '\0';`
        | none => .oob
        | some buf1 =>
          match skipSpaceTo buf1 endIdx (buf1.length + 1) ptr with
          | .oob => .oob | .spin => .spin | .fail c => .fail c
          | .ok p =>
            if p ≥ endIdx ∨ p - line ≥ n then .fail 1                -- `ptr >= end || (ptr - line) >= len`
            else match scanKey buf1 (buf1.length + 1) p with
              | .oob => .oob | .spin => .spin | .fail c => .fail c
              | .ok q =>
                match buf1[q]? with
                | none => .oob
                | some e =>
                  if q = p ∨ e.toNat ≠ 61 then .fail 1               -- `ptr == key || *ptr != '='`
                  else match wr buf1 q 0 with                        -- `*(ptr++) = '\0';`
                    | none => .oob
                    | some buf2 =>
                      .frame buf2 { key := p, value := q + 1, valueLen := n - (q + 1 - line) - 1 } (line + n)

/-! ### handlers (`apply_handler`, `find_handler`, the two inline sparse keys) -/

/-- `sparse_map_t` node -/
structure SparseEnt where
  offset : Nat
  count : Nat
  deriving Repr, DecidableEq

structure Xattr where
  key : Bytes
  value : Bytes
  deriving Repr, DecidableEq

/-- the fields of `tar_header_decoded_t` that `read_pax_header` can set, and the loop's locals -/
structure PaxOut where
  flags : Nat := 0                 -- `*set_by_pax`
  uid : Nat := 0
  gid : Nat := 0
  size : Nat := 0                  -- `record_size`
  actual : Nat := 0                -- `actual_size`
  mtime : Int := 0
  name : Option Bytes := none
  link : Option Bytes := none
  sparse : List SparseEnt := []
  xattr : List Xattr := []         -- most recent first, as the C list
  offset : Nat := 0                -- local `offset`
  sparseOpen : Bool := false       -- `sparse_last != NULL`
  deriving Repr

def PAX_SIZE := 0x001
def PAX_UID := 0x002
def PAX_GID := 0x004
def PAX_NAME := 0x020
def PAX_SLINK_TARGET := 0x040
def PAX_MTIME := 0x100
def PAX_SPARSE_SIZE := 0x400
def PAX_SPARSE_GNU_1_X := 0x800

def isPrefixOf (p s : Bytes) : Bool := s.take p.length == p

/-- `urldecode` (in place, never longer than its input) -/
def urldecode : Bytes → Bytes
  | [] => []
  | [c] => [c]
  | [c, d] => [c, d]
  | c :: a :: b :: r =>
    if c.toNat = 37 ∧ isXDigit a ∧ isXDigit b then UInt8.ofNat ((xdigit a * 16 + xdigit b) % 256) :: urldecode r
    else c :: urldecode (a :: b :: r)

/-- `xattr_key_decode` (pax_header.c, /repo 34384f9; in place, never longer than its input): GNU tar writes `%` and `=`
inside an xattr key as `%25` and `%3D` (upper case `D` only); every other byte, other escapes included, is copied -/
def xattrKeyDecode : Bytes → Bytes
  | [] => []
  | [c] => [c]
  | [c, d] => [c, d]
  | c :: a :: b :: r =>
    if c.toNat = 37 ∧ a.toNat = 50 ∧ b.toNat = 53 then 37 :: xattrKeyDecode r
    else if c.toNat = 37 ∧ a.toNat = 51 ∧ b.toNat = 68 then 61 :: xattrKeyDecode r
    else c :: xattrKeyDecode (a :: b :: r)

/-- `pax_sparse_map`: `off,count[,off,count]*`; each number by `parse_uint(line, -1, &diff, 0, 0, …)` -/
def sparseMapLoop (buf : Bytes) : Nat → Nat → List SparseEnt → R (List SparseEnt)
  | 0, _, _ => .spin
  | fuel + 1, i, acc =>
    match parseU 10 buf i none true 0 0 with
    | .oob => .oob | .spin => .spin | .fail _ => .fail 4
    | .ok (off, d1) =>
      match buf[i + d1]? with
      | none => .oob
      | some c =>
        if c.toNat ≠ 44 then .fail 4                                   -- `line[diff] != ','`
        else match parseU 10 buf (i + d1 + 1) none true 0 0 with
          | .oob => .oob | .spin => .spin | .fail _ => .fail 4
          | .ok (cnt, d2) =>
            let acc' := { offset := off, count := cnt } :: acc
            match buf[i + d1 + 1 + d2]? with
            | none => .oob
            | some c2 =>
              if c2.toNat = 44 then sparseMapLoop buf fuel (i + d1 + 1 + d2 + 1) acc'   -- `while (*(line++) == ',')`
              else .ok acc'.reverse

/--
Apply one framed record to the decoded header (`find_handler` / `apply_handler` and the two inline
sparse keys).  `GNU.sparse.map` resets `sparse_last` (pax_header.c: `if (field->type ==
PAX_TYPE_CONST_STRING) sparse_last = NULL;`, /repo 56b164f).  The 1.2.0 code did not: a
`GNU.sparse.numbytes` record after `numbytes … map` stored through the freed list — that variant
lives only in `Sqfs/Witness/C07.lean` (`paxApplyOld`).
-/
def paxApply (buf : Bytes) (r : PaxRec) (o : PaxOut) : R PaxOut :=
  match cstr buf (buf.length + 1) r.key with
  | .oob => .oob | .spin => .spin | .fail c => .fail c
  | .ok key =>
    let num (flag : Nat) (f : Nat → PaxOut) : R PaxOut :=
      match parseU 10 buf r.value none true 0 0 with
      | .ok (v, _) => .ok { (f v) with flags := (f v).flags ||| flag }
      | .fail _ => .fail 3 | .oob => .oob | .spin => .spin
    let str (flag : Nat) (f : Bytes → PaxOut) : R PaxOut :=
      match cstr buf (buf.length + 1) r.value with
      | .ok v => .ok { (f v) with flags := (f v).flags ||| flag }
      | .fail c => .fail c | .oob => .oob | .spin => .spin
    if key = ([117, 105, 100] : Bytes) /- "uid" -/ then num PAX_UID (fun v => { o with uid := v })
    else if key = ([103, 105, 100] : Bytes) /- "gid" -/ then num PAX_GID (fun v => { o with gid := v })
    else if key = ([112, 97, 116, 104] : Bytes) /- "path" -/ then str PAX_NAME (fun v => { o with name := some v })
    else if key = ([115, 105, 122, 101] : Bytes) /- "size" -/ then num PAX_SIZE (fun v => { o with size := v })
    else if key = ([108, 105, 110, 107, 112, 97, 116, 104] : Bytes) /- "linkpath" -/ then str PAX_SLINK_TARGET (fun v => { o with link := some v })
    else if key = ([109, 116, 105, 109, 101] : Bytes) /- "mtime" -/ then
      match parseI buf r.value none true with
      | .ok (v, _) => .ok { o with mtime := v, flags := o.flags ||| PAX_MTIME }
      | .fail _ => .fail 3 | .oob => .oob | .spin => .spin
    else if key = ([71, 78, 85, 46, 115, 112, 97, 114, 115, 101, 46, 110, 97, 109, 101] : Bytes) /- "GNU.sparse.name" -/ then str PAX_NAME (fun v => { o with name := some v })
    else if key = ([71, 78, 85, 46, 115, 112, 97, 114, 115, 101, 46, 115, 105, 122, 101] : Bytes) /- "GNU.sparse.size" -/ ∨ key = ([71, 78, 85, 46, 115, 112, 97, 114, 115, 101, 46, 114, 101, 97, 108, 115, 105, 122, 101] : Bytes) /- "GNU.sparse.realsize" -/ then
      num PAX_SPARSE_SIZE (fun v => { o with actual := v })
    else if key = ([71, 78, 85, 46, 115, 112, 97, 114, 115, 101, 46, 109, 97, 106, 111, 114] : Bytes) /- "GNU.sparse.major" -/ ∨ key = ([71, 78, 85, 46, 115, 112, 97, 114, 115, 101, 46, 109, 105, 110, 111, 114] : Bytes) /- "GNU.sparse.minor" -/ then
      .ok { o with flags := o.flags ||| PAX_SPARSE_GNU_1_X }
    else if isPrefixOf (([83, 67, 72, 73, 76, 89, 46, 120, 97, 116, 116, 114, 46] : Bytes) /- "SCHILY.xattr." -/) key then
      -- `sqfs_xattr_create(key + strlen(name) + 1, value, valuelen)`: the value is the `valuelen` raw bytes
      -- … then `pax_xattr_schily` unescapes the key (`xattr_key_decode`)
      .ok { o with xattr := { key := xattrKeyDecode (key.drop 13), value := (buf.drop r.value).take r.valueLen } :: o.xattr }
    else if isPrefixOf (([76, 73, 66, 65, 82, 67, 72, 73, 86, 69, 46, 120, 97, 116, 116, 114, 46] : Bytes) /- "LIBARCHIVE.xattr." -/) key then
      -- in-place `base64_decode(value, value_len, value, &value_len)`, then `urldecode(key)`
      match base64Decode buf r.value r.valueLen r.valueLen with
      | .ok v => .ok { o with xattr := { key := urldecode (key.drop 17), value := v } :: o.xattr }
      | .fail _ => .fail 0 /- `return -1` without a diagnostic -/ | .oob => .oob | .spin => .spin
    else if key = ([71, 78, 85, 46, 115, 112, 97, 114, 115, 101, 46, 109, 97, 112] : Bytes) /- "GNU.sparse.map" -/ then
      match sparseMapLoop buf (buf.length + 1) r.value [] with
      | .ok l => .ok { o with sparse := l, sparseOpen := false }
      | .fail c => .fail c | .oob => .oob | .spin => .spin
    else if key = ([71, 78, 85, 46, 115, 112, 97, 114, 115, 101, 46, 111, 102, 102, 115, 101, 116] : Bytes) /- "GNU.sparse.offset" -/ then
      match parseU 10 buf r.value none true 0 0 with
      | .ok (v, _) => .ok { o with offset := v }
      | .fail _ => .fail 1 | .oob => .oob | .spin => .spin
    else if key = ([71, 78, 85, 46, 115, 112, 97, 114, 115, 101, 46, 110, 117, 109, 98, 121, 116, 101, 115] : Bytes) /- "GNU.sparse.numbytes" -/ then
      match parseU 10 buf r.value none true 0 0 with
      | .ok (v, _) =>
        let e : SparseEnt := { offset := o.offset, count := v }
        -- first entry replaces `out->sparse`, later ones are appended behind `sparse_last`
        .ok (if o.sparseOpen then { o with sparse := o.sparse ++ [e] } else { o with sparse := [e], sparseOpen := true })
      | .fail _ => .fail 1 | .oob => .oob | .spin => .spin
    else .ok o

/-- `read_pax_header` after `record_to_memory`: `buf` = the `entsize` record bytes followed by one NUL -/
def paxLoop (endIdx : Nat) : Nat → Bytes → Nat → PaxOut → R PaxOut
  | 0, _, _, _ => .spin
  | fuel + 1, buf, line, o =>
    if line ≥ endIdx then .ok o
    else match paxFrame buf endIdx line with
      | .oob => .oob | .spin => .spin | .fail c => .fail c
      | .frame buf' r next =>
        match paxApply buf' r o with
        | .ok o' => paxLoop endIdx fuel buf' next o'
        | e => e

/-- every record is at least one byte long, so `entsize + 1` iterations always suffice -/
def readPaxHeader (record : Bytes) : R PaxOut :=
  paxLoop record.length (record.length + 1) (record ++ [0]) 0 {}

/-! ## GNU 1.0 sparse map (`read_sparse_map_new.c`) -/

/-- `SZ_MUL_OV` / `SZ_ADD_OV` on `size_t` -/
def szMax : Nat := U64 - 1

/-- digit loop of `decode`: (count, value) or overflow (`fail 1`) -/
def decDigits (buf : Bytes) : Nat → Nat → Nat → Nat → R (Nat × Nat)
  | 0, _, cnt, v => .ok (cnt, v)                      -- `count < len` is false
  | len + 1, i, cnt, v =>
    match buf[i]? with
    | none => .oob
    | some c =>
      if !isDigit c then .ok (cnt, v)
      else if v * 10 > szMax then .fail 1
      else if v * 10 + (c.toNat - 48) > szMax then .fail 1
      else decDigits buf len (i + 1) (cnt + 1) (v * 10 + (c.toNat - 48))

/-- `decode(str, len, &out)` with `str = buf + i`: returns (`ret`, `*out`); `ret = -1` is `fail 1` -/
def decode (buf : Bytes) (i len : Nat) : R (Nat × Nat) :=
  match decDigits buf len i 0 0 with
  | .oob => .oob | .spin => .spin | .fail c => .fail c
  | .ok (cnt, v) =>
    if cnt = 0 ∨ cnt = len then .ok (0, v)
    else match buf[i + cnt]? with
      | none => .oob
      | some c => if c.toNat = 10 then .ok (cnt + 1, v) else .fail 1

/-- state of the `for (i = 0; i < count * 2; ++i)` loop -/
structure NewSp where
  win : Bytes                      -- `char buffer[1024]`
  diff : Nat
  stream : Bytes                   -- what the input stream still holds
  recordSize : Nat                 -- `out->record_size`
  ents : List SparseEnt            -- completed entries, most recent first
  pendingOff : Option Nat          -- `ent->offset` of the entry under construction

/-- copy `src` into `win` at `at` (`sqfs_istream_read(fp, buffer + at, 512)`, `memcpy(buffer, buffer + 512, 512)`) -/
def blit (win : Bytes) (pos : Nat) (src : Bytes) : Option Bytes :=
  if pos + src.length ≤ win.length then some (win.take pos ++ src ++ win.drop (pos + src.length)) else none

def newLoop : Nat → Nat → NewSp → R NewSp
  | 0, _, s => .ok s
  | n + 1, idx, s =>
    -- `ret = decode(buffer + diff, 512 - diff, &value);`  (`512 - diff` is an `int`: negative would be a defect)
    if s.diff > 512 then .oob
    else match decode s.win s.diff (512 - s.diff) with
      | .oob => .oob | .spin => .spin | .fail _ => .fail 1
      | .ok (ret, value) =>
        let step (s' : NewSp) (value : Nat) : NewSp :=
          if idx % 2 = 0 then { s' with pendingOff := some value }
          else { s' with ents := { offset := s'.pendingOff.getD 0, count := value } :: s'.ents, pendingOff := none }
        if ret > 0 then newLoop n (idx + 1) (step { s with diff := s.diff + ret } value)
        else if s.recordSize < 512 then .fail 1
        else if s.stream.length < 512 then .fail 1                       -- short read
        else match blit s.win 512 (s.stream.take 512) with
          | none => .oob
          | some win1 =>
            match decode win1 s.diff (1024 - s.diff) with
            | .oob => .oob | .spin => .spin | .fail _ => .fail 1
            | .ok (ret2, value2) =>
              if ret2 = 0 then .fail 1
              else match blit win1 0 ((win1.drop 512).take 512) with
                | none => .oob
                | some win2 =>
                  if s.diff + ret2 < 512 then .oob                       -- `diff = diff + ret - 512` would be negative
                  else newLoop n (idx + 1)
                    (step { s with win := win2, diff := s.diff + ret2 - 512, stream := s.stream.drop 512,
                                   recordSize := s.recordSize - 512 } value2)

/--
`read_gnu_new_sparse(fp, out)`: `stream` = the bytes the input stream can deliver, `recordSize` =
`out->record_size`.  Returns the map, the remaining record size and the rest of the stream.
-/
def readGnuNewSparse (stream : Bytes) (recordSize : Nat) : R (List SparseEnt × Nat × Bytes) :=
  if recordSize < 512 then .fail 1
  else if stream.length < 512 then .fail 1
  else
    let win := stream.take 512 ++ List.replicate 512 0
    match decode win 0 512 with
    | .oob => .oob | .spin => .spin | .fail _ => .fail 1
    | .ok (diff, count) =>
      if diff = 0 then .fail 1
      else if count = 0 ∨ count > Sqfs.Consts.tarMaxSparseEnt then .fail 1
      else match newLoop (count * 2) 0 { win := win, diff := diff, stream := stream.drop 512,
                                         recordSize := recordSize - 512, ents := [], pendingOff := none } with
        | .ok s => .ok (s.ents.reverse, s.recordSize, s.stream)
        | .fail c => .fail c | .oob => .oob | .spin => .spin

/-! ## old GNU sparse map (`read_sparse_map_old.c`) -/

/-- `parse(in, count, …)` with `in = buf + i`: entries of 24 bytes; `(stopped, entries)`, `stopped` = returned 1 -/
def oldParse (buf : Bytes) : Nat → Nat → List SparseEnt → R (Bool × List SparseEnt)
  | 0, _, acc => .ok (false, acc)
  | cnt + 1, i, acc =>
    match buf[i]?, buf[i + 12]? with
    | some a, some b =>
      -- since /repo 0f8c0bd an entry is in use if its numbers start with a digit or with 0x80 (positive base-256)
      if !(isDigit a || a.toNat = 128) || !(isDigit b || b.toNat = 128) then .ok (true, acc)
      else match readNumber buf i 12 with
        | .oob => .oob | .spin => .spin | .fail c => .fail c
        | .ok off =>
          match readNumber buf (i + 12) 12 with
          | .oob => .oob | .spin => .spin | .fail c => .fail c
          | .ok sz => oldParse buf cnt (i + 24) (acc ++ [{ offset := off, count := sz }])
    | _, _ => .oob

/-- the `do … while` over extension records of 512 bytes (21 entries, `isextended` at offset 504) -/
def oldExt : Nat → Bytes → List SparseEnt → R (List SparseEnt × Bytes)
  | 0, _, _ => .spin
  | fuel + 1, stream, acc =>
    if stream.length < 512 then .fail 2                                  -- unexpected end-of-file
    else
      let blk := stream.take 512
      match oldParse blk 21 0 acc with
      | .oob => .oob | .spin => .spin | .fail c => .fail c
      | .ok (stopped, acc') =>
        match blk[504]? with
        | none => .oob
        | some ext =>
          if !stopped && ext.toNat ≠ 0 then oldExt fuel (stream.drop 512) acc'
          else .ok (acc', stream.drop 512)

/-- `read_gnu_old_sparse(fp, hdr)`: `hdr` = the 512 header bytes (4 entries at 386, `isextended` at 482) -/
def readGnuOldSparse (hdr stream : Bytes) : R (List SparseEnt × Bytes) :=
  match oldParse hdr 4 386 [] with
  | .oob => .oob | .spin => .spin | .fail c => .fail c
  | .ok (stopped, acc) =>
    match hdr[482]? with
    | none => .oob
    | some ext =>
      if stopped || ext.toNat = 0 then .ok (acc, stream)
      else oldExt (stream.length / 512 + 1) stream acc

end Sqfs.ParseTotal
