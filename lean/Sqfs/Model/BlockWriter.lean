/-
Model of `lib/sqfs/src/block_writer.c` (the default block writer) together with
`lib/util/src/file_cmp.c` (`check_file_range_equal`) and the part of the
`sqfs_file_t` contract the two rely on (`lib/sqfs/src/io/file.c`, POSIX branch).

Shared by C08 (deduplication never changes data), C02 and C17 (they extend it
into the full `BlockProc`/`specPack` model).

Conventions
* The output file is the list of its bytes.  `get_size` = `length`.
* `wr->blocks` (an `array_t` of `blk_info_t {offset, hash}`) is a `List Entry`;
  the 64-bit `hash = (size << 32) | chksum` is kept as its two 32-bit halves
  `word` (the upper half: on-disk size with bit 24 set for "stored raw") and
  `chk` (the lower half); comparing the `u64`s is comparing both halves.
* The checksum is an **argument** of `write_data_block` (it is computed by the
  worker, `process_block`), so every statement about this model quantifies over
  all checksum *values*, not merely over all checksum functions.
* `size` is `data.length`; it is a `sqfs_u32` in C, so the model coincides with
  the C code for blocks shorter than 2^32 bytes (the theorems ask for < 2^24,
  the width of the size field; the block processor never exceeds
  `max_block_size ≤ 2^20`).
* Array indices that would be out of bounds in C (undefined behaviour) make the
  model return `Err.internal`; `Sqfs.C08.bw_no_error` proves this unreachable.
-/
import Sqfs.Generated.Consts
namespace Sqfs.BlockWriter
open Sqfs.Consts

abbrev Bytes := List UInt8

/-- `flags & c` as a truth value. -/
def hasFlag (flags c : Nat) : Bool := flags &&& c != 0

inductive Err where
  | outOfBounds   -- SQFS_ERROR_OUT_OF_BOUNDS from `read_at`
  | internal      -- C would index outside `wr->blocks` (undefined behaviour); proved unreachable
deriving DecidableEq, Repr

/-! ### `sqfs_file_t` (file.c, POSIX branch) -/

/-- bytes `[off, off+n)` of `f` (total; short when the range leaves the file) -/
def slice (f : Bytes) (off n : Nat) : Bytes := (f.drop off).take n

/-- `stdio_read_at`: the `pread` loop returns `SQFS_ERROR_OUT_OF_BOUNDS` as soon as `pread` hits end of
file with bytes still wanted; a zero-length read succeeds anywhere. -/
def readAt (f : Bytes) (off n : Nat) : Option Bytes :=
  if n = 0 then some []
  else if off + n ≤ f.length then some (slice f off n) else none

/-- `stdio_write_at` (`pwrite`): bytes before `off` kept (zero filled when the file is shorter), `data`, then
whatever was behind. The block writer only ever calls it with `off = get_size`. -/
def writeAt (f : Bytes) (off : Nat) (data : Bytes) : Bytes :=
  if data.isEmpty then f
  else f.take off ++ List.replicate (off - f.length) 0 ++ data ++ f.drop (off + data.length)

/-- `stdio_truncate` (`ftruncate`): cut, or extend with zero bytes. -/
def truncate (f : Bytes) (size : Nat) : Bytes :=
  f.take size ++ List.replicate (size - f.length) 0

/-! ### `check_file_range_equal` (file_cmp.c) -/

/-- `SCRATCH_SIZE` of block_writer.c -/
def scratchSize : Nat := 8192

/-- The `while (size > 0)` loop; `fuel` bounds the iterations (every iteration consumes ≥ 1 byte, the
caller passes `fuel = size`). `true` = C returns 0 (equal), `false` = C returns 1. -/
def rangeEqGo (f : Bytes) : (fuel locA locB size : Nat) → Except Err Bool
  | 0, _, _, size => if size = 0 then .ok true else .error .internal
  | fuel + 1, locA, locB, size =>
    if size = 0 then .ok true
    else
      let diff := min (scratchSize / 2) size
      match readAt f locA diff with
      | none => .error .outOfBounds
      | some a =>
        match readAt f locB diff with
        | none => .error .outOfBounds
        | some b =>
          if a != b then .ok false
          else rangeEqGo f fuel (locA + diff) (locB + diff) (size - diff)

def checkFileRangeEqual (f : Bytes) (locA locB size : Nat) : Except Err Bool :=
  rangeEqGo f size locA locB size

/-! ### the history -/

/-- `blk_info_t`; `word`/`chk` are the upper/lower 32 bits of `hash`. -/
structure Entry where
  offset : Nat
  word   : Nat
  chk    : UInt32
deriving DecidableEq, Repr

/-- `SIZE_FROM_HASH(hash) = (hash >> 32) & ((1 << 24) - 1)` -/
def Entry.size (e : Entry) : Nat := e.word % 2 ^ 24

/-- `blocks[a].hash == blocks[b].hash` -/
def Entry.sameHash (a b : Entry) : Bool := a.word == b.word && a.chk == b.chk

/-- `out = size; if (!(flags & SQFS_BLK_IS_COMPRESSED)) out |= 1 << 24;` -/
def mkWord (size : Nat) (flags : Nat) : Nat :=
  if hasFlag flags blkIsCompressed then size else size ||| (1 <<< 24)

structure State where
  file      : Bytes
  blocks    : List Entry
  fileStart : Nat
  /-- `wr->flags & SQFS_BLOCK_WRITER_HASH_COMPARE_ONLY` (documented opt-out of the byte comparison;
  `lib/common/src/writer/init.c` creates the writer with flags 0) -/
  hashOnly  : Bool := false
deriving Repr

/-- `sqfs_block_writer_create(file, flags)` on a file that already holds `pre` (the tools: the
provisional super block). -/
def init (pre : Bytes) (wrFlags : Nat := 0) : State :=
  { file := pre, blocks := [], fileStart := 0, hashOnly := hasFlag wrFlags blockWriterHashCompareOnly }

/-! ### `deduplicate_blocks` -/

/-- The inner `for (j = 0; j < count; ++j) if (blocks[i+j].hash != blocks[file_start+j].hash) break;`
followed by the test `j != count`.  `rem = count - j`. `some true` ⇔ `j` reached `count`. -/
def hashRun (blocks : List Entry) (i fs : Nat) : (rem j : Nat) → Option Bool
  | 0, _ => some true
  | rem + 1, j =>
    match blocks[i + j]?, blocks[fs + j]? with
    | some a, some b => if a.sameHash b then hashRun blocks i fs rem (j + 1) else some false
    | _, _ => none

/-- The outer `for (i = 0; i < wr->file_start; ++i)`; `fuel = file_start - i`.  Returns the value of `i`
after the loop (`= file_start` when nothing matched). -/
def findMatch (s : State) (count locA sz : Nat) : (fuel i : Nat) → Except Err Nat
  | 0, i => .ok i
  | fuel + 1, i =>
    match hashRun s.blocks i s.fileStart count 0 with
    | none => .error .internal
    | some false => findMatch s count locA sz fuel (i + 1)          -- `continue`
    | some true =>
      if s.hashOnly then .ok i                                       -- `break`
      else
        match s.blocks[i]? with
        | none => .error .internal
        | some bi =>
          match checkFileRangeEqual s.file locA bi.offset sz with
          | .error e => .error e                                     -- `return ret`
          | .ok true => .ok i                                        -- `break`
          | .ok false => findMatch s count locA sz fuel (i + 1)

/-- `deduplicate_blocks(wr, flags, out)`; result = new state and `*out`. -/
def deduplicateBlocks (s : State) (flags : Nat) : Except Err (State × Nat) :=
  -- `count = wr->blocks.used - wr->file_start` is a `size_t` difference; `file_start ≤ used` always
  -- (`bw_no_error`), otherwise C indexes out of bounds
  if s.fileStart > s.blocks.length then .error .internal
  else
    let count := s.blocks.length - s.fileStart
    if count = 0 then .ok (s, 0)
    else
      match s.blocks[s.fileStart]? with
      | none => .error .internal
      | some b0 =>
        if hasFlag flags blkDontDeduplicate then .ok (s, b0.offset)
        else
          -- `for (i = 0; i < count; ++i) sz += SIZE_FROM_HASH(blocks[file_start + i].hash)`
          let sz := ((s.blocks.drop s.fileStart).map Entry.size).sum
          match findMatch s count b0.offset sz s.fileStart 0 with
          | .error e => .error e
          | .ok i =>
            match s.blocks[i]? with
            | none => .error .internal
            | some bi =>
              if i ≥ s.fileStart then .ok (s, bi.offset)
              else
                let used := if count ≥ s.fileStart - i then i + count else s.fileStart
                match s.blocks[used - 1]? with
                | none => .error .internal
                | some bl =>
                  .ok ({ s with blocks := s.blocks.take used,
                                file := truncate s.file (bl.offset + bl.size) }, bi.offset)

/-! ### `write_data_block` -/

/-- `write_data_block(base, user, size, checksum, flags, data, location)` with `size = data.length`. -/
def writeDataBlock (s : State) (chk : UInt32) (flags : Nat) (data : Bytes) : Except Err (State × Nat) :=
  let s1 := if hasFlag flags blkFirstBlock then { s with fileStart := s.blocks.length } else s
  let loc := s1.file.length
  let s2 :=
    if data.length != 0 && !hasFlag flags blkIsSparse then
      { s1 with blocks := s1.blocks ++ [⟨loc, mkWord data.length flags, chk⟩],
                file := writeAt s1.file loc data }
    else s1
  if hasFlag flags blkLastBlock then deduplicateBlocks s2 flags else .ok (s2, loc)

/-- one `write_data_block` call -/
structure Call where
  chk   : UInt32
  flags : Nat
  data  : Bytes
deriving Repr

/-- A sequence of calls; collects the returned locations. Stops at the first error, as the block
processor does. -/
def run (s : State) : List Call → Except Err (State × List Nat)
  | [] => .ok (s, [])
  | c :: cs =>
    match writeDataBlock s c.chk c.flags c.data with
    | .error e => .error e
    | .ok (s', loc) =>
      match run s' cs with
      | .error e => .error e
      | .ok (s'', locs) => .ok (s'', loc :: locs)

end Sqfs.BlockWriter
