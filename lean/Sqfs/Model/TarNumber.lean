/-
Model of the numeric field codec of `lib/tar`:

* reader: `lib/tar/src/number.c` (`read_number`, `read_octal`, `read_binary`),
* writer: the static helpers `write_number`, `write_binary`, `write_number_signed`
  of `lib/tar/src/write_header.c`.

A header field is the list of its `digits` bytes.  `sqfs_u64` quantities are
`Nat`s below `2^64`; every place where the C code relies on 64-bit wrap-around
(`result << 8` in `read_binary`, `~neg + 1` in `write_number_signed`) has an
explicit `% 2^64`.

`read_binary` exists twice: `readBinary` mirrors the **repaired** overflow
guard (`fixes/C04-read-binary-overflow.patch`: the sign decides which top byte
is acceptable before a shift, and a negative result must keep its sign bit);
`Sqfs/Witness/C04.lean` keeps the guard of the unrepaired code
(`ov != 0 && ov != 0xFF`, sign-blind), which wraps silently.
-/
namespace Sqfs.Tar

abbrev Bytes := List UInt8

/-- `2^64` -/
abbrev U64 : Nat := 18446744073709551616

/-- the bytes of an ASCII string literal (reduces in the kernel, unlike `String.toUTF8`) -/
def ascii (s : String) : Bytes := s.toList.map fun c => UInt8.ofNat c.toNat

/-- `isspace` in the "C" locale -/
def isSpace (c : UInt8) : Bool := c.toNat = 32 || (9 ≤ c.toNat && c.toNat ≤ 13)

/-- `*str >= '0' && *str <= '7'` -/
def isOctDigit (c : UInt8) : Bool := 48 ≤ c.toNat && c.toNat ≤ 55

/-- first loop of `read_octal`: `while (digits > 0 && isspace(*str))` -/
def skipSpaces : Bytes → Bytes
  | [] => []
  | c :: t => if isSpace c then skipSpaces t else c :: t

/-- second loop of `read_octal`; `none` = "numeric overflow parsing tar header" -/
def octLoop (result : Nat) : Bytes → Option Nat
  | [] => some result
  | c :: t =>
    if isOctDigit c then
      if result > 0x1FFFFFFFFFFFFFFF then none
      else octLoop (result * 8 + (c.toNat - 48)) t      -- `(result << 3) | (c - '0')`
    else some result

def readOctal (f : Bytes) : Option Nat := octLoop 0 (skipSpaces f)

/--
Loop of `read_binary` after the first byte.  `neg` = the first byte was 0xFF.
Repaired guard: before a shift the top byte must be 0 for a non-negative and
0xFF for a negative number.
-/
def binLoop (neg : Bool) (result : Nat) : Bytes → Option Nat
  | [] => some result
  | x :: t =>
    let ov := result / 72057594037927936                -- `(result >> 56) & 0xFF`
    if (if neg then ov ≠ 255 else ov ≠ 0) then none
    else binLoop neg ((result * 256 + x.toNat) % U64) t -- `(result << 8) | x` in 64 bits

/--
`read_binary`.  First byte 0xFF: negative, `result` starts as all-ones (and is
still all-ones after the first iteration).  Otherwise the low 7 bits are the
most significant digit, which must be zero when more than 7 bytes follow.
Repaired code: a negative number whose sign bit got shifted out is an overflow.
-/
def readBinary : Bytes → Option Nat
  | [] => some 0
  | b0 :: t =>
    if b0.toNat = 255 then
      match binLoop true (U64 - 1) t with
      | some r => if r < 9223372036854775808 then none else some r
      | none => none
    else
      let x := b0.toNat % 128
      if t.length > 7 ∧ x ≠ 0 then none
      else binLoop false x t

/-- `read_number`: dispatch on the top bit of the first byte. (Never called with `digits = 0`.) -/
def readNumber : Bytes → Option Nat
  | [] => some 0
  | b0 :: t => if b0.toNat ≥ 128 then readBinary (b0 :: t) else readOctal (b0 :: t)

/-! ### the unrepaired `read_binary` (what /repo does before `fixes/C04-read-binary-overflow.patch`)
Kept executable so that the check can recognise the known finding; `Sqfs/Witness/C04.lean` proves that it
wraps silently. -/

/-- loop of the unrepaired `read_binary`: sign-blind guard `ov != 0 && ov != 0xFF` -/
def binLoopCur (result : Nat) : Bytes → Option Nat
  | [] => some result
  | x :: t =>
    let ov := result / 72057594037927936
    if ov ≠ 0 ∧ ov ≠ 255 then none
    else binLoopCur ((result * 256 + x.toNat) % U64) t

def readBinaryCur : Bytes → Option Nat
  | [] => some 0
  | b0 :: t =>
    if b0.toNat = 255 then binLoopCur (U64 - 1) t
    else
      let x := b0.toNat % 128
      if t.length > 7 ∧ x ≠ 0 then none else binLoopCur x t

def readNumberCur : Bytes → Option Nat
  | [] => some 0
  | b0 :: t => if b0.toNat ≥ 128 then readBinaryCur (b0 :: t) else readOctal (b0 :: t)

/-! ### writer (`write_header.c`) -/

/-- `n` octal digits of `v`, most significant first (`"%0*lo"` for `v < 8^n`) -/
def octDigits : Nat → Nat → Bytes
  | 0, _ => []
  | n + 1, v => UInt8.ofNat (48 + v / 8 ^ n % 8) :: octDigits n v

/-- `n` base-256 digits of `v`, most significant first (the `while (digits > 0)` loop of `write_binary`) -/
def beBytes : Nat → Nat → Bytes
  | 0, _ => []
  | n + 1, v => UInt8.ofNat (v / 256 ^ n % 256) :: beBytes n v

/-- `write_binary`: big endian, then `dst[0] |= 0x80`. `value < 2^64`. -/
def writeBinary (v w : Nat) : Bytes :=
  match beBytes w v with
  | [] => []
  | b0 :: t => (b0 ||| 128) :: t

/--
`write_number` for field widths `2 ≤ w ≤ 21` (the callers use 8 and 12; for these
widths `mask = 8^(w-1) - 1` and `(mask << 3) | 7 = 8^w - 1` do not overflow 64 bits).
-/
def writeNumber (v w : Nat) : Bytes :=
  if v ≤ 8 ^ (w - 1) - 1 then octDigits (w - 1) v ++ [32]     -- `"%0*lo "`, w-1 digits and a blank
  else if v ≤ 8 ^ w - 1 then octDigits w v                     -- `"%0*lo"`, no terminator
  else writeBinary v w

/-- `write_number_signed` (`value : sqfs_s64`): negative values always go to `write_binary(~neg + 1)`. -/
def writeNumberSigned (v : Int) (w : Nat) : Bytes :=
  if v < 0 then writeBinary ((v + (U64 : Int)).toNat % U64) w
  else writeNumber v.toNat w

/-- `decode_header`'s conversion of the mtime field to `sqfs_s64`. -/
def toSigned (field : Nat) : Int :=
  if field ≥ 9223372036854775808 then (field : Int) - (U64 : Int) else (field : Int)

/-! ### checksum (`checksum.c`, `update_checksum`, `is_checksum_valid`) -/

def sumBytes : Bytes → Nat
  | [] => 0
  | b :: t => b.toNat + sumBytes t

/-- `tar_compute_checksum` on a 512-byte header: the 8 checksum bytes at offset 148 count as blanks. -/
def computeChecksum (h : Bytes) : Nat :=
  sumBytes (h.take 148) + 8 * 32 + sumBytes (h.drop 156)

/-- `sprintf(hdr->chksum, "%06o", sum); chksum[6] = 0; chksum[7] = ' '` (sum < 8^6: 512·255 = 130560 < 262144) -/
def chksumField (sum : Nat) : Bytes := octDigits 6 sum ++ [0, 32]

/-- `update_checksum` -/
def updateChecksum (h : Bytes) : Bytes :=
  h.take 148 ++ chksumField (computeChecksum h) ++ h.drop 156

/-- `is_checksum_valid` -/
def isChecksumValid (h : Bytes) : Bool :=
  match readNumber ((h.drop 148).take 8) with
  | some c => c == computeChecksum h
  | none => false

end Sqfs.Tar
