/-
C08 — the **call stream** of the block processor: which `write_data_block` calls the main thread makes, in
which order, and how the fragment path and the block writer are wired together.

`Model/BlockWriter.lean` is about one writer fed an arbitrary call sequence, `Model/FragDedup.lean` about the
fragment table with the content of a written fragment block as a *ghost* (`Place.written stored`).  This module
composes them the way `lib/sqfs/src/block_processor/{frontend.c, backend.c, block_processor.c}` does, so that
`Sqfs.C08` can prove
* the call stream obeys `BlockWriter.wfS` (a fragment block is never written between a `FIRST` and its `LAST`),
* the location recorded in the fragment table for a written fragment block holds, in the block writer's file,
  exactly the ghost `stored` bytes, at every later time.

What is modelled, and how
* **Front end** (`fileBlocks`): the blocks `sqfs_block_processor_begin_file` / `append` / `end_file` hand to
  `enqueue_block`, in order, with their flags: full blocks (the first carries `FIRST`), then — when the length is
  a multiple of the block size — the sentinel (`LAST`, empty, only if there was a block), else the tail end:
  with `DONT_FRAGMENT` a last block carrying `LAST`, otherwise the sentinel (if there was a full block) followed
  by the tail end flagged `IS_FRAGMENT`.  How `append` is called (chunking) does not change this list.
* **Worker** (`processBlock` = `process_block`, block_processor.c:10-48): pure function of the block;
  checksum `h` and codec are parameters; `Codec.cmp x = some z` ⇔ `do_block` returned `|z| > 0`.
* **Pool**: FIFO (`pool->dequeue` returns the items in submission order — `include/util/threadpool.h`, proved
  for both implementations by C09); items are stored already worked.
* **Schedule**: *when* the main thread submits, dequeues and releases is decided in C by the backlog accounting
  (`get_new_block`, the exits of `dequeue_block`, `sync`).  Here it is the **input**: a run is a list of events
  `file / submit / dequeue / complete / finish`, and every theorem holds for every such list.  The only
  guards are the ones the C control flow enforces locally: `complete` (one iteration of the release loop of
  `dequeue_block`) needs the head of `io_queue` to carry `io_deq_seq_num`; `finish` (the second half of
  `sqfs_block_processor_finish`) runs after `sqfs_block_processor_sync`, i.e. with pool and I/O queue empty.
  A refused event is `Err.badEvent`; the correspondence check replays the real processor's event order on
  every run and the model never refuses it.
* **Back end**: `dequeue` = `pool->dequeue` + backend.c:324-335 (fragment → `process_completed_fragment`, i.e.
  `FragDedup.processFragment`; when that closes the open fragment block the block gets `io_seq_num` **now**
  (backend.c:187) and goes to the pool; a data block gets its number at dequeue (backend.c:331); a fragment
  block coming back from the pool keeps the number it has); `store_io_block`.  `complete` =
  `process_completed_block`: `write_data_block` on the `BlockWriter` state with `flags & ~BLK_FLAG_INTERNAL`,
  then for a fragment block `sqfs_frag_table_set(index, location, size word)` and the `FragDedup` transition
  `blockWritten`.
* `BLK_FLAG_INTERNAL` / `BLK_FLAG_MANUAL_SUBMISSION` (internal.h, both 0x10000000) come from the generated constants
  (`tools/consts.d/C08.list`).
* Not modelled: inodes (block sizes, `block start`, fragment reference are the `W`/`D` answers of the driver
  and are compared by the check), `sqfs_block_processor_submit_block` (manual submission), allocation and I/O
  failures, the backlog counters.  `byteCompare` is `true` (how `lib/common/src/writer/init.c` configures the
  processor).
* `Err.internal`: the worked fragment block that reaches `process_completed_block` differs from what
  `FragDedup.blockWritten` says is stored (other bytes, other compressed bit, or marked sparse).  The two are computed
  from the same bytes by the same rule (`processBlock` vs. `blockWritten`); `Sqfs.C08.stream_no_error` proves this exit —
  like `Err.writer` and `Err.frag` — unreachable: a run can only end in `badEvent` or `unsupported`.
-/
import Sqfs.Generated.Consts
import Sqfs.Model.BlockWriter
import Sqfs.Model.FragDedup
namespace Sqfs.C08Stream
open Sqfs.Consts
open Sqfs.BlockWriter (hasFlag)

abbrev Bytes := List UInt8
abbrev Codec := Sqfs.FragDedup.Codec

/-- `flags & ~c` on a `sqfs_u32` -/
def clearFlag (flags c : Nat) : Nat := flags &&& (0xFFFFFFFF ^^^ c)

inductive Err where
  | unsupported                      -- SQFS_ERROR_UNSUPPORTED: `begin_file` with flags outside `SQFS_BLK_USER_SETTABLE_FLAGS`
  | badEvent                         -- the event is not possible in this state (see the header)
  | frag (e : FragDedup.Err)         -- `process_completed_fragment` failed
  | writer (e : BlockWriter.Err)     -- `write_data_block` failed
  | internal                         -- worked fragment block ≠ what `FragDedup.blockWritten` stores; proved unreachable
deriving DecidableEq, Repr

/-- `sqfs_block_t` as the main thread sees it -/
structure Blk where
  seq   : Nat := 0
  flags : Nat := 0
  data  : Bytes := []
  chk   : UInt32 := 0
  index : Nat := 0          -- fragment blocks: fragment-table index
deriving DecidableEq, Repr

/-! ### front end -/

/-- the `k` full blocks of `data` from offset `off` on (`fuel` = number of blocks) -/
def fullBlocks (B : Nat) (uflags : Nat) (data : Bytes) : (k : Nat) → (off : Nat) → (first : Bool) → List Blk
  | 0, _, _ => []
  | k + 1, off, first =>
    { flags := if first then uflags ||| blkFirstBlock else uflags, data := BlockWriter.slice data off B }
      :: fullBlocks B uflags data k (off + B) false

/-- what `begin_file(flags)`, `append(data)`…, `end_file` hand to `enqueue_block`, in order (frontend.c) -/
def fileBlocks (B : Nat) (uflags : Nat) (data : Bytes) : List Blk :=
  let n := data.length / B
  let tail := data.drop (n * B)
  let full := fullBlocks B uflags data n 0 true
  -- `blk_flags` after the full blocks: `FIRST` is still set iff there was none
  let bf := if n = 0 then uflags ||| blkFirstBlock else uflags
  let sentinel : List Blk := if n = 0 then [] else [{ flags := uflags ||| blkLastBlock }]
  if tail.length = 0 then full ++ sentinel                                        -- frontend.c:189-194
  else if hasFlag uflags blkDontFragment then
    full ++ [{ flags := bf ||| blkLastBlock, data := tail }]                      -- frontend.c:196-197
  else full ++ sentinel ++ [{ flags := bf ||| blkIsFragment, data := tail }]      -- frontend.c:199-206

/-! ### the worker: `process_block` -/

def allZero (d : Bytes) : Bool := d.all (· == 0)

def processBlock (codec : Codec) (h : Bytes → UInt32) (b : Blk) : Blk :=
  if b.data.length = 0 then b
  else if !hasFlag b.flags (blkIgnoreSparse ||| blkFragmentBlock) && allZero b.data then
    { b with flags := b.flags ||| blkIsSparse }
  else
    let b1 : Blk := { b with chk := if hasFlag b.flags blkDontHash then 0 else h b.data }
    if hasFlag b1.flags (blkIsFragment ||| blkDontCompress) then b1
    else match codec.cmp b1.data with
      | some z => { b1 with data := z, flags := b1.flags ||| blkIsCompressed }
      | none => b1

/-! ### state -/

structure State where
  B        : Nat
  /-- blocks the front end is going to enqueue (filled by `file` events, consumed by `submit`) -/
  pending  : List Blk := []
  /-- `proc->pool`: submitted items in order, already worked -/
  pool     : List Blk := []
  ioQueue  : List Blk := []
  ioSeq    : Nat := 0
  deqSeq   : Nat := 0
  fd       : FragDedup.State := {}
  bw       : BlockWriter.State
  /-- `sqfs_frag_table_t`: `(start_offset, size word)` -/
  fragTbl  : List (Nat × Nat) := []
  /-- ghost: the `write_data_block` calls made so far and the locations returned -/
  calls    : List BlockWriter.Call := []
  locs     : List Nat := []
  /-- ghost: the events the fragment model has seen -/
  fevs     : List FragDedup.Ev := []
  fres     : List (Option FragDedup.Res) := []

def init (B : Nat) (pre : Bytes) : State := { B := B, bw := BlockWriter.init pre }

/-! ### back end -/

/-- `store_io_block`: insert before the first element whose sequence number is not smaller -/
def storeIo (b : Blk) : List Blk → List Blk
  | [] => [b]
  | x :: t => if x.seq < b.seq then x :: storeIo b t else b :: x :: t

/-- the fragment block that `process_completed_fragment` handed to `enqueue_block`, if any: the block that was
open before and is not the open block any more -/
def closedIdx (st st' : FragDedup.State) : Option Nat :=
  match FragDedup.openIndex st with
  | some i => if FragDedup.openIndex st' = some i then none else some i
  | none => none

/-- backend.c:187-190 / block_processor.c:240-247: fragment block `i` (closed in `fd`) gets the next I/O sequence
number and is enqueued: the worker runs, the pool holds it -/
def enqueueFragBlock (codec : Codec) (h : Bytes → UInt32) (s : State) (i : Nat) : State :=
  match s.fd.blocks[i]? with
  | none => s
  | some fb =>
    let blk : Blk := { seq := s.ioSeq, flags := fb.flags, data := fb.data, index := i }
    { s with ioSeq := s.ioSeq + 1, pool := s.pool ++ [processBlock codec h blk] }

/-- new fragment blocks get a `(0, 0)` entry (`sqfs_frag_table_append`, backend.c:201) -/
def growTbl (tbl : List (Nat × Nat)) (n : Nat) : List (Nat × Nat) := tbl ++ List.replicate (n - tbl.length) (0, 0)

/-- what an event answers (compared with the real processor's event log by the check) -/
inductive Out where
  | blocks (n : Nat)                                         -- `file`
  | submitted (b : Blk)                                      -- `submit`: the block before the worker ran
  | fragment (b : Blk) (r : FragDedup.Res) (closed : Option (Nat × Nat))   -- `dequeue` of a tail end; closed = (index, seq)
  | numbered (b : Blk)                                       -- `dequeue` of a data block (with its new number)
  | fragBlock (b : Blk)                                      -- `dequeue` of a fragment block
  | written (c : BlockWriter.Call) (loc size nblocks : Nat)  -- `complete`
  | finished (closed : Option (Nat × Nat))                   -- `finish`
deriving Repr

inductive Ev where
  | file (uflags : Nat) (data : Bytes)
  | submit
  | dequeue
  | complete
  | finish
deriving Repr

/-- `process_completed_fragment(proc, frag)` (backend.c:130-264) -/
def handleFragment (codec : Codec) (h : Bytes → UInt32) (s : State) (frag : Blk) : Except Err (State × Out) :=
  match FragDedup.processFragment codec h true s.B s.fd frag.data frag.flags with
  | .error e => .error (.frag e)
  | .ok (r, fd') =>
    let s1 : State := { s with fd := fd', fragTbl := growTbl s.fragTbl fd'.blocks.length,
                               fevs := s.fevs ++ [.frag frag.data frag.flags], fres := s.fres ++ [some r] }
    match closedIdx s.fd fd' with
    | none => .ok (s1, .fragment frag r none)
    | some i => .ok (enqueueFragBlock codec h s1 i, .fragment frag r (some (i, s1.ioSeq)))

/-- `process_completed_block(proc, blk)` (backend.c:55-128) -/
def completeBlock (codec : Codec) (s : State) (b : Blk) : Except Err (State × Out) :=
  let fl := clearFlag b.flags blkFlagInternal
  match BlockWriter.writeDataBlock s.bw b.chk fl b.data with
  | .error e => .error (.writer e)
  | .ok (bw', loc) =>
    let s1 : State := { s with bw := bw', calls := s.calls ++ [⟨b.chk, fl, b.data⟩], locs := s.locs ++ [loc] }
    let out := Out.written ⟨b.chk, fl, b.data⟩ loc bw'.file.length bw'.blocks.length
    if hasFlag b.flags blkFragmentBlock then
      -- backend.c:61-77: the in-flight copy is dropped; the block is on disk
      match FragDedup.blockWritten codec s.fd b.index with
      | .error e => .error (.frag e)
      | .ok fd' =>
        match fd'.blocks[b.index]? with
        | some ⟨_, .written stored cmp, _⟩ =>
          if stored = b.data ∧ cmp = hasFlag b.flags blkIsCompressed ∧ hasFlag b.flags blkIsSparse = false then
            let s2 : State := { s1 with fd := fd', fevs := s.fevs ++ [.written b.index], fres := s.fres ++ [none] }
            -- backend.c:98-111: `sqfs_frag_table_set(tbl, index, location, size | raw-bit)`
            if b.data.length != 0 then
              .ok ({ s2 with fragTbl := s2.fragTbl.set b.index (loc, BlockWriter.mkWord b.data.length b.flags) }, out)
            else .ok (s2, out)
          else .error .internal
        | _ => .error .internal
    else .ok (s1, out)

def step (codec : Codec) (h : Bytes → UInt32) (s : State) : Ev → Except Err (State × Out)
  | .file uflags data =>
    if uflags &&& blkUserSettable != uflags then .error .unsupported        -- frontend.c:91
    else
      let bs := fileBlocks s.B uflags data
      .ok ({ s with pending := s.pending ++ bs }, .blocks bs.length)
  | .submit =>
    match s.pending with
    | [] => .error .badEvent
    | b :: rest => .ok ({ s with pending := rest, pool := s.pool ++ [processBlock codec h b] }, .submitted b)
  | .dequeue =>
    match s.pool with
    | [] => .error .badEvent
    | blk :: rest =>
      let s0 := { s with pool := rest }
      if hasFlag blk.flags blkIsFragment then handleFragment codec h s0 blk
      else if !hasFlag blk.flags blkFragmentBlock || hasFlag blk.flags blkFlagManualSubmission then
        let b' := { blk with seq := s0.ioSeq }
        .ok ({ s0 with ioSeq := s0.ioSeq + 1, ioQueue := storeIo b' s0.ioQueue }, .numbered b')
      else .ok ({ s0 with ioQueue := storeIo blk s0.ioQueue }, .fragBlock blk)
  | .complete =>
    match s.ioQueue with
    | [] => .error .badEvent
    | b :: rest =>
      if b.seq != s.deqSeq then .error .badEvent
      else completeBlock codec { s with ioQueue := rest, deqSeq := s.deqSeq + 1 } b
  | .finish =>
    -- block_processor.c:236: `sync` has drained the pool and the I/O queue
    if !(s.pending.isEmpty && s.pool.isEmpty && s.ioQueue.isEmpty) then .error .badEvent
    else
      match FragDedup.openIndex s.fd with
      | none => .ok ({ s with fevs := s.fevs ++ [.finish], fres := s.fres ++ [none] }, .finished none)
      | some i =>
        let s1 : State := { s with fd := FragDedup.closeOpen s.fd, fevs := s.fevs ++ [.finish], fres := s.fres ++ [none] }
        .ok (enqueueFragBlock codec h s1 i, .finished (some (i, s1.ioSeq)))

def run (codec : Codec) (h : Bytes → UInt32) (s : State) : List Ev → Except Err (State × List Out)
  | [] => .ok (s, [])
  | e :: es =>
    match step codec h s e with
    | .error x => .error x
    | .ok (s', o) =>
      match run codec h s' es with
      | .error x => .error x
      | .ok (s'', os) => .ok (s'', o :: os)

/-! ### what a reader gets from the *file* -/

/-- `load_frag_block` / `precache_fragment_block` on the block writer's file: read `size` bytes at the table's
`start_offset`, uncompress unless the raw bit is set -/
def fileReadBlock (codec : Codec) (s : State) (idx : Nat) : Option Bytes :=
  match s.fragTbl[idx]? with
  | none => none
  | some (loc, word) =>
    match BlockWriter.readAt s.bw.file loc (word % 2 ^ 24) with
    | none => none
    | some raw => if word &&& (1 <<< 24) != 0 then some raw else codec.unc raw

end Sqfs.C08Stream
