/-
C01 — directory listings.

Writer: `Sqfs.DirWriter` (C03) already models `sqfs_dir_writer_add_entry`, `get_conseq_entry_count`, `add_header`,
`sqfs_dir_writer_end`, `sqfs_dir_writer_create_inode` and the byte encoding of headers and entries
(`encodeRun`).  Here: the listing as one byte string, the bridge from `createInode` to `Sqfs.Enc.Inode`, and the
reader — `sqfs_readdir_state_init`, `sqfs_meta_reader_read_dir_header`, `sqfs_meta_reader_read_dir_ent`,
`sqfs_meta_reader_readdir` (`lib/sqfs/src/readdir.c`) as driven by `sqfs_dir_reader_open_dir` /
`sqfs_dir_reader_read` (`lib/sqfs/src/dir_reader.c`, no dot entries) — on the flat directory stream.
-/
import Sqfs.Model.EncInode
import Sqfs.Model.DirWriter
namespace Sqfs.Enc
open Sqfs.Consts
open Sqfs.DirWriter (DEnt Run dirEnd encodeRun dirSizeOf createInode DirInode)

/-- everything `sqfs_dir_writer_end` appends to the directory meta writer for one directory -/
def encListing (blkCost blk off : Nat) (ents : List DEnt) : Bytes :=
  ((dirEnd blkCost blk off ents).map encodeRun).flatten

/-- `sqfs_dir_writer_get_size` afterwards -/
def listingSize (blkCost blk off : Nat) (ents : List DEnt) : Nat := dirSizeOf (dirEnd blkCost blk off ents)

/-- the `sqfs_inode_generic_t` built by `sqfs_dir_writer_create_inode` (dir_writer.c:359-430), from the C03 model of
its field computations; base fields are zero (`alloc_flex` = calloc) -/
def DirInode.toInode (d : DirInode) : Inode :=
  let b : Base := ⟨0, 0, 0, 0, 0⟩
  if d.ext then
    .dirExt b d.nlink d.size d.startBlock d.parent d.indexCount d.offset d.xattr
      (d.index.map (fun e => ⟨e.1, e.2.1, e.2.2⟩))
  else .dir b d.startBlock d.nlink d.size d.offset d.parent

/-! ### the reader -/

/-- `sqfs_readdir_state_t`; `(block, offset)` is the rest of the flat directory stream -/
structure RdState where
  rest : Bytes
  size : Nat
  entries : Nat
  inumBase : Nat
  inodeBlock : Nat
  deriving Repr, DecidableEq

/-- what one successful `sqfs_meta_reader_readdir` / `sqfs_dir_reader_read` hands out: the `sqfs_dir_node_t`
(name, type), `*inum` and `*iref` -/
structure DirEntry where
  name : Bytes
  inum : Nat
  typ : Nat
  ref : Nat
  deriving Repr, DecidableEq

/-- `sqfs_readdir_state_init` (readdir.c:71-91) for a directory inode whose listing starts at the head of `stream`;
`none` = `SQFS_ERROR_NOT_DIR` -/
def openDir (i : Inode) (stream : Bytes) : Option RdState :=
  match i with
  | .dir _ _ _ sz _ _ => some ⟨stream, sz, 0, 0, 0⟩
  | .dirExt _ _ sz _ _ _ _ _ _ => some ⟨stream, sz, 0, 0, 0⟩
  | _ => none

inductive RdRes where
  | ent (e : DirEntry) (s : RdState)
  | eof
  | err (e : Status)
  deriving Repr, DecidableEq

/-- `it->inum_base + (*ent)->inode_diff` in `sqfs_u32` arithmetic (`inode_diff` is a `sqfs_s16`) (readdir.c:141) -/
def addDiff (base d16 : Nat) : Nat :=
  (base + (if d16 < 32768 then d16 else d16 + 4294967296 - 65536)) % 4294967296

/-- the entry half of `sqfs_meta_reader_readdir` (readdir.c:120-149) -/
def readdirEnt (s : RdState) : RdRes :=
  if s.size ≤ sizeofDirNode then .eof                                                       -- :120
  else
    match readFields [2, 2, 2, 2] s.rest with                                                -- read_dir_ent :40-51
    | .ok ([off, diff, typ, sz], r) =>
      match take? (sz + 1) r with                                                            -- :58
      | .ok (name, r) =>
        let size1 := s.size - sizeofDirNode                                                  -- :131
        let count := sz + 1                                                                  -- :134
        let size2 := if count ≥ size1 then 0 else size1 - count                              -- :136-140
        .ent ⟨name, addDiff s.inumBase diff, typ, (s.inodeBlock <<< 16) ||| off⟩
          { s with rest := r, size := size2, entries := s.entries - 1 }
      | .error e => .err e
    | .ok _ => .err errInternal
    | .error e => .err e

/-- `sqfs_meta_reader_readdir` (readdir.c:93-155) -/
def readdir (s : RdState) : RdRes :=
  if s.entries = 0 then
    if s.size ≤ sizeofDirHeader then .eof                                                    -- :103
    else
      match readFields [4, 4, 4] s.rest with                                                 -- read_dir_header :21-36
      | .ok ([count, startBlock, inodeNumber], r) =>
        if count > maxDirEnt - 1 then .err errCorrupted                                      -- :32
        else readdirEnt { rest := r, size := s.size - sizeofDirHeader, entries := count + 1,
                          inumBase := inodeNumber, inodeBlock := startBlock }                -- :114-118
      | .ok _ => .err errInternal
      | .error e => .err e
  else readdirEnt s

/-- `sqfs_dir_reader_read` until it returns 1; every call consumes ≥ 9 bytes of `size`, so `size + 1` calls end it -/
def readAllGo : Nat → RdState → Except Status (List DirEntry)
  | 0, _ => .error errInternal
  | f + 1, s =>
    match readdir s with
    | .eof => .ok []
    | .err e => .error e
    | .ent e s' =>
      match readAllGo f s' with
      | .ok l => .ok (e :: l)
      | .error e => .error e

def readListing (s : RdState) : Except Status (List DirEntry) := readAllGo (s.size + 1) s

/-- the entry a reader must hand out for a written entry -/
def DEnt.toEntry (e : DEnt) : DirEntry := ⟨e.name, e.inodeNum, e.typ, e.inodeRef⟩

/-- what `add_entry` (repaired) admits, plus the C types of its arguments (`sqfs_u32 inode_num`, a 48-bit
`inode_ref`: 32-bit block start, 16-bit offset) -/
def WfDEnt (e : DEnt) : Prop :=
  1 ≤ e.name.length ∧ e.name.length ≤ 65536 ∧ e.inodeNum < 2 ^ 32 ∧ e.typ < 65536 ∧ e.inodeRef < 2 ^ 48

instance (e : DEnt) : Decidable (WfDEnt e) := by unfold WfDEnt; exact inferInstance

end Sqfs.Enc
