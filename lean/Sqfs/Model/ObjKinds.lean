import Sqfs.Generated.Consts
/-!
State-machine models of the copyable kinds whose answers depend on mutable state, used for `copy_equiv_*`
(C19) and run against the real objects by `sqfsmodel c19 tbl`:

* `Arr` — `lib/util/src/array.c` (`array_t`: element count `used`, capacity `count`, `array_append` doubling from
  128, `array_init_copy` allocating exactly `used` elements);
* id table — `lib/sqfs/src/id_table.c` (`sqfs_id_table_id_to_index`, `sqfs_id_table_index_to_id`, `id_table_copy`);
* fragment table — `lib/sqfs/src/frag_table.c` (`append`, `lookup`, `set`, `get_size`, `frag_table_copy`).

Allocation failure is not modelled here (it is in `Sqfs.Model.Obj`), so `array_append` always succeeds.
-/
namespace Sqfs.Obj.Kinds
open Sqfs.Consts

/-- `array_t` with the element size fixed by the owner: `count` = capacity, `data` = the `used` elements -/
structure Arr (α : Type) where
  count : Nat
  data : List α
  deriving Repr, DecidableEq

/-- `array_init(&a, size, 0)` -/
def Arr.empty {α : Type} : Arr α := ⟨0, []⟩

/-- `array_append`: grows to 128, then doubles, when `used == count` -/
def Arr.append {α : Type} (a : Arr α) (x : α) : Arr α :=
  if a.data.length = a.count then ⟨if a.count = 0 then 128 else a.count * 2, a.data ++ [x]⟩
  else ⟨a.count, a.data ++ [x]⟩

/-- `array_init_copy`: `array_init(dst, src->size, src->used)` + `memcpy` of the used part -/
def Arr.initCopy {α : Type} (a : Arr α) : Arr α := ⟨a.data.length, a.data⟩

/-- capacity after `n` more `array_append`s to an array of capacity `c` that holds `len` elements -/
def capAfter : Nat → Nat → Nat → Nat
  | 0, c, _ => c
  | n + 1, c, len => capAfter n (if len = c then (if c = 0 then 128 else c * 2) else c) (len + 1)

/-- `xs.length` calls of `array_append` in one step (`Sqfs.Obj.Kinds.Arr.appendAll_eq_foldl`: the same array) -/
def Arr.appendAll {α : Type} (a : Arr α) (xs : List α) : Arr α := ⟨capAfter xs.length a.count a.data.length, a.data ++ xs⟩

/-- `array_set` -/
def Arr.set {α : Type} (a : Arr α) (i : Nat) (x : α) : Option (Arr α) :=
  if i < a.data.length then some ⟨a.count, a.data.set i x⟩ else none

/-! ### id table -/

abbrev IdTable := Arr Nat

inductive IdOp where
  | add (id : Nat)      -- `sqfs_id_table_id_to_index`
  | get (idx : Nat)     -- `sqfs_id_table_index_to_id`
  deriving Repr, DecidableEq

/-- `if (tbl->ids.used >= 0xFFFF) return SQFS_ERROR_OVERFLOW;` (`sqfs_id_table_id_to_index`): the table never holds more
than 0xFFFF ids -/
def idLimit : Nat := 0xFFFF

/-- answer = (return value, out parameter; 0 when the call failed) -/
def idStep (t : IdTable) : IdOp → IdTable × (Int × Nat)
  | .add id =>
    match t.data.idxOf? id with
    | some i => (t, (0, i))
    | none =>
      if t.data.length ≥ idLimit then (t, (c19ErrOverflow, 0))
      else (t.append id, (0, t.data.length))
  | .get idx =>
    match t.data[idx]? with
    | some id => (t, (0, id))
    | none => (t, (c19ErrOutOfBounds, 0))

/-- the table after the ids `0 … n-1` were added to an empty table, one `sqfs_id_table_id_to_index` each
(`Sqfs.Obj.Kinds.idFill_eq_adds`); the harness builds the same state with `n` calls of `array_append` -/
def idFill (n : Nat) : IdTable := (Arr.empty : IdTable).appendAll (List.range n)

/-- `id_table_copy` (state part) -/
def idCopy (t : IdTable) : IdTable := t.initCopy

def idRun (t : IdTable) : List IdOp → List (Int × Nat)
  | [] => []
  | op :: ops => let (t', a) := idStep t op; a :: idRun t' ops

/-! ### fragment table -/

abbrev FragTable := Arr (Nat × Nat)     -- (start_offset, size)

inductive FragOp where
  | append (loc size : Nat)
  | lookup (idx : Nat)
  | set (idx loc size : Nat)
  | size
  deriving Repr, DecidableEq

/-- answer = (return value, out1, out2) -/
def fragStep (t : FragTable) : FragOp → FragTable × (Int × Nat × Nat)
  | .append loc sz => (t.append (loc, sz), (0, t.data.length, 0))
  | .lookup idx =>
    match t.data[idx]? with
    | some (l, s) => (t, (0, l, s))
    | none => (t, (c19ErrOutOfBounds, 0, 0))
  | .set idx loc sz =>
    match t.set idx (loc, sz) with
    | some t' => (t', (0, 0, 0))
    | none => (t, (c19ErrOutOfBounds, 0, 0))
  | .size => (t, (0, t.data.length, 0))

def fragCopy (t : FragTable) : FragTable := t.initCopy

def fragRun (t : FragTable) : List FragOp → List (Int × Nat × Nat)
  | [] => []
  | op :: ops => let (t', a) := fragStep t op; a :: fragRun t' ops

/-! ### driver world: objects o, c, t1, t2 of one table kind -/

inductive Tbl where
  | id (t : IdTable)
  | frag (t : FragTable)

structure TblWorld where
  objs : List (Option Tbl)

def TblWorld.init : TblWorld := ⟨[none, none, none, none]⟩

def tIx : String → Option Nat
  | "o" => some 0 | "c" => some 1 | "t1" => some 2 | "t2" => some 3 | _ => none

def splitWords (line : String) : List String := (line.trimAscii.toString.splitOn " ").filter (· ≠ "")

def tblStep (w : TblWorld) (line : String) : TblWorld × String :=
  match splitWords line with
  | "scenario" :: _ :: "idtable" :: _ => (⟨[some (.id Arr.empty), none, some (.id Arr.empty), some (.id Arr.empty)]⟩, "scenario")
  | "scenario" :: _ :: "fragtable" :: _ => (⟨[some (.frag Arr.empty), none, some (.frag Arr.empty), some (.frag Arr.empty)]⟩, "scenario")
  | "copy" :: _ =>
    match ((w.objs[0]?).join : Option Tbl) with
    | some (.id t) => (⟨w.objs.set 1 (some (.id (idCopy t)))⟩, "copy")
    | some (.frag t) => (⟨w.objs.set 1 (some (.frag (fragCopy t)))⟩, "copy")
    | none => (w, "bad-op")
  | ["drop", t] => match tIx t with
    | some i => (⟨w.objs.set i none⟩, "drop")
    | none => (w, "bad-op")
  | ["end"] => (TblWorld.init, "end")
  | t :: op :: args =>
    match tIx t with
    | none => (w, "ctl")
    | some i =>
      match ((w.objs[i]?).join : Option Tbl), op, args.map String.toNat? with
      | some (.id tb), "add", [some id] =>
        let (tb', (rc, out)) := idStep tb (.add id); (⟨w.objs.set i (some (.id tb'))⟩, s!"add {rc} {out}")
      | some (.id tb), "fill", [some n] =>
        -- scenario set-up (fresh table only): ids 0 … n-1, as `n` adds would leave it; answers like the harness
        if tb.data.isEmpty ∧ n ≤ idLimit then (⟨w.objs.set i (some (.id (idFill n)))⟩, s!"fill {n}") else (w, "bad-op")
      | some (.id tb), "get", [some idx] =>
        let (tb', (rc, out)) := idStep tb (.get idx); (⟨w.objs.set i (some (.id tb'))⟩, s!"get {rc} {out}")
      | some (.frag tb), "append", [some l, some s] =>
        let (tb', (rc, a, _)) := fragStep tb (.append l s); (⟨w.objs.set i (some (.frag tb'))⟩, s!"append {rc} {a}")
      | some (.frag tb), "lookup", [some idx] =>
        let (tb', (rc, a, b)) := fragStep tb (.lookup idx); (⟨w.objs.set i (some (.frag tb'))⟩, s!"lookup {rc} {a} {b}")
      | some (.frag tb), "set", [some idx, some l, some s] =>
        let (tb', (rc, _, _)) := fragStep tb (.set idx l s); (⟨w.objs.set i (some (.frag tb'))⟩, s!"set {rc}")
      | some (.frag tb), "size", [] =>
        let (tb', (_, a, _)) := fragStep tb .size; (⟨w.objs.set i (some (.frag tb'))⟩, s!"size {a}")
      | none, _, _ => (w, "no-object")
      | _, _, _ => (w, "bad-op")
  | _ => (w, "ctl")

end Sqfs.Obj.Kinds
