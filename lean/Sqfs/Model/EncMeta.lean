/-
C01 — metadata streams and lookup tables, as bytes.

Writer: `Sqfs.MetaWriter` (C03) models `sqfs_meta_writer_append/flush/get_position` and `sqfs_write_table`; it yields
`Block`s (flag, stored bytes, chunk).  Here:

* `encBlocks`: the bytes `write_block` (meta_writer.c:44-56) puts on disk for a run of blocks: 16-bit header + stored;
* `decBlock`: the cache-miss path of `sqfs_meta_reader_seek` (meta_reader.c:124-158): header, size check, payload,
  `do_block` of the *uncompressor* `unc` when the 0x8000 bit is clear;
* `metaReadAll`: a run of blocks read front to back (what `sqfs_meta_reader_read` delivers when a reader walks a
  whole table);
* `metaReadAt`: `sqfs_meta_reader_seek(b, o)` followed by `sqfs_meta_reader_read(n)` on a fresh reader (no cache:
  C10 proves the cache transparent), crossing into the following blocks as the `while (size != 0)` loop does;
* `refOfPos`: the `(block_start, offset)` the writer's `get_position` reports when the stream written so far has
  `p` bytes — the arithmetic behind inode references, directory references and xattr references;
* `writeTableAt` / `readTableAt`: `sqfs_write_table` (write_table.c) / `sqfs_read_table` (read_table.c) on a file
  that is a byte list; id table, fragment table, export table on top.

The compressor is the parameter `cmp : MetaWriter.Codec` (compress side, `none` = "did not shrink"), the reader's
`do_block` is `unc : Unc` (`none` = negative return).  `CodecOk` is the contract the round trips need.
-/
import Sqfs.Model.EncBytes
import Sqfs.Model.MetaWriter
namespace Sqfs.Enc
open Sqfs.Consts
open Sqfs.Writer (le leVal)
open Sqfs.MetaWriter (Block Codec)

/-- the uncompressing `do_block(cmp, in, size, out, 8192)` of a reader: `none` = error -/
abbrev Unc := Bytes → Option Bytes

/-- what a (compressor, uncompressor) pair must satisfy for metadata: a positive answer fits the 8 KiB output buffer
(it was produced into `outblk->data + 2`, 8190 bytes) and uncompresses to the input -/
structure CodecOk (cmp : Codec) (unc : Unc) : Prop where
  fits : ∀ x c, cmp x = some c → c.length ≤ metaBlockSize
  inv : ∀ x c, cmp x = some c → 0 < c.length → unc c = some x

/-- `write_block`: header, then `header & 0x7FFF` bytes -/
def encBlock (b : Block) : Bytes := le 2 b.header ++ b.stored

def encBlocks (bs : List Block) : Bytes := (bs.map encBlock).flatten

/-- bytes a block occupies on disk -/
def Block.diskSize (b : Block) : Nat := b.stored.length + 2

/-- load the block at the head of `disk` (meta_reader.c:124-158): its unpacked payload, and the rest of the disk
after it (`next_block`) -/
def decBlock (unc : Unc) (disk : Bytes) : Except Status (Bytes × Bytes) :=
  match readFields [2] disk with                                          -- :124 read_at(block_start, &header, 2)
  | .ok ([hdr], r) =>
    let size := hdr % 32768                                                -- header & 0x7FFF
    if size > metaBlockSize then .error errCorrupted                       -- :132
    else
      match take? size r with                                              -- :135-140 (limit = end of disk)
      | .ok (raw, r) =>
        if hdr / 32768 = 0 then                                            -- (header & 0x8000) == 0: compressed
          match unc raw with
          | some out => .ok (out, r)
          | none => .error errCompressor
        else .ok (raw, r)
      | .error e => .error e
  | .ok _ => .error errInternal
  | .error e => .error e

/-- all blocks of a run, front to back; one unit of fuel per block (`disk.length + 1` always suffices) -/
def metaReadAllGo (unc : Unc) : Nat → Bytes → Except Status Bytes
  | 0, _ => .error errInternal
  | f + 1, disk =>
    if disk = [] then .ok []
    else
      match decBlock unc disk with
      | .ok (p, r) =>
        match metaReadAllGo unc f r with
        | .ok s => .ok (p ++ s)
        | .error e => .error e
      | .error e => .error e

def metaReadAll (unc : Unc) (disk : Bytes) : Except Status Bytes := metaReadAllGo unc (disk.length + 1) disk

/-- the `while (size != 0)` loop of `sqfs_meta_reader_read` once a block is loaded: `avail` = bytes of the loaded
block from the cursor on, `next` = disk after the loaded block; one unit of fuel per block crossed -/
def metaReadGo (unc : Unc) : Nat → (avail next : Bytes) → (n : Nat) → Except Status Bytes
  | 0, _, _, n => if n = 0 then .ok [] else .error errInternal
  | f + 1, avail, next, n =>
    if n = 0 then .ok []
    else if avail = [] then                                                -- diff == 0: seek(next_block, 0)
      if next = [] then .error errOutOfBounds                              -- block_start >= limit
      else
        match decBlock unc next with
        | .ok (p, r) =>
          if p = [] then .error errOutOfBounds                             -- offset 0 >= data_used
          else metaReadGo unc f p r n
        | .error e => .error e
    else
      let d := min n avail.length
      match metaReadGo unc f (avail.drop d) next (n - d) with
      | .ok s => .ok (avail.take d ++ s)
      | .error e => .error e

/-- `sqfs_meta_reader_seek(m, b, o)` + `sqfs_meta_reader_read(m, buf, n)`; `disk` starts at the reader's `start`
and ends at its `limit`, `b` is relative to `start` -/
def metaReadAt (unc : Unc) (disk : Bytes) (b o n : Nat) : Except Status Bytes :=
  if b ≥ disk.length then .error errOutOfBounds                            -- :102
  else
    match decBlock unc (disk.drop b) with
    | .ok (p, r) =>
      if o ≥ p.length then .error errOutOfBounds                           -- :160
      else metaReadGo unc (2 * n + 2) (p.drop o) r n
    | .error e => .error e

/-! ### references -/

/-- disk offset of block number `k` of a run -/
def startOf (blocks : List Block) (k : Nat) : Nat := ((blocks.take k).map Block.diskSize).sum

/-- `sqfs_meta_writer_get_position` when `p` bytes have been appended: every flushed block holds 8 KiB -/
def refOfPos (blocks : List Block) (p : Nat) : Nat × Nat := (startOf blocks (p / metaBlockSize), p % metaBlockSize)

/-- `(block << 16) | offset` as stored in inode references, directory entries, xattr ids -/
def packRef (r : Nat × Nat) : Nat := (r.1 <<< 16) ||| r.2

def unpackRef (v : Nat) : Nat × Nat := (v >>> 16, v % 65536)

/-! ### `sqfs_write_table` / `sqfs_read_table` -/

/-- `sqfs_write_table(file, cmp, data, size, &start)`: the file afterwards and `*start` (where the location list
is).  The blocks come from `MetaWriter.writeTable`; locations are absolute (`file->get_size` before each chunk). -/
def writeTableAt (cmp : Codec) (file data : Bytes) : Bytes × Nat :=
  let (blocks, locs) := Sqfs.MetaWriter.writeTable cmp data
  let body := encBlocks blocks
  (file ++ body ++ encWords 8 (locs.map (· + file.length)), file.length + body.length)

/-- number of metadata blocks of a table of `size` bytes (read_table.c:31-33, write_table.c:27-29) -/
def tableBlockCount (size : Nat) : Nat := size / metaBlockSize + (if size % metaBlockSize ≠ 0 then 1 else 0)

/-- the `while (table_size > 0)` loop of `sqfs_read_table` (read_table.c:57-73); `lower`/`upper` = reader window -/
def readTableGo (unc : Unc) (file : Bytes) (lower upper : Nat) : Nat → List Nat → Nat → Except Status Bytes
  | 0, _, size => if size = 0 then .ok [] else .error errInternal
  | f + 1, locs, size =>
    if size = 0 then .ok []
    else
      match locs with
      | [] => .error errInternal                                           -- cannot happen: count = ceil(size / 8192)
      | start :: locs =>
        if start < lower ∨ start ≥ upper then .error errOutOfBounds        -- seek window
        else
          let diff := min metaBlockSize size
          match metaReadAt unc ((file.take upper).drop lower) (start - lower) 0 diff with
          | .ok d =>
            match readTableGo unc file lower upper f locs (size - diff) with
            | .ok s => .ok (d ++ s)
            | .error e => .error e
          | .error e => .error e

/-- `sqfs_read_table(file, cmp, table_size, location, lower_limit, upper_limit, &out)` -/
def readTableAt (unc : Unc) (file : Bytes) (size location lower upper : Nat) : Except Status Bytes :=
  let count := tableBlockCount size
  match take? (8 * count) (file.drop location) with                        -- read_at(location, locations, 8 * count)
  | .ok (l, _) => readTableGo unc file lower upper (count + 1) (decWords 8 count l) size
  | .error e => .error e

/-! ### the three plain tables -/

/-- `sqfs_id_table_write` (id_table.c:141-163): `htole32` of every id, `sqfs_write_table` -/
def idTableWrite (cmp : Codec) (file : Bytes) (ids : List Nat) : Bytes × Nat := writeTableAt cmp file (encWords 4 ids)

/-- `sqfs_id_table_read` (id_table.c:99-139) with `lower`/`upper` as it computes them; `count` = `super->id_count` -/
def idTableRead (unc : Unc) (file : Bytes) (count location lower upper bytesUsed : Nat) : Except Status (List Nat) :=
  if count = 0 ∨ location ≥ bytesUsed then .error errCorrupted             -- :107
  else
    match readTableAt unc file (count * 4) location lower upper with
    | .ok d => .ok (decWords 4 count d)
    | .error e => .error e

/-- a fragment table entry (`sqfs_fragment_t`): start offset, size word; `pad0` is written as 0 -/
def encFrag (f : Nat × Nat) : Bytes := encFields [(8, f.1), (4, f.2), (4, 0)]

def encFrags (l : List (Nat × Nat)) : Bytes := (l.map encFrag).flatten

def decFrags : Nat → Bytes → List (Nat × Nat)
  | 0, _ => []
  | n + 1, bs =>
    match decFields [8, 4, 4] bs with
    | [a, b, _] => (a, b) :: decFrags n (bs.drop sizeofFragment)
    | _ => []

/-- `sqfs_frag_table_write` (frag_table.c:132-166) for a non-empty table -/
def fragTableWrite (cmp : Codec) (file : Bytes) (frags : List (Nat × Nat)) : Bytes × Nat :=
  writeTableAt cmp file (encFrags frags)

/-- `sqfs_frag_table_read` (frag_table.c:75-130) past its location checks, + `sqfs_frag_table_lookup` of every entry -/
def fragTableRead (unc : Unc) (file : Bytes) (count location lower upper : Nat) : Except Status (List (Nat × Nat)) :=
  match readTableAt unc file (count * sizeofFragment) location lower upper with
  | .ok d => .ok (decFrags count d)
  | .error e => .error e

/-- `sqfs_dir_writer_write_export_table` (dir_writer.c:432-468): the `sqfs_u64` references, entry `n - 1` for inode `n` -/
def exportTableWrite (cmp : Codec) (file : Bytes) (refs : List Nat) : Bytes × Nat := writeTableAt cmp file (encWords 8 refs)

def exportTableRead (unc : Unc) (file : Bytes) (count location lower upper : Nat) : Except Status (List Nat) :=
  match readTableAt unc file (count * 8) location lower upper with
  | .ok d => .ok (decWords 8 count d)
  | .error e => .error e

end Sqfs.Enc
