/-
`C09PoolX` — extension of the `Pool` model (Model/Pool.lean) by the parts of `lib/util/src/threadpool.c` that
the base model leaves out:

* the per-worker user pointer `pool->workers[i].user`, `set_worker_ptr` (threadpool.c:201-211: out-of-range
  index → return at once; otherwise lock, store, unlock) and the pointer `worker_proc` passes to the callback
  (threadpool.c:136 `worker->fun(worker->user, item->data)`: read when the callback is entered, i.e. in the step
  in which the worker took the item from the queue; `set_worker_ptr` while the callback runs does not change
  the context that callback uses);
* the `calloc` failure path of `submit` (threadpool.c:219-229): with an empty `recycle` list and a failing
  `calloc`, `submit` returns −1 before it touches the mutex or any field; with a non-empty `recycle` list
  `calloc` is not called at all;
* an event log (`set_worker_ptr` calls, callback entry with the context used, callback exit, failed
  allocations) on which the context clause of C09 is evaluated.

The base state is a component; every extended step either is a step of the base model on that component or
leaves it unchanged (`Sqfs.C09.x_projects`), so every theorem about `Reachable` states applies to the base of
every extended execution.

Pointers are naturals, `0` = NULL (the pool is `calloc`ed by `alloc_flex`, so every `user` starts as NULL).
-/
import Sqfs.Model.Pool
namespace Sqfs.Pool

/-- events of the extended history -/
inductive XEvent where
  /-- `set_worker_ptr(i, p)` was called with `i < num_workers` -/
  | setPtr (i p : Nat)
  /-- worker `w` entered the callback with context pointer `p` on the item with data `d` -/
  | enter (w p d : Nat)
  /-- worker `w`'s callback returned -/
  | leave (w : Nat)
  /-- `submit(d)` returned −1 because `calloc` failed -/
  | oom (d : Nat)
deriving DecidableEq, Repr

structure XState where
  base : State
  /-- `pool->workers[i].user` -/
  users : List Nat
  /-- the context pointer worker `i` read when it last entered the callback (meaningful while `working`) -/
  ctxAt : List Nat
  /-- the main thread is inside `set_worker_ptr(i, p)`, at `pthread_mutex_lock` -/
  setPtr : Option (Nat × Nat)
  log : List XEvent
deriving Repr, DecidableEq

/-- state after `thread_pool_create(n, cb)` -/
def xinit (n : Nat) : XState :=
  { base := init n, users := List.replicate n 0, ctxAt := List.replicate n 0, setPtr := none, log := [] }

/-- scheduler choices of the extended model -/
inductive XChoice where
  /-- a choice of the base model (a worker runs; the main thread makes a base call or continues) -/
  | base (c : Choice)
  /-- the main thread, between two calls, calls `set_worker_ptr(i, p)` -/
  | setPtr (i p : Nat)
  /-- the main thread, between two calls, calls `submit(d)` and `calloc` — if it is called — fails -/
  | submitOom (d : Nat)
deriving DecidableEq, Repr

/-- one step of worker `i`: the base step, plus the context read at callback entry / the events -/
def xstepWorker (cfg : Cfg) (xs : XState) (i : Nat) (spur : Bool) : Option XState :=
  match stepWorker cfg xs.base i spur with
  | none => none
  | some b' =>
    match xs.base.workers[i]? with
    | some (.working _) =>
        -- the callback ran and returned
        some { xs with base := b', log := xs.log ++ [.leave i] }
    | _ =>
      match b'.workers[i]? with
      | some (.working it) =>
          -- `worker->fun(worker->user, item->data)`: `user` is read now
          let p := xs.users.getD i 0
          some { xs with base := b', ctxAt := xs.ctxAt.set i p, log := xs.log ++ [.enter i p it.data] }
      | _ => some { xs with base := b' }

def xstep (cfg : Cfg) (xs : XState) : XChoice → Option XState
  | .base (.worker i spur) => xstepWorker cfg xs i spur
  | .base (.main mc) =>
      match xs.setPtr with
      | some (i, p) =>
          -- `set_worker_ptr`: lock; `pool->workers[idx].user = ptr`; unlock; return
          if mc = .cont false then some { xs with users := xs.users.set i p, setPtr := none } else none
      | none =>
          match stepMain cfg xs.base mc with
          | none => none
          | some b' => some { xs with base := b' }
  | .setPtr i p =>
      if xs.base.main = .idle ∧ xs.setPtr = none then
        if i < xs.users.length then some { xs with setPtr := some (i, p), log := xs.log ++ [.setPtr i p] }
        else some xs                       -- `if (idx >= pool->num_workers) return;`
      else none
  | .submitOom d =>
      if xs.base.main = .idle ∧ xs.setPtr = none then
        if xs.base.recycle = 0 then
          -- `item = calloc(1, sizeof(*item)); if (item == NULL) return -1;` — nothing else happened
          some { xs with log := xs.log ++ [.oom d] }
        else
          match stepMain cfg xs.base (.call (.submit d)) with
          | none => none
          | some b' => some { xs with base := b' }
      else none

/-- run a whole schedule; choices that are not enabled are skipped -/
def xrun (cfg : Cfg) (xs : XState) : List XChoice → XState
  | [] => xs
  | c :: cs => match xstep cfg xs c with
      | some xs' => xrun cfg xs' cs
      | none => xrun cfg xs cs

inductive XReachable (cfg : Cfg) (n : Nat) : XState → Prop where
  | init : XReachable cfg n (xinit n)
  | step {xs xs' : XState} (c : XChoice) : XReachable cfg n xs → xstep cfg xs c = some xs' → XReachable cfg n xs'

/-- the context worker `i`'s callback is using right now (`none`: `i` is not inside the callback) -/
def ctxInUse (xs : XState) (i : Nat) : Option Nat :=
  match xs.base.workers[i]? with
  | some (.working _) => xs.ctxAt[i]?
  | _ => none

/-- the main thread is inside some call (base call or `set_worker_ptr`) -/
def xmainInCall (xs : XState) : Bool := mainInCall xs.base || xs.setPtr.isSome

/-- can the main thread continue (strictly)? inside `set_worker_ptr` always: the mutex is free at every
scheduling point -/
def xmainContEnabled (xs : XState) : Bool := xs.setPtr.isSome || mainContEnabled xs.base

def xisDeadlock (xs : XState) : Bool :=
  xmainInCall xs && !xmainContEnabled xs &&
    (List.range xs.base.workers.length).all (fun i => !workerEnabled xs.base i)

end Sqfs.Pool
