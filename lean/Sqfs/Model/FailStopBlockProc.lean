/-
C13, second layer — the block processor's front end and back end with *fallible primitives*.

Mirrors lib/sqfs/src/block_processor/{frontend.c, backend.c, block_processor.c} (control flow, queue
bookkeeping, which results are tested) and abstracts the data: a block is its size, its flags and whether it
is all-zero / a duplicate of an earlier fragment (both supplied by the API script).  Every call that can fail
in the C code is a `Prim`; a fault script (`List Bool`, one entry per executed primitive) decides which of
them fail.  `checked v p = false` marks a primitive whose result the source ignores.

  IGNORED RESULTS (block processor)
  * snapshot only (repaired in /repo by fixes/C13-sparse-tail-result.patch, `Variant.sparseTailChecked`):
                    `set_block_size(frag->inode, frag->index, 0);`  in `process_completed_fragment`, sparse
                    branch — a failed `realloc` of the inode was dropped: the inode kept `sparse += size` but had no
                    block-size entry, the call returned 0 (`Prim.growSparseTail`).  /repo as it is tests the result.
  * backend.c:90, backend.c:140   `sqfs_inode_make_extended(...)` result unused — it fails only for a
                    non-file inode type, which `sqfs_block_processor_begin_file` (frontend.c:99) rules out;
                    no primitive, not modelled as fallible.
  * block_processor/ostream.c:52-55  `stream_destroy` ignores `sqfs_block_processor_end_file` — see
                    Sqfs/Model/FailStop.lean.
  * frontend.c:76-77  on a failed `submit` the block goes back to the free list but `backlog` stays
                    incremented (bookkeeping only; the error is returned) — modelled as is.
-/
import Sqfs.Model.FailStop
namespace Sqfs.FailStop.BP
open Sqfs.FailStop

inductive Prim
  | inodeAlloc       -- frontend.c:95    calloc of the file inode in begin_file
  | allocBlock       -- frontend.c:24    malloc of a block when the free list is empty
  | allocFragCopy    -- frontend.c:57    alloc_flex of the in-flight copy of a fragment block
  | submit           -- frontend.c:70    pool->submit (work item allocation, pool status)
  | poolDequeue      -- backend.c:311-316  pool->dequeue returned NULL / worker (compressor) failure
  | storeLocation    -- block_writer.c:143  store_block_location → array_append (block list growth)
  | writeAt          -- block_writer.c:147  file->write_at of the block
  | dedupRead        -- block_writer.c:94   check_file_range_equal: read-back compare of a candidate duplicate
  | dedupTruncate    -- block_writer.c:115  file->truncate after a duplicate was found
  | growSparseBlock  -- backend.c:93     set_block_size for a sparse data block          (checked)
  | growDataBlock    -- backend.c:114    set_block_size for a data block                 (checked)
  | growSparseTail   -- backend.c:141    set_block_size for an all-zero tail             (checked since C13-sparse-tail-result; snapshot: ignored)
  | fragTableSet     -- backend.c:105    sqfs_frag_table_set
  | fragLookup       -- backend.c:157-164  hash lookup; byte compare may read the block back
                     --                  (block_processor.c:129 load_frag_block → fblk_lookup_error)
  | fragTableAppend  -- backend.c:196    sqfs_frag_table_append
  | allocChunk       -- backend.c:221    calloc of the chunk_info_t
  | htInsert         -- backend.c:232-243  hash_table_insert_pre_hashed (+ lookup error)
  deriving DecidableEq, Repr

def checked (v : Variant) : Prim → Bool
  | .growSparseTail => v.sparseTailChecked
  | _ => true

inductive Err
  | fault        -- a primitive failed and the code returned its error
  | sequence     -- SQFS_ERROR_SEQUENCE
  | internal     -- SQFS_ERROR_INTERNAL (pool->dequeue returned NULL with status 0, backend.c:315)
  | nullDeref    -- the C code dereferences a NULL pointer here (frontend.c:171: `append` of 0 bytes with no
                 --   current block) — undefined behaviour; never reached by the tools (they never append 0 bytes first)
  | fuel         -- artefact of the model: loop fuel exhausted (never in the examples / driver runs)
  deriving DecidableEq, Repr

structure Blk where
  size : Nat := 0
  first : Bool := false      -- SQFS_BLK_FIRST_BLOCK
  last : Bool := false       -- SQFS_BLK_LAST_BLOCK
  isFrag : Bool := false     -- SQFS_BLK_IS_FRAGMENT
  fragBlock : Bool := false  -- SQFS_BLK_FRAGMENT_BLOCK
  zero : Bool := true        -- every byte appended so far is zero
  dup : Bool := false        -- (fragments) an identical fragment was stored before
  sparse : Bool := false     -- SQFS_BLK_IS_SPARSE, set by the worker
  hasInode : Bool := true
  dontDedup : Bool := false  -- SQFS_BLK_DONT_DEDUPLICATE (from begin_file's flags; gensquashfs sort file)
  dupBlocks : Bool := false  -- the data blocks of this block's file equal a run of blocks written before
  seq : Nat := 0             -- io_seq_num
  deriving DecidableEq, Repr

structure Proc where
  blockSize : Nat := 4
  maxBacklog : Nat := 3          -- block_processor.c:286-287: at least 3
  backlog : Nat := 0
  freeList : Nat := 0            -- length of proc->free_list
  beginCalled : Bool := false
  hasInode : Bool := true
  dontFragment : Bool := false
  dontDedup : Bool := false      -- SQFS_BLK_DONT_DEDUPLICATE in proc->blk_flags
  dupBlocks : Bool := false      -- (input of the script) this file's data blocks duplicate earlier ones
  firstFlag : Bool := false      -- SQFS_BLK_FIRST_BLOCK still set in proc->blk_flags
  cur : Option Blk := none       -- blk_current
  fragBlk : Option Blk := none   -- frag_block
  pool : List Blk := []          -- submitted, not yet dequeued (tickets in FIFO order)
  ioq : List Blk := []           -- io_queue, sorted by seq
  ioSeq : Nat := 0               -- io_seq_num
  deqSeq : Nat := 0              -- io_deq_seq_num
  written : Nat := 0             -- blocks handed to write_data_block successfully
  deriving DecidableEq, Repr

structure Ctx where
  script : List Bool
  faulted : Bool := false        -- some primitive drew a fault
  damaged : Bool := false        -- a fault was drawn at a primitive whose result is ignored
  log : List Prim := []
  proc : Proc := {}
  deriving Repr

/-- state + exception monad that keeps the state on errors -/
def M (α : Type) := Ctx → Except Err α × Ctx

instance : Monad M where
  pure a := fun c => (.ok a, c)
  bind m f := fun c => match m c with
    | (.ok a, c') => f a c'
    | (.error e, c') => (.error e, c')

def fail {α : Type} (e : Err) : M α := fun c => (.error e, c)
def getP : M Proc := fun c => (.ok c.proc, c)
def modP (f : Proc → Proc) : M Unit := fun c => (.ok (), { c with proc := f c.proc })

/-- run `m`, then `fin` whatever the outcome (the `out:` labels of backend.c) -/
def always {α : Type} (m : M α) (fin : Proc → Proc) : M α := fun c =>
  match m c with
  | (r, c') => (r, { c' with proc := fin c'.proc })

/-- run `m`; when it fails apply `fin` to the processor state (the `fail:` labels) -/
def onError {α : Type} (m : M α) (fin : Proc → Proc) : M α := fun c =>
  match m c with
  | (.ok a, c') => (.ok a, c')
  | (.error e, c') => (.error e, { c' with proc := fin c'.proc })

/-- one fallible primitive -/
def prim (v : Variant) (p : Prim) : M Unit := fun c =>
  if c.script.headD false then
    if checked v p then
      (.error .fault, { c with script := c.script.tail, log := c.log ++ [p], faulted := true })
    else
      (.ok (), { c with script := c.script.tail, log := c.log ++ [p], faulted := true, damaged := true })
  else (.ok (), { c with script := c.script.tail, log := c.log ++ [p] })

/-- backend.c:38-44 -/
def releaseOld (p : Proc) : Proc := { p with freeList := p.freeList + 1, backlog := p.backlog - 1 }

/-- backend.c:251-267 -/
def storeIo (b : Blk) : List Blk → List Blk
  | [] => [b]
  | x :: xs => if x.seq < b.seq then x :: storeIo b xs else b :: x :: xs

/-- frontend.c:51-82 -/
def enqueueBlock (v : Variant) (b : Blk) : M Unit := do
  if b.fragBlock then prim v .allocFragCopy            -- frontend.c:55-68 (file and uncmp are set by the tools)
  -- frontend.c:70-79: on failure the block goes back to the free list and the pool status is returned
  onError (prim v .submit) (fun p => { p with freeList := p.freeList + 1 })
  modP (fun p => { p with pool := p.pool ++ [b] })

/-- block_processor.c:10-45, the part that matters for control flow -/
def worker (b : Blk) : Blk := if b.size = 0 then b else if b.zero then { b with sparse := true } else b

/-- block_writer.c:125-156 `write_data_block` with `store_block_location` and `deduplicate_blocks`: four fallible
    operations, each result tested (:144, :148, :98, :115 is the return value) -/
def writeDataBlock (v : Variant) (b : Blk) : M Unit := do
  if b.size ≠ 0 ∧ !b.sparse then do                                       -- block_writer.c:138
    prim v .storeLocation                                                 -- :143
    prim v .writeAt                                                       -- :147
  if b.last then                                                          -- :152 deduplicate_blocks
    if !b.dontDedup ∧ b.dupBlocks then do                                 -- :68 / :79-87 a run of equal hashes exists
      prim v .dedupRead                                                   -- :94
      prim v .dedupTruncate                                               -- :115

/-- backend.c:55-128 -/
def processCompletedBlock (v : Variant) (b : Blk) : M Unit :=
  always (do
    writeDataBlock v b                                                    -- backend.c:79-84
    modP (fun p => { p with written := p.written + 1 })
    if b.sparse then
      if b.hasInode then prim v .growSparseBlock                        -- backend.c:79-87
    else if b.size ≠ 0 then
      if b.fragBlock then prim v .fragTableSet                          -- backend.c:94-103
      else if b.hasInode then prim v .growDataBlock)                    -- backend.c:104-110
    releaseOld                                                            -- backend.c:116-118 `out:`

/-- backend.c:121-249 -/
def processCompletedFragment (v : Variant) (frag : Blk) : M Unit := do
  if frag.sparse then do                                                  -- backend.c:129-138
    -- backend.c:132: RESULT IGNORED in the pinned source; with fixes/C13-sparse-tail-result.patch a failure
    -- takes the `fail:` exit, which releases the fragment
    if frag.hasInode then onError (prim v .growSparseTail) releaseOld
    modP releaseOld
  else do
    -- backend.c:155-181: hash lookup unless SQFS_BLK_DONT_DEDUPLICATE; a lookup error (read-back of the
    -- candidate's fragment block failed) takes `fail:`, which releases the fragment
    let found ← (if frag.dontDedup then pure false else do
                   onError (prim v .fragLookup) releaseOld
                   pure frag.dup)
    if found then modP releaseOld
    else do
      let p ← getP
      match p.fragBlk with                                                -- backend.c:169-181
      | some fb =>
        if fb.size + frag.size > p.blockSize then do
          modP (fun p => { p with ioSeq := p.ioSeq + 1, fragBlk := none })
          onError (enqueueBlock v { fb with seq := p.ioSeq }) releaseOld    -- `goto fail`: release the fragment
      | none => pure ()
      let p ← getP
      match p.fragBlk with
      | none => do                                                        -- backend.c:183-198
        onError (prim v .fragTableAppend) releaseOld
        modP (fun p => { p with fragBlk := some { frag with isFrag := false, fragBlock := true, first := false, last := false } })
        prim v .allocChunk                                                -- backend.c:210-235; frag == frag_block: not released
        prim v .htInsert
      | some fb => do                                                     -- backend.c:199-208
        modP (fun p => { p with fragBlk := some { fb with size := fb.size + frag.size } })
        always (do prim v .allocChunk; prim v .htInsert) releaseOld       -- backend.c:240-241 and `fail:` 245-248

/-- backend.c:276-291: the blocks at the head of the io queue whose turn it is -/
def drainIo (v : Variant) : Nat → M Unit
  | 0 => fail .fuel
  | fuel + 1 => do
    let p ← getP
    match p.ioq with
    | [] => pure ()
    | b :: rest =>
      if b.seq ≠ p.deqSeq then pure ()
      else do
        modP (fun p => { p with ioq := rest, deqSeq := p.deqSeq + 1 })
        processCompletedBlock v b
        drainIo v fuel

/-- backend.c:269-324 -/
def dequeueLoop (v : Variant) (backlogOld : Nat) : Nat → M Unit
  | 0 => fail .fuel
  | fuel + 1 => do
    drainIo v (fuel + 1)
    let p ← getP
    if p.backlog < backlogOld then pure ()                                                    -- :289
    else if p.backlog = 1 ∧ (p.fragBlk.isSome ∨ p.cur.isSome) then pure ()                    -- :292
    else if p.backlog = 2 ∧ p.fragBlk.isSome ∧ p.cur.isSome then pure ()                      -- :297
    else
      match p.pool with
      | [] => fail .internal                                                                  -- :304-307
      | b0 :: rest => do
        prim v .poolDequeue                                                                   -- :302 worker failure
        modP (fun p => { p with pool := rest })
        let b := worker b0
        if b.isFrag then processCompletedFragment v b                                         -- :309-312
        else do
          if !b.fragBlock then                                                                -- :314-317
            modP (fun p => { p with ioSeq := p.ioSeq + 1, ioq := storeIo { b with seq := p.ioSeq } p.ioq })
          else
            modP (fun p => { p with ioq := storeIo b p.ioq })
        let p ← getP
        if p.backlog ≥ backlogOld then dequeueLoop v backlogOld fuel else pure ()             -- :321

def dequeueBlock (v : Variant) (fuel : Nat) : M Unit := do
  let p ← getP
  dequeueLoop v p.backlog fuel

/-- frontend.c:10-34 -/
def getNewBlock (v : Variant) : Nat → M Unit
  | 0 => fail .fuel
  | fuel + 1 => do
    let p ← getP
    if p.backlog ≥ p.maxBacklog then do
      dequeueBlock v (fuel + 1)
      getNewBlock v fuel
    else do
      if p.freeList > 0 then modP (fun p => { p with freeList := p.freeList - 1 })
      else prim v .allocBlock
      modP (fun p => { p with backlog := p.backlog + 1 })

/-- frontend.c:36-49 -/
def addSentinel (v : Variant) (fuel : Nat) : M Unit := do
  getNewBlock v fuel
  let p ← getP
  enqueueBlock v { size := 0, last := true, hasInode := p.hasInode, first := p.firstFlag,
                   dontDedup := p.dontDedup, dupBlocks := p.dupBlocks }

/-- frontend.c:84-109 -/
def beginFile (v : Variant) (hasInode dontFragment dontDedup dupBlocks : Bool) : M Unit := do
  let p ← getP
  if p.beginCalled then fail .sequence
  else do
    if hasInode then prim v .inodeAlloc
    modP (fun p => { p with beginCalled := true, hasInode := hasInode, dontFragment := dontFragment,
                            dontDedup := dontDedup, dupBlocks := dupBlocks, firstFlag := true })

/-- frontend.c:111-180.  `zero`: the appended bytes are all zero; `dup`: (only for a tail) an identical
    fragment was stored before. -/
def appendLoop (v : Variant) (zero dup : Bool) : Nat → Nat → M Unit
  | 0, _ => fail .fuel
  | fuel + 1, size =>
    if size = 0 then do
      let p ← getP                                                        -- frontend.c:171-178
      match p.cur with
      | some b => if b.size = p.blockSize then do
                    modP (fun p => { p with cur := none })
                    enqueueBlock v b
                  else pure ()
      | none => fail .nullDeref                                           -- frontend.c:171 `proc->blk_current->size`
    else do
      let p ← getP
      if p.cur.isNone then do                                             -- frontend.c:129-140
        getNewBlock v (fuel + 1)
        modP (fun p => { p with cur := some { size := 0, first := p.firstFlag, hasInode := p.hasInode,
                                              dontDedup := p.dontDedup, dupBlocks := p.dupBlocks }, firstFlag := false })
      let p ← getP
      match p.cur with
      | none => fail .internal
      | some b =>
        let diff := p.blockSize - b.size
        if diff = 0 then do                                               -- frontend.c:144-151
          modP (fun p => { p with cur := none })
          enqueueBlock v b
          appendLoop v zero dup fuel size
        else do
          let d := if diff > size then size else diff
          modP (fun p => { p with cur := some { b with size := b.size + d, zero := b.zero && zero, dup := dup } })
          appendLoop v zero dup fuel (size - d)

def append (v : Variant) (size : Nat) (zero dup : Bool) (fuel : Nat) : M Unit := do
  let p ← getP
  if !p.beginCalled then fail .sequence else appendLoop v zero dup fuel size

/-- frontend.c:182-221 -/
def endFile (v : Variant) (fuel : Nat) : M Unit := do
  let p ← getP
  if !p.beginCalled then fail .sequence
  else do
    match p.cur with
    | none => if !p.firstFlag then addSentinel v fuel                      -- :189-194
    | some b =>
      if p.dontFragment then do                                           -- :196-197
        modP (fun p => { p with cur := none })
        enqueueBlock v { b with last := true }
      else do
        if !b.first then addSentinel v fuel                               -- :199-204
        modP (fun p => { p with cur := none })
        enqueueBlock v { b with isFrag := true }                          -- :206-213
    modP (fun p => { p with beginCalled := false, firstFlag := false })

/-- block_processor.c:200-224 -/
def sync (v : Variant) : Nat → M Unit
  | 0 => fail .fuel
  | fuel + 1 => do
    let p ← getP
    if p.backlog = 0 then pure ()
    else if p.backlog = 1 ∧ (p.fragBlk.isSome ∨ p.cur.isSome) then pure ()
    else if p.backlog = 2 ∧ p.fragBlk.isSome ∧ p.cur.isSome then pure ()
    else do
      dequeueBlock v (fuel + 1)
      sync v fuel

/-- block_processor.c:226-250 -/
def finish (v : Variant) (fuel : Nat) : M Unit := do
  sync v fuel
  let p ← getP
  match p.fragBlk with
  | none => pure ()
  | some fb => do
    modP (fun p => { p with fragBlk := none, ioSeq := p.ioSeq + 1 })
    enqueueBlock v { fb with seq := p.ioSeq }
    sync v fuel

inductive Api
  | beginFile (hasInode dontFragment dontDedup dupBlocks : Bool)
  | append (size : Nat) (zero dup : Bool)
  | endFile
  | sync
  | finish
  deriving DecidableEq, Repr

def FUEL : Nat := 4096

def call (v : Variant) (fuel : Nat) : Api → M Unit
  | .beginFile i d n b => beginFile v i d n b
  | .append n z d => append v n z d fuel
  | .endFile => endFile v fuel
  | .sync => sync v fuel
  | .finish => finish v fuel

structure CallResult where
  ok : Bool
  err : Option Err
  faulted : Bool       -- a primitive failed *during this call*
  damaged : Bool
  prims : List Prim    -- primitives executed by this call
  deriving Repr, DecidableEq

/-- one API call from state `p` with script `fs`; returns the result, the rest of the script, the new state -/
def runCall (v : Variant) (fuel : Nat) (a : Api) (p : Proc) (fs : List Bool) : CallResult × List Bool × Proc :=
  match call v fuel a { script := fs, proc := p } with
  | (.ok _, c) => (⟨true, none, c.faulted, c.damaged, c.log⟩, c.script, c.proc)
  | (.error e, c) => (⟨false, some e, c.faulted, c.damaged, c.log⟩, c.script, c.proc)

/-- a session as the tools drive it: calls in order, stopping at the first call that returns an error -/
def session (v : Variant) (fuel : Nat) : List Api → Proc → List Bool → List CallResult
  | [], _, _ => []
  | a :: rest, p, fs =>
    match runCall v fuel a p fs with
    | (r, fs', p') => if r.ok then r :: session v fuel rest p' fs' else [r]

end Sqfs.FailStop.BP
