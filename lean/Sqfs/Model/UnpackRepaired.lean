/-
C06, the *repaired* unpacker (fixes/C06-mkdir-eexist-lstat.patch): `create_node` in restore_fstree.c no longer accepts
`EEXIST` from `mkdir` blindly —

    if (mkdir(name, 0755)) {
        if (errno != EEXIST) fail;
        if (lstat(name, &sb)) fail;            /* does not follow a link in the last component */
        if (!S_ISDIR(sb.st_mode)) fail;        /* "exists and is not a directory" */
    }

Everything else (`mkdir_p`, `chdir`, the three walks, what the other calls do) is the current code: only the rule
"which failing call is tolerated" changes, and it now looks at the file system.  The current code's model
(`tolerated`, `run`, `unpackMain` in `Sqfs/Model/Unpack.lean`) is untouched.
-/
import Sqfs.Model.Unpack
namespace Sqfs.Unpack
open Sqfs.Path

/-- `lstat(name, &sb) == 0 && S_ISDIR(sb.st_mode)`: the name resolves — the last component *not* followed — to a
    directory -/
def lstatIsDir (fs : Fs) (cwd : PathC) (p : Bytes) : Bool :=
  match resolve fs cwd p false with
  | .ok (_, some ⟨.dir, _⟩) => true
  | _ => false

/-- errors the repaired caller ignores: `mkdir` answering `EEXIST` **and** `lstat` saying "a directory".
    `lf` = the environment makes that `lstat` fail (EACCES on the way, EIO, …): then nothing is tolerated. -/
def toleratedR (lf : Bool) (fs : Fs) (cwd : PathC) : Syscall → Errno → Bool
  | .mkdir p _, .EEXIST => !lf && lstatIsDir fs cwd p
  | _, _ => false

/-- `run` with the repaired tolerance rule; `lflt i` = the `lstat` behind the `i`-th call fails -/
def runR (flt : Faults) (lflt : Nat → Bool) (cwd : PathC) : Nat → Fs → List Syscall → Run
  | _, fs, [] => ⟨fs, [], false⟩
  | i, fs, sc :: r =>
    match stepF (flt i) fs cwd sc with
    | .ok fs' => let x := runR flt lflt cwd (i + 1) fs' r; ⟨x.fs, (sc, none) :: x.trace, x.failed⟩
    | .error e =>
      if toleratedR (lflt i) fs cwd sc e then
        let x := runR flt lflt cwd (i + 1) fs r; ⟨x.fs, (sc, some e) :: x.trace, x.failed⟩
      else ⟨fs, [(sc, some e)], true⟩

/-- `main`, `case OP_UNPACK`, with the repaired `create_node`: `mkdir_p` and `chdir` as before (lib/util/mkdir_p.c is
    not changed: the unpack root itself may be reached through links, that is the user's choice), the walks under `runR` -/
def unpackMainR (ord : List FileEnt → List FileEnt) (fl : Flags) (t : TNode) (root : Option Bytes) (flt : Faults)
    (lflt : Nat → Bool) (cwd₀ : PathC) (fs₀ : Fs) : MainRun :=
  match treeSort t with
  | .error _ => { fs := fs₀, fsEst := fs₀, cwd := cwd₀ }
  | .ok t' =>
    let plan := planSorted ord fl t'
    match root with
    | none =>
      let r := runR flt lflt cwd₀ 0 fs₀ plan.syscalls
      { fs := r.fs, fsEst := fs₀, cwd := cwd₀, trace := r.trace, established := true,
        exit := if r.failed || plan.err.isSome then 1 else 0 }
    | some R =>
      let m := mkdirP flt cwd₀ fs₀ R
      if m.failed then { fs := m.fs, fsEst := m.fs, cwd := cwd₀, pre := m.trace }
      else
        let n := (mkdirPCuts R).length
        match chdirF (flt n) m.fs cwd₀ R with
        | .error e => { fs := m.fs, fsEst := m.fs, cwd := cwd₀, pre := m.trace, chdirRes := some (some e) }
        | .ok c =>
          let r := runR flt lflt c (n + 1) m.fs plan.syscalls
          { fs := r.fs, fsEst := m.fs, cwd := c, pre := m.trace, chdirRes := some none, trace := r.trace,
            established := true, exit := if r.failed || plan.err.isSome then 1 else 0 }

end Sqfs.Unpack
