/-
Model of the tar directory iterator and its sparse-expanding file stream, `lib/tar/src/iterator.c`
(`is_sparse_region`, `strm_get_buffered_data`/`strm_advance_buffer`, `it_next`).

The stream hands out data in chunks; the model advances by whole regions (the run of bytes up to the next
change between "hole" and "data"), which is the same walk because `is_sparse_region` is re-evaluated from
`offset` only.
-/
import Sqfs.Model.TarRead
import Sqfs.Model.Path
namespace Sqfs.Tar

/-- first loop of `is_sparse_region`: the first map entry (in list order) containing `offset` -/
def dataRegion (offset : Nat) : List (Nat × Nat) → Option Nat
  | [] => none
  | (o, c) :: t => if offset ≥ o ∧ offset - o < c then some (c - (offset - o)) else dataRegion offset t

/-- second loop: distance to the nearest entry start above `offset`, capped by `count` -/
def holeRegion (offset count : Nat) : List (Nat × Nat) → Nat
  | [] => count
  | (o, _) :: t => holeRegion offset (if offset < o ∧ o - offset < count then o - offset else count) t

/-- `is_sparse_region`: (is hole?, length of the region) -/
def isSparseRegion (map : List (Nat × Nat)) (fileSize offset : Nat) : Bool × Nat :=
  if map.isEmpty then (false, fileSize - offset)
  else match dataRegion offset map with
    | some n => (false, n)
    | none => (true, holeRegion offset (fileSize - offset) map)

inductive ExpandEnd
  | eof              -- the file stream reported end of file (state 1)
  | corrupted        -- the archive ended inside a data region (`SQFS_ERROR_CORRUPTED`)
  deriving Repr, DecidableEq

structure ExpandResult where
  out : Bytes                 -- the bytes the file stream produced
  stream : Bytes              -- underlying stream afterwards
  recordSize : Nat            -- `tar->record_size` afterwards (64-bit, wraps in the unrepaired code)
  ending : ExpandEnd
  deriving Repr

/--
Reading a file stream to its end (`strm_get_buffered_data` + `strm_advance_buffer` until it returns
non-zero).  `fuel` bounds the number of regions (each step moves `offset` to an entry boundary or to the end).
`record_size -= count` is a 64-bit subtraction.
-/
def expandLoop (map : List (Nat × Nat)) (fileSize : Nat) : Nat → Nat → Nat → Bytes → Bytes → ExpandResult
  | 0, _, rsz, s, acc => ⟨acc, s, rsz, .eof⟩
  | f + 1, offset, rsz, s, acc =>
    if offset ≥ fileSize then ⟨acc, s, rsz, .eof⟩
    else
      let (hole, n) := isSparseRegion map fileSize offset
      if n = 0 then ⟨acc, s, rsz, .eof⟩
      else if hole then expandLoop map fileSize f (offset + n) rsz s (acc ++ zeros n)
      else
        if s.isEmpty then ⟨acc, s, rsz, .corrupted⟩             -- underlying stream at EOF: `fail_borked`
        else
          let got := s.take n
          let rsz' := (rsz + U64 - got.length % U64) % U64          -- `record_size -= count`
          expandLoop map fileSize f (offset + got.length) rsz' (s.drop got.length) (acc ++ got)

def expand (map : List (Nat × Nat)) (fileSize recordSize : Nat) (s : Bytes) : ExpandResult :=
  expandLoop map fileSize (2 * map.length + fileSize + 4) 0 recordSize s []

/--
The same walk at the granularity of the caller's requests: the caller reads in calls of `want` bytes, each request
`strm_get_buffered_data(…, rest of the call)` hands out at most that many bytes of the current region and the `offset >= file_size` test runs between two requests.  For a
well-formed map this produces the same bytes as `expandLoop` (theorem `sparse_expand_spec` is about the region
walk; the equality of the two walks on well-formed maps is exercised by the correspondence check, not proved).
For a malformed map whose data region reaches beyond `file_size` the C result depends on `want`: the region is
cut at the first request boundary past the end of the file.
-/
def expandLoopC (map : List (Nat × Nat)) (fileSize want : Nat) : Nat → Nat → Nat → Bytes → Bytes → ExpandResult
  | 0, _, rsz, s, acc => ⟨acc, s, rsz, .eof⟩
  | f + 1, offset, rsz, s, acc =>
    if offset ≥ fileSize then ⟨acc, s, rsz, .eof⟩
    else
      let (hole, n) := isSparseRegion map fileSize offset
      if n = 0 then ⟨acc, s, rsz, .eof⟩
      else
        -- the caller reads in calls of `want` bytes (`sqfs_istream_read` / `sqfs_istream_splice`); a request asks for what is
        -- left of the current call, and the output position equals `offset`
        let room := want - offset % want
        let n := if n > room then room else n
        if hole then expandLoopC map fileSize want f (offset + n) rsz s (acc ++ zeros n)
        else
          if s.isEmpty then ⟨acc, s, rsz, .corrupted⟩
          else
            let got := s.take n
            let rsz' := (rsz + U64 - got.length % U64) % U64
            expandLoopC map fileSize want f (offset + got.length) rsz' (s.drop got.length) (acc ++ got)

def expandC (want : Nat) (map : List (Nat × Nat)) (fileSize recordSize : Nat) (s : Bytes) : ExpandResult :=
  expandLoopC map fileSize want (fileSize + 4) 0 recordSize s []

/-- what `it_next` reports for one archive member -/
structure IterEntry where
  name : Bytes
  mode : Nat
  hardLink : Bool
  uid : Nat
  gid : Nat
  mtime : Int
  size : Nat
  link : Option Bytes
  data : Option ExpandResult      -- regular files: the result of reading the file stream to its end
  devMajor : Nat := 0
  devMinor : Nat := 0
  xattr : List (Bytes × Bytes) := []
  deriving Repr

inductive IterEnd | eof | err
  deriving Repr, DecidableEq

/--
(The stream `s` is the *decompressed* input.  When `tar_open_stream` has put a decompressor in front — `tar->compressed`, /repo
d69b61b — `it_next` reads the rest of the compressed stream at the end of the archive and turns a decompressor error into a
failure; on the byte stream modelled here that drain changes nothing: whatever follows the end marker is ignored.)

The directory iterator driven like tar2sqfs drives it: `next`, read the file stream of every regular file
to its end, `next`, …  `skip` = `record_size` + `padding` still to be skipped before the next header.
-/
def iterLoop (cfg : ReadCfg) (want : Nat) : Nat → Bytes → Nat → List IterEntry → List IterEntry × IterEnd
  | 0, _, _, acc => (acc, .err)
  | f + 1, s, skip, acc =>
    -- iterator.c:184-194: `record_size`, then `padding` are skipped with `sqfs_istream_skip`, which fails when the input ends
    -- first (two calls; the second is reached only if the first succeeded, so together: fewer than `skip` bytes left = error)
    match istreamSkip s skip with
    | none => (acc, .err)
    | some s0 =>
    match readHeaderWith cfg s0 with
    | .eof => (acc, .eof)
    | .err => (acc, .err)
    | .ok d s' =>
      let pad := padding d.recordSize
      if d.unknown then iterLoop cfg want f s' (d.recordSize + pad) acc                  -- `goto retry`
      else
        match Sqfs.Path.canonicalize (d.name.getD []) with
        | none => (acc, .err)                                                    -- `SQFS_ERROR_CORRUPTED`
        | some nm =>
          let mode := if d.hardLink then S_IFLNK + 0o777 else d.mode
          let isReg := fmt mode = S_IFREG
          let size := if isReg then d.actualSize else 0
          let link := if fmt mode = S_IFLNK then d.link else none
          if isReg then
            let r := expandC want d.sparse d.actualSize d.recordSize s'
            let e : IterEntry := ⟨nm, mode, d.hardLink, d.uid, d.gid, d.mtime, size, link, some r, d.devMajor, d.devMinor, d.xattr⟩
            match r.ending with
            | .corrupted => (acc ++ [e], .err)                                   -- iterator state poisoned by `drop_parent`
            | .eof => iterLoop cfg want f r.stream (r.recordSize + pad) (acc ++ [e])
          else
            iterLoop cfg want f s' (d.recordSize + pad) (acc ++ [⟨nm, mode, d.hardLink, d.uid, d.gid, d.mtime, size, link, none, d.devMajor, d.devMinor, d.xattr⟩])

/-- `want` = size of the caller's read requests (512 in `harness/h_c04.c`, the block size in tar2sqfs) -/
def iterateWith (cfg : ReadCfg) (s : Bytes) (want : Nat := 512) : List IterEntry × IterEnd :=
  iterLoop cfg want (s.length / 512 + 2) s 0 []

def iterate (s : Bytes) : List IterEntry × IterEnd := iterateWith {} s

/-- the iterator over the unrepaired `read_header` (D22: `record_size` wraps, the rest of the archive is skipped) -/
def iterateCur (s : Bytes) : List IterEntry × IterEnd := iterateWith { rejectOversizedMap := false, xattrKeepOrder := false } s

end Sqfs.Tar
