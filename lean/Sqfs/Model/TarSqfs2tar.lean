/-
Model of **sqfs2tar with its options** (C04): what the real tool writes to stdout for an image, as a function of the image's
recursive directory listing.

* `bin/sqfs2tar/src/iterator.c` — `keep_entry` (`--subdir`), the loop of `next` (skip the selected directory itself and its
  ancestors when exactly one `--subdir` is given without `--keep-as-dir`, `ignore_subdir` on directories that are not kept, strip
  of the sub-directory prefix, `--root-becomes` prefix, trailing '/' on directories), `create_root_entry`;
* `lib/sqfs/src/io/dir_hl.c` — the hard-link filter that sits *on top* of that iterator (so it sees the names as they are
  emitted): `detect_hard_link` / `store_hard_link` keyed by the inode reference, directories never, the first occurrence is the
  target, later ones are reported as `S_IFLNK | 0777` with the flag, `size = strlen(target)`, no xattrs, no data;
* `bin/sqfs2tar/src/sqfs2tar.c` — `main` loop, `write_entry` (`record_counter++` on every call), unsupported entries skipped or,
  with `--no-skip`, fatal; `terminate_archive`.

The bytes are produced by the functions the fix-point theorems are about (`sqfs2tarLoop`, `entryBytes`, `wentryOf` of
`Model/TarFix.lean`): `sqfs2tarFull` only computes the flat tree and the side data they are applied to.  The driver op `s2t`
evaluates `sqfs2tarFull`; `tools/checks/c04.py` compares its bytes with the real tool's output on every run.
-/
import Sqfs.Model.TarFix
namespace Sqfs.Tar
open Sqfs.Path (joinSlash splitSlash SL)

/-- one entry of `sqfs_dir_iterator_create_recursive` on the image's root: the path below the root (components joined by '/'),
    the inode's attributes and what the iterator's `read_link` / `open_file_ro` / `read_xattr` deliver for it -/
structure RawEnt where
  name : Bytes
  mode : Nat
  uid : Nat
  gid : Nat
  mtime : Nat
  inode : Nat                       -- `ent->inode`: the inode reference (equal for all names of one inode)
  target : Option Bytes := none     -- symbolic links
  content : Bytes := []             -- regular files
  xattr : List (Bytes × Bytes) := []  -- in stored order (empty with `--no-xattr`: no xattr reader is created)
  devMajor : Nat := 0
  devMinor : Nat := 0
  hardLink : Bool := false          -- set by the hard-link filter only
  deriving Repr, DecidableEq

/-- the options after `process_args` (names canonical; `keepAsDir` is also set when more than one `--subdir` was given) -/
structure S2tOpts where
  subdirs : List Bytes := []
  keepAsDir : Bool := false
  rootBecomes : Option Bytes := none
  noLinks : Bool := false           -- `--no-hard-links`
  dontSkip : Bool := false          -- `--no-skip`

/-- `keep_entry` for one `--subdir` argument `p`: the entry is `p` itself, an ancestor of `p`, or below `p` -/
def keepFor (p name : Bytes) : Bool :=
  if name.length ≤ p.length then
    (name.length = p.length ∨ p[name.length]? = some SL) ∧ p.take name.length = name      -- iterator.c:67-71
  else name[p.length]? = some SL ∧ name.take p.length = p                                 -- iterator.c:72-75

/-- `keep_entry` -/
def keepEntry (subdirs : List Bytes) (name : Bytes) : Bool :=
  subdirs.isEmpty || subdirs.any fun p => keepFor p name

/-- the entry is below directory `d` (what `ignore_subdir` on `d` removes from a pre-order listing) -/
def isBelow (d name : Bytes) : Bool := d.length < name.length ∧ name[d.length]? = some SL ∧ name.take d.length = d

/-- iterator.c:141-170 — strip the sub-directory prefix, prepend `--root-becomes`, (the trailing '/' of a directory is added by
    `wentryOf`, which is where the fix-point theorems see it) -/
def emitName (o : S2tOpts) (name : Bytes) : Bytes :=
  let n1 := match o.subdirs with
    | [p] => if o.keepAsDir then name else name.drop (p.length + 1)
    | _ => name
  match o.rootBecomes with
  | some r => r ++ [SL] ++ n1
  | none => n1

/-- what one round of the `for (;;)` loop of `next` does with the entry the source iterator delivered -/
inductive CompatAction
  | emit (e : RawEnt)        -- `break`: hand it out (renamed)
  | skip                     -- `continue` / not kept, not a directory
  | ignoreBelow              -- not kept and a directory: `ignore_subdir`

def compatStep (o : S2tOpts) (e : RawEnt) : CompatAction :=
  if keepEntry o.subdirs e.name then
    let skipSelf : Bool := match o.subdirs with                                             -- iterator.c:127-131
      | [p] => !o.keepAsDir && decide (e.name.length ≤ p.length)
      | _ => false
    if skipSelf then .skip else .emit { e with name := emitName o e.name }
  else if fmt e.mode = S_IFDIR then .ignoreBelow                                            -- iterator.c:135-136
  else .skip

/-- the `for (;;)` loop of `next` over the listing; `ign` = the directory `ignore_subdir` was called on, if any (the recursive
    source iterator then delivers nothing below it) -/
def compatLoop (o : S2tOpts) : Option Bytes → List RawEnt → List RawEnt
  | _, [] => []
  | ign, e :: rest =>
    if (match ign with | some d => isBelow d e.name | none => false) then compatLoop o ign rest
    else match compatStep o e with
      | .emit e' => e' :: compatLoop o none rest
      | .skip => compatLoop o none rest
      | .ignoreBelow => compatLoop o (some e.name) rest

/-- `lib/sqfs/src/io/dir_hl.c: next` over the entries of the iterator below it; `seen` = the red-black tree (inode → name) -/
def hlFilter : List (Nat × Bytes) → List RawEnt → List RawEnt
  | _, [] => []
  | seen, e :: rest =>
    if fmt e.mode = S_IFDIR then e :: hlFilter seen rest                                    -- never a link, never stored
    else match seen.find? (·.1 = e.inode) with
      | some (_, tgt) =>
        { e with mode := S_IFLNK + 0o777, hardLink := true, target := some tgt, xattr := [], content := [] } :: hlFilter seen rest
      | none => e :: hlFilter (seen ++ [(e.inode, e.name)]) rest                             -- `strdup(ent->name)`

/-- the root inode as `create_root_entry` reports it with `--root-becomes` -/
structure RootInfo where
  mode : Nat := S_IFDIR + 0o755
  uid : Nat := 0
  gid : Nat := 0
  mtime : Nat := 0
  xattr : List (Bytes × Bytes) := []

/-- the entries `main` gets from its iterator, in order -/
def s2tEntries (o : S2tOpts) (root : RootInfo) (raw : List RawEnt) : List RawEnt :=
  let body := compatLoop o none raw
  let all := match o.rootBecomes with
    | some r => { name := r, mode := root.mode, uid := root.uid, gid := root.gid, mtime := root.mtime, inode := 0,
                  xattr := root.xattr : RawEnt } :: body
    | none => body
  if o.noLinks then all else hlFilter [] all

/-- the flat node of an emitted entry (`path` = the emitted name without the directory's trailing '/') -/
def nodeOfEnt (e : RawEnt) : TNode :=
  ⟨splitSlash e.name, e.mode, e.uid, e.gid, e.mtime, false, e.hardLink, if fmt e.mode = S_IFLNK then e.target else none⟩

/-- the side data of the emitted entries, by emitted path -/
def imgOfEnts (es : List RawEnt) : ImgData where
  content p := ((es.find? fun e => splitSlash e.name = p).map (·.content)).getD []
  xattr p := ((es.find? fun e => splitSlash e.name = p).map (·.xattr)).getD []
  dev p := ((es.find? fun e => splitSlash e.name = p).map fun e => (e.devMajor, e.devMinor)).getD (0, 0)

/-- **sqfs2tar**: `none` = exit status 1 (`--no-skip` and an entry tar cannot express), else the bytes on stdout -/
def sqfs2tarFull (o : S2tOpts) (root : RootInfo) (raw : List RawEnt) : Option Bytes :=
  let es := s2tEntries o root raw
  let img := imgOfEnts es
  let t := es.map nodeOfEnt
  if o.dontSkip ∧ (List.zipIdx t).any (fun p => (entryBytes img p.1 p.2).isNone) then none
  else some (sqfs2tar img t)

end Sqfs.Tar
