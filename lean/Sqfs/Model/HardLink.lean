/-
Model of hard-link resolution: `lib/fstree/src/hardlink.c`
(`resolve_link`, `fstree_resolve_hard_links`) over an *arbitrary* finite graph
of tree nodes.

A node is, as far as `resolve_link` can tell, one of
  * `other` – not a directory and not a hard link (file, symlink, device, …);
  * `dir`   – `S_ISDIR(mode)`;
  * `hlink l` – `S_ISLNK(mode) && (flags & FLAG_LINK_IS_HARD)`, where `l` is what
    `fstree_get_node_by_path(fs, fs->root, node->data.target, false, false)`
    answers for this node's target string: another node (by index) or `NULL`
    with `errno` = `ENOENT`/`ENOTDIR`.  The lookup never creates nodes
    (`create_implicitly = false`) and `resolve_link` never changes a mode, so
    the answer is a fixed attribute of the node for the whole resolution.

The mutable state is exactly what the C code mutates: `FLAG_LINK_RESOVED` +
`data.target_node` per link (`resolved`) and `link_count` per node.

Two loops are modelled, each with explicit fuel (`outOfFuel` is *not* a C
result; it means "the C loop is still running"):

  * `loopCur`  – the loop of the code as shipped in 1.2.0: the only cycle test
    is `node == start`;
  * `loopFix`  – the repaired loop (fixes/C07-hardlink-cycle.patch): in
    addition the number of *unresolved* links that were followed is bounded
    by `maxHops`, the length of `fs->links_unresolved` when
    `fstree_resolve_hard_links` was entered.

Everything else (`resolve_link`'s tail, the driver loop over
`links_unresolved`) is shared and parameterised by the loop.
-/
import Sqfs.Generated.Consts
namespace Sqfs.HardLink

inductive Errno
  | ENOENT | ENOTDIR | EMLINK | EPERM
  deriving DecidableEq, Repr

/-- the two ways `fstree_get_node_by_path` fails when it does not create nodes -/
inductive LErr
  | ENOENT | ENOTDIR
  deriving DecidableEq, Repr

def LErr.toErrno : LErr → Errno
  | .ENOENT => .ENOENT
  | .ENOTDIR => .ENOTDIR

/-- result of `fstree_get_node_by_path(..., create_implicitly = false, stop_at_parent = false)` -/
inductive Lookup
  | found (i : Nat)
  | fail (e : LErr)
  deriving DecidableEq, Repr

inductive Node
  | other
  | dir
  | hlink (tgt : Lookup)
  deriving DecidableEq, Repr

abbrev Graph := List Node

/-- `link_count == 0xFFFFFFFF` guard of `resolve_link` -/
def linkCountMax : Nat := 0xFFFFFFFF

structure St where
  /-- `some t` ⇔ `FLAG_LINK_RESOVED` is set and `data.target_node == t` -/
  resolved : Nat → Option Nat
  /-- `link_count` -/
  linkCount : Nat → Nat

/-- result of the `for (;;)` loop of `resolve_link` -/
inductive LoopRes
  | brk (node : Nat)          -- `break`: `node` is not a hard link
  | err (e : Errno)           -- `return -1` with this errno
  | outOfFuel                 -- the loop has not returned yet
  | badIndex                  -- a node index outside the graph (unreachable for well-formed graphs)
  deriving DecidableEq, Repr

/--
`for (;;)` of `resolve_link` in the code **as shipped** (hardlink.c lines 19–37).
-/
def loopCur (g : Graph) (res : Nat → Option Nat) (start : Nat) : Nat → Nat → LoopRes
  | 0, _ => .outOfFuel
  | fuel + 1, node =>
    match g[node]? with
    | none => .badIndex
    | some (.hlink tgt) =>
      -- `if (node->flags & FLAG_LINK_RESOVED) node = node->data.target_node; else node = lookup(...)`
      match (match res node with | some t => Lookup.found t | none => tgt) with
      | .fail e => .err e.toErrno                           -- `if (node == NULL) return -1;`
      | .found nx =>
        if nx = start then .err .EMLINK                     -- `if (node == start) { errno = EMLINK; ...`
        else loopCur g res start fuel nx
    | some _ => .brk node                                   -- `if (!S_ISLNK(...) || !(flags & FLAG_LINK_IS_HARD)) break;`

/--
The repaired loop: `hops` counts the unresolved links followed so far; following
one more when `hops ≥ maxHops` is reported as `EMLINK`.
-/
def loopFix (g : Graph) (res : Nat → Option Nat) (start maxHops : Nat) : Nat → Nat → Nat → LoopRes
  | 0, _, _ => .outOfFuel
  | fuel + 1, node, hops =>
    match g[node]? with
    | none => .badIndex
    | some (.hlink tgt) =>
      match res node with
      | some t =>
        if t = start then .err .EMLINK else loopFix g res start maxHops fuel t hops
      | none =>
        if hops ≥ maxHops then .err .EMLINK                 -- `if (hops++ >= max_hops) { errno = EMLINK; return -1; }`
        else match tgt with
          | .fail e => .err e.toErrno
          | .found nx =>
            if nx = start then .err .EMLINK
            else loopFix g res start maxHops fuel nx (hops + 1)
    | some _ => .brk node

inductive LinkRes
  | ok (st : St)
  | err (e : Errno)
  | outOfFuel
  | badIndex

/-- `resolve_link` after the loop (hardlink.c lines 39–54), given the loop's result. -/
def finishLink (g : Graph) (st : St) (start : Nat) : LoopRes → LinkRes
  | .outOfFuel => .outOfFuel
  | .badIndex => .badIndex
  | .err e => .err e
  | .brk node =>
    if g[node]? = some .dir then .err .EPERM                          -- `S_ISDIR(node->mode)`
    else if st.linkCount node = linkCountMax then .err .EMLINK        -- `node->link_count == 0xFFFFFFFF`
    else .ok { resolved := fun k => if k = start then some node else st.resolved k,
               linkCount := fun k => if k = node then st.linkCount k + 1 else st.linkCount k }

inductive AllRes
  | ok (st : St)
  /-- `fstree_resolve_hard_links` returned -1 while resolving link `link` with this errno -/
  | err (link : Nat) (e : Errno)
  | outOfFuel
  | badIndex

/--
`fstree_resolve_hard_links`: `links` is `fs->links_unresolved` from its head.
`loop` is the `for (;;)` of `resolve_link` applied to (state, start).
-/
def resolveAllWith (g : Graph) (loop : (Nat → Option Nat) → Nat → LoopRes) : St → List Nat → AllRes
  | st, [] => .ok st
  | st, n :: rest =>
    match finishLink g st n (loop st.resolved n) with
    | .ok st' => resolveAllWith g loop st' rest
    | .err e => .err n e
    | .outOfFuel => .outOfFuel
    | .badIndex => .badIndex

/-- the code as shipped, every `resolve_link` call given `fuel` loop iterations -/
def resolveAllCur (g : Graph) (fuel : Nat) (st : St) (links : List Nat) : AllRes :=
  resolveAllWith g (fun res n => loopCur g res n fuel n) st links

/--
The repaired code.  `max_hops` is computed once on entry as the length of the
unresolved list; the theorem `resolve_links_terminates` shows that
`links.length + 2` iterations always suffice, so the driver and the check use
exactly that fuel.
-/
def resolveAllFix (g : Graph) (fuel : Nat) (st : St) (links : List Nat) : AllRes :=
  resolveAllWith g (fun res n => loopFix g res n links.length fuel n 0) st links

/-- decidable summary of a run: the state is reported at the node indices `ks` -/
inductive View
  | ok (resolved : List (Option Nat)) (linkCount : List Nat)
  | err (link : Nat) (e : Errno)
  | outOfFuel
  | badIndex
  deriving DecidableEq, Repr

def AllRes.view (ks : List Nat) : AllRes → View
  | .ok st => .ok (ks.map st.resolved) (ks.map st.linkCount)
  | .err n e => .err n e
  | .outOfFuel => .outOfFuel
  | .badIndex => .badIndex

/-- state before resolution: nothing resolved, `link_count` as built by `mknode` -/
def St.init (counts : Nat → Nat) : St := { resolved := fun _ => none, linkCount := counts }


/-!
## Building the graph from tree entries

Model of the part of `lib/fstree/src/fstree.c` that decides what
`resolve_link` sees: `fstree_add_generic` / `mknode` /
`fstree_get_node_by_path` / `child_by_name`, for **canonical** entry names
(the callers — `tar/src/iterator.c: it_next`, `gensquashfs: handle_line` —
pass every name through `canonicalize_name` first; `mknode` canonicalises a
hard link's target itself).  Nodes live in a flat list in creation order
(index 0 = root); the sorted sibling order of the C list is irrelevant for
look-ups because sibling names are unique (the `EEXIST` rule).
-/
namespace Tree

abbrev Bytes := List UInt8

inductive Kind
  | dir | other | hlink
  deriving DecidableEq, Repr

structure TNode where
  parent : Nat
  name : Bytes
  kind : Kind
  /-- `FLAG_DIR_CREATED_IMPLICITLY` -/
  implicit : Bool
  /-- `data.target` of a hard link (already canonical) -/
  target : Bytes
  /-- `link_count` -/
  nlink : Nat
  deriving Repr

abbrev T := List TNode

/-- `fstree_init`: the root is an implicitly created directory with `link_count = 2` -/
def init : T := [{ parent := 0, name := [], kind := .dir, implicit := true, target := [], nlink := 2 }]

/-- `child_by_name`: index of the child of `p` called `nm` (the root, index 0, is nobody's child) -/
def childGo (p : Nat) (nm : Bytes) : Nat → List TNode → Option Nat
  | _, [] => none
  | i, n :: rest => if i ≠ 0 ∧ n.parent = p ∧ n.name = nm then some i else childGo p nm (i + 1) rest

def childByName (t : T) (p : Nat) (nm : Bytes) : Option Nat := childGo p nm 0 t

def isDir (t : T) (i : Nat) : Bool :=
  match t[i]? with
  | some n => n.kind == .dir
  | none => false

/-- split a canonical path at its slashes (`""` has no components) -/
def compsGo : Bytes → Bytes → List Bytes
  | acc, [] => [acc.reverse]
  | acc, c :: t => if c = 47 then acc.reverse :: compsGo [] t else compsGo (c :: acc) t

def comps (p : Bytes) : List Bytes := if p.isEmpty then [] else compsGo [] p

/-- `fstree_get_node_by_path(fs, root, path, false, false)` on a canonical path -/
def walk (t : T) : Nat → List Bytes → Lookup
  | cur, [] => .found cur
  | cur, c :: cs =>
    if !isDir t cur then .fail .ENOTDIR
    else match childByName t cur c with
      | none => .fail .ENOENT
      | some n => walk t n cs

def lookup (t : T) (path : Bytes) : Lookup := walk t 0 (comps path)

inductive AddErr
  | EINVAL | ENOTDIR | EEXIST | ENAMETOOLONG | EMLINK | ENOENT
  deriving DecidableEq, Repr

/-- number of `parent` hops from node `i` up to the root: what `for (n = parent; n->parent != NULL; n = n->parent)
++size;` of `mknode` counts.  Parents are created before their children, so `t.length` hops of fuel always suffice.
(`a` is the node list as an array, only so that the native driver follows a parent pointer in constant time.) -/
def depthGo (a : Array TNode) : Nat → Nat → Nat
  | 0, _ => 0
  | fuel + 1, i =>
    if i = 0 then 0
    else match a[i]? with
      | none => 0
      | some n => depthGo a fuel n.parent + 1

def depth (t : T) (i : Nat) : Nat := depthGo t.toArray t.length i

def counts (t : T) (i : Nat) : Nat :=
  match t[i]? with
  | some n => n.nlink
  | none => 0

def bump (t : T) (p : Nat) : T :=
  t.mapIdx (fun i n => if i = p then { n with nlink := n.nlink + 1 } else n)

/--
`mknode` + `insert_sorted` + `parent->link_count++` (fstree.c).  In the order of the C code:
a directory that would be nested deeper than `SQFS_MAX_DIR_NESTING` is refused with `ENAMETOOLONG`
(`size = 1 + depth(parent) > SQFS_MAX_DIR_NESTING`, /repo 9724762); [a hard link's target is canonicalised by the
caller of this function, `EINVAL`]; a parent whose `link_count` is saturated refuses the child with `EMLINK`.
-/
def mknode (t : T) (p : Nat) (nm : Bytes) (k : Kind) (implicit : Bool) (target : Bytes) : Except AddErr T :=
  if k = .dir ∧ depth t p + 1 > Sqfs.Consts.sqfsMaxDirNesting then .error .ENAMETOOLONG
  else if counts t p = linkCountMax then .error .EMLINK
  else
    let n : TNode := { parent := p, name := nm, kind := k, implicit := implicit, target := target,
                       nlink := if k = .dir then 2 else 1 }
    .ok (bump t p ++ [n])

/-- `fstree_get_node_by_path(fs, root, path, true, true)`: walk/create all but the last component -/
def mkdirP : T → Nat → List Bytes → Except AddErr (T × Nat)
  | t, cur, [] => .ok (t, cur)
  | t, cur, [_] => if !isDir t cur then .error .ENOTDIR else .ok (t, cur)
  | t, cur, c :: d :: cs =>
    if !isDir t cur then .error .ENOTDIR
    else match childByName t cur c with
      | some n => mkdirP t n (d :: cs)
      | none =>
        match mknode t cur c .dir true [] with
        | .error e => .error e
        | .ok t' => mkdirP t' t.length (d :: cs)

/--
`fstree_add_generic` for an entry of kind `k` (`dir` = `S_ISDIR(ent->mode)`,
`hlink` = `SQFS_DIR_ENTRY_FLAG_HARD_LINK`, with its target string).
`canon` is `canonicalize_name` (passed in to keep this file independent of `Path`).
-/
def addGeneric (canon : Bytes → Option Bytes) (t : T) (name : Bytes) (k : Kind) (target : Bytes) : Except AddErr T :=
  let overwrite (t : T) (child : Nat) : Except AddErr T :=
    match t[child]? with
    | some c =>
      if c.kind = .dir ∧ k = .dir ∧ c.implicit then
        .ok (t.mapIdx (fun i n => if i = child then { n with implicit := false } else n))
      else .error .EEXIST
    | none => .error .EEXIST
  if name.isEmpty then overwrite t 0
  else match mkdirP t 0 (comps name) with
    | .error e => .error e
    | .ok (t', parent) =>
      let nm := (comps name).getLast?.getD []
      match childByName t' parent nm with
      | some child => overwrite t' child
      | none =>
        if k = .hlink then
          match canon target with
          | none => .error .EINVAL
          | some tg => mknode t' parent nm .hlink false tg
        else mknode t' parent nm k false target

/--
Harness-only set-up step (no C function): `node->link_count = v` on the node a path names, so that the
`link_count == 0xFFFFFFFF` guards of `resolve_link` and `mknode` can be reached without four thousand million
entries.  `ENOENT`/`ENOTDIR` when the path does not resolve.
-/
def setCount (t : T) (path : Bytes) (v : Nat) : Except AddErr T :=
  match lookup t path with
  | .fail .ENOENT => .error .ENOENT
  | .fail .ENOTDIR => .error .ENOTDIR
  | .found i => .ok (t.mapIdx (fun j n => if j = i then { n with nlink := v } else n))

/-- what `resolve_link` sees of the tree -/
def toGraph (t : T) : Graph :=
  t.map (fun n => match n.kind with
    | .dir => Node.dir
    | .other => Node.other
    | .hlink => Node.hlink (lookup t n.target))

/-- `fs->links_unresolved`: hard-link nodes, most recently created first -/
def linksGo : Nat → List TNode → List Nat → List Nat
  | _, [], acc => acc
  | i, n :: rest, acc => linksGo (i + 1) rest (if n.kind = .hlink then i :: acc else acc)

def links (t : T) : List Nat := linksGo 0 t []


/-- path of node `i` (names joined by '/', no leading slash), by walking `parent` at most `fuel` times -/
def pathOf (t : T) : Nat → Nat → Bytes
  | 0, _ => []
  | fuel + 1, i =>
    if i = 0 then [] else
    match t[i]? with
    | none => []
    | some n => if n.parent = 0 then n.name else pathOf t fuel n.parent ++ 47 :: n.name

end Tree
end Sqfs.HardLink
